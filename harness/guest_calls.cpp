// Guest side of the `calls` engine for the dylib backend: built as a shared object and loaded by
// rlbox_dylib_sandbox (dlopen).  The functions forward to hooks installed by the harness, so that the real
// dylib invocation and callback paths are executed while the scenario logic stays in one place.
extern "C" {
struct VhCallsHooks { long (*node)(long); void (*node_void)(long); };
static VhCallsHooks g_vh_hooks;
void vh_set_hooks(long (*node)(long), void (*node_void)(long)) { g_vh_hooks.node = node; g_vh_hooks.node_void = node_void; }
long gl_node(long a) { return g_vh_hooks.node(a); }
// which library is this?  `vh_whoami` reaches its helper through the dynamic symbol table (default visibility), so a loader
// that binds the library's symbols globally would let ANOTHER loaded library's helper answer
#ifndef VH_GUEST_ID
#  define VH_GUEST_ID 1
#endif
int vh_helper_id() { return VH_GUEST_ID; }
int vh_whoami() { return vh_helper_id() * 100 + VH_GUEST_ID; }
// exported by library 1 only; the harness executable exports a function of the same name (-rdynamic): an instance bound to
// library 2 must NOT find it
#if VH_GUEST_ID == 1
int vh_only_in_1() { return 111; }
#endif
void gv_node(long a) { g_vh_hooks.node_void(a); }
}
