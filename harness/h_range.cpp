// Engine `range` (C10): bulk memory operations on the foreign-ABI backend with whole-region
// byte diffs.  Every op starts from the same memory image: region 0 and region 1 filled with 0x11,
// the application arena filled with 0x22, the bump allocator at 0x8000.
#include "vtypes.hpp"

using namespace vh;
using rlbox::tainted;
using Sb = rlbox::rlbox_sandbox<SbxA>;

static Sb g_sb0, g_sb1;
static constexpr uintptr_t ARENA = 0x5a0000000000ull; // 3 aligned 64 KiB blocks of application memory
static constexpr size_t BLK = 1u << 16;
static uint8_t* arena() { return reinterpret_cast<uint8_t*>(ARENA); }
static uintptr_t base0() { return g_sb0.get_sandbox_impl()->Base; }
static uintptr_t base1() { return g_sb1.get_sandbox_impl()->Base; }

static void reset_image()
{
  std::memset(reinterpret_cast<void*>(base0()), 0x11, BLK);
  std::memset(reinterpret_cast<void*>(base1()), 0x11, BLK);
  std::memset(arena(), 0x22, 3 * BLK);
  g_sb0.get_sandbox_impl()->brk = 0x8000;
}

// contiguous runs of bytes that differ from `fill`
static std::string diff_runs(const char* tag, uintptr_t start, size_t len, uint8_t fill)
{
  auto* m = reinterpret_cast<const uint8_t*>(start);
  std::string s;
  size_t i = 0;
  while (i < len) {
    if (m[i] != fill) {
      size_t j = i;
      while (j < len && m[j] != fill) j++;
      s += std::string(s.empty() ? "" : ",") + tag + ":" + std::to_string(i) + "+" + std::to_string(j - i);
      i = j;
    } else i++;
  }
  return s;
}
static std::string touched()
{
  std::string a = diff_runs("in0", base0(), BLK, 0x11), b = diff_runs("in1", base1(), BLK, 0x11),
              c = diff_runs("app", ARENA, 3 * BLK, 0x22);
  std::string s = a;
  if (!b.empty()) s += (s.empty() ? "" : ",") + b;
  if (!c.empty()) s += (s.empty() ? "" : ",") + c;
  return s.empty() ? "-" : s;
}

// address spec: null | in0:<off> | in1:<off> | app:<off>   (app offsets are relative to the arena start)
static uintptr_t addr_of(const std::string& s)
{
  if (s == "null") return 0;
  auto off = (uintptr_t)parse_dec(s.substr(4));
  if (s.rfind("in0:", 0) == 0) return base0() + off;
  if (s.rfind("in1:", 0) == 0) return base1() + off;
  return ARENA + off;
}
template<typename T> static tainted<T*, SbxA> tptr(const std::string& s)
{
  tainted<T*, SbxA> p = nullptr;
  uintptr_t a = addr_of(s);
  if (a == 0) return p;
  // fabricate through the checked entry point of the sandbox that owns the address
  if (s.rfind("in1:", 0) == 0) p.assign_raw_pointer(g_sb1, reinterpret_cast<T*>(a));
  else p.assign_raw_pointer(g_sb0, reinterpret_cast<T*>(a));
  return p;
}
static std::string show(const void* p)
{
  Sb* sbs[2] = { &g_sb0, &g_sb1 };
  auto v = reinterpret_cast<uintptr_t>(p);
  if (v >= ARENA && v < ARENA + 3 * BLK) return "app:" + std::to_string(v - ARENA);
  return show_addr<SbxA>(p, sbs, 2);
}

template<typename N> static std::string do_memset(const std::string& dst, const std::string& wrap, i128 nv)
{
  if (!representable<N>(nv)) return "badinput";
  auto p = tptr<char>(dst);
  if (wrap == "tainted") { tainted<N, SbxA> n = (N)nv; rlbox::memset(g_sb0, p, 0xEE, n); }
  else rlbox::memset(g_sb0, p, 0xEE, (N)nv);
  return "ok " + touched();
}

static void fill_src(uintptr_t a, size_t n)
{
  // make the source distinguishable from both fills without changing "touched": the source bytes
  // are restored to their fill before the diff is taken
  (void)a; (void)n;
}

static std::string do_memcpy(bool cmp, const std::string& dst, const std::string& src, i128 nv)
{
  size_t n = (size_t)(uint64_t)nv;
  auto d = tptr<char>(dst);
  uintptr_t sa = addr_of(src);
  std::string out;
  if (cmp) {
    int r;
    if (src.rfind("in0:", 0) == 0) { auto s = tptr<char>(src); r = rlbox::memcmp(g_sb0, d, s, n).UNSAFE_unverified(); }
    else r = rlbox::memcmp(g_sb0, d, reinterpret_cast<const char*>(sa), n).UNSAFE_unverified();
    return std::string("ok ") + (r < 0 ? "lt" : r > 0 ? "gt" : "eq");
  }
  if (src.rfind("in0:", 0) == 0) { auto s = tptr<char>(src); rlbox::memcpy(g_sb0, d, s, n); }
  else rlbox::memcpy(g_sb0, d, reinterpret_cast<const char*>(sa), n);
  // what was written = bytes that now differ from the destination's fill; the copy moves fill
  // bytes of another kind (0x22 from the arena) or equal bytes (0x11 within sandboxes)
  return "ok " + touched();
}

template<typename T> static std::string do_cvrange(const std::string& off, i128 cnt)
{
  auto p = tptr<T>(off);
  return p.copy_and_verify_range([&](std::unique_ptr<T[]> v) -> std::string {
    if (!v) return "ok null";
    return "ok copied app=" + std::string(g_sb0.is_pointer_in_app_memory(v.get()) ? "1" : "0");
  }, (size_t)(uint64_t)cnt);
}
template<typename T> static std::string do_bufaddr(const std::string& off, i128 size)
{
  auto p = tptr<T>(off);
  return p.copy_and_verify_buffer_address([&](uintptr_t a) -> std::string { return "ok " + show(reinterpret_cast<void*>(a)); },
                                          (size_t)(uint64_t)size);
}
template<typename T> static std::string do_safeptr(const std::string& off, i128 cnt)
{
  auto p = tptr<T>(off);
  auto r = p.unverified_safe_pointer_because((size_t)(uint64_t)cnt, "test");
  return "ok " + show((const void*)r);
}
template<typename T> static std::string do_deny(const std::string& off, i128 num)
{
  auto p = tptr<T>(off);
  bool copied = false;
  T* r = rlbox::copy_memory_or_deny_access(g_sb0, p, (size_t)(uint64_t)num, false, copied);
  if (!r) return "ok nullret";
  std::string s = std::string("ok copied=") + (copied ? "1" : "0") + " app=" + (g_sb0.is_pointer_in_app_memory(r) ? "1" : "0");
  free(r);
  return s;
}
// copy path with free_source_on_copy: the application's copy holds the source bytes as they were at the call, whatever the
// sandbox's `free` writes into the block it gets back
template<typename T> static std::string do_denyfs(const std::string& off, i128 num)
{
  auto p = tptr<T>(off);
  uintptr_t a = addr_of(off);
  size_t bytes = (size_t)(uint64_t)num * sizeof(T);
  bool fill = a != 0 && (uint64_t)num <= BLK && off.rfind("in0:", 0) == 0 && (a - base0()) + bytes <= BLK;
  if (fill) for (size_t i = 0; i < bytes; i++) reinterpret_cast<uint8_t*>(a)[i] = (uint8_t)((i * 7 + 3) % 251);
  bool copied = false;
  auto before = g_sb0.get_sandbox_impl()->n_free;
  vsbx::g_free_poison = fill ? bytes : 1;
  struct Reset { ~Reset() { vsbx::g_free_poison = 0; } } reset;
  T* r = rlbox::copy_memory_or_deny_access(g_sb0, p, (size_t)(uint64_t)num, true, copied);
  if (!r) return "ok nullret";
  bool same = fill;
  if (fill) for (size_t i = 0; i < bytes; i++) if (reinterpret_cast<uint8_t*>(r)[i] != (uint8_t)((i * 7 + 3) % 251)) { same = false; break; }
  std::string s = std::string("ok copied=") + (copied ? "1" : "0") + " app=" + (g_sb0.is_pointer_in_app_memory(r) ? "1" : "0") +
                  " bytes=" + (same ? "same" : "diff") + " freed=" + std::to_string(g_sb0.get_sandbox_impl()->n_free - before);
  free(r);
  return s;
}
template<typename T> static std::string do_grant(const std::string& src, i128 num)
{
  bool copied = false;
  T* s = reinterpret_cast<T*>(addr_of(src));
  auto r = rlbox::copy_memory_or_grant_access(g_sb0, s, (size_t)(uint64_t)num, false, copied);
  return std::string("ok ") + show((const void*)r.UNSAFE_unverified()) + " copied=" + (copied ? "1" : "0") + " " + touched();
}

// copy_memory_or_grant_access when the allocator inside the sandbox (guest code) returns `forced` and the backend does not clamp
template<typename T> static std::string do_grantf(const std::string& src, i128 num, i128 forced)
{
  bool copied = false;
  T* s = reinterpret_cast<T*>(addr_of(src));
  vsbx::g_malloc_force = true; vsbx::g_malloc_force_value = (uint64_t)forced; vsbx::g_unclamped = true;
  struct Reset { ~Reset() { vsbx::g_malloc_force = false; vsbx::g_unclamped = false; } } reset;
  auto r = rlbox::copy_memory_or_grant_access(g_sb0, s, (size_t)(uint64_t)num, false, copied);
  return std::string("ok ") + show((const void*)r.UNSAFE_unverified()) + " copied=" + (copied ? "1" : "0") + " " + touched();
}

// copy_memory_or_grant_access / copy_memory_or_deny_access on a backend that declares can_grant_deny_access and answers as `mode` says
static rlbox::rlbox_sandbox<SbxAg> g_sbG;
template<typename T> static std::string do_grantg(int mode, const std::string& src, i128 num)
{
  bool copied = false;
  T* s = reinterpret_cast<T*>(addr_of(src));
  auto* im = g_sbG.get_sandbox_impl(); im->brk = 0x8000;
  vsbx::g_grant_mode = mode;
  struct Reset { ~Reset() { vsbx::g_grant_mode = 0; } } reset;
  auto r = rlbox::copy_memory_or_grant_access(g_sbG, s, (size_t)(uint64_t)num, false, copied);
  auto p = reinterpret_cast<uintptr_t>(r.UNSAFE_unverified());
  std::string where = p == 0 ? "null" : (p >= im->Base && p + (uint64_t)num * sizeof(T) <= im->Base + BLK) ? "inside" : "OUTSIDE";
  bool same = p != 0 && where == "inside" && std::memcmp(reinterpret_cast<void*>(p), s, (size_t)num * sizeof(T)) == 0;
  return std::string("ok ") + where + " copied=" + (copied ? "1" : "0") + " bytes=" + (same ? "same" : "DIFFERENT");
}
template<typename T> static std::string do_denyg(int mode, i128 num, long off = -1)
{
  bool copied = false;
  auto* im = g_sbG.get_sandbox_impl(); im->brk = 0x8000;
  tainted<T*, SbxAg> p = nullptr;
  if (off < 0) p = g_sbG.malloc_in_sandbox<T>((uint32_t)num);
  else p.assign_raw_pointer(g_sbG, reinterpret_cast<T*>(im->Base + (uintptr_t)off));     // a buffer anywhere in the region (also one that runs past its end)
  if (off < 0 || (uint64_t)off + (uint64_t)num * sizeof(T) <= BLK) std::memset(p.UNSAFE_unverified(), 0x5c, (size_t)num * sizeof(T));
  vsbx::g_grant_mode = mode;
  struct Reset { ~Reset() { vsbx::g_grant_mode = 0; } } reset;
  T* r = rlbox::copy_memory_or_deny_access(g_sbG, p, (size_t)(uint64_t)num, false, copied);
  if (!r) return "ok nullret";
  bool app = g_sbG.is_pointer_in_app_memory(r);
  bool same = app && std::memcmp(r, p.UNSAFE_unverified(), (size_t)num * sizeof(T)) == 0;
  std::string out = std::string("ok ") + (app ? "app" : "INSIDE-SANDBOX") + " copied=" + (copied ? "1" : "0") + " bytes=" + (same ? "same" : "DIFFERENT");
  if (app) free(r);
  return out;
}

template<template<typename> class F> struct ByEl;
#define DISPATCH_EL(fn, ty, ...)                                                                   \
  (ty == "char" ? fn<char>(__VA_ARGS__) : ty == "short" ? fn<short>(__VA_ARGS__)                   \
   : ty == "int" ? fn<int>(__VA_ARGS__) : ty == "long" ? fn<long>(__VA_ARGS__)                     \
   : ty == "llong" ? fn<long long>(__VA_ARGS__) : ty == "double" ? fn<double>(__VA_ARGS__) : std::string("badop"))

int main()
{
  g_sb0.create_sandbox();
  g_sb1.create_sandbox();
  g_sbG.create_sandbox();
  void* a = mmap(reinterpret_cast<void*>(ARENA), 3 * BLK, PROT_READ | PROT_WRITE,
                 MAP_PRIVATE | MAP_ANONYMOUS | MAP_FIXED_NOREPLACE, -1, 0);
  if (a != reinterpret_cast<void*>(ARENA)) { fprintf(stderr, "arena map failed\n"); return 2; }
  main_loop([&](const std::vector<std::string>& t) -> std::string {
    reset_image();
    return guarded([&]() -> std::string {
      const std::string& op = t[0];
      if (op == "memset" && t.size() == 5) {
        i128 n = parse_dec(t[4]);
        if (t[2] == "ulong") return do_memset<unsigned long>(t[1], t[3], n);
        if (t[2] == "int") return do_memset<int>(t[1], t[3], n);
        if (t[2] == "uint") return do_memset<unsigned int>(t[1], t[3], n);
        if (t[2] == "llong") return do_memset<long long>(t[1], t[3], n);
        return "badop";
      }
      if ((op == "memcpy" || op == "memcmp") && t.size() == 4) return do_memcpy(op == "memcmp", t[1], t[2], parse_dec(t[3]));
      if (op == "cvrange" && t.size() == 4) return DISPATCH_EL(do_cvrange, t[1], t[2], parse_dec(t[3]));
      if (op == "bufaddr" && t.size() == 4) return DISPATCH_EL(do_bufaddr, t[1], t[2], parse_dec(t[3]));
      if (op == "safeptr" && t.size() == 4) {
        if (t[1] == "st12") return do_safeptr<vst12>(t[2], parse_dec(t[3]));
        return DISPATCH_EL(do_safeptr, t[1], t[2], parse_dec(t[3]));
      }
      if (op == "denyfs" && t.size() == 4) {
        if (t[1] == "char") return do_denyfs<char>(t[2], parse_dec(t[3]));
        if (t[1] == "short") return do_denyfs<short>(t[2], parse_dec(t[3]));
        if (t[1] == "double") return do_denyfs<double>(t[2], parse_dec(t[3]));
        return "badop";
      }
      if (op == "deny" && t.size() == 4) {
        if (t[1] == "char") return do_deny<char>(t[2], parse_dec(t[3]));
        if (t[1] == "short") return do_deny<short>(t[2], parse_dec(t[3]));
        if (t[1] == "double") return do_deny<double>(t[2], parse_dec(t[3]));
        return "badop";
      }
      if (op == "grantg" && t.size() == 5) {
        int mode = atoi(t[1].c_str());
        if (t[2] == "char") return do_grantg<char>(mode, t[3], parse_dec(t[4]));
        if (t[2] == "short") return do_grantg<short>(mode, t[3], parse_dec(t[4]));
        if (t[2] == "double") return do_grantg<double>(mode, t[3], parse_dec(t[4]));
        return "badop";
      }
      if (op == "denygo" && t.size() == 5) {
        int mode = atoi(t[1].c_str()); long off = (long)parse_dec(t[3]);
        if (t[2] == "char") return do_denyg<char>(mode, parse_dec(t[4]), off);
        if (t[2] == "short") return do_denyg<short>(mode, parse_dec(t[4]), off);
        if (t[2] == "double") return do_denyg<double>(mode, parse_dec(t[4]), off);
        return "badop";
      }
      if (op == "denyg" && t.size() == 4) {
        int mode = atoi(t[1].c_str());
        if (t[2] == "char") return do_denyg<char>(mode, parse_dec(t[3]));
        if (t[2] == "short") return do_denyg<short>(mode, parse_dec(t[3]));
        if (t[2] == "double") return do_denyg<double>(mode, parse_dec(t[3]));
        return "badop";
      }
      if (op == "grantf" && t.size() == 5) {
        if (t[1] == "char") return do_grantf<char>(t[2], parse_dec(t[3]), parse_dec(t[4]));
        if (t[1] == "short") return do_grantf<short>(t[2], parse_dec(t[3]), parse_dec(t[4]));
        if (t[1] == "double") return do_grantf<double>(t[2], parse_dec(t[3]), parse_dec(t[4]));
        return "badop";
      }
      if (op == "grant" && t.size() == 4) {
        if (t[1] == "char") return do_grant<char>(t[2], parse_dec(t[3]));
        if (t[1] == "short") return do_grant<short>(t[2], parse_dec(t[3]));
        if (t[1] == "double") return do_grant<double>(t[2], parse_dec(t[3]));
        return "badop";
      }
      return "badop";
    });
  });
  return 0;
}
