// Engine `hist` (C13, C14): lock-step histories over sandbox lifecycle, the live-sandbox registry and
// callback ownership.  A block starts with `hnew <backend>`.  Aborts surface as exceptions; the history
// continues after a guard abort and answers `dead` after a refusal by a full backend table.
#include "vtypes.hpp"
#include "rlbox_noop_sandbox.hpp"
#include <memory>
#include <sys/wait.h>
#include <unistd.h>

using namespace vh;
using rlbox::tainted;

static int whoamiA() { return 1; }
static int whoamiB() { return 2; }
static int otherA() { return 11; }
static int otherB() { return 12; }
static vsbx::Library g_libs[2] = {
  vsbx::Library("libA", { { "whoami", (void*)&whoamiA }, { "other", (void*)&otherA } }),
  vsbx::Library("libB", { { "other", (void*)&otherB }, { "whoami", (void*)&whoamiB } }),
};

using SbxH2 = rlbox::rlbox_vsbx<vsbx::AbiA, 16, 2>;
using SbxH8 = rlbox::rlbox_vsbx<vsbx::AbiA, 16, 8>;
using SbxH8n = rlbox::rlbox_vsbx<vsbx::AbiAn, 16, 8>;   // no needs_internal_lookup_symbol
constexpr int NS = 3, NO = 3, NF = 70, NPROBE = 5;
static int g_ran[NF];

struct HistBase {
  virtual ~HistBase() {}
  virtual std::string op(const std::vector<std::string>& t) = 0;
  virtual void teardown() = 0;
  virtual std::string finish() = 0;
};

template<typename Sbx, bool IsVsbx>
struct Hist : HistBase {
  using S = rlbox::rlbox_sandbox<Sbx>;
  using CB = rlbox::sandbox_callback<void (*)(), Sbx>;
  S* sb[NS]; bool live[NS] = { false, false, false };
  alignas(CB) unsigned char ostore[NO][sizeof(CB)];
  CB& o(int i) { return *reinterpret_cast<CB*>(ostore[i]); }
  template<int N> static void cbF(S&) { g_ran[N]++; }
  using FnT = void (*)(S&);
  FnT fns[NF];
  template<size_t... Is> void fill_fns(std::index_sequence<Is...>) { ((fns[Is] = &cbF<(int)Is>), ...); }
  tainted<int*, Sbx> lastmalloc[NS];

  Hist() { fill_fns(std::make_index_sequence<NF>()); for (int i = 0; i < NS; i++) lastmalloc[i] = nullptr; for (int i = 0; i < NS; i++) sb[i] = new S(); for (int i = 0; i < NO; i++) new (ostore[i]) CB(); }
  void teardown() override
  {
    // owners are leaked on purpose (their destructors may abort); live sandboxes release their address slot
    for (int i = 0; i < NS; i++) if (live[i]) {
      try { sb[i]->destroy_sandbox(); } catch (...) { if constexpr (IsVsbx) sb[i]->get_sandbox_impl()->force_release(); }
      live[i] = false;
    }
    // instances whose creation failed late still hold their address slot
    if constexpr (IsVsbx) for (int i = 0; i < NS; i++) sb[i]->get_sandbox_impl()->force_release();
  }
  // end of a history: every sandbox that is still created must be destroyable
  std::string finish() override
  {
    std::string r = "ok";
    for (int i = 0; i < NS; i++) if (live[i]) {
      try { sb[i]->destroy_sandbox(); } catch (const std::runtime_error&) { r = "abort"; if constexpr (IsVsbx) sb[i]->get_sandbox_impl()->force_release(); }
      live[i] = false;
    }
    if constexpr (IsVsbx) for (int i = 0; i < NS; i++) sb[i]->get_sandbox_impl()->force_release();
    return r;
  }
  int fid(void* key) { for (int i = 0; i < NF; i++) if (key == reinterpret_cast<void*>(fns[i])) return i; return -1; }

  std::string op(const std::vector<std::string>& t) override
  {
    const std::string& c = t[0];
    if (c == "create") {
      int i = atoi(t[1].c_str()); bool ok = t[2] == "ok"; int lib = t.size() > 3 ? atoi(t[3].c_str()) : 0;
      if constexpr (IsVsbx) return op({ "createat", t[1], t[1], ok ? "ok" : "fail", std::to_string(lib) });   // object i in its own slot i
      else {
        (void)ok; (void)lib;
        bool r = sb[i]->create_sandbox();
        if (r) live[i] = true;
        return std::string("ok ") + (r ? "true" : "false");
      }
    }
    if (c == "createat") {
      // object i in address slot r; a backend cannot map a region that is in use (the model says abort, nothing happens)
      int i = atoi(t[1].c_str()); int r = atoi(t[2].c_str()); bool ok = t[3] == "ok"; int lib = t.size() > 4 ? atoi(t[4].c_str()) : 0;
      if constexpr (IsVsbx) {
        if (vsbx::g_slot_used[r]) {
          if (sb[i]->get_sandbox_impl()->mapped) { sb[i]->create_sandbox(&g_libs[lib], ok, r); return "unreachable"; } // not NOT_CREATED: rlbox aborts first
          return "abort";
        }
        bool res = sb[i]->create_sandbox(&g_libs[lib], ok, r);
        if (res) live[i] = true;
        return std::string("ok ") + (res ? "true" : "false");
      } else return "na";
    }
    if (c == "destroy") { int i = atoi(t[1].c_str()); sb[i]->destroy_sandbox(); live[i] = false; return "ok"; }
    if (c == "malloc") {
      int i = atoi(t[1].c_str());
      auto p = sb[i]->template malloc_in_sandbox<int>();
      lastmalloc[i] = p;
      if (p == nullptr) return "ok null";
      if constexpr (IsVsbx) return "ok in" + std::to_string(i) + ":" + std::to_string(reinterpret_cast<uintptr_t>(p.UNSAFE_unverified()) - sb[i]->get_sandbox_impl()->Base);
      else return "ok nonnull";
    }
    if (c == "free") {
      int i = atoi(t[1].c_str());
      uint64_t before = 0, after = 0;
      if constexpr (IsVsbx) before = sb[i]->get_sandbox_impl()->n_free;
      if constexpr (IsVsbx) { sb[i]->free_in_sandbox(lastmalloc[i]); after = sb[i]->get_sandbox_impl()->n_free; }
      else { if (live[i]) sb[i]->free_in_sandbox(lastmalloc[i]); else sb[i]->free_in_sandbox(tainted<int*, Sbx>(nullptr)); }
      lastmalloc[i] = nullptr;
      if constexpr (IsVsbx) return std::string("ok ") + (after != before ? "freed" : "ignored");
      else return "ok";
    }
    if (c == "reg") {
      int i = atoi(t[1].c_str()), ow = atoi(t[2].c_str()), f = atoi(t[3].c_str());
      o(ow) = sb[i]->register_callback(fns[f]);
      auto tr = o(ow).UNSAFE_sandboxed(*sb[i]);
      std::string u = o(ow).is_unregistered() ? " u1" : " u0";
      if constexpr (IsVsbx) return "ok slot=" + std::to_string((long)tr - (long)Sbx::CB_BASE) + u;
      else return std::string("ok slot=") + (tr ? "nn" : "0") + u;
    }
    if (c == "regfill") { // n registrations held by leaked heap owners (never destroyed)
      int i = atoi(t[1].c_str()), n = atoi(t[2].c_str()), nulls = 0;
      for (int f = 0; f < n; f++) {
        auto cb = sb[i]->register_callback(fns[f]);
        if (!cb.UNSAFE_sandboxed(*sb[i]) || cb.is_unregistered()) nulls++;
        new CB(std::move(cb));
      }
      return "ok filled nullentry=" + std::to_string(nulls);
    }
    if (c == "cbunreg") { o(atoi(t[1].c_str())).unregister(); return "ok"; }
    if (c == "cbdestroy") { int i = atoi(t[1].c_str()); o(i).~CB(); new (ostore[i]) CB(); return "ok"; }
    if (c == "cbmove") { int d = atoi(t[1].c_str()), s = atoi(t[2].c_str()); o(d) = std::move(o(s)); return "ok"; }
    if (c == "stat") {
      std::string s = "o=";
      for (int i = 0; i < NO; i++) s += o(i).is_unregistered() ? "1" : "0";
      if constexpr (IsVsbx) {
        for (int i = 0; i < NS; i++) {
          s += " s" + std::to_string(i) + "=";
          auto* im = sb[i]->get_sandbox_impl();
          for (uint32_t k = 0; k < Sbx::MAX_CALLBACKS; k++) { int f = fid(im->callback_unique_keys[k]); s += f < 0 ? "-" : (f < 10 ? std::to_string(f) : std::string(1, char('a' + f - 10))); }
        }
      }
      return s;
    }
    if (c == "invoke") {
      int i = atoi(t[1].c_str());
      if (!live[i]) return "notlive";
      if constexpr (IsVsbx) {
        auto r = sb[i]->template INTERNAL_invoke_with_func_name<int()>(t[2].c_str());
        return "ok " + std::to_string(r.UNSAFE_unverified());
      } else return "na";
    }
    if (c == "fnaddr") {
      int i = atoi(t[1].c_str());
      if (!live[i]) return "notlive";
      if constexpr (IsVsbx) {
        auto f = sb[i]->template INTERNAL_get_sandbox_function_name<int()>(t[2].c_str());
        auto p = reinterpret_cast<const char*>(f.UNSAFE_unverified());
        for (auto& L : g_libs)
          if (p > L.desc.data() && p < L.desc.data() + L.desc.size()) return std::string("ok ") + L.libname + "." + L.fns[(size_t)(p - L.desc.data()) - 1].name;
        // a backend without internal lookup hands out the host-callable address itself
        for (auto& L : g_libs)
          for (auto& fn : L.fns) if (reinterpret_cast<const char*>(fn.callable) == p) return std::string("ok ") + L.libname + "." + fn.name;
        return p ? "ok other" : "ok null";
      } else return "na";
    }
    if (c == "find") {
      int i = atoi(t[1].c_str());
      if constexpr (IsVsbx) {
        auto ex = reinterpret_cast<const void*>(vsbx::VSBX_BASE0 + uintptr_t(i) * vsbx::VSBX_STRIDE + 0x100);
        auto f = S::template get_unsandboxed_pointer_no_ctx<int (*)()>(1, ex);
        auto p = reinterpret_cast<const char*>(f);
        if (!p) return "ok notfound";
        for (auto& L : g_libs)
          if (p > L.desc.data() && p < L.desc.data() + L.desc.size()) return std::string("ok found ") + L.libname;
        return "ok found ?";
      } else return "na";
    }
    if (c == "appptr") {
      int i = atoi(t[1].c_str());
      static int obj;
      auto ap = sb[i]->get_app_pointer(&obj);
      return "ok";
    }
    if (c == "hprobe") {
      // can each function be registered (again) on sandbox i right now?  answered by forked children
      int i = atoi(t[1].c_str());
      std::string s = "canreg=";
      for (int f = 0; f < NPROBE; f++) {
        fflush(stdout);
        int fd[2]; if (pipe(fd) != 0) return "pipe-error";
        pid_t pid = fork();
        if (pid == 0) {
          char r = 'n';
          try { auto cb = sb[i]->register_callback(fns[f]); r = cb.is_unregistered() ? 'u' : 'y'; new CB(std::move(cb)); } catch (...) { r = 'n'; }
          if (write(fd[1], &r, 1) != 1) _exit(1);
          _exit(0);
        }
        close(fd[1]);
        char r = '?'; if (read(fd[0], &r, 1) != 1) r = '?';
        close(fd[0]); int st; waitpid(pid, &st, 0);
        s.push_back(r);
      }
      return s;
    }
    return "badop";
  }
};

static std::unique_ptr<HistBase> g_h;
static bool g_dead = false;

int main()
{
  main_loop([&](const std::vector<std::string>& t) -> std::string {
    if (t[0] == "hnew") {
      if (g_h) { g_h->teardown(); g_h.release(); } // the old world is leaked deliberately
      g_dead = false;
      vsbx::g_keep_stale_fields = t.size() > 2 && t[2] == "stale";
      if (t[1] == "vsbx2") g_h.reset(new Hist<SbxH2, true>());
      else if (t[1] == "vsbx8") g_h.reset(new Hist<SbxH8, true>());
      else if (t[1] == "vsbx8n") g_h.reset(new Hist<SbxH8n, true>());
      else g_h.reset(new Hist<rlbox::rlbox_noop_sandbox, false>());
      return "ok";
    }
    if (t[0] == "hend") return g_h ? guarded([&]() -> std::string { return g_h->finish(); }) : std::string("ok");
    if (g_dead) return "dead";
    std::string r = guarded([&]() -> std::string { return g_h->op(t); });
    // With RLBOX_USE_EXCEPTIONS an abort raised by a state-machine guard precedes every mutation, so the
    // history continues; a refusal by a full backend table happens after the key was recorded (the real
    // process would be gone), so the rest of the history is not comparable.
    if (r == "segv") g_dead = true;
    if (r == "abort" && g_last_abort_msg.find("slot") != std::string::npos) g_dead = true;
    return r;
  });
  if (g_h) g_h->teardown();
  return 0;
}
