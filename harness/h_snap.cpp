// Engine `snap` (C09): every machine read of sandbox memory performed by rlbox is a deterministic
// interleave point.  The region is PROT_NONE while rlbox runs; a read faults, the SIGSEGV handler
// opens the region and sets the x86 trap flag, the instruction completes, the SIGTRAP handler counts
// the read, lets the adversary act after read number <k>, and closes the region again.
//   snap <variant> <src> <k> <action> [<k2> <action2>]  -> reads=<n> out=<canonical outcome>
// (the adversary acts after machine read number k; k = 0: before the call; k2 >= k)
// variant: int ptr struct structval arr range stru strs addr buf copymem
// src: app (tainted pointer in application memory) | cell (pointer stored in sandbox memory)
// action: none flip lengthen shorten unterminate nullcell retarget
// Built WITHOUT sanitizers (the trap flag and ASan's shadow accesses do not mix).
#include "vtypes.hpp"
#include <memory>
#include <sys/mman.h>
#include <sys/wait.h>
#include <ucontext.h>
#include <unistd.h>

using namespace vh;
using rlbox::tainted;
using Sb = rlbox::rlbox_sandbox<SbxA>;

// ---- fixed layout of the scenario inside the region (mirrored by the Lean model) ------------------
static constexpr uint32_t STR = 0x100, ALT = 0x200, ARR = 0x300, CELL = 0x400, STRUCT = 0x500, ALTARR = 0x340, ALTSTRUCT = 0x540;
static constexpr uint32_t IDX = 0x600;               // an int in sandbox memory used as an array index (variant `idx`, C17)
static const char STR_INIT[] = "hello";              // followed by NUL, then filler
static const char ALT_INIT[] = "WORLD!!";
static constexpr int N_ARR = 4;
static const int32_t ARR_INIT[N_ARR] = { 11, 22, 33, 44 };
static const int32_t ALTARR_INIT[N_ARR] = { 91, 92, 93, 94 };

static Sb* g_sb;
static uintptr_t g_base;
static constexpr size_t RSIZE = SbxA::Size;

// ---- buffers handed to verifiers come from this arena: exact sizes are known, an overrun faults ----
static char* g_arena; static size_t g_arena_pages = 64; static size_t g_last_new_size = 0; static char* g_last_new_ptr = nullptr; static bool g_track_new = false;
static void* arena_alloc(size_t n)
{
  // place the block so that it ends at a page boundary followed by a PROT_NONE page
  static size_t next_page = 0;
  size_t pages = (n + 4095) / 4096; if (pages == 0) pages = 1;
  char* blk = g_arena + next_page * 4096;
  next_page += pages + 1;
  if (next_page >= g_arena_pages) return nullptr;
  mprotect(blk + pages * 4096, 4096, PROT_NONE);
  char* p = blk + pages * 4096 - n;
  p = reinterpret_cast<char*>(reinterpret_cast<uintptr_t>(p) & ~uintptr_t(0)); // exact end alignment (chars) -- stricter types use size multiple of alignment
  g_last_new_size = n; g_last_new_ptr = p;
  return p;
}
void* operator new[](size_t n)
{
  if (g_track_new) { void* p = arena_alloc(n); if (p) return p; }
  void* p = malloc(n ? n : 1); if (!p) throw std::bad_alloc(); return p;
}
void operator delete[](void* p) noexcept
{
  if (p >= g_arena && p < g_arena + g_arena_pages * 4096) return;
  free(p);
}
void operator delete[](void* p, size_t) noexcept { operator delete[](p); }

// ---- interposer ---------------------------------------------------------------------------------
static volatile int g_armed = 0, g_reads = 0, g_k = -1, g_k2 = -1;
static std::string g_action, g_action2;
static sigjmp_buf g_out; static volatile uintptr_t g_segv_addr;

static void poke32(uint32_t off, uint32_t v) { std::memcpy(reinterpret_cast<void*>(g_base + off), &v, 4); }
static uint32_t peek32(uint32_t off) { uint32_t v; std::memcpy(&v, reinterpret_cast<void*>(g_base + off), 4); return v; }
static char* at(uint32_t off) { return reinterpret_cast<char*>(g_base + off); }

static void adversary(const std::string& a)
{
  if (a == "flip") {                       // every datum changes
    for (int i = 0; i < 5; i++) at(STR)[i] ^= 0x20;       // hello -> HELLO
    for (int i = 0; i < N_ARR; i++) poke32(ARR + 4 * i, peek32(ARR + 4 * i) + 100);
    at(STRUCT)[0] = 'Q'; poke32(STRUCT + 4, 777); poke32(STRUCT + 8, ALT);
  } else if (a == "lengthen") {            // the terminator disappears, the string now ends 4 bytes later
    at(STR)[5] = 'X'; at(STR)[6] = 'Y'; at(STR)[7] = 'Z'; at(STR)[8] = 'W'; at(STR)[9] = 0;
  } else if (a == "shorten") {
    at(STR)[2] = 0;
  } else if (a == "unterminate") {         // no terminator for the next 200 bytes
    std::memset(at(STR) + 5, 'U', 200); at(STR)[205] = 0;
  } else if (a == "idxbig") { poke32(IDX, 6);
  } else if (a == "idxsmall") { poke32(IDX, 1);
  } else if (a == "idxneg") { poke32(IDX, 0xFFFFFFFFu);
  } else if (a == "nullcell") {
    poke32(CELL, 0);
  } else if (a == "retarget") {            // the pointer cell now designates other data of the same kind
    uint32_t cur = peek32(CELL);
    poke32(CELL, cur == STR ? ALT : cur == ARR ? ALTARR : cur == STRUCT ? ALTSTRUCT : cur);
  }
}

static void on_segv(int, siginfo_t* si, void* ucv)
{
  auto* uc = static_cast<ucontext_t*>(ucv);
  auto a = reinterpret_cast<uintptr_t>(si->si_addr);
  if (g_armed && a >= g_base && a < g_base + RSIZE) {
    mprotect(reinterpret_cast<void*>(g_base), RSIZE, PROT_READ | PROT_WRITE);
    uc->uc_mcontext.gregs[REG_EFL] |= 0x100;
    return;
  }
  g_segv_addr = a;
  g_armed = 0;
  mprotect(reinterpret_cast<void*>(g_base), RSIZE, PROT_READ | PROT_WRITE);
  uc->uc_mcontext.gregs[REG_EFL] &= ~0x100ll;
  siglongjmp(g_out, 1);
}
static void on_trap(int, siginfo_t*, void* ucv)
{
  auto* uc = static_cast<ucontext_t*>(ucv);
  uc->uc_mcontext.gregs[REG_EFL] &= ~0x100ll;
  if (!g_armed) return;
  int n = ++g_reads;
  if (n == g_k) adversary(g_action);
  if (n == g_k2) adversary(g_action2);
  mprotect(reinterpret_cast<void*>(g_base), RSIZE, PROT_NONE);
}
static void arm() { vsbx::g_n_same_sbx = 0; g_reads = 0; g_armed = 1; if (g_k == 0) adversary(g_action); if (g_k2 == 0) adversary(g_action2); mprotect(reinterpret_cast<void*>(g_base), RSIZE, PROT_NONE); }
static void disarm() { g_armed = 0; mprotect(reinterpret_cast<void*>(g_base), RSIZE, PROT_READ | PROT_WRITE); }

// ---- what the verifier got ------------------------------------------------------------------------
static std::string where(const void* p)
{
  auto a = reinterpret_cast<uintptr_t>(p);
  return (a >= g_base && a < g_base + RSIZE) ? "sbx" : "app";
}
static std::string hex(const void* p, size_t n)
{
  static const char* d = "0123456789abcdef"; std::string s;
  for (size_t i = 0; i < n; i++) { unsigned char c = static_cast<const unsigned char*>(p)[i]; s.push_back(d[c >> 4]); s.push_back(d[c & 15]); }
  return s;
}
// overwrite everything the scenario uses in the sandbox, then report whether the object changed
static std::string after(const void* p, size_t n)
{
  std::string before(static_cast<const char*>(p), n);
  std::memset(at(0x80), 0xAA, 0x600);
  return std::memcmp(before.data(), p, n) == 0 ? "same" : "CHANGED";
}
// the extent of the last range that rlbox range-checked (first and last byte handed to is_in_same_sandbox)
static std::string checked_extent()
{
  if (vsbx::g_n_same_sbx == 0) return "none";
  return std::to_string((long long)(vsbx::g_last_same_sbx[1] - vsbx::g_last_same_sbx[0]) + 1);
}
// Where do the delivered bytes come from?  Meaningful only when the adversary changes no datum (actions none / nullcell /
// retarget).  S = start of the FIRST extent rlbox range-checked during the call.  If S is not the initial target, the pointer
// cell was retargeted before anything was checked, so every checked fetch designates the new target and the bytes delivered
// must be the new target's: "chk".  Bytes of the OLD target then were copied through an address fetched before the check
// and never range-checked: "OTHER".  If S is the initial target, a later retarget may legitimately yield either/mixed: "initial".
static std::string came_from(const void* got, size_t n, uint32_t initial)
{
  if (vsbx::g_n_same_sbx == 0) return "none";
  uintptr_t st = vsbx::g_first_same_sbx[0];
  if (st < g_base || st + n > g_base + RSIZE) return "outside";
  if (std::memcmp(got, reinterpret_cast<const void*>(st), n) == 0) return "chk";
  return st == g_base + initial ? "initial" : "OTHER";
}
static std::string show_off(const void* p)
{
  auto a = reinterpret_cast<uintptr_t>(p);
  if (a == 0) return "null";
  if (a >= g_base && a < g_base + RSIZE) return "in:" + std::to_string(a - g_base);
  if (a >= g_base + RSIZE && a < g_base + RSIZE + 4096) return "guard";
  char b[40]; snprintf(b, sizeof b, "out:0x%llx", (unsigned long long)a); return b;
}

static void init_region()
{
  std::memset(at(0), 0, 0x1000);
  std::memcpy(at(STR), STR_INIT, sizeof STR_INIT); std::memset(at(STR) + 6, 'F', 10); at(STR)[16] = 0;
  std::memcpy(at(ALT), ALT_INIT, sizeof ALT_INIT);
  for (int i = 0; i < N_ARR; i++) { poke32(ARR + 4 * i, (uint32_t)ARR_INIT[i]); poke32(ALTARR + 4 * i, (uint32_t)ALTARR_INIT[i]); }
  at(STRUCT)[0] = 'c'; poke32(STRUCT + 4, 1234); poke32(STRUCT + 8, ARR);
  at(ALTSTRUCT)[0] = 'd'; poke32(ALTSTRUCT + 4, 4321); poke32(ALTSTRUCT + 8, STR);
}

template<typename T> static tainted<T*, SbxA> mkptr(uint32_t off)
{
  tainted<T*, SbxA> p; p.assign_raw_pointer(*g_sb, reinterpret_cast<T*>(g_base + off)); return p;
}

// run `body(ptr-like)` with the pointer either in application memory or in the sandbox cell
template<typename T, typename F> static std::string with_src(const std::string& src, uint32_t target, F&& body)
{
  if (src == "app") { auto p = mkptr<T>(target); arm(); return body(p); }
  poke32(CELL, target);
  auto pp = mkptr<T*>(CELL);
  arm();
  return body(*pp);
}

static std::string run_variant(const std::string& variant, const std::string& src)
{
  Sb& sb = *g_sb;
  if (variant == "int") {
    auto p = mkptr<int>(ARR);
    arm();
    return (*p).copy_and_verify([&](int v) { disarm(); return "v=" + std::to_string(v); });
  }
  if (variant == "ptr") {
    return with_src<int>(src, ARR, [&](auto& p) {
      return p.copy_and_verify([&](std::unique_ptr<int> v) -> std::string {
        disarm();
        if (!v) return "null";
        int seen = *v;
        return "v=" + std::to_string(seen) + " where=" + where(v.get()) + " after=" + after(v.get(), sizeof(int));
      });
    });
  }
  if (variant == "struct") {
    return with_src<vst12>(src, STRUCT, [&](auto& p) {
      return p.copy_and_verify([&](std::unique_ptr<tainted<vst12, SbxA>> v) -> std::string {
        disarm();
        if (!v) return "null";
        std::string s = "c=" + std::to_string((int)v->c.UNSAFE_unverified()) + ",l=" + std::to_string(v->l.UNSAFE_unverified()) + ",p=" + show_off(v->p.UNSAFE_unverified());
        return s + " where=" + where(v.get()) + " after=" + after(v.get(), sizeof(*v));
      });
    });
  }
  if (variant == "structval") {
    auto p = mkptr<vst12>(STRUCT);
    arm();
    auto r = (*p).copy_and_verify([&](tainted<vst12, SbxA> v) -> vst12 { disarm(); return v.UNSAFE_unverified(); });
    return "c=" + std::to_string((int)r.c) + ",l=" + std::to_string(r.l) + ",p=" + show_off(r.p);
  }
  if (variant == "structauto") {
    // a verifier with a deduced parameter: it must still be handed an application-memory copy
    auto p = mkptr<vst12>(STRUCT);
    arm();
    std::string seen;
    auto r = (*p).copy_and_verify([&](const auto& v) -> vst12 {
      disarm();
      vst12 first = v.UNSAFE_unverified();
      std::string w = where(std::addressof(v));
      std::memset(at(0x80), 0xAA, 0x600);
      vst12 second = v.UNSAFE_unverified();
      seen = " where=" + w + " after=" + ((first.c == second.c && first.l == second.l && first.p == second.p) ? "same" : "CHANGED");
      return first;
    });
    return "c=" + std::to_string((int)r.c) + ",l=" + std::to_string(r.l) + ",p=" + show_off(r.p) + seen;
  }
  if (variant == "arr") {
    auto p = mkptr<int[N_ARR]>(ARR);
    arm();
    return (*p).copy_and_verify([&](std::array<int, N_ARR> a) -> std::string {
      disarm();
      std::string s = "a="; for (int i = 0; i < N_ARR; i++) s += (i ? "," : "") + std::to_string(a[i]);
      return s + " where=" + where(a.data()) + " after=" + after(a.data(), sizeof a);
    });
  }
  if (variant == "arrref") {
    // the same with a verifier that takes the array BY REFERENCE: what it looks at must still be the application-memory snapshot
    auto p = mkptr<int[N_ARR]>(ARR);
    arm();
    return (*p).copy_and_verify([&](const std::array<int, N_ARR>& a) -> std::string {
      disarm();
      std::string s = "a="; for (int i = 0; i < N_ARR; i++) s += (i ? "," : "") + std::to_string(a[i]);
      return s + " where=" + where(a.data()) + " after=" + after(a.data(), sizeof a);
    });
  }
  if (variant == "range") {
    return with_src<int>(src, ARR, [&](auto& p) {
      g_track_new = true;
      return p.copy_and_verify_range([&](std::unique_ptr<int[]> a) -> std::string {
        g_track_new = false; disarm();
        if (!a) return "null";
        std::string s = "a="; for (int i = 0; i < N_ARR; i++) s += (i ? "," : "") + std::to_string(a[i]);
        s += " from=" + came_from(a.get(), N_ARR * sizeof(int), ARR);
        return s + " size=" + std::to_string(g_last_new_ptr == (char*)a.get() ? g_last_new_size : 0) + " where=" + where(a.get()) + " after=" + after(a.get(), N_ARR * sizeof(int));
      }, N_ARR);
    });
  }
  if (variant == "stru") {
    return with_src<char>(src, STR, [&](auto& p) {
      g_track_new = true;
      return p.copy_and_verify_string([&](std::unique_ptr<char[]> s) -> std::string {
        g_track_new = false; disarm();
        if (!s) return "null";
        size_t size = g_last_new_ptr == s.get() ? g_last_new_size : 0;
        if (size == 0) return "untracked";
        const void* z = std::memchr(s.get(), 0, size);
        long nul = z ? (long)(static_cast<const char*>(z) - s.get()) : -1;
        std::string from = came_from(s.get(), nul >= 0 ? (size_t)nul : size, STR);
        return "s=" + hex(s.get(), size) + " from=" + from + " size=" + std::to_string(size) + " nul=" + std::to_string(nul) + " chk=" + checked_extent() + " where=" + where(s.get()) + " after=" + after(s.get(), size);
      });
    });
  }
  if (variant == "strs") {
    return with_src<char>(src, STR, [&](auto& p) {
      return p.copy_and_verify_string([&](std::string s) -> std::string {
        disarm();
        std::string from = came_from(s.data(), s.size(), STR);
        return "s=" + hex(s.data(), s.size()) + " from=" + from + " size=" + std::to_string(s.size()) + " chk=" + checked_extent() + " where=" + where(s.data()) + " after=" + after(s.data(), s.size());
      });
    });
  }
  if (variant == "addr") {
    return with_src<int>(src, ARR, [&](auto& p) {
      return p.copy_and_verify_address([&](uintptr_t a) -> std::string { disarm(); return "addr=" + show_off(reinterpret_cast<void*>(a)); });
    });
  }
  if (variant == "buf") {
    return with_src<int>(src, ARR, [&](auto& p) {
      return p.copy_and_verify_buffer_address([&](uintptr_t a) -> std::string {
        disarm();
        // the address handed to the verifier must be the start of the extent that was range-checked (first check of the call)
        std::string c0 = vsbx::g_n_same_sbx == 0 ? std::string("none") : show_off(reinterpret_cast<void*>(vsbx::g_first_same_sbx[0]));
        return "addr=" + show_off(reinterpret_cast<void*>(a)) + " chk0=" + c0;
      }, 16);
    });
  }
  if (variant == "idx") {
    // C17: a fixed-size array in application memory indexed by an int that lives in sandbox memory (src = in: it holds 1, out: 6)
    poke32(IDX, src == "in" ? 1 : 6);
    tainted<int[4], SbxA> arr;
    for (int i = 0; i < 4; i++) arr[i] = 11 * (i + 1);
    auto pi = mkptr<int>(IDX);
    arm();
    auto& el = arr[*pi];
    disarm();
    return "off=" + std::to_string(reinterpret_cast<const char*>(std::addressof(el)) - reinterpret_cast<const char*>(std::addressof(arr)));
  }
  if (variant == "copymem") {
    auto p = mkptr<char>(STR);
    arm();
    bool copied = false;
    char* r = rlbox::copy_memory_or_deny_access(sb, p, 6, false, copied);
    disarm();
    if (!r) return "null";
    std::string s = "s=" + hex(r, 6) + " copied=" + std::to_string(copied) + " where=" + where(r) + " after=" + after(r, 6);
    free(r);
    return s;
  }
  return "badop";
}

int main()
{
  Sb sb; sb.create_sandbox(); g_sb = &sb; g_base = sb.get_sandbox_impl()->Base;
  g_arena = static_cast<char*>(mmap(nullptr, g_arena_pages * 4096, PROT_READ | PROT_WRITE, MAP_PRIVATE | MAP_ANONYMOUS, -1, 0));
  main_loop([&](const std::vector<std::string>& t) -> std::string {
    if ((t.size() != 5 && t.size() != 7) || t[0] != "snap") return "badop";
    // each op in a child: a crash of the application (the thing C09 forbids) must not end the run
    int fd[2]; if (pipe(fd) != 0) return "pipefail";
    fflush(stdout);
    pid_t pid = fork();
    if (pid == 0) {
      close(fd[0]);
      struct sigaction sa; std::memset(&sa, 0, sizeof sa); sa.sa_flags = SA_SIGINFO | SA_NODEFER;
      sa.sa_sigaction = on_segv; sigaction(SIGSEGV, &sa, nullptr);
      sa.sa_sigaction = on_trap; sigaction(SIGTRAP, &sa, nullptr);
      init_region();
      g_k = atoi(t[3].c_str()); g_action = t[4];
      if (t.size() == 7) { g_k2 = atoi(t[5].c_str()); g_action2 = t[6]; }
      std::string out;
      if (sigsetjmp(g_out, 1) == 0) {
        try { out = run_variant(t[1], t[2]); }
        catch (const std::runtime_error&) { disarm(); out = "abort"; }
      } else {
        g_track_new = false;
        out = "segv:" + show_off(reinterpret_cast<void*>(g_segv_addr));
      }
      disarm();
      std::string r = "reads=" + std::to_string(g_reads) + " out=" + out;
      size_t off = 0; while (off < r.size()) { ssize_t n = write(fd[1], r.data() + off, r.size() - off); if (n <= 0) break; off += (size_t)n; }
      _exit(0);
    }
    close(fd[1]);
    std::string out; char buf[4096]; ssize_t n;
    while ((n = read(fd[0], buf, sizeof buf)) > 0) out.append(buf, (size_t)n);
    close(fd[0]);
    int st = 0; waitpid(pid, &st, 0);
    if (WIFSIGNALED(st)) return "reads=? out=killed:" + std::to_string(WTERMSIG(st));
    return out.empty() ? "reads=? out=empty" : out;
  });
  return 0;
}
