// Shared helpers of the harness drivers: line protocol, abort capture, hashing, canonical printing.
#pragma once
#include <csetjmp>
#include <csignal>
#include <cstdint>
#include <cstdio>
#include <cstdlib>
#include <cstring>
#include <functional>
#include <new>
#include <stdexcept>
#include <string>
#include <type_traits>
#include <vector>

namespace vh {

using i128 = __int128;
using u128 = unsigned __int128;

inline std::string to_dec(i128 v)
{
  if (v == 0) return "0";
  bool neg = v < 0;
  u128 u = neg ? (u128)(-(v + 1)) + 1 : (u128)v;
  std::string s;
  while (u) { s.push_back(char('0' + (int)(u % 10))); u /= 10; }
  if (neg) s.push_back('-');
  return std::string(s.rbegin(), s.rend());
}

inline i128 parse_dec(const std::string& s)
{
  size_t i = 0; bool neg = false;
  if (i < s.size() && (s[i] == '-' || s[i] == '+')) { neg = s[i] == '-'; i++; }
  u128 u = 0;
  if (i + 1 < s.size() && s[i] == '0' && (s[i + 1] == 'x' || s[i + 1] == 'X')) {
    for (i += 2; i < s.size(); i++) {
      char c = s[i]; int d = (c >= '0' && c <= '9') ? c - '0' : (c >= 'a' && c <= 'f') ? c - 'a' + 10 : c - 'A' + 10;
      u = u * 16 + d;
    }
  } else {
    for (; i < s.size(); i++) u = u * 10 + (s[i] - '0');
  }
  return neg ? -(i128)u : (i128)u;
}

inline std::vector<std::string> split(const std::string& line)
{
  std::vector<std::string> out; std::string cur;
  for (char c : line) {
    if (c == ' ' || c == '\t' || c == '\n' || c == '\r') { if (!cur.empty()) { out.push_back(cur); cur.clear(); } }
    else cur.push_back(c);
  }
  if (!cur.empty()) out.push_back(cur);
  return out;
}

struct Fnv {
  uint64_t h = 0xcbf29ce484222325ull;
  void add(const std::string& s) { for (unsigned char c : s) { h ^= c; h *= 0x100000001b3ull; } }
};

// ---- abort / fault capture ------------------------------------------------------------------
// rlbox is built with RLBOX_USE_EXCEPTIONS, so a failed dynamic_check is a std::runtime_error.
// A hardware fault (guard page, null dereference inside libc) is turned into a result as well.
inline sigjmp_buf g_jmp;
inline volatile sig_atomic_t g_jmp_armed = 0;
inline volatile uintptr_t g_fault_addr = 0;
inline std::string g_last_abort_msg; // what() of the last captured abort

inline void fault_handler(int sig, siginfo_t* si, void*)
{
  if (g_jmp_armed) {
    g_fault_addr = reinterpret_cast<uintptr_t>(si->si_addr);
    g_jmp_armed = 0;
    siglongjmp(g_jmp, sig);
  }
  signal(sig, SIG_DFL);
  raise(sig);
}

inline void install_fault_handler()
{
  struct sigaction sa; std::memset(&sa, 0, sizeof sa);
  sa.sa_sigaction = fault_handler; sa.sa_flags = SA_SIGINFO | SA_NODEFER;
  sigaction(SIGSEGV, &sa, nullptr);
  sigaction(SIGBUS, &sa, nullptr);
}

// run `f` and return its string, or "abort" / "segv"
template<typename F>
inline std::string guarded(F&& f)
{
  int sig = sigsetjmp(g_jmp, 1);
  if (sig != 0) return "segv";
  g_jmp_armed = 1;
  std::string r;
  try { r = f(); }
  catch (const std::runtime_error& e) { r = "abort"; g_last_abort_msg = e.what(); }
  catch (const std::bad_alloc&) { r = "badalloc"; }
  g_jmp_armed = 0;
  return r;
}

inline void main_loop(const std::function<std::string(const std::vector<std::string>&)>& step)
{
  install_fault_handler();
  static char buf[1 << 16];
  std::string out; out.reserve(1 << 20);
  const bool flush_each = getenv("VH_FLUSH") != nullptr; // used when re-running a chunk to locate a crash
  while (fgets(buf, sizeof buf, stdin)) {
    auto toks = split(buf);
    if (toks.empty() || toks[0][0] == '#') continue;
    out += step(toks); out.push_back('\n');
    if (flush_each || out.size() > (1 << 19)) { fwrite(out.data(), 1, out.size(), stdout); out.clear(); if (flush_each) fflush(stdout); }
  }
  fwrite(out.data(), 1, out.size(), stdout);
  fflush(stdout);
}

// ---- the C++ integer types of the line protocol (same order as Rlbox.intTys in Lean) -------
template<typename... Ts> struct TL { static constexpr size_t n = sizeof...(Ts); };
using IntTypes = TL<bool, char, signed char, unsigned char, short, unsigned short, int, unsigned int, long,
                    unsigned long, long long, unsigned long long, char16_t, char32_t, wchar_t>;
inline const char* const IntNames[] = { "bool", "char", "schar", "uchar", "short", "ushort", "int", "uint", "long",
                                        "ulong", "llong", "ullong", "char16", "char32", "wchar" };
inline int int_index(const std::string& n)
{
  for (int i = 0; i < (int)IntTypes::n; i++) if (n == IntNames[i]) return i;
  return -1;
}
template<size_t I, typename L> struct nth;
template<size_t I, typename T, typename... Ts> struct nth<I, TL<T, Ts...>> : nth<I - 1, TL<Ts...>> {};
template<typename T, typename... Ts> struct nth<0, TL<T, Ts...>> { using type = T; };
template<size_t I, typename L> using nth_t = typename nth<I, L>::type;

template<typename T> inline i128 as_math(T v) { return (i128)v; }
template<> inline i128 as_math<bool>(bool v) { return v ? 1 : 0; }

template<typename T> inline bool representable(i128 v)
{
  if constexpr (std::is_same_v<T, bool>) return v == 0 || v == 1;
  else return v >= (i128)std::numeric_limits<T>::min() && v <= (i128)std::numeric_limits<T>::max();
}

} // namespace vh
