// Engine `mem` (C03, C04, C07, run-time half of C02): single operations on sandbox memory and on
// tainted pointers, two live sandboxes of the same backend type.  Before every op both regions are
// reset to a fixed pseudo-random byte pattern so that loads see arbitrary bit patterns.
#include "vtypes.hpp"
#include <variant>

using namespace vh;
using rlbox::tainted;
using rlbox::tainted_volatile;
using Sb = rlbox::rlbox_sandbox<SbxA>;
using P32 = uint32_t;

static Sb g_sb[2];
static Sb* g_sbs[2] = { &g_sb[0], &g_sb[1] };
static constexpr size_t BLK = 1u << 16;
static uint8_t g_pattern[BLK];
static uintptr_t base(int i) { return g_sb[i].get_sandbox_impl()->Base; }
static std::string addr(const void* p) { return show_addr<SbxA>(p, g_sbs, 2); }

static void reset_image()
{
  for (int i = 0; i < 2; i++) { std::memcpy(reinterpret_cast<void*>(base(i)), g_pattern, BLK); g_sb[i].get_sandbox_impl()->brk = 0x8000; }
}

// ---- guest library ---------------------------------------------------------------------------
static P32 g_last_u32; static uint64_t g_calls;
static P32 gl_id32(P32 x) { g_last_u32 = x; g_calls++; return x; }
static void gl_take32(P32 x) { g_last_u32 = x; g_calls++; }
static P32 gl_callcb_ptr(P32 cb, P32 arg)
{
  return SbxA::thread_data.sandbox->guest_call_fnptr<P32, P32>(cb, arg);
}
static const void* g_cb_seen; static const void* g_cb_ret;
static tainted<int*, SbxA> app_cb_ptr(Sb&, tainted<int*, SbxA> p)
{
  g_cb_seen = p.UNSAFE_unverified();
  tainted<int*, SbxA> r = nullptr;
  return r;
}

static int gl_f0(int x) { return x + 100; }
static int gl_f1(int x) { return x + 200; }
static int gl_f2(int x) { return x + 300; }
static vsbx::Library g_libA("libA", { { "f0", (void*)&gl_f0 }, { "f1", (void*)&gl_f1 }, { "f2", (void*)&gl_f2 } });
static vsbx::Library g_libB("libB", { { "f2", (void*)&gl_f2 }, { "f0", (void*)&gl_f0 } });
static const vsbx::Library* g_libs[2] = { &g_libA, &g_libB };

// canonical name of an application-side function-pointer value of sandbox `sb`
static std::string fname(int sb, const void* p)
{
  if (!p) return "null";
  auto* impl = g_sb[sb].get_sandbox_impl();
  auto c = static_cast<const char*>(p);
  for (int i = 0; i < 2; i++) {
    auto* L = g_libs[i];
    if (c > L->desc.data() && c < L->desc.data() + L->desc.size()) return std::string(L->libname) + "." + L->fns[(size_t)(c - L->desc.data()) - 1].name;
  }
  for (int i = 0; i < 2; i++) {
    auto* im = g_sb[i].get_sandbox_impl();
    if (c >= &im->cbdesc[0] && c < &im->cbdesc[0] + 8) return "cb" + std::to_string(i) + ":" + std::to_string(c - &im->cbdesc[0]);
  }
  (void)impl;
  return "other";
}

template<typename T> static tainted<T*, SbxA> mk(int sb, const std::string& s)
{
  tainted<T*, SbxA> p = nullptr;
  if (s == "null") return p;
  int owner = sb; uintptr_t off;
  if (s.rfind("in0:", 0) == 0) { owner = 0; off = (uintptr_t)parse_dec(s.substr(4)); }
  else if (s.rfind("in1:", 0) == 0) { owner = 1; off = (uintptr_t)parse_dec(s.substr(4)); }
  else off = (uintptr_t)parse_dec(s);
  p.assign_raw_pointer(g_sb[owner], reinterpret_cast<T*>(base(owner) + off));
  return p;
}
static void poke32(int sb, size_t off, P32 v) { std::memcpy(reinterpret_cast<void*>(base(sb) + off), &v, 4); }
static P32 peek32(int sb, size_t off) { P32 v; std::memcpy(&v, reinterpret_cast<void*>(base(sb) + off), 4); return v; }

static const size_t CELL = 0x100; // cell used by the position ops

// ---- guest representation -> tainted pointer, in every position -------------------------------
static std::string rep_one(const std::string& pos, int sb, P32 rep)
{
  Sb& S = g_sb[sb];
  if (pos == "result") {
    auto r = S.INTERNAL_invoke_with_func_ptr<int*(unsigned)>("gl_id32", reinterpret_cast<void*>(&gl_id32), (unsigned)rep);
    return addr(r.UNSAFE_unverified());
  }
  if (pos == "cbarg") {
    auto cb = S.register_callback(app_cb_ptr);
    g_cb_seen = nullptr; g_cb_ret = nullptr;
    using F = int* (*)(int*);
    S.INTERNAL_invoke_with_func_ptr<int*(F, unsigned)>("gl_callcb_ptr", reinterpret_cast<void*>(&gl_callcb_ptr), cb, (unsigned)rep);
    return addr(g_cb_seen);
  }
  if (pos == "cell") {
    poke32(sb, CELL, rep);
    auto pp = mk<int*>(sb, std::to_string(CELL));
    tainted<int*, SbxA> p = *pp;
    return addr(p.UNSAFE_unverified());
  }
  if (pos == "arrel") {
    poke32(sb, CELL + 8, rep);
    auto pa = mk<int* [4]>(sb, std::to_string(CELL));
    tainted<int*, SbxA> p = (*pa)[2];
    tainted<int* [4], SbxA> whole = *pa;
    tainted<int*, SbxA> p2 = whole[2];
    return addr(p.UNSAFE_unverified()) + "," + addr(p2.UNSAFE_unverified());
  }
  if (pos == "field") {
    poke32(sb, CELL + 8, rep);
    auto ps = mk<vst12>(sb, std::to_string(CELL));
    tainted<int*, SbxA> p = ps->p;
    tainted<vst12, SbxA> whole = *ps;
    return addr(p.UNSAFE_unverified()) + "," + addr(whole.p.UNSAFE_unverified());
  }
  return "badop";
}

// ---- a backend whose pointer REPRESENTATION is itself a pointer type (T_PointerType = void*): every 64-bit pattern the guest
//      hands over must still go through the backend's translation -----------------------------------------------------------
static rlbox::rlbox_sandbox<SbxN> g_sbN;
static uint64_t gl_id64(uint64_t x) { return x; }
static uint64_t gl_callcb64(uint64_t cb, uint64_t arg) { return SbxN::thread_data.sandbox->guest_call_fnptr<void*, void*>(reinterpret_cast<void*>(cb), reinterpret_cast<void*>(arg)) ? 1 : 0; }
static const void* g_cbN_seen;
static tainted<int*, SbxN> app_cb_ptrN(rlbox::rlbox_sandbox<SbxN>&, tainted<int*, SbxN> p)
{
  g_cbN_seen = p.UNSAFE_unverified();
  tainted<int*, SbxN> r = nullptr;
  return r;
}
static std::string nrep(const std::string& pos, uint64_t rep)
{
  auto baseN = g_sbN.get_sandbox_impl()->Base;
  auto show = [&](const void* p) -> std::string {
    if (!p) return "null";
    auto v = reinterpret_cast<uintptr_t>(p);
    if (v >= baseN && v - baseN < BLK) return "inN:" + std::to_string(v - baseN);
    char b[40]; snprintf(b, sizeof b, "out:0x%llx", (unsigned long long)v); return b;
  };
  if (pos == "result") {
    auto r = g_sbN.INTERNAL_invoke_with_func_ptr<int*(unsigned long)>("gl_id64", reinterpret_cast<void*>(&gl_id64), (unsigned long)rep);
    return "ok " + show(r.UNSAFE_unverified());
  }
  if (pos == "cbarg") {
    auto cb = g_sbN.register_callback(app_cb_ptrN);
    g_cbN_seen = nullptr;
    using F = int* (*)(int*);
    g_sbN.INTERNAL_invoke_with_func_ptr<unsigned long(F, unsigned long)>("gl_callcb64", reinterpret_cast<void*>(&gl_callcb64), cb, (unsigned long)rep);
    return "ok " + show(g_cbN_seen);
  }
  std::memcpy(reinterpret_cast<void*>(baseN), g_pattern, BLK);
  std::memcpy(reinterpret_cast<void*>(baseN + CELL + 16), &rep, 8);
  tainted<int**, SbxN> pp = nullptr;
  pp.assign_raw_pointer(g_sbN, reinterpret_cast<int**>(baseN + CELL));
  if (pos == "cell") { tainted<int*, SbxN> p = pp[2]; return "ok " + show(p.UNSAFE_unverified()); }
  if (pos == "arrel") {
    auto pa = rlbox::sandbox_reinterpret_cast<int* (*)[4]>(pp);
    tainted<int*, SbxN> p = (*pa)[2];
    tainted<int* [4], SbxN> whole = *pa;
    return "ok " + show(p.UNSAFE_unverified()) + "," + show(whole[2].UNSAFE_unverified());
  }
  return "badop";
}

// ---- pointer stores in every position: what does the guest see? ------------------------------
static std::string pstore(const std::string& pos, int sb, const std::string& target)
{
  Sb& S = g_sb[sb];
  auto t = mk<int>(sb, target);
  auto rep = [&](size_t off) { return "rep=" + std::to_string(peek32(sb, off)); };
  if (pos == "cell") { auto pp = mk<int*>(sb, std::to_string(CELL)); *pp = t; return rep(CELL); }
  if (pos == "cellnull") { auto pp = mk<int*>(sb, std::to_string(CELL)); *pp = nullptr; return rep(CELL); }
  if (pos == "arrel") { auto pa = mk<int* [4]>(sb, std::to_string(CELL)); (*pa)[2] = t; return rep(CELL + 8); }
  if (pos == "arrelnull") { auto pa = mk<int* [4]>(sb, std::to_string(CELL)); (*pa)[2] = nullptr; return rep(CELL + 8); }
  if (pos == "fieldnull") { auto ps = mk<vst12>(sb, std::to_string(CELL)); ps->p = nullptr; return rep(CELL + 8); }
  if (pos == "arrwhole") {
    auto pa = mk<int* [4]>(sb, std::to_string(CELL));
    tainted<int* [4], SbxA> w; w[0] = nullptr; w[1] = t; w[2] = t; w[3] = nullptr;
    *pa = w;
    return rep(CELL + 8) + "," + rep(CELL) + "," + rep(CELL + 12);
  }
  if (pos == "field") { auto ps = mk<vst12>(sb, std::to_string(CELL)); ps->p = t; return rep(CELL + 8); }
  if (pos == "structwhole") {
    auto ps = mk<vst12>(sb, std::to_string(CELL));
    tainted<vst12, SbxA> w; w.c = 'x'; w.l = 7; w.p = t;
    *ps = w;
    return rep(CELL + 8) + " l=" + std::to_string((int32_t)peek32(sb, CELL + 4));
  }
  if (pos == "arg") {
    g_last_u32 = 0xdeadbeef;
    S.INTERNAL_invoke_with_func_ptr<void(int*)>("gl_take32", reinterpret_cast<void*>(&gl_take32), t);
    return "rep=" + std::to_string(g_last_u32);
  }
  if (pos == "argnull") {
    g_last_u32 = 0xdeadbeef;
    S.INTERNAL_invoke_with_func_ptr<void(int*)>("gl_take32", reinterpret_cast<void*>(&gl_take32), nullptr);
    return "rep=" + std::to_string(g_last_u32);
  }
  if (pos == "raw") { // the checked entry point on a tainted_volatile: assign_raw_pointer
    auto pp = mk<int*>(sb, std::to_string(CELL));
    uintptr_t a = 0;
    if (target == "null") a = 0;
    else if (target.rfind("abs:", 0) == 0) a = (uintptr_t)parse_dec(target.substr(4));
    else a = reinterpret_cast<uintptr_t>(t.UNSAFE_unverified());
    (*pp).assign_raw_pointer(S, reinterpret_cast<int*>(a));
    return rep(CELL);
  }
  return "badop";
}

// store-then-load round trip of a data pointer through every memory position
static std::string prt(const std::string& pos, int sb, const std::string& target)
{
  auto t = mk<int>(sb, target);
  tainted<int*, SbxA> q = nullptr;
  if (pos == "cell") { auto pp = mk<int*>(sb, std::to_string(CELL)); *pp = t; q = *pp; }
  else if (pos == "arrel") { auto pa = mk<int* [4]>(sb, std::to_string(CELL)); (*pa)[3] = t; q = (*pa)[3]; }
  else if (pos == "field") { auto ps = mk<vst12>(sb, std::to_string(CELL)); ps->p = t; q = ps->p; }
  else if (pos == "structwhole") {
    auto ps = mk<vst12>(sb, std::to_string(CELL));
    tainted<vst12, SbxA> w; w.c = 'x'; w.l = 7; w.p = t; *ps = w;
    tainted<vst12, SbxA> back = *ps; q = back.p;
  }
  else if (pos == "call") { q = g_sb[sb].INTERNAL_invoke_with_func_ptr<int*(int*)>("gl_id32", reinterpret_cast<void*>(&gl_id32), t); }
  else return "badop";
  return "ok " + addr(q.UNSAFE_unverified());
}

// function pointers in memory cells: translation needs the owning instance (found from the cell's address)
static std::string fstore(int sb, const std::string& name)
{
  using F = int(int);
  auto pf = mk<F*>(sb, std::to_string(CELL));
  tainted<F*, SbxA> f = g_sb[sb].INTERNAL_get_sandbox_function_name<F>(name.c_str());
  *pf = f;
  P32 rep = peek32(sb, CELL);
  tainted<F*, SbxA> back = *pf;
  return "ok rep=" + std::to_string(rep) + " back=" + fname(sb, reinterpret_cast<const void*>(back.UNSAFE_unverified()));
}
// function pointers arriving WITH the sandbox context: as the result of a call and as a callback argument
static const void* g_cb_fn_seen;
static tainted<int*, SbxA> app_cb_fn(Sb&, tainted<int (*)(int), SbxA> f)
{
  g_cb_fn_seen = reinterpret_cast<const void*>(f.UNSAFE_unverified());
  tainted<int*, SbxA> r = nullptr;
  return r;
}
static std::string fctx(const std::string& pos, int sb, P32 rep)
{
  using F = int(int);
  Sb& S = g_sb[sb];
  if (pos == "result") {
    auto r = S.INTERNAL_invoke_with_func_ptr<F*(unsigned)>("gl_id32", reinterpret_cast<void*>(&gl_id32), (unsigned)rep);
    return "ok " + fname(sb, reinterpret_cast<const void*>(r.UNSAFE_unverified()));
  }
  if (pos == "cbarg") {
    auto cb = S.register_callback(app_cb_fn);
    g_cb_fn_seen = nullptr;
    using CB = int* (*)(F*);
    S.INTERNAL_invoke_with_func_ptr<int*(CB, unsigned)>("gl_callcb_ptr", reinterpret_cast<void*>(&gl_callcb_ptr), cb, (unsigned)rep);
    return "ok " + fname(sb, g_cb_fn_seen);
  }
  return "badop";
}
static std::string fload(int sb, P32 rep)
{
  using F = int(int);
  poke32(sb, CELL, rep);
  auto pf = mk<F*>(sb, std::to_string(CELL));
  tainted<F*, SbxA> back = *pf;
  return "ok " + fname(sb, reinterpret_cast<const void*>(back.UNSAFE_unverified()));
}

static std::string window(int sb, size_t off);
static std::string region_hash(int sb);
// whole-array stores/loads (multi-dimensional, element conversion or memcpy fast path)
template<typename T, size_t A, size_t B> static std::string starr2(int sb, const std::string& off, const std::vector<std::string>& t, size_t from)
{
  auto pa = mk<T[A][B]>(sb, off);
  tainted<T[A][B], SbxA> w;
  for (size_t i = 0; i < A; i++) for (size_t j = 0; j < B; j++) w[i][j] = (T)parse_dec(t[from + i * B + j]);
  *pa = w;
  size_t o = (size_t)parse_dec(off);
  std::string wins = window(sb, o) + window(sb, o + 24) + window(sb, o + 48);
  tainted<T[A][B], SbxA> back = *pa;
  std::string vals;
  for (size_t i = 0; i < A; i++) for (size_t j = 0; j < B; j++) vals += " " + to_dec(as_math(back[i][j].UNSAFE_unverified()));
  return "ok win=" + wins + " h=" + region_hash(sb) + " back=" + vals;
}
template<typename T, size_t A> static std::string starr1(int sb, const std::string& off, const std::vector<std::string>& t, size_t from)
{
  auto pa = mk<T[A]>(sb, off);
  tainted<T[A], SbxA> w;
  for (size_t i = 0; i < A; i++) w[i] = (T)parse_dec(t[from + i]);
  *pa = w;
  size_t o = (size_t)parse_dec(off);
  tainted<T[A], SbxA> back = *pa;
  std::string vals;
  for (size_t i = 0; i < A; i++) vals += " " + to_dec(as_math(back[i].UNSAFE_unverified()));
  return "ok win=" + window(sb, o) + window(sb, o + 24) + " h=" + region_hash(sb) + " back=" + vals;
}

// a third live sandbox with 64-bit integer guest pointers (ABI B): pointer arrays have the same
// element width as the host's, so a bit copy would be wrong but compiles
static rlbox::rlbox_sandbox<SbxB> g_sbB;
static std::string pstoreb(const std::string& pos, const std::string& target)
{
  auto baseB = g_sbB.get_sandbox_impl()->Base;
  auto mkb = [&](const std::string& s, auto* tag) {
    using T = std::remove_pointer_t<decltype(tag)>;
    tainted<T*, SbxB> p = nullptr;
    if (s != "null") p.assign_raw_pointer(g_sbB, reinterpret_cast<T*>(baseB + (uintptr_t)parse_dec(s)));
    return p;
  };
  auto peek64 = [&](size_t off) { uint64_t v; std::memcpy(&v, reinterpret_cast<void*>(baseB + off), 8); return v; };
  auto show = [&](const void* p) -> std::string {
    if (!p) return "null";
    auto v = reinterpret_cast<uintptr_t>(p);
    if (v >= baseB && v - baseB < BLK) return "inB:" + std::to_string(v - baseB);
    char b[40]; snprintf(b, sizeof b, "out:0x%llx", (unsigned long long)v); return b;
  };
  std::memcpy(reinterpret_cast<void*>(baseB), g_pattern, BLK);
  auto t = mkb(target, (int*)nullptr);
  if (pos == "cell") {
    auto pp = mkb(std::to_string(CELL), (int**)nullptr); *pp = t; tainted<int*, SbxB> q = *pp;
    return "ok rep=" + std::to_string(peek64(CELL)) + " back=" + show(q.UNSAFE_unverified());
  }
  if (pos == "arrwhole") {
    auto pa = mkb(std::to_string(CELL), (int* (*)[4]) nullptr);
    tainted<int* [4], SbxB> w; w[0] = nullptr; w[1] = t; w[2] = t; w[3] = nullptr;
    *pa = w;
    tainted<int* [4], SbxB> back = *pa;
    return "ok rep=" + std::to_string(peek64(CELL + 8)) + "," + std::to_string(peek64(CELL)) + " back=" + show(back[2].UNSAFE_unverified()) + "," + show(back[0].UNSAFE_unverified());
  }
  return "badop";
}

// run-time half of C02: the two checked entry points for raw pointers
static std::string accept(const std::string& how, int sb, const std::string& target)
{
  Sb& S = g_sb[sb];
  uintptr_t a;
  static int heapobj; int stackobj;
  if (target == "null") a = 0;
  else if (target == "heap") a = reinterpret_cast<uintptr_t>(&heapobj);
  else if (target == "stack") a = reinterpret_cast<uintptr_t>(&stackobj);
  else if (target.rfind("abs:", 0) == 0) a = (uintptr_t)parse_dec(target.substr(4));
  else if (target.rfind("in0:", 0) == 0) a = base(0) + (uintptr_t)parse_dec(target.substr(4));
  else if (target.rfind("in1:", 0) == 0) a = base(1) + (uintptr_t)parse_dec(target.substr(4));
  else return "badop";
  if (how == "accept") { auto p = S.UNSAFE_accept_pointer(reinterpret_cast<int*>(a)); return "ok " + addr(p.UNSAFE_unverified()); }
  if (how == "assign") { tainted<int*, SbxA> p; p.assign_raw_pointer(S, reinterpret_cast<int*>(a)); return "ok " + addr(p.UNSAFE_unverified()); }
  if (how == "assignvol") {
    auto pp = mk<int*>(sb, std::to_string(CELL));
    (*pp).assign_raw_pointer(S, reinterpret_cast<int*>(a));
    return "ok rep=" + std::to_string(peek32(sb, CELL));
  }
  if (how == "assignfn") { // function-pointer flavour goes through the same membership check
    using F = void (*)();
    tainted<F, SbxA> p; p.assign_raw_pointer(S, reinterpret_cast<F>(a));
    return "ok " + addr(reinterpret_cast<const void*>(p.UNSAFE_unverified()));
  }
  return "badop";
}

// ---- derivation chains -------------------------------------------------------------------------
using VI = tainted<int*, SbxA>; using VC = tainted<char*, SbxA>; using VPP = tainted<int**, SbxA>; using VS = tainted<vst12*, SbxA>;
using Var = std::variant<VI, VC, VPP, VS>;

static const void* raw_of(const Var& v) { return std::visit([](auto& p) { return (const void*)p.UNSAFE_unverified(); }, v); }

static bool chain_step(Var& v, const std::string& s, int sb)
{
  auto num = [&](size_t from) { return (long long)parse_dec(s.substr(from)); };
  if (s[0] == '+') { long long n = num(1); std::visit([&](auto& p) { p = p + n; }, v); return true; }
  if (s[0] == '-') { long long n = num(1); std::visit([&](auto& p) { p = p - n; }, v); return true; }
  // increments / decrements in all four spellings; the chain continues with the (updated) pointer variable
  if (s == "pi") { std::visit([&](auto& p) { ++p; }, v); return true; }
  if (s == "pd") { std::visit([&](auto& p) { --p; }, v); return true; }
  if (s == "ip") { std::visit([&](auto& p) { p++; }, v); return true; }
  if (s == "dp") { std::visit([&](auto& p) { p--; }, v); return true; }
  if (s[0] == '[') {
    long long n = num(1);
    if (auto* p = std::get_if<VI>(&v)) { *p = &(*p)[n]; return true; }
    if (auto* p = std::get_if<VC>(&v)) { *p = &(*p)[n]; return true; }
    if (auto* p = std::get_if<VPP>(&v)) { *p = &(*p)[n]; return true; }
    if (auto* p = std::get_if<VS>(&v)) { auto q = &((*p)[n].c); v = rlbox::sandbox_reinterpret_cast<vst12*>(q); return true; }
  }
  if (s == "ci") { v = std::visit([](auto& p) -> Var { return rlbox::sandbox_reinterpret_cast<int*>(p); }, v); return true; }
  if (s == "cc") { v = std::visit([](auto& p) -> Var { return rlbox::sandbox_reinterpret_cast<char*>(p); }, v); return true; }
  if (s == "cpp") { v = std::visit([](auto& p) -> Var { return rlbox::sandbox_reinterpret_cast<int**>(p); }, v); return true; }
  if (s == "cst") { v = std::visit([](auto& p) -> Var { return rlbox::sandbox_reinterpret_cast<vst12*>(p); }, v); return true; }
  if (s == "opq") { std::visit([](auto& p) { auto o = p.to_opaque(); p = rlbox::from_opaque(o); }, v); return true; }
  if (s == "ad") { std::visit([](auto& p) { if constexpr (!std::is_same_v<std::decay_t<decltype(p)>, VS>) p = &*p; }, v); return true; }
  if (s == "ld") { if (auto* p = std::get_if<VPP>(&v)) { VI q = **p; v = q; return true; } return false; }
  if (s == "fp") { if (auto* p = std::get_if<VS>(&v)) { VI q = (*p)->p; v = q; return true; } return false; }
  if (s == "afl") { if (auto* p = std::get_if<VS>(&v)) { auto q = &((*p)->l); v = rlbox::sandbox_reinterpret_cast<char*>(q); return true; } return false; }
  if (s == "afp") { if (auto* p = std::get_if<VS>(&v)) { auto q = &((*p)->p); v = rlbox::sandbox_reinterpret_cast<int**>(q); return true; } return false; }
  if (s.rfind("ae", 0) == 0) { // &(*pa)[k] for pa : int(*)[4] -- bounds-checked index, then element designation
    long long k = num(2);
    v = std::visit([&](auto& p) -> Var { auto pa = rlbox::sandbox_reinterpret_cast<int(*)[4]>(p); VI q = &((*pa)[k]); return q; }, v);
    return true;
  }
  if (s == "mal") { v = g_sb[sb].malloc_in_sandbox<int>(4); return true; }
  (void)sb;
  return false;
}

static std::string chain(const std::vector<std::string>& t)
{
  int sb = atoi(t[1].c_str());
  Var v;
  const std::string& ty = t[3];
  if (ty == "i") v = mk<int>(sb, t[2]); else if (ty == "c") v = mk<char>(sb, t[2]);
  else if (ty == "pp") v = mk<int*>(sb, t[2]); else if (ty == "st") v = mk<vst12>(sb, t[2]); else return "badop";
  for (size_t i = 4; i < t.size(); i++) if (!chain_step(v, t[i], sb)) return "badop";
  return "ok " + addr(raw_of(v));
}

// ---- typed stores / loads (C07) -----------------------------------------------------------------
static std::string window(int sb, size_t off)
{
  size_t lo = off >= 8 ? off - 8 : 0, hi = std::min(BLK, off + 16);
  static const char* hx = "0123456789abcdef";
  std::string s; auto* m = reinterpret_cast<const uint8_t*>(base(sb));
  for (size_t i = lo; i < hi; i++) { s.push_back(hx[m[i] >> 4]); s.push_back(hx[m[i] & 15]); }
  return s;
}
static std::string region_hash(int sb)
{
  Fnv h; auto* m = reinterpret_cast<const uint8_t*>(base(sb));
  for (size_t i = 0; i < BLK; i++) { h.h ^= m[i]; h.h *= 0x100000001b3ull; }
  return std::to_string(h.h);
}

using BaseTypes = TL<bool, char, signed char, unsigned char, short, unsigned short, int, unsigned int, long,
                     unsigned long, long long, unsigned long long, char16_t, char32_t>;
static const char* const BaseNames[] = { "bool", "char", "schar", "uchar", "short", "ushort", "int", "uint", "long",
                                         "ulong", "llong", "ullong", "char16", "char32" };
constexpr size_t NB = BaseTypes::n;

template<typename T> static std::string do_store(int sb, const std::string& off, i128 v)
{
  if (!representable<T>(v)) return "badinput";
  auto p = mk<T>(sb, off);
  *p = (T)v;
  size_t o = (size_t)parse_dec(off);
  return "ok win=" + window(sb, o) + " h=" + region_hash(sb) + " h_other=" + region_hash(1 - sb);
}
template<typename T> static std::string do_load(const std::string& how, int sb, const std::string& off)
{
  auto p = mk<T>(sb, off);
  if (how == "deref") { tainted<T, SbxA> x = *p; return "ok " + to_dec(as_math(x.UNSAFE_unverified())); }
  if (how == "unverified") { return "ok " + to_dec(as_math((*p).UNSAFE_unverified())); }
  if (how == "cav") { // copy_and_verify on the pointer (deep copy of the pointee)
    return p.copy_and_verify([](std::unique_ptr<T> v) { return v ? "ok " + to_dec(as_math(*v)) : std::string("ok null"); });
  }
  if (how == "cavrange") {
    if constexpr (std::is_same_v<T, bool>) return "badop";
    else return p.copy_and_verify_range([](std::unique_ptr<T[]> v) { return v ? "ok " + to_dec(as_math(v[0])) + " " + to_dec(as_math(v[1])) : std::string("ok null"); }, 2);
  }
  if (how == "idx1") { tainted<T, SbxA> x = p[1]; return "ok " + to_dec(as_math(x.UNSAFE_unverified())); }
  return "badop";
}
using StFn = std::string (*)(int, const std::string&, i128);
using LdFn = std::string (*)(const std::string&, int, const std::string&);
static StFn st_tab[NB]; static LdFn ld_tab[NB];
template<size_t... Is> static void fill(std::index_sequence<Is...>)
{
  ((st_tab[Is] = &do_store<nth_t<Is, BaseTypes>>), ...);
  ((ld_tab[Is] = &do_load<nth_t<Is, BaseTypes>>), ...);
}

int main()
{
  for (size_t i = 0; i < BLK; i++) g_pattern[i] = (uint8_t)(((i * 131) ^ (i >> 8) ^ 0x5A) & 0xFF);
  fill(std::make_index_sequence<NB>());
  g_sb[0].create_sandbox(&g_libA);
  g_sb[1].create_sandbox(&g_libB);
  g_sbB.create_sandbox();
  g_sbN.create_sandbox();
  main_loop([&](const std::vector<std::string>& t) -> std::string {
    reset_image();
    return guarded([&]() -> std::string {
      const std::string& op = t[0];
      if (op == "rep" && t.size() == 4) return "ok " + rep_one(t[1], atoi(t[2].c_str()), (P32)(uint64_t)parse_dec(t[3]));
      if (op == "repblk" && t.size() == 5) {
        Fnv h; uint64_t n = 0, bad = 0; int sb = atoi(t[2].c_str());
        for (uint64_t r = (uint64_t)parse_dec(t[3]); r <= (uint64_t)parse_dec(t[4]); r++) {
          std::string a = rep_one(t[1], sb, (P32)r);
          h.add(a); h.add("\n"); n++;
          std::string want = r == 0 ? "null" : "in" + std::to_string(sb) + ":" + std::to_string(r & 0xFFFF);
          if (t[1] == "arrel" || t[1] == "field") want = want + "," + want;
          if (a != want) bad++;
        }
        return "hash " + std::to_string(h.h) + " n=" + std::to_string(n) + " oracle_bad=" + std::to_string(bad);
      }
      if (op == "pstore" && t.size() == 4) return "ok " + pstore(t[1], atoi(t[2].c_str()), t[3]);
      if (op == "starr" && t.size() >= 5) {
        int sb = atoi(t[1].c_str());
        if (t[2] == "int2x3" && t.size() == 10) return starr2<int, 2, 3>(sb, t[3], t, 4);
        if (t[2] == "long2x3" && t.size() == 10) return starr2<long, 2, 3>(sb, t[3], t, 4);
        if (t[2] == "char3x5" && t.size() == 19) return starr2<char, 3, 5>(sb, t[3], t, 4);
        if (t[2] == "long3" && t.size() == 7) return starr1<long, 3>(sb, t[3], t, 4);
        if (t[2] == "ushort4" && t.size() == 8) return starr1<unsigned short, 4>(sb, t[3], t, 4);
        return "badop";
      }
      if (op == "malf" && t.size() == 5) {   // malloc_in_sandbox<T>(count) when the allocator returns t[3] and the backend does not clamp
        int sb = atoi(t[1].c_str());
        vsbx::g_malloc_force = true; vsbx::g_malloc_force_value = (uint64_t)parse_dec(t[3]); vsbx::g_unclamped = true;
        struct Reset { ~Reset() { vsbx::g_malloc_force = false; vsbx::g_unclamped = false; } } reset;
        uint32_t n = (uint32_t)parse_dec(t[4]);
        const void* r;
        if (t[2] == "char") r = g_sb[sb].malloc_in_sandbox<char>(n).UNSAFE_unverified();
        else if (t[2] == "int") r = g_sb[sb].malloc_in_sandbox<int>(n).UNSAFE_unverified();
        else if (t[2] == "llong") r = g_sb[sb].malloc_in_sandbox<long long>(n).UNSAFE_unverified();
        else if (t[2] == "st") r = g_sb[sb].malloc_in_sandbox<vst12>(n).UNSAFE_unverified();
        else return "badop";
        return "ok " + addr(r);
      }
      if (op == "nrep" && t.size() == 3) return nrep(t[1], (uint64_t)parse_dec(t[2]));
      if (op == "pstoreb" && t.size() == 3) return pstoreb(t[1], t[2]);
      if (op == "pfoot" && t.size() == 4) {   // footprint of a pointer store: the bytes around the cell afterwards
        int sb = atoi(t[2].c_str());
        std::string r = pstore(t[1], sb, t[3]);
        if (r == "badop" || r == "abort") return r;
        static const char* hx = "0123456789abcdef";
        std::string w; auto* m = reinterpret_cast<const uint8_t*>(base(sb));
        for (size_t i = CELL - 8; i < CELL + 24; i++) { w.push_back(hx[m[i] >> 4]); w.push_back(hx[m[i] & 15]); }
        return "ok win=" + w;
      }
      if (op == "prt" && t.size() == 4) return prt(t[1], atoi(t[2].c_str()), t[3]);
      if (op == "fstore" && t.size() == 3) return fstore(atoi(t[1].c_str()), t[2]);
      if (op == "fctx" && t.size() == 4) return fctx(t[1], atoi(t[2].c_str()), (P32)(uint64_t)parse_dec(t[3]));
      if (op == "fload" && t.size() == 3) return fload(atoi(t[1].c_str()), (P32)(uint64_t)parse_dec(t[2]));
      if (op == "accept" && t.size() == 4) return accept(t[1], atoi(t[2].c_str()), t[3]);
      if (op == "chain" && t.size() >= 4) return chain(t);
      if (op == "store" && t.size() == 5) {
        for (size_t i = 0; i < NB; i++) if (t[2] == BaseNames[i]) return st_tab[i](atoi(t[1].c_str()), t[3], parse_dec(t[4]));
        return "badop";
      }
      if (op == "load" && t.size() == 5) {
        for (size_t i = 0; i < NB; i++) if (t[3] == BaseNames[i]) return ld_tab[i](t[1], atoi(t[2].c_str()), t[4]);
        return "badop";
      }
      return "badop";
    });
  });
  return 0;
}
