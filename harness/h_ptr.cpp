// Engine `ptr` (C05, parts of C03): tainted pointer arithmetic on the foreign-ABI backend.
//   arith <form> <pty> <off|null> <nwrap> <nty> <n>
#include "vtypes.hpp"

using namespace vh;
using rlbox::tainted;
using Sb = rlbox::rlbox_sandbox<SbxA>;

#ifndef PTR_PART
#  define PTR_PART -1
#endif
extern Sb g_sb0, g_sb1;
#if PTR_PART < 0
Sb g_sb0, g_sb1;
#endif
static Sb* g_sbs[2] = { &g_sb0, &g_sb1 };

static std::string addr(const void* p) { return show_addr<SbxA>(p, g_sbs, 2); }

enum Wrap { PLAIN = 0, TAINTED = 1, TVOL = 2 };

// build the operand `n` in the requested wrapper and hand it to `k`
template<typename N, int W, typename K>
static std::string with_operand(i128 nv, K&& k)
{
  if (!representable<N>(nv)) return "badinput";
  N n = (N)nv;
  if constexpr (W == PLAIN) {
    return k(n);
  } else if constexpr (W == TAINTED) {
    tainted<N, SbxA> t = n;
    return k(t);
  } else {
    auto cell = g_sb0.malloc_in_sandbox<N>();
    *cell = n; // may abort when the guest type cannot hold n: that is not the operation under test
    return k(*cell);
  }
}

template<typename T, typename N, int W>
static std::string arith(const std::string& form, const std::string& offs, i128 nv)
{
  return guarded([&]() -> std::string {
    if (g_sb0.get_sandbox_impl()->brk > (1u << 15)) g_sb0.get_sandbox_impl()->brk = 16;
    tainted<T*, SbxA> p = nullptr;
    if (offs != "null") {
      uintptr_t a = g_sb0.get_sandbox_impl()->Base + (uintptr_t)parse_dec(offs);
      p.assign_raw_pointer(g_sb0, reinterpret_cast<T*>(a));
    }
    std::string pre;
    try {
      // operand construction failures are reported as badinput, not as the operation's abort
      return with_operand<N, W>(nv, [&](auto& n) -> std::string {
        const void* res = nullptr;
        if (form == "add") { auto r = p + n; res = (const void*)r.UNSAFE_unverified(); }
        else if (form == "sub") { auto r = p - n; res = (const void*)r.UNSAFE_unverified(); }
        else if (form == "addeq") { auto& r = (p += n); res = (const void*)r.UNSAFE_unverified(); }
        else if (form == "subeq") { auto& r = (p -= n); res = (const void*)r.UNSAFE_unverified(); }
        else if (form == "preinc") { auto& r = ++p; res = (const void*)r.UNSAFE_unverified(); }
        else if (form == "postinc") { auto r = p++; res = (const void*)r.UNSAFE_unverified(); }
        else if (form == "predec") { auto& r = --p; res = (const void*)r.UNSAFE_unverified(); }
        else if (form == "postdec") { auto r = p--; res = (const void*)r.UNSAFE_unverified(); }
        else if (form == "idx" || form == "addridx") {
          if constexpr (std::is_class_v<T>) {
            // `&` of a whole tainted_volatile struct does not compile; designate its first field
            auto q = &(p[n].c); res = (const void*)q.UNSAFE_unverified();
          } else if (form == "idx") { auto& r = p[n]; auto q = &r; res = (const void*)q.UNSAFE_unverified(); }
          else { auto q = &p[n]; res = (const void*)q.UNSAFE_unverified(); }
        }
        else return "badop";
        return "ok " + addr(res) + " " + addr((const void*)p.UNSAFE_unverified());
      });
    } catch (const std::runtime_error&) {
      throw;
    }
  });
}

using Fn = std::string (*)(const std::string&, const std::string&, i128);

using PTypes = TL<char, short, int, long, long long, float, double, int*, int[3], vst12, long[2][3]>;
static const char* const PNames[] = { "char", "short", "int", "long", "llong", "float", "double", "ptr", "arr3", "st12", "arr2x3" };
constexpr size_t NP = PTypes::n;
constexpr size_t NT = IntTypes::n;

// the table is filled by one translation unit per pointee type (PTR_PART = index) to parallelise
extern Fn g_tab[NP][NT][3];
#if PTR_PART < 0
Fn g_tab[NP][NT][3];
#endif

template<size_t P, size_t J>
static void fill_cell()
{
  using T = nth_t<P, PTypes>; using N = nth_t<J, IntTypes>;
  g_tab[P][J][0] = &arith<T, N, PLAIN>;
  if constexpr (!std::is_same_v<N, wchar_t>) { // tainted<wchar_t> has no sandbox-equivalent type
    g_tab[P][J][1] = &arith<T, N, TAINTED>;
    g_tab[P][J][2] = &arith<T, N, TVOL>;
  }
}
template<size_t P, size_t... Js> static void fill_row(std::index_sequence<Js...>) { (fill_cell<P, Js>(), ...); }

#if PTR_PART >= 0
// part TU: only registers its row
namespace { struct Reg { Reg() { fill_row<PTR_PART>(std::make_index_sequence<NT>()); } }; }
static Reg g_reg;
#else
int main()
{
  g_sb0.create_sandbox();
  g_sb1.create_sandbox();
  main_loop([&](const std::vector<std::string>& t) -> std::string {
    if (t[0] == "arith" && t.size() == 7) {
      int p = -1, w = -1;
      for (size_t i = 0; i < NP; i++) if (t[2] == PNames[i]) p = (int)i;
      int j = int_index(t[5]);
      if (t[4] == "plain") w = 0; else if (t[4] == "tainted") w = 1; else if (t[4] == "tvol") w = 2;
      if (p < 0 || j < 0 || w < 0 || !g_tab[p][j][w]) return "badop";
      return g_tab[p][j][w](t[1], t[3], parse_dec(t[6]));
    }
    if (t[0] == "sizes") {
      std::string s;
      auto add = [&](const char* n, size_t g, size_t a) { s += std::string(n) + "=" + std::to_string(g) + "/" + std::to_string(a) + ";"; };
      add("char", sizeof(rlbox::tainted_volatile<char, SbxA>), sizeof(char));
      add("short", sizeof(rlbox::tainted_volatile<short, SbxA>), sizeof(short));
      add("int", sizeof(rlbox::tainted_volatile<int, SbxA>), sizeof(int));
      add("long", sizeof(rlbox::tainted_volatile<long, SbxA>), sizeof(long));
      add("llong", sizeof(rlbox::tainted_volatile<long long, SbxA>), sizeof(long long));
      add("float", sizeof(rlbox::tainted_volatile<float, SbxA>), sizeof(float));
      add("double", sizeof(rlbox::tainted_volatile<double, SbxA>), sizeof(double));
      add("ptr", sizeof(rlbox::tainted_volatile<int*, SbxA>), sizeof(int*));
      add("arr3", sizeof(rlbox::tainted_volatile<int[3], SbxA>), sizeof(int[3]));
      add("st12", sizeof(rlbox::tainted_volatile<vst12, SbxA>), sizeof(vst12));
      add("arr2x3", sizeof(rlbox::tainted_volatile<long[2][3], SbxA>), sizeof(long[2][3]));
      return s;
    }
    return "badop";
  });
  return 0;
}
#endif
