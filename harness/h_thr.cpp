// Engine `thr` (C18): N threads, each running its own operation sequence on its own sandbox
// instances of one backend type, concurrently (ThreadSanitizer build); afterwards every sequence is
// run again ALONE on fresh instances.  Both logs are printed per thread.
//   thr <nthreads> <yieldseed> | <ops of thread 0> | <ops of thread 1> | ...
//   -> ok T0=<log> A0=<log> T1=... A1=...
// ops: c<i> create  d<i> destroy  m<i> malloc+store  r<i> read back  p<i> pointer cell round trip
//      g<i> register callback  u<i> unregister  f<i> function-pointer cell round trip (example-based lookup)
//      i<i> invoke (with a callback when one is registered)  a<i> app pointer: register, look up, release  l<i> by-name symbol lookups
#include <cstdint>
#include <string>
#ifdef THR_NOOP
#  ifdef THR_EMBEDDER_TLS   // the embedder-provided thread-local-storage configuration of the bundled backend
#    define RLBOX_EMBEDDER_PROVIDES_TLS_STATIC_VARIABLES
#  endif
#  define RLBOX_USE_EXCEPTIONS
#  define RLBOX_SINGLE_THREADED_INVOCATIONS
#  define RLBOX_USE_STATIC_CALLS() rlbox_noop_sandbox_lookup_symbol
#  include "rlbox_noop_sandbox.hpp"
#  include "rlbox.hpp"
#  include "common.hpp"
#  ifdef THR_EMBEDDER_TLS
RLBOX_NOOP_SANDBOX_STATIC_VARIABLES();
#  endif
using SbxT = rlbox::rlbox_noop_sandbox;
using GLong = long;
#else
#  include "vtypes.hpp"
using SbxT = SbxA;
using GLong = int32_t;
#endif
#include <atomic>
#include <sched.h>
#include <thread>

using namespace vh;
using rlbox::tainted;
using Sb = rlbox::rlbox_sandbox<SbxT>;
using CbSig = long (*)(long);

struct Inst {
  Sb sb;
  bool created = false, registered = false, has_ptr = false, has_cell = false;
  long counter = 0;
  tainted<long*, SbxT> ptr;
  tainted<long**, SbxT> cell;
  rlbox::sandbox_callback<CbSig, SbxT> cb;
};
struct Ctx {
  int tid = 0;
  Inst inst[2];
  std::string log;
  uint64_t rng = 1;
  bool yields = false;
};
static thread_local Ctx* t_ctx = nullptr;
static thread_local std::string* t_cbsaw = nullptr;

static void maybe_yield(Ctx& c, int pct)
{
  if (!c.yields) return;
  c.rng = c.rng * 6364136223846793005ull + 1442695040888963407ull;
  if ((int)((c.rng >> 33) % 100) < pct) sched_yield();
}

static tainted<long, SbxT> the_callback(Sb& s, tainted<long, SbxT> a)
{
  Ctx& c = *t_ctx;
  std::string saw = "X";
  for (int i = 0; i < 2; i++) if (&s == &c.inst[i].sb) saw = std::to_string(i);
  if (t_cbsaw) *t_cbsaw = saw;
  maybe_yield(c, 50);
  return a.UNSAFE_unverified() * 2;
}

static GLong gfn_plain(GLong x) { return x + 1; }
#ifdef THR_NOOP
static GLong gfn_cb(GLong x, GLong (*cb)(GLong))
{
  if (t_ctx) { maybe_yield(*t_ctx, 80); maybe_yield(*t_ctx, 80); }
  return cb(x + 1);
}
#else
static GLong gfn_cb(GLong x, uint32_t cbrep)
{
  if (t_ctx) { maybe_yield(*t_ctx, 80); maybe_yield(*t_ctx, 80); }
  auto* impl = SbxT::thread_data.sandbox;
  return impl->guest_call_fnptr<GLong, GLong>(cbrep, x + 1);
}
static GLong gfn_other(GLong x) { return x + 2; }
static vsbx::Library& the_lib()
{
  static vsbx::Library lib("L", { { "gfn_plain", (void*)&gfn_plain }, { "gfn_other", (void*)&gfn_other } });
  return lib;
}
#endif

static std::string off_of(Inst& in, const void* p)
{
#ifdef THR_NOOP
  (void)in; (void)p; return "";
#else
  return std::to_string(reinterpret_cast<uintptr_t>(p) - in.sb.get_sandbox_impl()->Base);
#endif
}

static void do_op(Ctx& c, const std::string& op)
{
  auto add = [&](const std::string& s) { if (!c.log.empty()) c.log += ","; c.log += s; };
  if (op.size() != 2) { add("?"); return; }
  int i = op[1] - '0';
  if (i < 0 || i > 1) { add("?"); return; }
  Inst& in = c.inst[i];
  try {
    switch (op[0]) {
      case 'c':
        if (in.created) { add("-"); break; }
#ifdef THR_NOOP
        in.sb.create_sandbox();
#else
        in.sb.create_sandbox(&the_lib(), true, c.tid * 2 + i);
#endif
        in.created = true; in.registered = false; in.has_ptr = false; in.has_cell = false;
        add("c"); break;
      case 'd':
        if (!in.created) { add("-"); break; }
        if (in.registered) { in.cb.unregister(); in.registered = false; }
        in.sb.destroy_sandbox();
        in.created = false; in.has_ptr = false; in.has_cell = false;
        add("d"); break;
      case 'm': {
        if (!in.created) { add("-"); break; }
        in.ptr = in.sb.template malloc_in_sandbox<long>();
        in.counter++;
        *in.ptr = (long)((i + 1) * 1000 + in.counter);
        in.has_ptr = true;
        add("m" + off_of(in, in.ptr.UNSAFE_unverified())); break;
      }
      case 'r':
        if (!in.created || !in.has_ptr) { add("-"); break; }
        add("r" + std::to_string((*in.ptr).UNSAFE_unverified())); break;
      case 'p': {
        if (!in.created || !in.has_ptr) { add("-"); break; }
        if (!in.has_cell) { in.cell = in.sb.template malloc_in_sandbox<long*>(); in.has_cell = true; }
        *in.cell = in.ptr;
        tainted<long*, SbxT> back = *in.cell;
        add(std::string("p") + (back.UNSAFE_unverified() == in.ptr.UNSAFE_unverified() ? "1" : "0")); break;
      }
      case 'g':
        if (!in.created || in.registered) { add("-"); break; }
        in.cb = in.sb.register_callback(the_callback);
        in.registered = true;
        add("g"); break;
      case 'u':
        if (!in.registered) { add("-"); break; }
        in.cb.unregister(); in.registered = false;
        add("u"); break;
      case 'f': {
        if (!in.created || !in.registered) { add("-"); break; }
        auto fc = in.sb.template malloc_in_sandbox<CbSig>();
        *fc = in.cb;
        tainted<CbSig, SbxT> g = *fc;       // function-pointer load: example-based lookup of the owning sandbox
        add(std::string("f") + (g.UNSAFE_sandboxed(in.sb) == in.cb.UNSAFE_sandboxed(in.sb) ? "1" : "0")); break;
      }
      case 'i': {
        if (!in.created) { add("-"); break; }
        in.counter++;
        if (in.registered) {
          std::string saw = "none"; t_cbsaw = &saw;
          auto r = in.sb.template INTERNAL_invoke_with_func_ptr<long(long, CbSig)>("gfn_cb", reinterpret_cast<void*>(&gfn_cb), in.counter, in.cb);
          t_cbsaw = nullptr;
          add("i" + std::to_string(r.UNSAFE_unverified()) + ":" + saw);
        } else {
          auto r = in.sb.template INTERNAL_invoke_with_func_ptr<long(long)>("gfn_plain", reinterpret_cast<void*>(&gfn_plain), in.counter);
          add("i" + std::to_string(r.UNSAFE_unverified()));
        }
        break;
      }
      case 'a': {
        // app pointer: register an application object, look the token up, release it; the token values a thread gets for ITS
        // sandbox do not depend on what other threads do with theirs
        if (!in.created) { add("-"); break; }
        static thread_local int obj;
        auto ap = in.sb.get_app_pointer(&obj);
        auto t = ap.to_tainted();
#ifdef THR_NOOP
        uintptr_t tok = reinterpret_cast<uintptr_t>(t.UNSAFE_unverified());
#else
        uintptr_t tok = reinterpret_cast<uintptr_t>(t.UNSAFE_unverified()) - in.sb.get_sandbox_impl()->Base;
#endif
        bool ok = in.sb.lookup_app_ptr(t) == &obj;
        ap.unregister();
        add("a" + std::to_string(tok) + (ok ? "" : "!")); break;
      }
      case 'l': {
        // by-name symbol lookup: two names, each resolved by THIS instance and remembered in ITS cache; concurrent lookups in other
        // threads' instances must not mix the names up (the no-op backend resolves names at compile time: nothing to look up)
        if (!in.created) { add("-"); break; }
#ifdef THR_NOOP
        add("l1");
#else
        bool ok = true;
        for (int k = 0; k < 3; k++) {
          ok = ok && in.sb.lookup_symbol("gfn_plain") == reinterpret_cast<void*>(&gfn_plain);
          ok = ok && in.sb.lookup_symbol("gfn_other") == reinterpret_cast<void*>(&gfn_other);
        }
        add(ok ? "l1" : "l0");
#endif
        break;
      }
      default: add("?");
    }
  } catch (const std::runtime_error& e) { add(std::string("abort(") + op + ")"); }
}

static void run_prog(Ctx& c, const std::vector<std::string>& prog)
{
  t_ctx = &c;
  for (auto& op : prog) { do_op(c, op); maybe_yield(c, 30); }
  // leave nothing alive
  for (int i = 0; i < 2; i++) {
    Inst& in = c.inst[i];
    try {
      if (in.registered) { in.cb.unregister(); in.registered = false; }
      if (in.created) { in.sb.destroy_sandbox(); in.created = false; }
    } catch (...) {}
  }
  t_ctx = nullptr;
}

int main()
{
  main_loop([&](const std::vector<std::string>& t) -> std::string {
    if (t.size() < 4 || t[0] != "thr") return "badop";
    int n = atoi(t[1].c_str()); uint64_t yseed = (uint64_t)parse_dec(t[2]);
    std::vector<std::vector<std::string>> progs; 
    for (size_t k = 3; k < t.size(); k++) { if (t[k] == "|") progs.emplace_back(); else if (!progs.empty()) progs.back().push_back(t[k]); }
    if ((int)progs.size() != n || n < 1 || n > 16) return "badop";
    std::vector<std::unique_ptr<Ctx>> conc, alone;
    for (int k = 0; k < n; k++) { conc.emplace_back(new Ctx); conc.back()->tid = k; conc.back()->rng = yseed * 977 + k + 1; conc.back()->yields = true; }
    std::atomic<int> ready{ 0 };
    std::vector<std::thread> th;
    for (int k = 0; k < n; k++)
      th.emplace_back([&, k] {
        ready.fetch_add(1);
        while (ready.load() < n) sched_yield();
        run_prog(*conc[k], progs[k]);
      });
    for (auto& x : th) x.join();
    for (int k = 0; k < n; k++) { alone.emplace_back(new Ctx); alone.back()->tid = k; run_prog(*alone[k], progs[k]); }
    std::string out = "ok";
    for (int k = 0; k < n; k++) out += " T" + std::to_string(k) + "=" + conc[k]->log + " A" + std::to_string(k) + "=" + alone[k]->log;
    return out;
  });
  return 0;
}
