// Engine `ops` (C16): operators on tainted numbers vs the plain C++ operators, on the foreign-ABI backend.
//   bin   <op> <lw>:<lty> <rw>:<rty> <a> <b>     -> ok <type> <value> | undef | abort
//   binblk <op> <lw>:<lty> <rw>:<rty>            -> hash over all 8-bit x 8-bit operand pairs
//   cmpd  <op> <lw>:<lty> <rw>:<rty> <a> <b>     -> ok <exprvalue> <newleft> | undef | abort | nc
//   incdec <form> <lw>:<lty> <a>                 -> ok <exprvalue> <newvalue> | undef | abort | nc
// The static type of every wrapped expression is asserted at compile time against decltype of the plain one.
#include "vtypes.hpp"

using namespace vh;
using rlbox::tainted;
using rlbox::tainted_volatile;
using Sb = rlbox::rlbox_sandbox<SbxA>;

#ifndef OPS_PART
#  define OPS_PART -1
#endif
extern Sb g_sb;
#if OPS_PART < 0
Sb g_sb;
#endif

using OpTypes = TL<bool, signed char, unsigned char, short, unsigned short, int, unsigned int, long, unsigned long,
                   long long, unsigned long long>;
static const char* const OpNames[] = { "bool", "schar", "uchar", "short", "ushort", "int", "uint", "long", "ulong", "llong", "ullong" };
constexpr size_t NT = OpTypes::n;

template<typename T> static std::string tyname()
{
  return std::string(std::is_same_v<T, bool> ? "b" : std::is_signed_v<T> ? "s" : "u") + std::to_string(sizeof(T));
}
template<typename T> static constexpr int bits() { return std::is_same_v<T, bool> ? 8 : (int)sizeof(T) * 8; }

enum { PLAIN = 0, TAINTED = 1, TVOL = 2 };

// is the plain expression `a op b` defined? (computed in 128-bit arithmetic, independent of the evaluation)
template<typename L, typename R> static bool defined_bin(int op, i128 a, i128 b)
{
  using P = decltype(+std::declval<L>());
  if (op == 8 || op == 9) { // << >>
    if (b < 0 || b >= (i128)sizeof(P) * 8) return false;
    if (op == 8 && std::is_signed_v<P>) { if (a < 0) return false; i128 r = a << (int)b; return representable<P>(r); }
    return true;
  }
  using Rt = decltype(std::declval<L>() + std::declval<R>());
  // operands after conversion to the common type
  i128 ca = as_math((Rt)(L)a), cb = as_math((Rt)(R)b);
  if (op == 3 || op == 4) {
    if (cb == 0) return false;
    if (std::is_signed_v<Rt> && ca == (i128)std::numeric_limits<Rt>::min() && cb == -1) return false;
    return true;
  }
  if (!std::is_signed_v<Rt>) return true;
  i128 r = op == 0 ? ca + cb : op == 1 ? ca - cb : op == 2 ? ca * cb : 0;
  return op > 2 || representable<Rt>(r);
}

template<typename T, int W> struct Holder;
template<typename T> struct Holder<T, PLAIN> { T v; explicit Holder(T x) : v(x) {} T& get() { return v; } };
template<typename T> struct Holder<T, TAINTED> { tainted<T, SbxA> v; explicit Holder(T x) : v(x) {} tainted<T, SbxA>& get() { return v; } };
template<typename T> struct Holder<T, TVOL> {
  tainted<T*, SbxA> p;
  explicit Holder(T x) { p = g_sb.malloc_in_sandbox<T>(); *p = x; }
  tainted_volatile<T, SbxA>& get() { return *p; }
};

static const char* const BinOps[] = { "+", "-", "*", "/", "%", "^", "&", "|", "<<", ">>", "==", "!=", "<", "<=", ">", ">=", "&&", "||" };
constexpr int NBIN = 18;

#define APPLY(OPI, X, Y)                                                                                             \
  ((OPI) == 0 ? vv((X) + (Y)) : (OPI) == 1 ? vv((X) - (Y)) : (OPI) == 2 ? vv((X) * (Y)) : (OPI) == 3 ? vv((X) / (Y))   \
   : (OPI) == 4 ? vv((X) % (Y)) : (OPI) == 5 ? vv((X) ^ (Y)) : (OPI) == 6 ? band((X), (Y)) : (OPI) == 7 ? vv((X) | (Y)) \
   : (OPI) == 8 ? vv((X) << (Y)) : (OPI) == 9 ? vv((X) >> (Y)) : (OPI) == 10 ? vv((X) == (Y))                           \
   : (OPI) == 11 ? vv((X) != (Y)) : (OPI) == 12 ? vv((X) < (Y)) : (OPI) == 13 ? vv((X) <= (Y))                          \
   : (OPI) == 14 ? vv((X) > (Y)) : (OPI) == 15 ? vv((X) >= (Y)) : (OPI) == 16 ? vv((X) && (Y)) : vv((X) || (Y)))

template<typename V> static std::string show_val(const V& v)
{
  if constexpr (std::is_same_v<V, rlbox::tainted_boolean_hint>) return std::string("hint ") + (v.UNSAFE_unverified() ? "1" : "0");
  else if constexpr (std::is_arithmetic_v<V>) return tyname<V>() + " " + to_dec(as_math(v));
  else { auto r = v.UNSAFE_unverified(); return tyname<decltype(r)>() + " " + to_dec(as_math(r)); }
}
template<typename V> static std::string vv(const V& v) { return show_val(v); }
// `tainted_volatile & tainted_volatile` does not compile (the forwarding operator& takes its operand by value)
template<typename X, typename Y> static std::string band(X& x, Y& y)
{
  if constexpr (rlbox::detail::rlbox_is_tainted_volatile_v<X> && rlbox::detail::rlbox_is_tainted_volatile_v<Y>) return "nc";
  else return show_val(x & y);
}

// compile-time check: wrapped result type == tainted<decltype(plain)> (comparisons: tainted<bool> / hint)
template<typename L, typename R, int LW, int RW> static void type_asserts()
{
  using HL = decltype(std::declval<Holder<L, LW>>().get());
  using HR = decltype(std::declval<Holder<R, RW>>().get());
#define TA(op) static_assert(std::is_same_v<decltype(std::declval<HL>() op std::declval<HR>()), tainted<decltype(std::declval<L>() op std::declval<R>()), SbxA>>, "result type of " #op);
  TA(+) TA(-) TA(*) TA(/) TA(%) TA(^) TA(|) TA(<<) TA(>>)
  if constexpr (!(LW == TVOL && RW == TVOL)) { TA(&) }
#undef TA
  constexpr bool hint = LW == TVOL || RW == TVOL;
#define TC(op) static_assert(std::is_same_v<decltype(std::declval<HL>() op std::declval<HR>()), std::conditional_t<hint, rlbox::tainted_boolean_hint, tainted<bool, SbxA>>>, "result type of " #op);
  TC(==) TC(!=) TC(<) TC(<=) TC(>) TC(>=)
#undef TC
  // logical operators: tainted<bool> whatever the wrappers (never a hint)
#define TL(op) static_assert(std::is_same_v<decltype(std::declval<HL>() op std::declval<HR>()), tainted<bool, SbxA>>, "result type of " #op);
  TL(&&) TL(||)
#undef TL
}

template<typename L, typename R, int LW, int RW>
static std::string bin_one(int op, i128 a, i128 b)
{
  if (!representable<L>(a) || !representable<R>(b)) return "badinput";
  if (op < 10 && !defined_bin<L, R>(op, a, b)) return "undef";
#ifndef OPS_NO_TYPE_ASSERTS
  type_asserts<L, R, LW, RW>();
#endif
  if (g_sb.get_sandbox_impl()->brk > (1u << 15)) g_sb.get_sandbox_impl()->brk = 16;
  Holder<L, LW> hl((L)a); Holder<R, RW> hr((R)b);
  auto& x = hl.get(); auto& y = hr.get();
  std::string got = APPLY(op, x, y);
  if (got == "nc") return "nc";
  // oracle: the same expression on the plain values
  L pa = (L)a; R pb = (R)b;
  std::string want = APPLY(op, pa, pb);
  if (op >= 10) { // comparisons: value must agree, wrapper printed by the implementation
    bool pv = want.back() == '1';
    bool gv = got.back() == '1';
    return std::string(gv == pv ? "ok " : "MISMATCH ") + got;
  }
  return std::string(got == want ? "ok " : "MISMATCH ") + got + (got == want ? "" : " want " + want);
}

template<typename L, typename R, int LW, int RW>
static std::string bin_blk(int op)
{
  Fnv h; uint64_t n = 0, mism = 0;
  i128 alo = std::is_same_v<L, bool> ? 0 : (i128)std::numeric_limits<L>::min(), ahi = std::is_same_v<L, bool> ? 1 : (i128)std::numeric_limits<L>::max();
  i128 blo = std::is_same_v<R, bool> ? 0 : (i128)std::numeric_limits<R>::min(), bhi = std::is_same_v<R, bool> ? 1 : (i128)std::numeric_limits<R>::max();
  for (i128 a = alo; a <= ahi; a++) for (i128 b = blo; b <= bhi; b++) {
    std::string r = bin_one<L, R, LW, RW>(op, a, b);
    if (r.rfind("MISMATCH", 0) == 0) mism++;
    h.add(r); h.add("\n"); n++;
  }
  return "hash " + std::to_string(h.h) + " n=" + std::to_string(n) + " mismatch=" + std::to_string(mism);
}

// compound assignment / ++ --: only the combinations that compile
template<typename L, typename R, int LW, int RW>
static std::string cmpd_one(int op, i128 a, i128 b)
{
  if (!representable<L>(a) || !representable<R>(b)) return "badinput";
  if (!defined_bin<L, R>(op, a, b)) return "undef";
  if (g_sb.get_sandbox_impl()->brk > (1u << 15)) g_sb.get_sandbox_impl()->brk = 16;
  using P = decltype(std::declval<L>() + std::declval<R>());
  using PS = decltype(std::declval<L>() << std::declval<R>());
  if constexpr (LW == PLAIN || std::is_same_v<L, bool>) return "nc";
  else {
    // on a tainted<L> left operand the compound form is `x = x op y`: it exists when the promoted result can be assigned back,
    // i.e. when it has type L -- or when the library offers a converting assignment (then it must behave like the plain operator)
    constexpr bool ok_arith = LW == TVOL || std::is_same_v<P, L> || std::is_assignable_v<tainted<L, SbxA>&, tainted<P, SbxA>>;
    constexpr bool ok_shift = LW == TVOL || std::is_same_v<PS, L> || std::is_assignable_v<tainted<L, SbxA>&, tainted<PS, SbxA>>;
    Holder<L, LW> hl((L)a); Holder<R, RW> hr((R)b);
    auto& x = hl.get(); auto& y = hr.get();
    auto fin = [&](auto& e) { return "ok " + show_val(e) + " " + show_val(x); };
    if (op <= 7) {
      if constexpr (ok_arith) {
        switch (op) {
          case 0: { auto& e = (x += y); return fin(e); } case 1: { auto& e = (x -= y); return fin(e); }
          case 2: { auto& e = (x *= y); return fin(e); } case 3: { auto& e = (x /= y); return fin(e); }
          case 4: { auto& e = (x %= y); return fin(e); } case 5: { auto& e = (x ^= y); return fin(e); }
          case 6: { if constexpr (LW == TVOL && RW == TVOL) return "nc"; else { auto& e = (x &= y); return fin(e); } }
          default: { auto& e = (x |= y); return fin(e); }
        }
      } else return "nc";
    } else {
      if constexpr (ok_shift) {
        if (op == 8) { auto& e = (x <<= y); return fin(e); }
        auto& e = (x >>= y); return fin(e);
      } else return "nc";
    }
  }
}

template<typename L, int LW>
static std::string incdec_one(const std::string& form, i128 a)
{
  if (!representable<L>(a)) return "badinput";
  if (g_sb.get_sandbox_impl()->brk > (1u << 15)) g_sb.get_sandbox_impl()->brk = 16;
  using P = decltype(std::declval<L>() + 1);
  bool dec = form.find("dec") != std::string::npos;
  if (!defined_bin<L, int>(dec ? 1 : 0, a, 1)) return "undef";
  if constexpr (LW == PLAIN || std::is_same_v<L, bool>) return "nc";
  else if constexpr (LW == TAINTED && !std::is_same_v<P, L> && !std::is_assignable_v<tainted<L, SbxA>&, tainted<P, SbxA>>) return "nc";
  else {
    Holder<L, LW> hl((L)a);
    auto& x = hl.get();
    if (form == "preinc") { auto& e = ++x; return "ok " + show_val(e) + " " + show_val(x); }
    if (form == "predec") { auto& e = --x; return "ok " + show_val(e) + " " + show_val(x); }
    if constexpr (LW == TAINTED) { // post forms on tainted_volatile do not compile (they return T_Wrap by value)
      if (form == "postinc") { auto e = x++; return "ok " + show_val(e) + " " + show_val(x); }
      if (form == "postdec") { auto e = x--; return "ok " + show_val(e) + " " + show_val(x); }
    }
    return "nc";
  }
}

template<typename L, int LW>
static std::string unary_one(const std::string& form, i128 a)
{
  if (!representable<L>(a)) return "badinput";
  if (g_sb.get_sandbox_impl()->brk > (1u << 15)) g_sb.get_sandbox_impl()->brk = 16;
  using P = decltype(+std::declval<L>());
  if (form == "neg" && std::is_signed_v<P> && a == (i128)std::numeric_limits<P>::min()) return "undef";
  if constexpr (LW == PLAIN) return "nc";
  else {
    Holder<L, LW> hl((L)a);
    auto& x = hl.get();
    L pa = (L)a;
    if (form == "neg") { auto g = show_val(-x), w = show_val(-pa); return (g == w ? "ok " : "MISMATCH ") + g; }
    if (form == "bnot") {
      if constexpr (std::is_same_v<L, bool>) { auto g = show_val(~x); return "ok " + g; }
      else { auto g = show_val(~x), w = show_val(~pa); return (g == w ? "ok " : "MISMATCH ") + g; }
    }
    return "badop";
  }
}

using BinFn = std::string (*)(int, i128, i128);
using BlkFn = std::string (*)(int);
using IdFn = std::string (*)(const std::string&, i128);
extern BinFn g_bin[NT][NT][3][3]; extern BlkFn g_blk[NT][NT][3][3]; extern BinFn g_cmpd[NT][NT][3][3];
extern IdFn g_incdec[NT][3]; extern IdFn g_unary[NT][3];
#if OPS_PART < 0
BinFn g_bin[NT][NT][3][3]; BlkFn g_blk[NT][NT][3][3]; BinFn g_cmpd[NT][NT][3][3]; IdFn g_incdec[NT][3]; IdFn g_unary[NT][3];
#endif

template<size_t I, size_t J, int LW, int RW> static void fill_w()
{
  using L = nth_t<I, OpTypes>; using R = nth_t<J, OpTypes>;
  if constexpr (!(LW == PLAIN && RW == PLAIN)) {
    g_bin[I][J][LW][RW] = &bin_one<L, R, LW, RW>;
    if constexpr (sizeof(L) == 1 && sizeof(R) == 1) g_blk[I][J][LW][RW] = &bin_blk<L, R, LW, RW>;
    if constexpr (LW != PLAIN) g_cmpd[I][J][LW][RW] = &cmpd_one<L, R, LW, RW>;
  }
}
template<size_t I, size_t J> static void fill_cell()
{
  fill_w<I, J, TAINTED, PLAIN>(); fill_w<I, J, TAINTED, TAINTED>(); fill_w<I, J, TAINTED, TVOL>();
  fill_w<I, J, TVOL, PLAIN>(); fill_w<I, J, TVOL, TAINTED>(); fill_w<I, J, TVOL, TVOL>();
  fill_w<I, J, PLAIN, TAINTED>(); fill_w<I, J, PLAIN, TVOL>();
}
template<size_t I, size_t... Js> static void fill_row(std::index_sequence<Js...>)
{
  (fill_cell<I, Js>(), ...);
  using L = nth_t<I, OpTypes>;
  g_incdec[I][TAINTED] = &incdec_one<L, TAINTED>; g_incdec[I][TVOL] = &incdec_one<L, TVOL>;
  g_unary[I][TAINTED] = &unary_one<L, TAINTED>; g_unary[I][TVOL] = &unary_one<L, TVOL>;
}

#if OPS_PART >= 0
namespace { struct Reg { Reg() { fill_row<OPS_PART>(std::make_index_sequence<NT>()); } }; }
static Reg g_reg;
#else
static bool parse_operand(const std::string& s, int& w, int& t)
{
  auto c = s.find(':');
  if (c == std::string::npos) return false;
  std::string ws = s.substr(0, c), ts = s.substr(c + 1);
  w = ws == "plain" ? 0 : ws == "tainted" ? 1 : ws == "tvol" ? 2 : -1;
  t = -1;
  for (size_t i = 0; i < NT; i++) if (ts == OpNames[i]) t = (int)i;
  return w >= 0 && t >= 0;
}
int main()
{
  g_sb.create_sandbox();
  main_loop([&](const std::vector<std::string>& t) -> std::string {
    return guarded([&]() -> std::string {
      const std::string& c = t[0];
      if ((c == "bin" || c == "cmpd") && t.size() == 6) {
        int op = -1; for (int i = 0; i < NBIN; i++) if (t[1] == BinOps[i]) op = i;
        int lw, lt, rw, rt;
        if (op < 0 || !parse_operand(t[2], lw, lt) || !parse_operand(t[3], rw, rt)) return "badop";
        auto f = c == "bin" ? g_bin[lt][rt][lw][rw] : (op < 10 ? g_cmpd[lt][rt][lw][rw] : nullptr);
        if (!f) return "badop";
        return f(op, parse_dec(t[4]), parse_dec(t[5]));
      }
      if (c == "binblk" && t.size() == 4) {
        int op = -1; for (int i = 0; i < NBIN; i++) if (t[1] == BinOps[i]) op = i;
        int lw, lt, rw, rt;
        if (op < 0 || !parse_operand(t[2], lw, lt) || !parse_operand(t[3], rw, rt) || !g_blk[lt][rt][lw][rw]) return "badop";
        return g_blk[lt][rt][lw][rw](op);
      }
      if ((c == "incdec" || c == "unary") && t.size() == 4) {
        int lw, lt;
        if (!parse_operand(t[2], lw, lt)) return "badop";
        auto f = c == "incdec" ? g_incdec[lt][lw] : g_unary[lt][lw];
        if (!f) return "badop";
        return f(t[1], parse_dec(t[3]));
      }
      return "badop";
    });
  });
  return 0;
}
#endif
