// Engine `tokens` (C15): the app-pointer token table instantiated directly at 8/32/64 bits, and the
// owner objects (app_pointer) on real sandboxes (vsbx ABI A, noop).
#include "vtypes.hpp"
#include "rlbox_noop_sandbox.hpp"
#include <memory>

using namespace vh;
using rlbox::tainted;

struct TabBase {
  virtual ~TabBase() {}
  virtual std::string reg(uintptr_t p) = 0;
  virtual std::string rel(uint64_t t) = 0;
  virtual std::string look(uint64_t t) = 0;
};
template<typename P> struct Tab : TabBase {
  rlbox::app_pointer_map<P> m; P max;
  explicit Tab(uint64_t mx) : max((P)mx) {}
  std::string reg(uintptr_t p) override { return "ok " + std::to_string((uint64_t)m.get_app_pointer_idx(reinterpret_cast<void*>(p), max)); }
  std::string rel(uint64_t t) override { m.remove_app_ptr((P)t); return "ok"; }
  std::string look(uint64_t t) override
  {
    void* r = m.lookup_index((P)t);
    return r ? "ok " + std::to_string(reinterpret_cast<uintptr_t>(r) - 0x1000) : std::string("ok null");
  }
};
static std::unique_ptr<TabBase> g_tab;

// owners on a real sandbox
template<typename Sbx> struct Own {
  rlbox::rlbox_sandbox<Sbx> sb;
  using AP = rlbox::app_pointer<int*, Sbx>;
  alignas(AP) unsigned char store[3][sizeof(AP)];
  AP& o(int i) { return *reinterpret_cast<AP*>(store[i]); }
  Own() { sb.create_sandbox(); for (int i = 0; i < 3; i++) new (store[i]) AP(); }
  ~Own() { for (int i = 0; i < 3; i++) o(i).~AP(); sb.destroy_sandbox(); }
  static uint64_t tokval(typename Sbx::T_PointerType t)
  {
    if constexpr (std::is_pointer_v<typename Sbx::T_PointerType>) return (uint64_t)reinterpret_cast<uintptr_t>(t);
    else return (uint64_t)t;
  }
  std::string reg(int i, uintptr_t p)
  {
    o(i) = sb.get_app_pointer(reinterpret_cast<int*>(p));
    return "ok " + std::to_string(tokval(o(i).UNSAFE_sandboxed(sb)));
  }
  // the tainted pointer an owner hands out: null when it holds nothing; otherwise it designates memory of THIS sandbox, its guest
  // representation is the token, and looking it up gives the application pointer back
  std::string tt(int i)
  {
    auto tp = o(i).to_tainted();
    if (tp == nullptr) return "ok tt=null";
    auto* raw = tp.UNSAFE_unverified();
    bool in = sb.is_pointer_in_sandbox_memory(raw);      // (the noop backend calls every address both sandbox and application memory)
    if constexpr (!std::is_pointer_v<typename Sbx::T_PointerType>) {
      auto a = reinterpret_cast<uintptr_t>(raw), b = (uintptr_t)sb.get_sandbox_impl()->Base;
      in = in && a >= b && a - b < sb.get_total_memory();
    }
    bool same = tokval(tp.UNSAFE_sandboxed(sb)) == tokval(o(i).UNSAFE_sandboxed(sb));
    int* r = sb.lookup_app_ptr(tp);
    return std::string("ok tt=") + (in ? "in" : "out") + " same=" + (same ? "1" : "0") + " rt=" + (r ? std::to_string(reinterpret_cast<uintptr_t>(r) - 0x1000) : std::string("null"));
  }
  std::string stat(int i) { return "tok=" + std::to_string(tokval(o(i).UNSAFE_sandboxed(sb))) + " unreg=" + (o(i).is_unregistered() ? "1" : "0"); }
  std::string look(uint64_t t)
  {
    tainted<int*, Sbx> tp = nullptr;
    if (t != 0) {
      if constexpr (std::is_pointer_v<typename Sbx::T_PointerType>) tp.assign_raw_pointer(sb, reinterpret_cast<int*>((uintptr_t)t));
      else tp.assign_raw_pointer(sb, reinterpret_cast<int*>(sb.get_sandbox_impl()->Base + (uintptr_t)t));
    }
    int* r = sb.lookup_app_ptr(tp);
    return r ? "ok " + std::to_string(reinterpret_cast<uintptr_t>(r) - 0x1000) : std::string("ok null");
  }
};
static std::unique_ptr<Own<SbxA>> g_ov;
static std::unique_ptr<Own<rlbox::rlbox_noop_sandbox>> g_on;

int main()
{
  main_loop([&](const std::vector<std::string>& t) -> std::string {
    return guarded([&]() -> std::string {
      const std::string& op = t[0];
      if (op == "tnew") {
        uint64_t mx = (uint64_t)parse_dec(t[2]);
        if (t[1] == "8") g_tab.reset(new Tab<uint8_t>(mx));
        else if (t[1] == "32") g_tab.reset(new Tab<uint32_t>(mx));
        else g_tab.reset(new Tab<uint64_t>(mx));
        return "ok";
      }
      if (op == "treg") return g_tab->reg(0x1000 + (uintptr_t)parse_dec(t[1]));
      if (op == "tregn") return g_tab->reg(0);     // the application registers a NULL pointer: it gets an ordinary (non-zero, unique) token
      if (op == "trel") return g_tab->rel((uint64_t)parse_dec(t[1]));
      if (op == "tlook") return g_tab->look((uint64_t)parse_dec(t[1]));
      if (op == "tstate") return "-"; // only the model can print its state
      if (op == "onew") {
        g_ov.reset(); g_on.reset();
        if (t[1] == "vsbx") g_ov.reset(new Own<SbxA>()); else g_on.reset(new Own<rlbox::rlbox_noop_sandbox>());
        return "ok";
      }
      auto with = [&](auto&& f) -> std::string { return g_ov ? f(*g_ov) : f(*g_on); };
      if (op == "oreg") return with([&](auto& w) { return w.reg(atoi(t[1].c_str()), 0x1000 + (uintptr_t)parse_dec(t[2])); });
      if (op == "omove") return with([&](auto& w) { w.o(atoi(t[1].c_str())) = std::move(w.o(atoi(t[2].c_str()))); return std::string("ok"); });
      if (op == "omovec") return with([&](auto& w) { // move CONSTRUCTION: the destination is a new object built from the source
        using AP = std::remove_reference_t<decltype(w.o(0))>;
        int d = atoi(t[1].c_str()), r = atoi(t[2].c_str());
        if (d == r) return std::string("ok");
        w.o(d).~AP(); new (w.store[d]) AP(std::move(w.o(r)));
        return std::string("ok"); });
      if (op == "ofill") return with([&](auto& w) -> std::string { // register fresh pointers until the sandbox refuses
        using AP = std::remove_reference_t<decltype(w.o(0))>;
        uint64_t n = 0, mx = 0; bool zero = false;
        try {
          for (;; n++) {
            if (n > 70000) return "ok n=toomany";
            auto* leak = new AP(w.sb.get_app_pointer(reinterpret_cast<int*>(0x100000 + n)));
            uint64_t tk = w.tokval(leak->UNSAFE_sandboxed(w.sb));
            if (tk == 0) zero = true;
            if (tk > mx) mx = tk;
          }
        } catch (const std::runtime_error&) {}
        return "ok n=" + std::to_string(n) + " max=" + std::to_string(mx) + " zero=" + (zero ? "1" : "0"); });
      if (op == "ounreg") return with([&](auto& w) { w.o(atoi(t[1].c_str())).unregister(); return std::string("ok"); });
      if (op == "odestroy") return with([&](auto& w) {
        using AP = std::remove_reference_t<decltype(w.o(0))>;
        int i = atoi(t[1].c_str()); w.o(i).~AP(); new (w.store[i]) AP(); return std::string("ok"); });
      if (op == "ostat") return with([&](auto& w) { return w.stat(atoi(t[1].c_str())); });
      if (op == "ott") return with([&](auto& w) { return w.tt(atoi(t[1].c_str())); });
      if (op == "olook") return with([&](auto& w) { return w.look((uint64_t)parse_dec(t[1])); });
      return "badop";
    });
  });
  g_ov.reset(); g_on.reset();
  return 0;
}
