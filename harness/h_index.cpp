// Engine `index` (C17): bounds-checked indexing of tainted fixed-size arrays in application memory
// (tainted<T[N]>) and in sandbox memory (tainted_volatile<T[N]>).
//   index  <app|sbx> <elty> <len> <plain|tainted|tvol> <nty> <v>
//   index2 <app|sbx> <elty> <shape> <nty> <i> <j> [<k>]
#include "vtypes.hpp"

using namespace vh;
using rlbox::tainted;
using Sb = rlbox::rlbox_sandbox<SbxA>;

#ifndef IDX_PART
#  define IDX_PART -1
#endif
extern Sb g_sb0;
#if IDX_PART < 0
Sb g_sb0;
#endif

enum Wrap { PLAIN = 0, TAINTED = 1, TVOL = 2 };

template<typename N, int W, typename K>
static std::string with_index(i128 nv, K&& k)
{
  if (!representable<N>(nv)) return "badinput";
  N n = (N)nv;
  if constexpr (W == PLAIN) return k(n);
  else if constexpr (W == TAINTED) { tainted<N, SbxA> t = n; return k(t); }
  else { auto cell = g_sb0.malloc_in_sandbox<N>(); *cell = n; return k(*cell); }
}

template<typename T, size_t L> struct AppArr { uint64_t canary0; tainted<T[L], SbxA> arr; uint64_t canary1; };

template<bool SBX, typename T, size_t L, typename N, int W>
static std::string index1(i128 v)
{
  return guarded([&]() -> std::string {
    if (g_sb0.get_sandbox_impl()->brk > (1u << 15)) g_sb0.get_sandbox_impl()->brk = 16;
    return with_index<N, W>(v, [&](auto& n) -> std::string {
      if constexpr (!SBX) {
        AppArr<T, L> a{};
        a.canary0 = 0x1122334455667788ull; a.canary1 = 0x8877665544332211ull;
        auto& el = a.arr[n];
        auto off = reinterpret_cast<const char*>(&el) - reinterpret_cast<const char*>(&a.arr);
        if (a.canary0 != 0x1122334455667788ull || a.canary1 != 0x8877665544332211ull) return "canary";
        return "ok " + std::to_string(off);
      } else {
        auto pa = g_sb0.malloc_in_sandbox<T[L]>();
        auto& el = (*pa)[n];
        auto pe = &el;
        auto off = reinterpret_cast<const char*>(pe.UNSAFE_unverified()) - reinterpret_cast<const char*>(pa.UNSAFE_unverified());
        return "ok " + std::to_string(off);
      }
    });
  });
}

template<bool SBX, typename T, size_t A, size_t B, typename N>
static std::string index2(i128 i, i128 j)
{
  return guarded([&]() -> std::string {
    if (!representable<N>(i) || !representable<N>(j)) return "badinput";
    if (g_sb0.get_sandbox_impl()->brk > (1u << 15)) g_sb0.get_sandbox_impl()->brk = 16;
    N ii = (N)i, jj = (N)j;
    if constexpr (!SBX) {
      tainted<T[A][B], SbxA> a{};
      auto& el = a[ii][jj];
      return "ok " + std::to_string(reinterpret_cast<const char*>(&el) - reinterpret_cast<const char*>(&a));
    } else {
      auto pa = g_sb0.malloc_in_sandbox<T[A][B]>();
      auto& el = (*pa)[ii][jj];
      auto pe = &el;
      return "ok " + std::to_string(reinterpret_cast<const char*>(pe.UNSAFE_unverified()) - reinterpret_cast<const char*>(pa.UNSAFE_unverified()));
    }
  });
}
template<bool SBX, typename T, size_t A, size_t B, size_t C, typename N>
static std::string index3(i128 i, i128 j, i128 k)
{
  return guarded([&]() -> std::string {
    if (!representable<N>(i) || !representable<N>(j) || !representable<N>(k)) return "badinput";
    if (g_sb0.get_sandbox_impl()->brk > (1u << 15)) g_sb0.get_sandbox_impl()->brk = 16;
    N ii = (N)i, jj = (N)j, kk = (N)k;
    if constexpr (!SBX) {
      tainted<T[A][B][C], SbxA> a{};
      auto& el = a[ii][jj][kk];
      return "ok " + std::to_string(reinterpret_cast<const char*>(&el) - reinterpret_cast<const char*>(&a));
    } else {
      auto pa = g_sb0.malloc_in_sandbox<T[A][B][C]>();
      auto& el = (*pa)[ii][jj][kk];
      auto pe = &el;
      return "ok " + std::to_string(reinterpret_cast<const char*>(pe.UNSAFE_unverified()) - reinterpret_cast<const char*>(pa.UNSAFE_unverified()));
    }
  });
}

using Fn = std::string (*)(i128);
using ElTypes = TL<char, long, int*>;
static const char* const ElNames[] = { "char", "long", "ptr" };
// index types: no bool (make_unsigned<bool> is ill-formed, such programs do not compile)
using IdxTypes = TL<char, signed char, unsigned char, short, unsigned short, int, unsigned int, long, unsigned long,
                    long long, unsigned long long, char16_t, char32_t, wchar_t>;
static const char* const IdxNames[] = { "char", "schar", "uchar", "short", "ushort", "int", "uint", "long", "ulong",
                                        "llong", "ullong", "char16", "char32", "wchar" };
constexpr size_t NI = IdxTypes::n;
constexpr size_t MAXL = 16;
// [sbx][el][len-1][idx][wrap]
extern Fn g_tab[2][3][MAXL][NI][3];
#if IDX_PART < 0
Fn g_tab[2][3][MAXL][NI][3];
#endif

template<size_t E, size_t L, size_t J> static void fill_cell()
{
  using T = nth_t<E, ElTypes>; using N = nth_t<J, IdxTypes>;
  g_tab[0][E][L - 1][J][0] = &index1<false, T, L, N, PLAIN>;
  g_tab[1][E][L - 1][J][0] = &index1<true, T, L, N, PLAIN>;
  if constexpr (std::is_same_v<N, int> || std::is_same_v<N, unsigned char> || std::is_same_v<N, long long> || std::is_same_v<N, unsigned long>) {
    g_tab[0][E][L - 1][J][1] = &index1<false, T, L, N, TAINTED>;
    g_tab[1][E][L - 1][J][1] = &index1<true, T, L, N, TAINTED>;
    g_tab[0][E][L - 1][J][2] = &index1<false, T, L, N, TVOL>;
    g_tab[1][E][L - 1][J][2] = &index1<true, T, L, N, TVOL>;
  }
}
template<size_t E, size_t L, size_t... Js> static void fill_row(std::index_sequence<Js...>) { (fill_cell<E, L, Js>(), ...); }

#if IDX_PART >= 0
namespace { struct Reg { Reg() {
  fill_row<0, IDX_PART + 1>(std::make_index_sequence<NI>());
  fill_row<1, IDX_PART + 1>(std::make_index_sequence<NI>());
  fill_row<2, IDX_PART + 1>(std::make_index_sequence<NI>());
} }; }
static Reg g_reg;
#else
template<typename N> static std::string multi(const std::vector<std::string>& t)
{
  bool sbx = t[1] == "sbx";
  i128 i = parse_dec(t[5]), j = parse_dec(t[6]);
  if (t[3] == "2x3" && t[2] == "long") return sbx ? index2<true, long, 2, 3, N>(i, j) : index2<false, long, 2, 3, N>(i, j);
  if (t[3] == "3x5" && t[2] == "long") return sbx ? index2<true, long, 3, 5, N>(i, j) : index2<false, long, 3, 5, N>(i, j);
  if (t[3] == "3x5" && t[2] == "char") return sbx ? index2<true, char, 3, 5, N>(i, j) : index2<false, char, 3, 5, N>(i, j);
  if (t[3] == "4x1" && t[2] == "ptr") return sbx ? index2<true, int*, 4, 1, N>(i, j) : index2<false, int*, 4, 1, N>(i, j);
  if (t[3] == "3x5" && t[2] == "short") return sbx ? index2<true, short, 3, 5, N>(i, j) : index2<false, short, 3, 5, N>(i, j);
  if (t[3] == "4x1" && t[2] == "short") return sbx ? index2<true, short, 4, 1, N>(i, j) : index2<false, short, 4, 1, N>(i, j);
  if (t[3] == "2x3" && t[2] == "int") return sbx ? index2<true, int, 2, 3, N>(i, j) : index2<false, int, 2, 3, N>(i, j);
  if (t[3] == "4x1" && t[2] == "uint") return sbx ? index2<true, unsigned, 4, 1, N>(i, j) : index2<false, unsigned, 4, 1, N>(i, j);
  if (t[3] == "2x3x4" && t[2] == "long" && t.size() == 8) {
    i128 k = parse_dec(t[7]);
    return sbx ? index3<true, long, 2, 3, 4, N>(i, j, k) : index3<false, long, 2, 3, 4, N>(i, j, k);
  }
  return "badop";
}
int main()
{
  g_sb0.create_sandbox();
  main_loop([&](const std::vector<std::string>& t) -> std::string {
    if (t[0] == "index" && t.size() == 7) {
      int s = t[1] == "sbx" ? 1 : t[1] == "app" ? 0 : -1, e = -1, j = -1, w = -1;
      for (size_t i = 0; i < 3; i++) if (t[2] == ElNames[i]) e = (int)i;
      for (size_t i = 0; i < NI; i++) if (t[5] == IdxNames[i]) j = (int)i;
      int len = atoi(t[3].c_str());
      if (t[4] == "plain") w = 0; else if (t[4] == "tainted") w = 1; else if (t[4] == "tvol") w = 2;
      if (len == 300 && e == 0 && (w == 0 || w == 1)) {
        // arrays longer than the positive range of a narrow index type: a negative 8-bit index must not pass as "255 < 300"
        i128 v = parse_dec(t[6]);
#define LONGARR(NAME, TYPE)                                                                                              \
        if (t[5] == NAME) return s ? (w ? index1<true, char, 300, TYPE, TAINTED>(v) : index1<true, char, 300, TYPE, PLAIN>(v))       \
                                   : (w ? index1<false, char, 300, TYPE, TAINTED>(v) : index1<false, char, 300, TYPE, PLAIN>(v));
        LONGARR("schar", signed char) LONGARR("char", char) LONGARR("short", short) LONGARR("int", int) LONGARR("uchar", unsigned char)
#undef LONGARR
        return "badop";
      }
      if (s < 0 || e < 0 || j < 0 || w < 0 || len < 1 || len > (int)MAXL || !g_tab[s][e][len - 1][j][w]) return "badop";
      return g_tab[s][e][len - 1][j][w](parse_dec(t[6]));
    }
    if (t[0] == "index2" && t.size() >= 7) {
      if (t[4] == "int") return multi<int>(t);
      if (t[4] == "uchar") return multi<unsigned char>(t);
      if (t[4] == "llong") return multi<long long>(t);
      if (t[4] == "ulong") return multi<unsigned long>(t);
      if (t[4] == "schar") return multi<signed char>(t);
      return "badop";
    }
    return "badop";
  });
  return 0;
}
#endif
