// Engine `invoke` (C11, C20 opaque arguments): a family of guest signatures, every argument wrapper
// form, three live instances bound to two libraries exporting the same names.
//   inv <sb> <sig> <form> <guest-ret> <v1> ... <vn>   -> ok calls=1 guest=[a,b,..] ret=<r> | abort calls=<n>
//   invn <sb> <name> <v>                               -> by-name lookup in the instance's library
//   fnaddr <sb> <name>                                 -> which function the tainted address designates
#include "vtypes.hpp"
#include <tuple>

using namespace vh;
using rlbox::tainted;
using rlbox::tainted_volatile;
using Sb = rlbox::rlbox_sandbox<SbxA>;
template<typename T> using G = rlbox::detail::convert_to_sandbox_equivalent_t<T, SbxA>;

static int32_t libA_scale(int32_t x) { return 2 * x; }
static int32_t libB_scale(int32_t x) { return 3 * x; }
static int32_t libA_id(int32_t x) { return x + 1000; }
static int32_t libB_id(int32_t x) { return x + 2000; }
static vsbx::Library g_libs[2] = {
  vsbx::Library("libA", { { "scale", (void*)&libA_scale }, { "ident", (void*)&libA_id } }),
  vsbx::Library("libB", { { "ident", (void*)&libB_id }, { "scale", (void*)&libB_scale } }),
};
static Sb g_sb[3];
static const int g_libof[3] = { 0, 1, 0 };

static int g_calls;
static std::string g_guest_log;

template<typename T> static std::string show_guest(const T& v)
{
  if constexpr (std::is_same_v<T, rlbox::Sbx_vlib_vst12<SbxA>>) return "{" + to_dec(as_math(v.c)) + "," + to_dec(as_math(v.l)) + "," + to_dec(as_math(v.p)) + "}";
  else if constexpr (std::is_floating_point_v<T>) return to_dec((i128)(long long)v);
  else if constexpr (std::is_enum_v<T>) return to_dec((i128)(long long)v);
  else return to_dec(as_math(v));
}
template<typename T> static T from_i128(i128 v)
{
  if constexpr (std::is_same_v<T, rlbox::Sbx_vlib_vst12<SbxA>>) { T s{}; s.c = (char)(v & 0x7f); s.l = (int32_t)(v >> 8); s.p = 0; return s; }
  else if constexpr (std::is_floating_point_v<T>) return (T)(long long)v;
  else return (T)v;
}

template<typename GR, typename... GA> struct GuestImpl {
  static inline i128 preset = 0;
  static GR fn(GA... a)
  {
    g_calls++;
    g_guest_log.clear();
    ((g_guest_log += (g_guest_log.empty() ? "" : ",") + show_guest(a)), ...);
    if constexpr (!std::is_void_v<GR>) return from_i128<GR>(preset);
  }
};

static tainted<long, SbxA> a_callback(Sb&, tainted<long, SbxA> x) { return x; }

// application-side argument of type A in wrapper form F built from the integer `v`
enum Form { F_PLAIN, F_TAINTED, F_OPAQUE, F_TVOL };
template<typename A> static tainted<A, SbxA> make_tainted(Sb& sb, i128 v)
{
  if constexpr (std::is_pointer_v<A> && !rlbox::detail::is_func_ptr_v<A>) {
    tainted<A, SbxA> p = nullptr;
    if (v != 0) p.assign_raw_pointer(sb, reinterpret_cast<A>(sb.get_sandbox_impl()->Base + (uintptr_t)v));
    return p;
  } else if constexpr (std::is_class_v<A>) {
    tainted<A, SbxA> s; s.c = (char)(v & 0x7f); s.l = (long)(v >> 8); s.p = nullptr; return s;
  } else if constexpr (std::is_floating_point_v<A>) {
    tainted<A, SbxA> t = (A)(long long)v; return t;
  } else { tainted<A, SbxA> t = (A)v; return t; }
}

template<typename R, typename... A> struct Sig {
  using App = R(A...);
  using Impl = GuestImpl<G<R>, G<A>...>;

  template<int F, size_t... Is>
  static std::string call(Sb& sb, i128 ret, const std::vector<i128>& v, std::index_sequence<Is...>)
  {
    Impl::preset = ret;
    g_calls = 0; g_guest_log.clear();
    // callbacks among the parameters are registered for the duration of the call
    auto cb = sb.register_callback(a_callback);
    std::string out;
    try {
      auto args = std::make_tuple(make_tainted_or_cb<A>(sb, v[Is], cb)...);
      auto run = [&](auto&&... as) {
        if constexpr (std::is_void_v<R>) { sb.template INTERNAL_invoke_with_func_ptr<App>("sig", reinterpret_cast<void*>(&Impl::fn), as...); return std::string("void"); }
        else { auto r = sb.template INTERNAL_invoke_with_func_ptr<App>("sig", reinterpret_cast<void*>(&Impl::fn), as...); return show_app<R>(sb, r); }
      };
      std::string r;
      if constexpr (F == F_PLAIN) r = run(plain_of<A>(std::get<Is>(args), v[Is])...);
      else if constexpr (F == F_TAINTED) r = run(tainted_of<A>(std::get<Is>(args))...);
      else if constexpr (F == F_OPAQUE) r = run(opaque_of<A>(std::get<Is>(args))...);
      else {
        auto cells = std::make_tuple(cell_of<A>(sb, std::get<Is>(args))...);
        r = run(deref_of<A>(std::get<Is>(cells), std::get<Is>(args))...);
      }
      out = "ok calls=" + std::to_string(g_calls) + " guest=[" + g_guest_log + "] ret=" + r;
    } catch (const std::runtime_error&) { out = "abort calls=" + std::to_string(g_calls); }
    return out;
  }

  // a sandbox_callback for function-pointer parameters, a tainted value otherwise
  template<typename T, typename CB> static auto make_tainted_or_cb(Sb& sb, i128 v, CB& cb)
  {
    if constexpr (rlbox::detail::is_func_ptr_v<T>) { (void)sb; (void)v; return &cb; }
    else return make_tainted<T>(sb, v);
  }
  template<typename T, typename X> static decltype(auto) plain_of(X& x, i128 v)
  {
    if constexpr (rlbox::detail::is_func_ptr_v<T>) { (void)v; return (*x); }                     // callbacks are passed as themselves
    else if constexpr (std::is_pointer_v<T>) { (void)x; (void)v; return nullptr; }               // raw pointers cannot be passed: null
    else if constexpr (std::is_class_v<T>) { (void)v; return x; }                                 // structs only as tainted
    else if constexpr (std::is_floating_point_v<T>) { (void)x; return (T)(long long)v; }
    else { (void)x; return (T)v; }
  }
  template<typename T, typename X> static decltype(auto) tainted_of(X& x)
  {
    if constexpr (rlbox::detail::is_func_ptr_v<T>) return (*x);
    else return (x);
  }
  template<typename T, typename X> static decltype(auto) opaque_of(X& x)
  {
    if constexpr (rlbox::detail::is_func_ptr_v<T>) return (*x);
    else return x.to_opaque();
  }
  template<typename T, typename X> static auto cell_of(Sb& sb, X& x)
  {
    if constexpr (rlbox::detail::is_func_ptr_v<T> || std::is_class_v<T>) { (void)sb; (void)x; return 0; }
    else { auto c = sb.template malloc_in_sandbox<T>(); *c = x; return c; }
  }
  template<typename T, typename C, typename X> static decltype(auto) deref_of(C& c, X& x)
  {
    if constexpr (rlbox::detail::is_func_ptr_v<T>) { (void)c; return (*x); }
    else if constexpr (std::is_class_v<T>) { (void)c; return (x); }
    else { (void)x; return (*c); }
  }
  template<typename T, typename X> static std::string show_app(Sb& sb, X& r)
  {
    if constexpr (std::is_pointer_v<T>) {
      auto p = reinterpret_cast<uintptr_t>(r.UNSAFE_unverified());
      return p == 0 ? "null" : "in:" + std::to_string(p - sb.get_sandbox_impl()->Base);
    } else if constexpr (std::is_class_v<T>) {
      auto s = r.UNSAFE_unverified(); return "{" + to_dec(as_math(s.c)) + "," + to_dec(as_math(s.l)) + "}";
    } else if constexpr (std::is_floating_point_v<T>) return to_dec((i128)(long long)r.UNSAFE_unverified());
    else return to_dec(as_math(r.UNSAFE_unverified()));
  }
  static std::string dispatch(Sb& sb, const std::string& form, i128 ret, const std::vector<i128>& v)
  {
    if (v.size() != sizeof...(A)) return "badop";
    auto is = std::index_sequence_for<A...>();
    if (form == "plain") return call<F_PLAIN>(sb, ret, v, is);
    if (form == "tainted") return call<F_TAINTED>(sb, ret, v, is);
    if (form == "opaque") return call<F_OPAQUE>(sb, ret, v, is);
    if (form == "tvol") return call<F_TVOL>(sb, ret, v, is);
    return "badop";
  }
};

using S0 = Sig<void>;
using S1 = Sig<int, int>;
using S2 = Sig<long, long, unsigned long>;
using S3 = Sig<unsigned long, short, char, bool, unsigned char, long long>;
using S4 = Sig<double, float, double, int>;
using S5 = Sig<int*, int*, const char*, void*>;
using S6 = Sig<long, long (*)(long), int>;
using S7 = Sig<long, vst12, long>;
using S8 = Sig<long, long, int, short, char, unsigned long, unsigned, unsigned short, unsigned char, long long, unsigned long long, bool, long>;
using S9 = Sig<unsigned short, unsigned short, short>;
using S10 = Sig<vst12, int>;

// results on any of the three ABIs: the guest function returns its ABI's type (wider than the application's on ABI C)
template<typename SbxT, typename T> struct RetAbi {
  using GT = rlbox::detail::convert_to_sandbox_equivalent_t<T, SbxT>;
  static inline i128 preset = 0;
  static GT fn() { return (GT)preset; }
  static std::string run(rlbox::rlbox_sandbox<SbxT>& sb, i128 v)
  {
    if (!representable<GT>(v)) return "badinput";
    preset = v;
    auto r = sb.template INTERNAL_invoke_with_func_ptr<T()>("retabi", reinterpret_cast<void*>(&fn));
    return "ok " + to_dec(as_math(r.UNSAFE_unverified()));
  }
};
template<typename SbxT, size_t... Is> static std::string retabi_dispatch(rlbox::rlbox_sandbox<SbxT>& sb, int ti, i128 v, std::index_sequence<Is...>)
{
  std::string out = "badop";
  ((ti == (int)Is ? (out = RetAbi<SbxT, nth_t<Is, IntTypes>>::run(sb, v), 0) : 0), ...);
  return out;
}
static rlbox::rlbox_sandbox<SbxB> g_sbB;
static rlbox::rlbox_sandbox<SbxC> g_sbC;

int main()
{
  g_sbB.create_sandbox(&g_libs[0]); g_sbC.create_sandbox(&g_libs[0]);
  for (int i = 0; i < 3; i++) g_sb[i].create_sandbox(&g_libs[g_libof[i]]);
  main_loop([&](const std::vector<std::string>& t) -> std::string {
    return guarded([&]() -> std::string {
      if (t[0] == "inv" && t.size() >= 5) {
        int sbi = atoi(t[1].c_str());
        Sb& sb = g_sb[sbi];
        if (sb.get_sandbox_impl()->brk > (1u << 15)) sb.get_sandbox_impl()->brk = 16;
        i128 ret = parse_dec(t[4]);
        std::vector<i128> v; for (size_t i = 5; i < t.size(); i++) v.push_back(parse_dec(t[i]));
        const std::string& s = t[2];
#define D(N) if (s == "S" #N) return S##N::dispatch(sb, t[3], ret, v);
        D(0) D(1) D(2) D(3) D(4) D(5) D(6) D(7) D(8) D(9) D(10)
#undef D
        return "badop";
      }
      if (t[0] == "invr" && t.size() == 4) {
        int ti = int_index(t[2]);
        if (ti < 0 || ti >= 14) return "badop";      // the 14 types the ABI mapping covers (no wchar_t)
        i128 v = parse_dec(t[3]);
        constexpr auto seq = std::make_index_sequence<14>();
        if (t[1] == "A") return retabi_dispatch<SbxA>(g_sb[0], ti, v, seq);
        if (t[1] == "B") return retabi_dispatch<SbxB>(g_sbB, ti, v, seq);
        if (t[1] == "C") return retabi_dispatch<SbxC>(g_sbC, ti, v, seq);
        return "badop";
      }
      if (t[0] == "inamed" && t.size() == 4) {
        Sb& sb = g_sb[atoi(t[1].c_str())];
        auto r = sb.INTERNAL_invoke_with_func_name<int(int)>(t[2].c_str(), (int)parse_dec(t[3]));
        return "ok " + std::to_string(r.UNSAFE_unverified());
      }
      if (t[0] == "irecr" && t.size() == 5) {
        // one sandbox OBJECT, two incarnations bound to (possibly) different libraries: by-name invocation and function address
        // in the second incarnation must come from ITS library (nothing cached for the first one may be served)
        static Sb scratch;
        int l1 = atoi(t[1].c_str()), l2 = atoi(t[2].c_str()); int v = (int)parse_dec(t[4]);
        auto probe = [&]() -> std::string {
          auto r = scratch.INTERNAL_invoke_with_func_name<int(int)>(t[3].c_str(), v);
          auto f = scratch.INTERNAL_get_sandbox_function_name<int(int)>(t[3].c_str());
          auto p = reinterpret_cast<const char*>(f.UNSAFE_unverified());
          std::string where = "other";
          for (auto& L : g_libs) if (p > L.desc.data() && p < L.desc.data() + L.desc.size()) where = std::string(L.libname) + "." + L.fns[(size_t)(p - L.desc.data()) - 1].name;
          auto r2 = scratch.INTERNAL_invoke_with_func_name<int(int)>(t[3].c_str(), v);
          return std::to_string(r.UNSAFE_unverified()) + " " + where + " " + std::to_string(r2.UNSAFE_unverified());
        };
        struct Cleanup { ~Cleanup() { scratch.get_sandbox_impl()->force_release(); } } cleanup;   // an abort in the middle must not leak the address slot
        scratch.create_sandbox(&g_libs[l1]);
        std::string a = probe();
        scratch.destroy_sandbox();
        scratch.create_sandbox(&g_libs[l2]);
        std::string b = probe();
        scratch.destroy_sandbox();
        return "ok " + a + " | " + b;
      }
      if (t[0] == "ifnaddr" && t.size() == 3) {
        Sb& sb = g_sb[atoi(t[1].c_str())];
        auto f = sb.INTERNAL_get_sandbox_function_name<int(int)>(t[2].c_str());
        auto p = reinterpret_cast<const char*>(f.UNSAFE_unverified());
        for (auto& L : g_libs)
          if (p > L.desc.data() && p < L.desc.data() + L.desc.size()) {
            // round trip through the sandbox representation: the guest-side table index designates the same function
            auto rep = f.UNSAFE_sandboxed(sb);
            return std::string("ok ") + L.libname + "." + L.fns[(size_t)(p - L.desc.data()) - 1].name + " rep=" + std::to_string(rep);
          }
        return p ? "ok other" : "ok null";
      }
      return "badop";
    });
  });
  return 0;
}
