// Engine `fops` (C16, floating-point operands): + - * unary minus ++ -- on tainted floating-point values vs the plain operators.
//   fbin <op> <lw>:<lty> <rw>:<rty> <anum> <ak> <bnum> <bk>   -> ok <f4|f8> <m> <e>          (value m * 2^e, m odd)
//   fincdec <form> <lw>:<ty> <num> <k>                         -> ok <expr> <newvalue> | nc
//   fneg <lw>:<ty> <num> <k>                                   -> ok <value>
// Operand values are exact dyadic rationals num / 2^k (integer operands: k = 0).  The static type of every wrapped expression is
// asserted at compile time against decltype of the plain one.
#include <cmath>
#include <limits>
#include "vtypes.hpp"

using namespace vh;
using rlbox::tainted;
using rlbox::tainted_volatile;
using Sb = rlbox::rlbox_sandbox<SbxA>;
static Sb g_sb;

enum { PLAIN = 0, TAINTED = 1, TVOL = 2 };
template<typename T, int W> struct Holder;
template<typename T> struct Holder<T, PLAIN> { T v; explicit Holder(T x) : v(x) {} T& get() { return v; } };
template<typename T> struct Holder<T, TAINTED> { tainted<T, SbxA> v; explicit Holder(T x) : v(x) {} tainted<T, SbxA>& get() { return v; } };
template<typename T> struct Holder<T, TVOL> {
  tainted<T*, SbxA> p;
  explicit Holder(T x) { p = g_sb.malloc_in_sandbox<T>(); *p = x; }
  tainted_volatile<T, SbxA>& get() { return *p; }
};

template<typename F> static std::string show_f(F x)
{
  static_assert(std::is_same_v<F, float> || std::is_same_v<F, double>, "result type must be float or double");
  std::string ty = std::is_same_v<F, float> ? "f4 " : "f8 ";
  if (x == 0) return ty + "0 0";
  int e; double m = std::frexp((double)x, &e);
  uint64_t mi = (uint64_t)std::ldexp(std::fabs(m), 53); e -= 53;
  while ((mi & 1) == 0) { mi >>= 1; e++; }
  return ty + (x < 0 ? "-" : "") + std::to_string(mi) + " " + std::to_string(e);
}
template<typename V> static std::string show_val(const V& v)
{
  if constexpr (std::is_arithmetic_v<V>) return show_f(v);
  else return show_f(v.UNSAFE_unverified());
}
// the operand value; false when it is not exactly representable in T
template<typename T> static bool mk(i128 num, int k, T& out)
{
  if constexpr (std::is_integral_v<T>) { if (k != 0 || !representable<T>(num)) return false; out = (T)num; return true; }
  else { out = std::ldexp((T)num, -k); return (i128)std::ldexp((long double)out, k) == num; }
}

template<typename L, typename R, int LW, int RW> static std::string fbin_one(int op, i128 an, int ak, i128 bn, int bk)
{
  L a; R b;
  if (!mk<L>(an, ak, a) || !mk<R>(bn, bk, b)) return "badinput";
  if (g_sb.get_sandbox_impl()->brk > (1u << 15)) g_sb.get_sandbox_impl()->brk = 16;
  using HL = decltype(std::declval<Holder<L, LW>>().get());
  using HR = decltype(std::declval<Holder<R, RW>>().get());
#define TA(o) static_assert(std::is_same_v<decltype(std::declval<HL>() o std::declval<HR>()), tainted<decltype(std::declval<L>() o std::declval<R>()), SbxA>>, "result type of " #o);
  TA(+) TA(-) TA(*)
#undef TA
  Holder<L, LW> hl(a); Holder<R, RW> hr(b);
  auto& x = hl.get(); auto& y = hr.get();
  return "ok " + (op == 0 ? show_val(x + y) : op == 1 ? show_val(x - y) : show_val(x * y));
}
template<typename L, int LW> static std::string fincdec_one(const std::string& form, i128 an, int ak)
{
  L a;
  if (!mk<L>(an, ak, a)) return "badinput";
  if (g_sb.get_sandbox_impl()->brk > (1u << 15)) g_sb.get_sandbox_impl()->brk = 16;
  Holder<L, LW> hl(a);
  auto& x = hl.get();
  if (form == "preinc") { auto& e = ++x; return "ok " + show_val(e) + " " + show_val(x); }
  if (form == "predec") { auto& e = --x; return "ok " + show_val(e) + " " + show_val(x); }
  if constexpr (LW == TAINTED) {
    static_assert(std::is_same_v<decltype(x++), tainted<L, SbxA>>);
    if (form == "postinc") { auto e = x++; return "ok " + show_val(e) + " " + show_val(x); }
    if (form == "postdec") { auto e = x--; return "ok " + show_val(e) + " " + show_val(x); }
  } else if (form == "postinc" || form == "postdec") return "nc";
  return "badop";
}
template<typename L, int LW> static std::string fneg_one(i128 an, int ak)
{
  L a;
  if (!mk<L>(an, ak, a)) return "badinput";
  if (g_sb.get_sandbox_impl()->brk > (1u << 15)) g_sb.get_sandbox_impl()->brk = 16;
  Holder<L, LW> hl(a);
  return "ok " + show_val(-hl.get());
}

// ---- special values (signed zeros, infinities, NaN): comparisons and unary minus ----
template<typename T> static bool mk_special(const std::string& tok, T& out)
{
  if constexpr (std::is_integral_v<T>) {
    if (tok == "nan" || tok == "inf" || tok == "-inf" || tok == "-0") return false;
    out = (T)parse_dec(tok); return true;
  } else {
    if (tok == "nan") out = std::numeric_limits<T>::quiet_NaN();
    else if (tok == "inf") out = std::numeric_limits<T>::infinity();
    else if (tok == "-inf") out = -std::numeric_limits<T>::infinity();
    else if (tok == "-0") out = (T)-0.0;
    else out = (T)(long long)parse_dec(tok);
    return true;
  }
}
template<typename F> static std::string show_special(F x)
{
  std::string ty = std::is_same_v<F, float> ? "f4 " : "f8 ";
  if (x != x) return ty + "nan";
  if (x == 0) return ty + (std::signbit(x) ? "-0" : "0");
  if (std::isinf(x)) return ty + (x < 0 ? "-inf" : "inf");
  return show_f(x);
}
template<typename V> static bool truth(const V& v)
{
  if constexpr (std::is_same_v<V, bool>) return v;
  else return v.UNSAFE_unverified();
}
template<typename L, typename R, int LW, int RW> static std::string fcmp_one(int op, const std::string& ta, const std::string& tb)
{
  L a; R b;
  if (!mk_special<L>(ta, a) || !mk_special<R>(tb, b)) return "badinput";
  if (g_sb.get_sandbox_impl()->brk > (1u << 15)) g_sb.get_sandbox_impl()->brk = 16;
  Holder<L, LW> hl(a); Holder<R, RW> hr(b);
  auto& x = hl.get(); auto& y = hr.get();
  bool r = op == 0 ? truth(x == y) : op == 1 ? truth(x != y) : op == 2 ? truth(x < y) : op == 3 ? truth(x <= y) : op == 4 ? truth(x > y) : truth(x >= y);
  return std::string("ok ") + (r ? "1" : "0");
}
template<typename L, typename R> static std::string fcmp_w(int lw, int rw, int op, const std::string& ta, const std::string& tb)
{
  if constexpr (std::is_integral_v<L> && std::is_integral_v<R>) return "badop";
  else {
#define W(a, b) if (lw == a && rw == b) return fcmp_one<L, R, a, b>(op, ta, tb);
    W(TAINTED, PLAIN) W(TAINTED, TAINTED) W(TAINTED, TVOL) W(TVOL, PLAIN) W(TVOL, TAINTED) W(TVOL, TVOL) W(PLAIN, TAINTED) W(PLAIN, TVOL)
#undef W
    return "badop";
  }
}
template<typename L> static std::string fcmp_r(const std::string& rt, int lw, int rw, int op, const std::string& ta, const std::string& tb)
{
  if (rt == "float") return fcmp_w<L, float>(lw, rw, op, ta, tb);
  if (rt == "double") return fcmp_w<L, double>(lw, rw, op, ta, tb);
  if (rt == "int") return fcmp_w<L, int>(lw, rw, op, ta, tb);
  return "badop";
}
template<typename L, int LW> static std::string fnegs_one(const std::string& ta)
{
  L a;
  if (!mk_special<L>(ta, a)) return "badinput";
  if (g_sb.get_sandbox_impl()->brk > (1u << 15)) g_sb.get_sandbox_impl()->brk = 16;
  Holder<L, LW> hl(a);
  auto r = -hl.get();
  return "ok " + show_special(r.UNSAFE_unverified());
}

template<typename L, typename R> static std::string fbin_w(int lw, int rw, int op, i128 an, int ak, i128 bn, int bk)
{
  if constexpr (std::is_integral_v<L> && std::is_integral_v<R>) return "badop";
  else {
#define W(a, b) if (lw == a && rw == b) return fbin_one<L, R, a, b>(op, an, ak, bn, bk);
    W(TAINTED, PLAIN) W(TAINTED, TAINTED) W(TAINTED, TVOL) W(TVOL, PLAIN) W(TVOL, TAINTED) W(TVOL, TVOL) W(PLAIN, TAINTED) W(PLAIN, TVOL)
#undef W
    return "badop";
  }
}
template<typename L> static std::string fbin_r(const std::string& rt, int lw, int rw, int op, i128 an, int ak, i128 bn, int bk)
{
  if (rt == "float") return fbin_w<L, float>(lw, rw, op, an, ak, bn, bk);
  if (rt == "double") return fbin_w<L, double>(lw, rw, op, an, ak, bn, bk);
  if (rt == "int") return fbin_w<L, int>(lw, rw, op, an, ak, bn, bk);
  if (rt == "llong") return fbin_w<L, long long>(lw, rw, op, an, ak, bn, bk);
  return "badop";
}

int main()
{
  g_sb.create_sandbox();
  main_loop([&](const std::vector<std::string>& t) -> std::string {
    return guarded([&]() -> std::string {
      auto wrap = [](const std::string& s) { auto w = s.substr(0, s.find(':')); return w == "plain" ? PLAIN : w == "tainted" ? TAINTED : w == "tvol" ? TVOL : -1; };
      auto tyof = [](const std::string& s) { return s.substr(s.find(':') + 1); };
      if (t[0] == "fbin" && t.size() == 8) {
        int op = t[1] == "+" ? 0 : t[1] == "-" ? 1 : t[1] == "*" ? 2 : -1;
        int lw = wrap(t[2]), rw = wrap(t[3]);
        if (op < 0 || lw < 0 || rw < 0) return "badop";
        i128 an = parse_dec(t[4]), bn = parse_dec(t[6]); int ak = atoi(t[5].c_str()), bk = atoi(t[7].c_str());
        const std::string lt = tyof(t[2]), rt = tyof(t[3]);
        if (lt == "float") return fbin_r<float>(rt, lw, rw, op, an, ak, bn, bk);
        if (lt == "double") return fbin_r<double>(rt, lw, rw, op, an, ak, bn, bk);
        if (lt == "int") return fbin_r<int>(rt, lw, rw, op, an, ak, bn, bk);
        if (lt == "llong") return fbin_r<long long>(rt, lw, rw, op, an, ak, bn, bk);
        return "badop";
      }
      if (t[0] == "fcmp" && t.size() == 6) {
        static const char* const C[] = { "==", "!=", "<", "<=", ">", ">=" };
        int op = -1; for (int i = 0; i < 6; i++) if (t[1] == C[i]) op = i;
        int lw = wrap(t[2]), rw = wrap(t[3]);
        if (op < 0 || lw < 0 || rw < 0) return "badop";
        const std::string lt = tyof(t[2]), rt = tyof(t[3]);
        if (lt == "float") return fcmp_r<float>(rt, lw, rw, op, t[4], t[5]);
        if (lt == "double") return fcmp_r<double>(rt, lw, rw, op, t[4], t[5]);
        if (lt == "int") return fcmp_r<int>(rt, lw, rw, op, t[4], t[5]);
        return "badop";
      }
      if (t[0] == "fnegs" && t.size() == 3) {
        int lw = wrap(t[1]); const std::string lt = tyof(t[1]);
        if (lw != TAINTED && lw != TVOL) return "badop";
        if (lt == "float") return lw == TAINTED ? fnegs_one<float, TAINTED>(t[2]) : fnegs_one<float, TVOL>(t[2]);
        if (lt == "double") return lw == TAINTED ? fnegs_one<double, TAINTED>(t[2]) : fnegs_one<double, TVOL>(t[2]);
        return "badop";
      }
      if ((t[0] == "fincdec" && t.size() == 5) || (t[0] == "fneg" && t.size() == 4)) {
        bool id = t[0] == "fincdec";
        const std::string& spec = t[id ? 2 : 1];
        int lw = wrap(spec); const std::string lt = tyof(spec);
        i128 an = parse_dec(t[id ? 3 : 2]); int ak = atoi(t[id ? 4 : 3].c_str());
        if (lw != TAINTED && lw != TVOL) return "badop";
        if (lt == "float") return id ? (lw == TAINTED ? fincdec_one<float, TAINTED>(t[1], an, ak) : fincdec_one<float, TVOL>(t[1], an, ak))
                                     : (lw == TAINTED ? fneg_one<float, TAINTED>(an, ak) : fneg_one<float, TVOL>(an, ak));
        if (lt == "double") return id ? (lw == TAINTED ? fincdec_one<double, TAINTED>(t[1], an, ak) : fincdec_one<double, TVOL>(t[1], an, ak))
                                      : (lw == TAINTED ? fneg_one<double, TAINTED>(an, ak) : fneg_one<double, TVOL>(an, ak));
        return "badop";
      }
      return "badop";
    });
  });
  return 0;
}
