// Engine `conv` (C06): integer conversion through the raw helper and through the public paths
// (tainted_volatile store/load, invoke argument/result, callback argument/result) on ABIs A, B, C.
#ifdef VH_FLAG_ABORT
// scan mode: a failed dynamic_check sets a flag instead of throwing (exceptions cost ~1 us each,
// far too slow for exhaustive 32-bit sources). Only the raw helper is exercised in this mode.
extern bool vh_abort_flag;
#  define RLBOX_CUSTOM_ABORT(msg) (::vh_abort_flag = true)
#else
#  define RLBOX_USE_EXCEPTIONS
#endif
#include "vsbx.hpp"
#include "common.hpp"
#include <array>
#include <limits>

using namespace vh;
#ifdef VH_FLAG_ABORT
bool vh_abort_flag = false;

// exhaustive scan of [lo, hi] ∩ range(Fr): implementation vs 128-bit oracle, no per-item strings
template<typename To, typename Fr>
static std::string conv_scan(i128 lo, i128 hi)
{
  i128 flo = std::is_same_v<Fr, bool> ? 0 : (i128)std::numeric_limits<Fr>::min();
  i128 fhi = std::is_same_v<Fr, bool> ? 1 : (i128)std::numeric_limits<Fr>::max();
  if (lo < flo) lo = flo;
  if (hi > fhi) hi = fhi;
  uint64_t n = 0, aborts = 0, bad = 0; i128 first = 0;
  for (i128 v = lo; v <= hi; v++) {
    Fr from = (Fr)v; To to{};
    vh_abort_flag = false;
    rlbox::detail::convert_type_fundamental(to, from);
    bool ab = vh_abort_flag;
    bool rep = representable<To>(v);
    bool good = rep ? (!ab && as_math(to) == v) : ab;
    n++; aborts += ab;
    if (!good) { if (!bad) first = v; bad++; }
  }
  return "scan n=" + std::to_string(n) + " aborts=" + std::to_string(aborts) + " oracle_bad=" + std::to_string(bad) +
         " first_bad=" + (bad ? to_dec(first) : std::string("-"));
}
#endif

// ------------------------------------------------------------------------------------------------
// raw helper: rlbox::detail::convert_type_fundamental / convert_type_fundamental_or_array
template<typename To, typename Fr>
static std::string conv_one(i128 v)
{
  if (!representable<Fr>(v)) return "badinput";
  Fr from = (Fr)v;
  To to{};
#ifdef VH_FLAG_ABORT
  vh_abort_flag = false;
  rlbox::detail::convert_type_fundamental(to, from);
  if (vh_abort_flag) return "abort";
#else
  try { rlbox::detail::convert_type_fundamental(to, from); }
  catch (const std::runtime_error&) { return "abort"; }
#endif
  return "ok " + to_dec(as_math(to));
}

template<typename To, typename Fr>
static std::string conv_blk(i128 lo, i128 hi)
{
  Fnv h; uint64_t n = 0, aborts = 0, bad = 0; std::string first = "-";
  i128 flo = std::is_same_v<Fr, bool> ? 0 : (i128)std::numeric_limits<Fr>::min();
  i128 fhi = std::is_same_v<Fr, bool> ? 1 : (i128)std::numeric_limits<Fr>::max();
  if (lo < flo) lo = flo;
  if (hi > fhi) hi = fhi;
  for (i128 v = lo; v <= hi; v++) {
    std::string r = conv_one<To, Fr>(v);
    h.add(r); h.add("\n"); n++;
    bool ab = r == "abort";
    if (ab) aborts++;
    // oracle: representable in To  <=>  ok with the same value
    bool rep = representable<To>(v);
    bool good = rep ? (r == "ok " + to_dec(v)) : ab;
    if (!good) { if (bad == 0) first = to_dec(v); bad++; }
  }
  return "hash " + std::to_string(h.h) + " n=" + std::to_string(n) + " aborts=" + std::to_string(aborts) +
         " oracle_bad=" + std::to_string(bad) + " first_bad=" + first;
}

template<typename To, typename Fr>
static std::string conv_arr(i128 a, i128 b, i128 c)
{
  if (!representable<Fr>(a) || !representable<Fr>(b) || !representable<Fr>(c)) return "badinput";
  Fr from[3] = { (Fr)a, (Fr)b, (Fr)c };
  To to[3] = {};
  try { rlbox::detail::convert_type_fundamental_or_array(to, from); }
  catch (const std::runtime_error&) { return "abort"; }
  return "ok " + to_dec(as_math(to[0])) + " " + to_dec(as_math(to[1])) + " " + to_dec(as_math(to[2]));
}

using Fn1 = std::string (*)(i128);
using Fn2 = std::string (*)(i128, i128);
using Fn3 = std::string (*)(i128, i128, i128);
constexpr size_t NT = IntTypes::n;
static Fn1 tab_one[NT][NT];
static Fn2 tab_blk[NT][NT];
static Fn3 tab_arr[NT][NT];
#ifdef VH_FLAG_ABORT
static Fn2 tab_scan[NT][NT];
#endif

template<size_t I, size_t J>
static void fill_cell()
{
  using To = nth_t<I, IntTypes>; using Fr = nth_t<J, IntTypes>;
  tab_one[I][J] = &conv_one<To, Fr>;
  tab_blk[I][J] = &conv_blk<To, Fr>;
  tab_arr[I][J] = &conv_arr<To, Fr>;
#ifdef VH_FLAG_ABORT
  tab_scan[I][J] = &conv_scan<To, Fr>;
#endif
}
template<size_t I, size_t... Js> static void fill_row(std::index_sequence<Js...>) { (fill_cell<I, Js>(), ...); }
template<size_t... Is> static void fill_all(std::index_sequence<Is...>) { (fill_row<Is>(std::make_index_sequence<NT>()), ...); }

#ifndef VH_FLAG_ABORT
// ------------------------------------------------------------------------------------------------
// public paths on a foreign ABI
using BaseTypes = TL<bool, char, signed char, unsigned char, short, unsigned short, int, unsigned int, long,
                     unsigned long, long long, unsigned long long, char16_t, char32_t>;
static const char* const BaseNames[] = { "bool", "char", "schar", "uchar", "short", "ushort", "int", "uint", "long",
                                         "ulong", "llong", "ullong", "char16", "char32" };
constexpr size_t NB = BaseTypes::n;

template<typename G> static G g_last_arg;
template<typename G> static G g_preset;
template<typename G> static G g_id(G x) { g_last_arg<G> = x; return x; }
template<typename G> static G g_ret() { return g_preset<G>; }
template<typename Sbx, typename G> static G g_callcb(typename Sbx::T_PointerType cb, G x)
{
  G r = Sbx::thread_data.sandbox->template guest_call_fnptr<G, G>(cb, x);
  g_last_arg<G> = r;
  return r;
}

template<typename Sbx, typename T> struct CbState { static inline T seen{}; static inline T preset{}; };
template<typename Sbx, typename T>
static rlbox::tainted<T, Sbx> app_cb(rlbox::rlbox_sandbox<Sbx>&, rlbox::tainted<T, Sbx> a)
{
  CbState<Sbx, T>::seen = a.UNSAFE_unverified();
  return CbState<Sbx, T>::preset;
}

template<typename G> static i128 read_guest(const void* p)
{
  G g; std::memcpy(&g, p, sizeof g); return as_math(g);
}
template<typename G> static void write_guest(void* p, i128 v)
{
  G g = (G)v; std::memcpy(p, &g, sizeof g);
}

template<typename Sbx, typename T>
static std::string path_op(rlbox::rlbox_sandbox<Sbx>& sb, const std::string& op, i128 v)
{
  using G = typename rlbox::rlbox_sandbox<Sbx>::template convert_to_sandbox_equivalent_nonclass_t<T>;
  return guarded([&]() -> std::string {
    if (op == "tvstore") {
      if (!representable<T>(v)) return "badinput";
      auto p = sb.template malloc_in_sandbox<T>();
      void* raw = p.UNSAFE_unverified();
      std::memset(raw, 0xAB, sizeof(G));
      *p = (T)v;
      return "ok guest=" + to_dec(read_guest<G>(raw));
    }
    if (op == "tvload") {
      if (!representable<G>(v)) return "badinput";
      auto p = sb.template malloc_in_sandbox<T>();
      write_guest<G>(p.UNSAFE_unverified(), v);
      rlbox::tainted<T, Sbx> x = *p;
      return "ok " + to_dec(as_math(x.UNSAFE_unverified()));
    }
    if (op == "tvload_u") { // the OTHER load route: unwrap the tainted_volatile directly (get_raw_value), no tainted<T> in between
      if (!representable<G>(v)) return "badinput";
      auto p = sb.template malloc_in_sandbox<T>();
      write_guest<G>(p.UNSAFE_unverified(), v);
      return "ok " + to_dec(as_math((*p).UNSAFE_unverified()));
    }
    if (op == "tvstore_t") { // store a tainted<T> (cond2 path)
      if (!representable<T>(v)) return "badinput";
      auto p = sb.template malloc_in_sandbox<T>();
      void* raw = p.UNSAFE_unverified();
      rlbox::tainted<T, Sbx> x = (T)v;
      *p = x;
      return "ok guest=" + to_dec(read_guest<G>(raw));
    }
    if (op == "invarg") {
      if (!representable<T>(v)) return "badinput";
      g_last_arg<G> = G{};
      auto r = sb.template INTERNAL_invoke_with_func_ptr<T(T)>("g_id", reinterpret_cast<void*>(&g_id<G>), (T)v);
      return "ok guest=" + to_dec(as_math(g_last_arg<G>)) + " ret=" + to_dec(as_math(r.UNSAFE_unverified()));
    }
    if (op == "invarg_t") { // tainted argument
      if (!representable<T>(v)) return "badinput";
      g_last_arg<G> = G{};
      rlbox::tainted<T, Sbx> x = (T)v;
      auto r = sb.template INTERNAL_invoke_with_func_ptr<T(T)>("g_id", reinterpret_cast<void*>(&g_id<G>), x);
      return "ok guest=" + to_dec(as_math(g_last_arg<G>)) + " ret=" + to_dec(as_math(r.UNSAFE_unverified()));
    }
    if (op == "invret") {
      if (!representable<G>(v)) return "badinput";
      g_preset<G> = (G)v;
      auto r = sb.template INTERNAL_invoke_with_func_ptr<T()>("g_ret", reinterpret_cast<void*>(&g_ret<G>));
      return "ok " + to_dec(as_math(r.UNSAFE_unverified()));
    }
    return "badop";
  });
}

// cbarg needs the guest to pass an arbitrary *guest* value to the callback; do it with a dedicated
// guest function that ignores its own argument and uses the preset.
template<typename Sbx, typename G> static G g_callcb_preset(typename Sbx::T_PointerType cb)
{
  G r = Sbx::thread_data.sandbox->template guest_call_fnptr<G, G>(cb, g_preset<G>);
  g_last_arg<G> = r;
  return r;
}

template<typename Sbx, typename T>
static std::string cb_op(rlbox::rlbox_sandbox<Sbx>& sb, const std::string& op, i128 v)
{
  using G = typename rlbox::rlbox_sandbox<Sbx>::template convert_to_sandbox_equivalent_nonclass_t<T>;
  return guarded([&]() -> std::string {
    bool isarg = op == "cbarg";
    if (isarg ? !representable<G>(v) : !representable<T>(v)) return "badinput";
    auto cb = sb.register_callback(app_cb<Sbx, T>);
    CbState<Sbx, T>::preset = isarg ? T{} : (T)v;
    CbState<Sbx, T>::seen = T{};
    g_preset<G> = isarg ? (G)v : G{};
    g_last_arg<G> = G{};
    using FnT = T (*)(T);
    sb.template INTERNAL_invoke_with_func_ptr<T(FnT)>(
      "g_callcb_preset", reinterpret_cast<void*>(&g_callcb_preset<Sbx, G>), cb);
    if (isarg) return "ok " + to_dec(as_math(CbState<Sbx, T>::seen));
    return "ok guest=" + to_dec(as_math(g_last_arg<G>));
  });
}

template<typename Sbx>
struct AbiRunner {
  // mixed-type raw store: field type T (destination in sandbox memory), value type U
  template<typename T, typename U> std::string storex_one(i128 v)
  {
    using G = typename rlbox::rlbox_sandbox<Sbx>::template convert_to_sandbox_equivalent_nonclass_t<T>;
    if (!representable<U>(v)) return "badinput";
    if (sb.get_sandbox_impl()->brk > (1u << 15)) sb.get_sandbox_impl()->brk = 16; // recycle the bump arena
    return guarded([&]() -> std::string {
      auto p = sb.template malloc_in_sandbox<T>();
      void* raw = p.UNSAFE_unverified();
      std::memset(raw, 0xAB, sizeof(G));
      *p = (U)v;
      return "ok guest=" + to_dec(read_guest<G>(raw));
    });
  }
  // sandbox reference assigned from a sandbox reference of ANOTHER integer type: `*p_T = *p_U`, the source holding guest value v
  template<typename T, typename U> std::string tvtv_one(i128 v)
  {
    using GT = typename rlbox::rlbox_sandbox<Sbx>::template convert_to_sandbox_equivalent_nonclass_t<T>;
    using GU = typename rlbox::rlbox_sandbox<Sbx>::template convert_to_sandbox_equivalent_nonclass_t<U>;
    if (!representable<GU>(v)) return "badinput";
    if (sb.get_sandbox_impl()->brk > (1u << 15)) sb.get_sandbox_impl()->brk = 16; // recycle the bump arena
    return guarded([&]() -> std::string {
      auto blk = sb.template malloc_in_sandbox<char>(64);
      char* raw = blk.UNSAFE_unverified();
      std::memset(raw, 0xAB, 64);
      GU gu = (GU)v; std::memcpy(raw + 8, &gu, sizeof gu);                  // source cell at +8 (its neighbours are 0xAB)
      rlbox::tainted<U*, Sbx> ps = rlbox::sandbox_reinterpret_cast<U*>(blk + 8);
      rlbox::tainted<T*, Sbx> pd = rlbox::sandbox_reinterpret_cast<T*>(blk + 32);
      *pd = *ps;
      bool frame = true;
      for (size_t i = 0; i < 64; i++) if ((i < 8 || (i >= 8 + sizeof(GU) && i < 32) || i >= 32 + sizeof(GT)) && (unsigned char)raw[i] != 0xAB) frame = false;
      return "ok guest=" + to_dec(read_guest<GT>(raw + 32)) + (frame ? "" : " FRAME-BROKEN");
    });
  }
  template<typename T> std::string tvtv_u(const std::string& u, i128 v)
  {
    if (u == "schar") return tvtv_one<T, signed char>(v);
    if (u == "uchar") return tvtv_one<T, unsigned char>(v);
    if (u == "short") return tvtv_one<T, short>(v);
    if (u == "ushort") return tvtv_one<T, unsigned short>(v);
    if (u == "int") return tvtv_one<T, int>(v);
    if (u == "uint") return tvtv_one<T, unsigned int>(v);
    if (u == "long") return tvtv_one<T, long>(v);
    if (u == "ulong") return tvtv_one<T, unsigned long>(v);
    if (u == "llong") return tvtv_one<T, long long>(v);
    return "badop";
  }
  std::string tvtv(const std::string& t, const std::string& u, i128 v)
  {
    if (t == "schar") return tvtv_u<signed char>(u, v);
    if (t == "uchar") return tvtv_u<unsigned char>(u, v);
    if (t == "short") return tvtv_u<short>(u, v);
    if (t == "ushort") return tvtv_u<unsigned short>(u, v);
    if (t == "int") return tvtv_u<int>(u, v);
    if (t == "uint") return tvtv_u<unsigned int>(u, v);
    if (t == "long") return tvtv_u<long>(u, v);
    if (t == "ulong") return tvtv_u<unsigned long>(u, v);
    if (t == "llong") return tvtv_u<long long>(u, v);
    return "badop";
  }
  template<typename T> std::string storex_u(const std::string& u, i128 v)
  {
    if (u == "schar") return storex_one<T, signed char>(v);
    if (u == "uchar") return storex_one<T, unsigned char>(v);
    if (u == "short") return storex_one<T, short>(v);
    if (u == "int") return storex_one<T, int>(v);
    if (u == "uint") return storex_one<T, unsigned int>(v);
    if (u == "long") return storex_one<T, long>(v);
    if (u == "ulong") return storex_one<T, unsigned long>(v);
    if (u == "llong") return storex_one<T, long long>(v);
    return "badop";
  }
  std::string storex(const std::string& t, const std::string& u, i128 v)
  {
    if (t == "schar") return storex_u<signed char>(u, v);
    if (t == "uchar") return storex_u<unsigned char>(u, v);
    if (t == "short") return storex_u<short>(u, v);
    if (t == "ushort") return storex_u<unsigned short>(u, v);
    if (t == "int") return storex_u<int>(u, v);
    if (t == "uint") return storex_u<unsigned int>(u, v);
    if (t == "long") return storex_u<long>(u, v);
    if (t == "ulong") return storex_u<unsigned long>(u, v);
    return "badop";
  }

  rlbox::rlbox_sandbox<Sbx> sb;
  using OpFn = std::string (*)(rlbox::rlbox_sandbox<Sbx>&, const std::string&, i128);
  OpFn path[NB]; OpFn cb[NB];
  template<size_t... Is> void fill(std::index_sequence<Is...>)
  {
    ((path[Is] = &path_op<Sbx, nth_t<Is, BaseTypes>>), ...);
    ((cb[Is] = &cb_op<Sbx, nth_t<Is, BaseTypes>>), ...);
  }
  AbiRunner() { fill(std::make_index_sequence<NB>()); sb.create_sandbox(); }
  std::string run(const std::string& op, int ty, i128 v)
  {
    if (sb.get_sandbox_impl()->brk > (1u << 15)) sb.get_sandbox_impl()->brk = 16; // recycle the bump arena
    if (op == "cbarg" || op == "cbret") return cb[ty](sb, op, v);
    return path[ty](sb, op, v);
  }
};

#endif // !VH_FLAG_ABORT

int main()
{
  fill_all(std::make_index_sequence<NT>());
#ifndef VH_FLAG_ABORT
  static AbiRunner<rlbox::rlbox_vsbx<vsbx::AbiA, 16, 8>> ra;
  static AbiRunner<rlbox::rlbox_vsbx<vsbx::AbiB, 16, 8>> rb;
  static AbiRunner<rlbox::rlbox_vsbx<vsbx::AbiC, 16, 8>> rc;
#endif
  main_loop([&](const std::vector<std::string>& t) -> std::string {
    const std::string& op = t[0];
    if (op == "types") {
      std::string s;
      auto add = [&](const char* n, bool sg, size_t b, bool isb) {
        s += std::string("type ") + n + " " + (sg ? "1" : "0") + " " + std::to_string(b) + " " + (isb ? "1" : "0") + ";";
      };
      add("bool", false, sizeof(bool), true);
      add("char", std::is_signed_v<char>, 1, false); add("schar", true, 1, false); add("uchar", false, 1, false);
      add("short", true, sizeof(short), false); add("ushort", false, sizeof(short), false);
      add("int", true, sizeof(int), false); add("uint", false, sizeof(int), false);
      add("long", true, sizeof(long), false); add("ulong", false, sizeof(long), false);
      add("llong", true, sizeof(long long), false); add("ullong", false, sizeof(long long), false);
      add("char16", std::is_signed_v<char16_t>, sizeof(char16_t), false);
      add("char32", std::is_signed_v<char32_t>, sizeof(char32_t), false);
      add("wchar", std::is_signed_v<wchar_t>, sizeof(wchar_t), false);
      return s;
    }
    if (op == "conv" || op == "convblk" || op == "arr") {
      int to = int_index(t[1]), fr = int_index(t[2]);
      if (to < 0 || fr < 0) return "badop";
      if (op == "conv") return tab_one[to][fr](parse_dec(t[3]));
      if (op == "convblk") return tab_blk[to][fr](parse_dec(t[3]), parse_dec(t[4]));
      return tab_arr[to][fr](parse_dec(t[3]), parse_dec(t[4]), parse_dec(t[5]));
    }
#ifdef VH_FLAG_ABORT
    if (op == "convscan") {
      int to = int_index(t[1]), fr = int_index(t[2]);
      if (to < 0 || fr < 0) return "badop";
      return tab_scan[to][fr](parse_dec(t[3]), parse_dec(t[4]));
    }
#else
    // tvstore_x <abi> <T> <U> <v>: `tainted_volatile<T> = (U)v` for mixed integer types
    if (op == "tvstore_x" && t.size() == 5) {
      auto run = [&](auto& runner) -> std::string { return runner.storex(t[2], t[3], parse_dec(t[4])); };
      if (t[1] == "A") return run(ra);
      if (t[1] == "B") return run(rb);
      if (t[1] == "C") return run(rc);
      return "badop";
    }
    if (op == "tvtv" && t.size() == 5) {
      auto run = [&](auto& runner) -> std::string { return runner.tvtv(t[2], t[3], parse_dec(t[4])); };
      if (t[1] == "A") return run(ra);
      if (t[1] == "B") return run(rb);
      if (t[1] == "C") return run(rc);
      return "badop";
    }
    // <op> <abi> <basety> <v>
    if (t.size() == 4) {
      int ty = -1;
      for (size_t i = 0; i < NB; i++) if (t[2] == BaseNames[i]) ty = (int)i;
      if (ty < 0) return "badop";
      i128 v = parse_dec(t[3]);
      if (t[1] == "A") return ra.run(op, ty, v);
      if (t[1] == "B") return rb.run(op, ty, v);
      if (t[1] == "C") return rc.run(op, ty, v);
    }
#endif
    return "badop";
  });
  return 0;
}
