// Types shared by the harness drivers: the sandbox instantiations and a registered struct.
#pragma once
#define RLBOX_USE_EXCEPTIONS
#include "vsbx.hpp"
#include "common.hpp"

struct vst12 {
  char c;
  long l;
  int* p;
};

#define sandbox_fields_reflection_vlib_class_vst12(f, g, ...)                                     \
  f(char, c, FIELD_NORMAL, ##__VA_ARGS__) g()                                                     \
  f(long, l, FIELD_NORMAL, ##__VA_ARGS__) g()                                                     \
  f(int*, p, FIELD_NORMAL, ##__VA_ARGS__) g()

#define sandbox_fields_reflection_vlib_allClasses(f, ...) f(vst12, vlib, ##__VA_ARGS__)

rlbox_load_structs_from_library(vlib);

using SbxA = rlbox::rlbox_vsbx<vsbx::AbiA, 16, 8>;
using SbxB = rlbox::rlbox_vsbx<vsbx::AbiB, 16, 8>;
using SbxC = rlbox::rlbox_vsbx<vsbx::AbiC, 16, 8>;
using SbxAg = rlbox::rlbox_vsbx<vsbx::AbiAg, 16, 8>;  // ABI A with can_grant_deny_access
using SbxN = rlbox::rlbox_vsbx<vsbx::AbiN, 16, 8>;   // native-pointer representation (void*), host ABI, real region

namespace vh {

// canonical printing of an application-side address relative to the live vsbx sandboxes
template<typename Sbx>
inline std::string show_addr(const void* p, rlbox::rlbox_sandbox<Sbx>* sbs[], int nsb)
{
  if (p == nullptr) return "null";
  auto v = reinterpret_cast<uintptr_t>(p);
  for (int i = 0; i < nsb; i++) {
    auto* impl = sbs[i]->get_sandbox_impl();
    if (impl->Base != 0 && v >= impl->Base && v - impl->Base < Sbx::Size)
      return "in" + std::to_string(i) + ":" + std::to_string(v - impl->Base);
  }
  char buf[40];
  snprintf(buf, sizeof buf, "out:0x%llx", (unsigned long long)v);
  return buf;
}

} // namespace vh
