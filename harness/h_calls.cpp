// Engine `calls` (C12, C19, parts of C11): call trees (invoke -> guest -> callback -> invoke ...) with
// faults, transition notifications and timing records, two live sandboxes of the foreign-ABI backend.
//   tree {R <sb> <owner> <fn> | U <owner>}* T {I <sb> <arg> <n|a> {C <slot> <arg> <ret> <n|b|r> {I ...}* E}* E}*
#include <cstdint>
#include <string>
extern void vh_tr(int in, bool invoke, const char* name, const void* ptr, void* state);
// CALLS_ONLY_IN / CALLS_ONLY_OUT: a client that defines just ONE of the two hooks (commands `treeni` / `treeno`): the notifications of
// that hook are the same, for invocations and for callbacks
#ifndef CALLS_ONLY_OUT
#define RLBOX_TRANSITION_ACTION_IN(kind, name, ptr, state) ::vh_tr(1, (kind) == ::rlbox::rlbox_transition::INVOKE, name, ptr, state)
#endif
#ifndef CALLS_ONLY_IN
#define RLBOX_TRANSITION_ACTION_OUT(kind, name, ptr, state) ::vh_tr(0, (kind) == ::rlbox::rlbox_transition::INVOKE, name, ptr, state)
#endif
#ifndef CALLS_NO_TIMES   // a build with the two hooks only (command `treenh`): hooks must not depend on the timing option
#define RLBOX_MEASURE_TRANSITION_TIMES
#endif
#if defined(CALLS_DYLIB)
// the bundled dylib backend: the guest functions live in a shared object (harness/guest_calls.cpp) that the backend
// dlopens; host ABI, real per-slot trampolines; CALLS_EMBEDDER_TLS as for the no-op backend
#  define CALLS_NOOP
#  ifdef CALLS_EMBEDDER_TLS
#    define RLBOX_EMBEDDER_PROVIDES_TLS_STATIC_VARIABLES
#  endif
#  define RLBOX_USE_EXCEPTIONS
#  define RLBOX_SINGLE_THREADED_INVOCATIONS
#  define RLBOX_USE_DYNAMIC_CALLS() rlbox_dylib_sandbox_lookup_symbol
#  include "rlbox_dylib_sandbox.hpp"
#  include "rlbox.hpp"
#  include "common.hpp"
#  ifdef CALLS_EMBEDDER_TLS
RLBOX_DYLIB_SANDBOX_STATIC_VARIABLES();
#  endif
using SbxA = rlbox::rlbox_dylib_sandbox;
using GLong = long;
#elif defined(CALLS_NOOP)
// the bundled no-op backend (host ABI, real per-slot trampolines); CALLS_EMBEDDER_TLS selects the
// embedder-provided thread-local-storage configuration
#  ifdef CALLS_EMBEDDER_TLS
#    define RLBOX_EMBEDDER_PROVIDES_TLS_STATIC_VARIABLES
#  endif
#  define RLBOX_USE_EXCEPTIONS
#  define RLBOX_SINGLE_THREADED_INVOCATIONS
#  define RLBOX_USE_STATIC_CALLS() rlbox_noop_sandbox_lookup_symbol
#  include "rlbox_noop_sandbox.hpp"
#  include "rlbox.hpp"
#  include "common.hpp"
#  ifdef CALLS_EMBEDDER_TLS
RLBOX_NOOP_SANDBOX_STATIC_VARIABLES();
#  endif
using SbxA = rlbox::rlbox_noop_sandbox;
using GLong = long;
#else
#  include "vtypes.hpp"
using GLong = int32_t;
#endif

using namespace vh;
using rlbox::tainted;
using Sb = rlbox::rlbox_sandbox<SbxA>;

static Sb g_sb[3];          // g_sb[2]: a short-lived HELPER sandbox, created, used and destroyed inside an `I 2 ...` node
static char g_state[3][2]; // per sandbox two interchangeable state markers; callbacks flip between them
static int g_state_cur[3];
static std::string g_log;
static std::vector<std::string> g_tok; static size_t g_pos;
static void logev(const std::string& s) { if (!g_log.empty()) g_log += ";"; g_log += s; }
static const std::string& peek() { static const std::string end = "$"; return g_pos < g_tok.size() ? g_tok[g_pos] : end; }
static std::string next() { return g_pos < g_tok.size() ? g_tok[g_pos++] : std::string("$"); }
static int sb_of_impl(const SbxA* s) { return s == g_sb[0].get_sandbox_impl() ? 0 : s == g_sb[1].get_sandbox_impl() ? 1 : s == g_sb[2].get_sandbox_impl() ? 2 : 9; }
static int g_cur_sb = 9;                 // which sandbox's guest code is running (set by the harness around invokes)
static uintptr_t g_ep[16]; static int g_nep; // entry points handed out by the registrations of this line, in order
static int sb_of_ref(const Sb& s) { return &s == &g_sb[0] ? 0 : &s == &g_sb[1] ? 1 : &s == &g_sb[2] ? 2 : 9; }

constexpr int NFN = 4;
using CbSig = long(long);
template<int K> static tainted<long, SbxA> cbK(Sb& s, tainted<long, SbxA> a);
using CbFn = tainted<long, SbxA> (*)(Sb&, tainted<long, SbxA>);
static CbFn g_cbs[NFN];
static int fn_of_key(const void* key) { for (int i = 0; i < NFN; i++) if (key == reinterpret_cast<void*>(g_cbs[i])) return i; return 9; }

void vh_tr(int in, bool invoke, const char* name, const void* ptr, void* state)
{
  int sb = (state == &g_state[0][0] || state == &g_state[0][1]) ? 0 : (state == &g_state[1][0] || state == &g_state[1][1]) ? 1 :
           (state == &g_state[2][0] || state == &g_state[2][1]) ? 2 : 9;
  // the payload must be the per-sandbox state at the moment the notification is delivered
  if (sb < 3 && state != g_sb[sb].get_transition_state()) logev("STALE-STATE");
  if (invoke) logev(std::string(in ? "iI" : "oI") + std::to_string(sb) + ":" + (name ? name : "?"));
  else logev(std::string(in ? "iC" : "oC") + std::to_string(sb) + ":" + std::to_string(fn_of_key(ptr)));
}

// scenario modes of the guest function (commands `cbptr` / `cbmany`): 1 = call entry point number `arg` with argument 1 and return
// its result; 2 = call entry point number `arg` with argument 7, take the result as a POINTER into guest memory and return what it points at
static int g_mode = 0;
static GLong gl_node(GLong arg)
{
  if (g_mode != 0) {
#ifdef CALLS_NOOP
    if (g_mode == 1) return reinterpret_cast<GLong (*)(GLong)>(g_ep[arg])(1);
    GLong* p = reinterpret_cast<GLong* (*)(GLong)>(g_ep[arg])(7);
    return p ? *p : -1;
#else
    auto* im = SbxA::thread_data.sandbox;
    if (g_mode == 1) return im->guest_call_fnptr<GLong, GLong>((uint32_t)g_ep[arg], 1);
    uint32_t off = im->guest_call_fnptr<uint32_t, GLong>((uint32_t)g_ep[arg], 7);
    if (off == 0) return -1;
    GLong v; std::memcpy(&v, reinterpret_cast<void*>(im->Base + (off & 0xffff)), sizeof v); return v;
#endif
  }
  int me = g_cur_sb;
#ifndef CALLS_NOOP
  auto* impl = SbxA::thread_data.sandbox;
  me = sb_of_impl(impl);
#endif
  logev("g" + std::to_string(me) + ":" + std::to_string(arg));
  while (peek() == "C") {
    next();
    int ep = atoi(next().c_str());
    GLong carg = (GLong)parse_dec(next());
#ifdef CALLS_NOOP
    GLong r = reinterpret_cast<GLong (*)(GLong)>(g_ep[ep])(carg);
#else
    GLong r = impl->guest_call_fnptr<GLong, GLong>((uint32_t)g_ep[ep], carg);
#endif
    g_cur_sb = me;
    logev("gr" + std::to_string(r));
  }
  next(); // E
  return arg + 1;
}

// the void flavour of the guest function (a different instantiation of the invocation path: no result to convert)
static long g_vret;
static void gv_node(GLong arg) { g_vret = (long)gl_node(arg); }

// the callable address of a guest function: in the shared object for the dylib backend, in the harness otherwise
static void* guest_fn(int sb, const char* name, void* local)
{
#ifdef CALLS_DYLIB
  (void)local; return g_sb[sb].lookup_symbol(name);
#else
  (void)sb; (void)name; return local;
#endif
}

static void run_invokes()
{
  while (peek() == "I") {
    next();
    int sb = atoi(next().c_str());
    long arg = (long)parse_dec(next());
    std::string fault = next();
    bool as_void = fault.size() == 2 && fault[1] == 'v';   // "nv" / "av": invoke the void flavour
    if (as_void) fault.pop_back();
    if (fault == "a") arg = (1L << 40) + arg; // not representable in the sandbox's 32-bit long: argument conversion aborts
    // sandbox 2 lives only for this node: a callback body (or the application) creates a helper sandbox, uses it and destroys it;
    // the sandboxes that are executing further up the stack must not notice
    struct Helper {
      bool on;
      explicit Helper(bool o) : on(o)
      {
        if (!on) return;
#ifdef CALLS_DYLIB
        g_sb[2].create_sandbox(getenv("VH_GUEST_SO"));
#else
        g_sb[2].create_sandbox();
#endif
        // (the helper's transition state was installed ONCE at start-up: it belongs to the object, a destroy/create cycle keeps it)
      }
      ~Helper() { if (on) g_sb[2].destroy_sandbox(); }
    } helper(sb == 2);
    int saved = g_cur_sb; g_cur_sb = sb;
    struct Restore { int& r; int v; ~Restore() { r = v; } } restore{ g_cur_sb, saved };
    if (as_void) {
      g_sb[sb].INTERNAL_invoke_with_func_ptr<void(long)>("gl_node", guest_fn(sb, "gv_node", reinterpret_cast<void*>(&gv_node)), arg);
      logev("r" + std::to_string(g_vret));
    } else {
      auto r = g_sb[sb].INTERNAL_invoke_with_func_ptr<long(long)>("gl_node", guest_fn(sb, "gl_node", reinterpret_cast<void*>(&gl_node)), arg);
      logev("r" + std::to_string(r.UNSAFE_unverified()));
    }
  }
}

template<int K> static tainted<long, SbxA> cbK(Sb& s, tainted<long, SbxA> a)
{
  // the node's own parameters follow the argument that the guest consumed
  long ret = (long)parse_dec(next());
  std::string fault = next();
  logev("c" + std::to_string(K) + ":" + std::to_string(sb_of_ref(s)) + ":" + std::to_string(a.UNSAFE_unverified()));
  { int i = sb_of_ref(s); if (i < 3) { g_state_cur[i] ^= 1; s.set_transition_state(&g_state[i][g_state_cur[i]]); } }
  run_invokes();
  next(); // E
  if (fault == "b") rlbox::detail::dynamic_check(false, "fault injected in the callback body");
  if (fault == "r") ret = (1L << 40) + ret; // result conversion to the sandbox's long aborts
  return ret;
}

// many callbacks with one signature: each returns 1000*argument + its own number
template<int K> static tainted<long, SbxA> cbM(Sb&, tainted<long, SbxA> a) { return a * 1000 + K; }
constexpr int NMANY = 70;
static CbFn g_many[NMANY];
template<size_t... Is> static void fill_many(std::index_sequence<Is...>) { ((g_many[Is] = &cbM<(int)Is>), ...); }
// a callback whose result is a POINTER into sandbox memory
static long g_ptr_val;
static tainted<long*, SbxA> cbP(Sb& s, tainted<long, SbxA>)
{
  auto p = s.malloc_in_sandbox<long>();
  *p = g_ptr_val;
  return p;
}

#ifdef CALLS_DYLIB
extern "C" __attribute__((visibility("default"))) int vh_only_in_1() { return 999; }    // the application's own function of that name
#endif

int main()
{
  fill_many(std::make_index_sequence<NMANY>());
  g_cbs[0] = &cbK<0>; g_cbs[1] = &cbK<1>; g_cbs[2] = &cbK<2>; g_cbs[3] = &cbK<3>;
#ifdef CALLS_DYLIB
  const char* so = getenv("VH_GUEST_SO");
  if (!so) { fprintf(stderr, "VH_GUEST_SO not set\n"); return 2; }
  const char* so2 = getenv("VH_GUEST_SO2");      // a second guest library exporting the same names (sandbox 1)
  g_sb[0].create_sandbox(so); g_sb[1].create_sandbox(so2 ? so2 : so);
  for (int i = 0; i < 2; i++) {
    using SetFn = void (*)(long (*)(long), void (*)(long));
    auto set = reinterpret_cast<SetFn>(g_sb[i].lookup_symbol("vh_set_hooks"));
    set(+[](long a) -> long { return (long)gl_node((GLong)a); }, +[](long a) { gv_node((GLong)a); });
  }
#else
  g_sb[0].create_sandbox(); g_sb[1].create_sandbox();
#endif
  g_sb[0].set_transition_state(&g_state[0][0]); g_sb[1].set_transition_state(&g_state[1][0]);
  g_sb[2].set_transition_state(&g_state[2][0]);     // before its first creation; every later incarnation must still carry it
  main_loop([&](const std::vector<std::string>& t) -> std::string {
    if (t[0] == "dywho" && t.size() == 1) {
      // two live sandboxes bound to two different libraries that export the same names: each function runs in ITS library,
      // including the library-internal calls it makes
#ifdef CALLS_DYLIB
      return guarded([&]() -> std::string {
        std::string out = "ok";
        for (int i = 0; i < 2; i++) {
          auto r = g_sb[i].INTERNAL_invoke_with_func_ptr<int()>("vh_whoami", g_sb[i].lookup_symbol("vh_whoami"));
          out += " " + std::to_string(r.UNSAFE_unverified());
        }
        return out;
      });
#else
      return "na";
#endif
    }
    if (t[0] == "dymiss" && t.size() == 1) {
      // a name that only library 1 exports, while the process itself (this executable) exports a function of the same name:
      // instance 0 (library 1) runs ITS function, instance 1 (library 2) must abort with "Symbol not found"
#ifdef CALLS_DYLIB
      std::string out = "ok";
      for (int i = 0; i < 2; i++) {
        out += " " + guarded([&]() -> std::string {
          auto r = g_sb[i].INTERNAL_invoke_with_func_ptr<int()>("vh_only_in_1", g_sb[i].lookup_symbol("vh_only_in_1"));
          return std::to_string(r.UNSAFE_unverified());
        });
      }
      return out;
#else
      return "na";
#endif
    }
    if (t[0] == "cbptr" && t.size() == 3) {
      // a callback returns a pointer to a cell it allocated in sandbox memory; the guest dereferences what it received
      int sb = atoi(t[1].c_str()); g_ptr_val = (long)parse_dec(t[2]);
      std::string r = guarded([&]() -> std::string {
        auto cb = g_sb[sb].register_callback(cbP);
        g_ep[0] = (uintptr_t)cb.UNSAFE_sandboxed(g_sb[sb]); g_mode = 2; g_cur_sb = sb;
        struct Reset { ~Reset() { g_mode = 0; g_cur_sb = 9; } } reset;
        auto v = g_sb[sb].INTERNAL_invoke_with_func_ptr<long(long)>("gl_node", guest_fn(sb, "gl_node", reinterpret_cast<void*>(&gl_node)), 0L);
        return "ok " + std::to_string(v.UNSAFE_unverified());
      });
#ifndef CALLS_NOOP
      SbxA::thread_data.sandbox = nullptr;
#endif
      return r;
    }
    if (t[0] == "cbmany" && t.size() == 4) {
      // n live registrations (distinct functions, one signature), one of them released, two more made; then EVERY live
      // entry point is called by the guest: each must still run the function it was handed out for
      int sb = atoi(t[1].c_str()), n = atoi(t[2].c_str()), unreg = atoi(t[3].c_str());
      if (n + 2 > NMANY || n + 2 > 16 + 60) return "badop";
      using Owner = rlbox::sandbox_callback<long (*)(long), SbxA>;
      static uintptr_t eps[NMANY]; std::vector<Owner> owners((size_t)n + 2);
      std::string r = guarded([&]() -> std::string {
        auto reg = [&](int i) { owners[(size_t)i] = g_sb[sb].register_callback(g_many[i]); eps[i] = (uintptr_t)owners[(size_t)i].UNSAFE_sandboxed(g_sb[sb]); };
        for (int i = 0; i < n; i++) reg(i);
        if (unreg >= 0 && unreg < n) owners[(size_t)unreg].unregister();
        reg(n); reg(n + 1);
        std::string out = "ok";
        g_mode = 1; g_cur_sb = sb;
        struct Reset { ~Reset() { g_mode = 0; g_cur_sb = 9; } } reset;
        for (int i = 0; i < n + 2; i++) {
          if (i == unreg) { out += " -"; continue; }
          g_ep[0] = eps[i];
          auto v = g_sb[sb].INTERNAL_invoke_with_func_ptr<long(long)>("gl_node", guest_fn(sb, "gl_node", reinterpret_cast<void*>(&gl_node)), 0L);
          out += " " + std::to_string(v.UNSAFE_unverified() - 1000);
        }
        return out;
      });
      for (auto& o : owners) { try { o.unregister(); } catch (...) {} }
#ifndef CALLS_NOOP
      SbxA::thread_data.sandbox = nullptr;
#endif
      return r;
    }
    if (t[0] != "tree" && t[0] != "treen" && t[0] != "treenh" && t[0] != "treeni" && t[0] != "treeno") return "badop";
    g_tok.assign(t.begin() + 1, t.end()); g_pos = 0; g_log.clear(); g_nep = 0; g_cur_sb = 9;
    using Owner = rlbox::sandbox_callback<long (*)(long), SbxA>;
    std::vector<Owner> owners(6);
    std::string r = guarded([&]() -> std::string {
      while (peek() == "R" || peek() == "U") {
        if (next() == "R") {
          int sb = atoi(next().c_str()), o = atoi(next().c_str()), f = atoi(next().c_str());
          owners[(size_t)o] = g_sb[sb].register_callback(g_cbs[f]);
          g_ep[g_nep++] = (uintptr_t)owners[(size_t)o].UNSAFE_sandboxed(g_sb[sb]);
#ifdef CALLS_NOOP
          { // identity of the entry point value: rank of the trampoline pointer by first appearance
            static std::vector<uintptr_t> seen;
            size_t k = 0; while (k < seen.size() && seen[k] != g_ep[g_nep - 1]) k++;
            if (k == seen.size()) seen.push_back(g_ep[g_nep - 1]);
            logev("s" + std::to_string(k));
          }
#else
          logev("s" + std::to_string((long)g_ep[g_nep - 1] - (long)SbxA::CB_BASE));
#endif
        } else owners[(size_t)atoi(next().c_str())].unregister();
      }
      next(); // T
      run_invokes();
      return "ok";
    });
    if (r != "ok") logev(r == "abort" ? "x" : r);
    std::string tim;
#ifdef RLBOX_MEASURE_TRANSITION_TIMES
    for (int i = 0; i < 2; i++) {
      tim += " T" + std::to_string(i) + "=";
      for (auto& rec : g_sb[i].process_and_get_transition_times())
        tim += rec.invoke == rlbox::rlbox_transition::INVOKE ? (std::string(rec.name ? rec.name : "?") == "gl_node" ? "I" : "?") : (rec.name == nullptr ? "C" : "?");
      g_sb[i].clear_transition_times();
    }
#else
    tim = " T0=none T1=none";
#endif
    for (auto& o : owners) { try { o.unregister(); } catch (...) {} }
#ifndef CALLS_NOOP
    SbxA::thread_data.sandbox = nullptr;
#endif
    return g_log + tim;
  });
  return 0;
}
