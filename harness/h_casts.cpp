// Engine `casts` (C20): opaque round trips and the three sandbox casts.
//   opq <ty> <v>                      -> ok same=<0|1> val=<v>
//   scaste <to> <wrap>:<e64|eu32|es8> <v>  -> ok <value>   sandbox_static_cast<to>(wrapped enum with that underlying type)
//   scast <to> <wrap>:<from> <v>      -> ok <value>        sandbox_static_cast<to>(wrapped from)
//   rcast <wrap> <srcty> <dstty> <off|null>  -> ok <addr>  sandbox_reinterpret_cast between pointer types
//   ccast <wrap> <off|null>           -> ok <addr>          sandbox_const_cast<int*>(const int*)
//   cbopq <v>                         -> ok guest=<g>       a callback returning tainted_opaque<long>
#include <cmath>
#include "vtypes.hpp"
using namespace vh;
using rlbox::tainted;
using Sb = rlbox::rlbox_sandbox<SbxA>;
static Sb g_sb, g_sb1;
static Sb* g_sbs[2] = { &g_sb, &g_sb1 };
static std::string addr(const void* p) { return show_addr<SbxA>(p, g_sbs, 2); }

using Types = TL<bool, char, signed char, unsigned char, short, unsigned short, int, unsigned int, long, unsigned long,
                 long long, unsigned long long, char16_t, char32_t>;
static const char* const Names[] = { "bool", "char", "schar", "uchar", "short", "ushort", "int", "uint", "long", "ulong", "llong", "ullong", "char16", "char32" };
constexpr size_t NT = Types::n;

template<typename T> static std::string opq_int(i128 v)
{
  if (!representable<T>(v)) return "badinput";
  tainted<T, SbxA> x = (T)v;
  auto o = x.to_opaque();
  auto y = rlbox::from_opaque(o);
  bool same = std::memcmp(&x, &y, sizeof x) == 0 && sizeof(o) == sizeof(T);
  return std::string("ok same=") + (same ? "1" : "0") + " val=" + to_dec(as_math(y.UNSAFE_unverified()));
}
template<typename To, typename Fr, bool VOL> static std::string scast(i128 v)
{
  if (!representable<Fr>(v)) return "badinput";
  if (g_sb.get_sandbox_impl()->brk > (1u << 15)) g_sb.get_sandbox_impl()->brk = 16;
  if constexpr (VOL) {
    auto p = g_sb.malloc_in_sandbox<Fr>(); *p = (Fr)v;
    auto r = rlbox::sandbox_static_cast<To>(*p);
    static_assert(std::is_same_v<decltype(r), tainted<To, SbxA>>);
    return "ok " + to_dec(as_math(r.UNSAFE_unverified()));
  } else {
    tainted<Fr, SbxA> x = (Fr)v;
    auto r = rlbox::sandbox_static_cast<To>(x);
    static_assert(std::is_same_v<decltype(r), tainted<To, SbxA>>);
    return "ok " + to_dec(as_math(r.UNSAFE_unverified()));
  }
}
// --- enum sources (C20: "enum <-> integer"): the cast is the plain static_cast on the underlying value ---
enum class VE64 : unsigned long long { Z = 0 };
enum VEU32 : unsigned int { VEU32_Z = 0 };
enum class VES8 : signed char { Z = 0 };
template<typename To, typename En, bool VOL> static std::string scast_enum(i128 v)
{
  using U = std::underlying_type_t<En>;
  if (!representable<U>(v)) return "badinput";
  if (g_sb.get_sandbox_impl()->brk > (1u << 15)) g_sb.get_sandbox_impl()->brk = 16;
  if constexpr (VOL) {
    auto p = g_sb.malloc_in_sandbox<En>(); *p = (En)(U)v;
    auto r = rlbox::sandbox_static_cast<To>(*p);
    static_assert(std::is_same_v<decltype(r), tainted<To, SbxA>>);
    return "ok " + to_dec(as_math(r.UNSAFE_unverified()));
  } else {
    tainted<En, SbxA> x = (En)(U)v;
    auto r = rlbox::sandbox_static_cast<To>(x);
    static_assert(std::is_same_v<decltype(r), tainted<To, SbxA>>);
    return "ok " + to_dec(as_math(r.UNSAFE_unverified()));
  }
}
typedef std::string (*sce_fn)(i128);
static sce_fn g_sce[NT][3][2];
template<size_t I> static void fill_sce_row()
{
  using To = nth_t<I, Types>;
  g_sce[I][0][0] = &scast_enum<To, VE64, false>; g_sce[I][0][1] = &scast_enum<To, VE64, true>;
  g_sce[I][1][0] = &scast_enum<To, VEU32, false>; g_sce[I][1][1] = &scast_enum<To, VEU32, true>;
  g_sce[I][2][0] = &scast_enum<To, VES8, false>; g_sce[I][2][1] = &scast_enum<To, VES8, true>;
}
template<size_t... I> static void fill_sce(std::index_sequence<I...>) { (fill_sce_row<I>(), ...); }
// --- casts that involve a floating-point type: values travel as exact dyadic rationals  m * 2^e  (m odd) ---
using FTypes = TL<float, double, long double>;
static const char* const FNames[] = { "float", "double", "ldouble" };
constexpr size_t NF = FTypes::n;
template<typename F> static std::string show_dy(F x)
{
  if (x == 0) return "0 0";
  int e; long double m = frexpl((long double)x, &e);     // |m| in [0.5, 1): at most 64 significant bits
  uint64_t mi = (uint64_t)ldexpl(fabsl(m), 64); e -= 64;
  while ((mi & 1) == 0) { mi >>= 1; e++; }
  return std::string(x < 0 ? "-" : "") + std::to_string(mi) + " " + std::to_string(e);
}
template<typename To, typename Fr, bool VOL> static To cast_one(Fr v)
{
  if (g_sb.get_sandbox_impl()->brk > (1u << 15)) g_sb.get_sandbox_impl()->brk = 16;
  if constexpr (VOL) {
    auto p = g_sb.malloc_in_sandbox<Fr>(); *p = v;
    auto r = rlbox::sandbox_static_cast<To>(*p);
    static_assert(std::is_same_v<decltype(r), tainted<To, SbxA>>);
    return r.UNSAFE_unverified();
  } else {
    tainted<Fr, SbxA> x = v;
    auto r = rlbox::sandbox_static_cast<To>(x);
    static_assert(std::is_same_v<decltype(r), tainted<To, SbxA>>);
    return r.UNSAFE_unverified();
  }
}
// integer -> floating point
template<typename To, typename Fr, bool VOL> static std::string scast_if(i128 v, int)
{
  if (!representable<Fr>(v)) return "badinput";
  return "ok " + show_dy<To>(cast_one<To, Fr, VOL>((Fr)v));
}
// floating point (num / 2^k, exactly representable in Fr) -> integer; the caller only asks for in-range results
template<typename To, typename Fr, bool VOL> static std::string scast_fi(i128 num, int k)
{
  Fr x = std::ldexp((Fr)num, -k);
  if ((i128)std::ldexp(x, k) != num) return "badinput";
  return "ok " + to_dec(as_math(cast_one<To, Fr, VOL>(x)));
}
template<typename To, typename Fr, bool VOL> static std::string scast_ff(i128 num, int k)
{
  Fr x = std::ldexp((Fr)num, -k);
  if ((i128)std::ldexp(x, k) != num) return "badinput";
  return "ok " + show_dy<To>(cast_one<To, Fr, VOL>(x));
}
using F1 = std::string (*)(i128);
using F2 = std::string (*)(i128, int);
static F2 g_if[NF][NT][2], g_fi[NT][NF][2], g_ff[NF][NF][2];
template<size_t I, size_t J> static void fillf_cell()
{
  using Fl = nth_t<I, FTypes>; using In = nth_t<J, Types>;
  g_if[I][J][0] = &scast_if<Fl, In, false>; g_if[I][J][1] = &scast_if<Fl, In, true>;
  g_fi[J][I][0] = &scast_fi<In, Fl, false>; g_fi[J][I][1] = &scast_fi<In, Fl, true>;
}
template<size_t I, size_t J> static void fillff_cell() { using A = nth_t<I, FTypes>; using B = nth_t<J, FTypes>; g_ff[I][J][0] = &scast_ff<A, B, false>; g_ff[I][J][1] = &scast_ff<A, B, true>; }
template<size_t I, size_t... Js> static void fillf_row(std::index_sequence<Js...>) { (fillf_cell<I, Js>(), ...); }
template<size_t I, size_t... Js> static void fillff_row(std::index_sequence<Js...>) { (fillff_cell<I, Js>(), ...); }
template<size_t... Is> static void fillf_all(std::index_sequence<Is...>) { (fillf_row<Is>(std::make_index_sequence<NT>()), ...); (fillff_row<Is>(std::make_index_sequence<NF>()), ...); }
static F1 g_opq[NT]; static F1 g_sc[NT][NT][2];
template<size_t I, size_t J> static void fill_cell() { using To = nth_t<I, Types>; using Fr = nth_t<J, Types>; g_sc[I][J][0] = &scast<To, Fr, false>; g_sc[I][J][1] = &scast<To, Fr, true>; }
template<size_t I, size_t... Js> static void fill_row(std::index_sequence<Js...>) { g_opq[I] = &opq_int<nth_t<I, Types>>; (fill_cell<I, Js>(), ...); }
template<size_t... Is> static void fill_all(std::index_sequence<Is...>) { (fill_row<Is>(std::make_index_sequence<NT>()), ...); }

template<typename T> static tainted<T*, SbxA> mkp(const std::string& s)
{
  tainted<T*, SbxA> p = nullptr;
  if (s != "null") p.assign_raw_pointer(g_sb, reinterpret_cast<T*>(g_sb.get_sandbox_impl()->Base + (uintptr_t)parse_dec(s)));
  return p;
}
// class types related by inheritance with non-zero base offsets: a reinterpret_cast never adjusts the address (a static_cast
// or a C-style cast between these would)
struct CBaseA { long a; };
struct CBaseB { long b; };
struct CDerived : CBaseA, CBaseB { long c; };
// the source pointer either as a tainted (application memory) or stored in a sandbox cell (tainted_volatile)
template<typename Src, typename Dst> static std::string rcast(bool vol, const std::string& off)
{
  if (g_sb.get_sandbox_impl()->brk > (1u << 15)) g_sb.get_sandbox_impl()->brk = 16;
  auto p = mkp<std::remove_pointer_t<Src>>(off);
  if (vol) {
    auto cell = g_sb.malloc_in_sandbox<Src>(); *cell = p;
    auto r = rlbox::sandbox_reinterpret_cast<Dst>(*cell);
    static_assert(std::is_same_v<decltype(r), tainted<Dst, SbxA>>);
    return "ok " + addr((const void*)r.UNSAFE_unverified());
  }
  auto r = rlbox::sandbox_reinterpret_cast<Dst>(p);
  return "ok " + addr((const void*)r.UNSAFE_unverified());
}
// a backend whose pointer representation is as wide as a host pointer but still an OFFSET (ABI N): a cast of a pointer stored in
// sandbox memory must translate it like any other load, never take the stored bits for the address
static rlbox::rlbox_sandbox<SbxN> g_sbN;
static std::string castn(const std::string& which, const std::string& off)
{
  auto* im = g_sbN.get_sandbox_impl();
  if (im->brk > (1u << 15)) im->brk = 16;
  tainted<int*, SbxN> p0 = nullptr;
  if (off != "null") p0.assign_raw_pointer(g_sbN, reinterpret_cast<int*>(im->Base + (uintptr_t)parse_dec(off)));
  auto show = [&](const void* r) -> std::string {
    auto a = reinterpret_cast<uintptr_t>(r);
    if (a == 0) return "ok null";
    if (a >= im->Base && a - im->Base < SbxN::Size) return "ok in0:" + std::to_string(a - im->Base);
    char b[48]; snprintf(b, sizeof b, "ok out:0x%llx", (unsigned long long)a); return b;
  };
  if (which == "ccastn") {
    tainted<const int*, SbxN> p = rlbox::sandbox_const_cast<const int*>(p0);
    auto cell = g_sbN.malloc_in_sandbox<const int*>(); *cell = p;
    auto r = rlbox::sandbox_const_cast<int*>(*cell);
    static_assert(std::is_same_v<decltype(r), tainted<int*, SbxN>>);
    return show(r.UNSAFE_unverified());
  }
  auto cell = g_sbN.malloc_in_sandbox<int*>(); *cell = p0;
  auto r = rlbox::sandbox_reinterpret_cast<char*>(*cell);
  return show(r.UNSAFE_unverified());
}
// sandbox_static_cast between class pointers related by inheritance: the address is adjusted exactly as static_cast adjusts it
// (non-first base: + offset of the base subobject; null stays null) -- unlike sandbox_reinterpret_cast, which never adjusts
template<typename Src, typename Dst> static std::string scastp(bool vol, const std::string& off)
{
  if (g_sb.get_sandbox_impl()->brk > (1u << 15)) g_sb.get_sandbox_impl()->brk = 16;
  auto p = mkp<std::remove_pointer_t<Src>>(off);
  if (vol) {
    auto cell = g_sb.malloc_in_sandbox<Src>(); *cell = p;
    auto r = rlbox::sandbox_static_cast<Dst>(*cell);
    static_assert(std::is_same_v<decltype(r), tainted<Dst, SbxA>>);
    return "ok " + addr((const void*)r.UNSAFE_unverified());
  }
  auto r = rlbox::sandbox_static_cast<Dst>(p);
  return "ok " + addr((const void*)r.UNSAFE_unverified());
}
// a program that binds the opaque value by reference and goes on using the tainted variable: the opaque value is a COPY
static std::string opqalias(i128 v1, i128 v2)
{
  if (!representable<long>(v1) || !representable<long>(v2)) return "badinput";
  tainted<long, SbxA> a = (long)v1;
  auto&& o = a.to_opaque();
  a = (long)v2;
  long got = rlbox::from_opaque(o).UNSAFE_unverified();
  tainted<int[4], SbxA> arr; for (int i = 0; i < 4; i++) arr[i] = (int)(v1 % 1000) + i;
  auto&& oa = arr.to_opaque();
  arr[2] = (int)(v2 % 1000);
  int got2 = rlbox::from_opaque(oa)[2].UNSAFE_unverified();
  return "ok " + std::to_string(got) + " " + std::to_string(got2);
}
static tainted<long, SbxA> g_cb_val;
static rlbox::tainted_opaque<long, SbxA> cb_opq(Sb&, rlbox::tainted_opaque<long, SbxA> a) { (void)a; return g_cb_val.to_opaque(); }
// floating-point opaque values through a callback: parameter and result travel in floating-point registers, so the wrapper must
// stay a plain aggregate of ONE member of type T (same calling convention as tainted<T>)
static double g_cb_seen_d; static double g_cb_val_d;
static rlbox::tainted_opaque<double, SbxA> cb_opq_d(Sb&, rlbox::tainted_opaque<double, SbxA> a)
{
  g_cb_seen_d = rlbox::from_opaque(a).UNSAFE_unverified();
  tainted<double, SbxA> r = g_cb_val_d;
  return r.to_opaque();
}
static double g_guest_got_d;
static double gl_callcb_d(uint32_t cb, double x) { g_guest_got_d = SbxA::thread_data.sandbox->guest_call_fnptr<double, double>(cb, x); return g_guest_got_d; }
static float g_cb_seen_f;
static rlbox::tainted_opaque<float, SbxA> cb_opq_f(Sb&, rlbox::tainted_opaque<float, SbxA> a)
{
  g_cb_seen_f = rlbox::from_opaque(a).UNSAFE_unverified();
  tainted<float, SbxA> r = (float)g_cb_val_d;
  return r.to_opaque();
}
static float gl_callcb_f(uint32_t cb, float x) { return SbxA::thread_data.sandbox->guest_call_fnptr<float, float>(cb, x); }
static int32_t g_seen_ret;
static int32_t gl_callcb(uint32_t cb, int32_t x) { g_seen_ret = SbxA::thread_data.sandbox->guest_call_fnptr<int32_t, int32_t>(cb, x); return g_seen_ret; }

static int32_t gl_see(int32_t x) { g_seen_ret = x; return x; }

int main()
{
  fill_all(std::make_index_sequence<NT>());
  fillf_all(std::make_index_sequence<NF>());
  static vsbx::Library lib("libcasts", { { "gl_see", (void*)&gl_see }, { "gl_callcb", (void*)&gl_callcb } });
  g_sb.create_sandbox(&lib); g_sb1.create_sandbox(); g_sbN.create_sandbox();
  main_loop([&](const std::vector<std::string>& t) -> std::string {
    return guarded([&]() -> std::string {
      auto ty = [&](const std::string& n) { for (size_t i = 0; i < NT; i++) if (n == Names[i]) return (int)i; return -1; };
      if (t[0] == "opq" && t.size() == 3) {
        if (t[1] == "ptr") {
          auto p = mkp<int>(t[2]); auto o = p.to_opaque(); auto y = rlbox::from_opaque(o);
          return std::string("ok same=") + (std::memcmp(&p, &y, sizeof p) == 0 ? "1" : "0") + " val=" + addr((const void*)y.UNSAFE_unverified());
        }
        if (t[1] == "arr") {
          tainted<int[4], SbxA> a; i128 v = parse_dec(t[2]); for (int i = 0; i < 4; i++) a[i] = (int)(v + i);
          auto o = a.to_opaque(); auto y = rlbox::from_opaque(o);
          return std::string("ok same=") + (std::memcmp(&a, &y, sizeof a) == 0 ? "1" : "0") + " val=" + to_dec(as_math(y[3].UNSAFE_unverified()));
        }
        if (t[1] == "st") {
          tainted<vst12, SbxA> s; i128 v = parse_dec(t[2]); s.c = (char)(v & 0x7f); s.l = (long)(v >> 8); s.p = nullptr;
          auto o = s.to_opaque(); auto y = rlbox::from_opaque(o);
          return std::string("ok same=") + (std::memcmp(&s, &y, sizeof s) == 0 ? "1" : "0") + " val=" + to_dec(as_math(y.l.UNSAFE_unverified()));
        }
        int i = ty(t[1]); if (i < 0) return "badop";
        return g_opq[i](parse_dec(t[2]));
      }
      if (t[0] == "scaste" && t.size() == 4) {
        static bool filled = (fill_sce(std::make_index_sequence<NT>{}), true); (void)filled;
        auto c = t[2].find(':'); int to = ty(t[1]); bool vol = t[2].substr(0, c) == "tvol"; const std::string en = t[2].substr(c + 1);
        int e = en == "e64" ? 0 : en == "eu32" ? 1 : en == "es8" ? 2 : -1;
        if (to < 0 || e < 0) return "badop";
        return g_sce[to][e][vol ? 1 : 0](parse_dec(t[3]));
      }
      if (t[0] == "scast" && t.size() == 4) {
        auto c = t[2].find(':'); int to = ty(t[1]), fr = ty(t[2].substr(c + 1)); bool vol = t[2].substr(0, c) == "tvol";
        if (to < 0 || fr < 0) return "badop";
        return g_sc[to][fr][vol ? 1 : 0](parse_dec(t[3]));
      }
      auto fty = [&](const std::string& n) { for (size_t i = 0; i < NF; i++) if (n == FNames[i]) return (int)i; return -1; };
      if ((t[0] == "scastf" && t.size() == 4) || ((t[0] == "scastfi" || t[0] == "scastff") && t.size() == 5)) {
        auto c = t[2].find(':'); bool vol = t[2].substr(0, c) == "tvol"; const std::string frn = t[2].substr(c + 1);
        int k = t.size() == 5 ? atoi(t[4].c_str()) : 0;
        if (t[0] == "scastf") { int to = fty(t[1]), fr = ty(frn); if (to < 0 || fr < 0) return "badop"; return g_if[to][fr][vol](parse_dec(t[3]), 0); }
        if (t[0] == "scastfi") { int to = ty(t[1]), fr = fty(frn); if (to < 0 || fr < 0) return "badop"; return g_fi[to][fr][vol](parse_dec(t[3]), k); }
        int to = fty(t[1]), fr = fty(frn); if (to < 0 || fr < 0) return "badop"; return g_ff[to][fr][vol](parse_dec(t[3]), k);
      }
      if (t[0] == "rcast" && t.size() == 5) {
        bool vol = t[1] == "tvol";
        const std::string k = t[2] + ">" + t[3];
        if (k == "int>char") return rcast<int*, char*>(vol, t[4]);
        if (k == "char>int") return rcast<char*, int*>(vol, t[4]);
        if (k == "int>st") return rcast<int*, vst12*>(vol, t[4]);
        if (k == "st>char") return rcast<vst12*, char*>(vol, t[4]);
        if (k == "int>void") return rcast<int*, void*>(vol, t[4]);
        if (k == "pp>char") return rcast<int**, char*>(vol, t[4]);
        if (k == "baseb>derived") return rcast<CBaseB*, CDerived*>(vol, t[4]);
        if (k == "derived>baseb") return rcast<CDerived*, CBaseB*>(vol, t[4]);
        if (k == "derived>basea") return rcast<CDerived*, CBaseA*>(vol, t[4]);
        if (k == "basea>baseb") return rcast<CBaseA*, CBaseB*>(vol, t[4]);
        return "badop";
      }
      if ((t[0] == "ccastn" || t[0] == "rcastn") && t.size() == 2) return castn(t[0], t[1]);
      if (t[0] == "scastp" && t.size() == 4) {
        bool vol = t[1] == "tvol";
        if (t[2] == "derived>baseb") return scastp<CDerived*, CBaseB*>(vol, t[3]);
        if (t[2] == "baseb>derived") return scastp<CBaseB*, CDerived*>(vol, t[3]);
        if (t[2] == "derived>basea") return scastp<CDerived*, CBaseA*>(vol, t[3]);
        return "badop";
      }
      if (t[0] == "opqalias" && t.size() == 3) return opqalias(parse_dec(t[1]), parse_dec(t[2]));
      if (t[0] == "ccast" && t.size() == 3) {
        bool vol = t[1] == "tvol";
        if (g_sb.get_sandbox_impl()->brk > (1u << 15)) g_sb.get_sandbox_impl()->brk = 16;
        auto p0 = mkp<int>(t[2]);
        tainted<const int*, SbxA> p = rlbox::sandbox_const_cast<const int*>(p0);
        if (vol) { auto cell = g_sb.malloc_in_sandbox<const int*>(); *cell = p; auto r = rlbox::sandbox_const_cast<int*>(*cell); return "ok " + addr(r.UNSAFE_unverified()); }
        auto r = rlbox::sandbox_const_cast<int*>(p);
        static_assert(std::is_same_v<decltype(r), tainted<int*, SbxA>>);
        return "ok " + addr(r.UNSAFE_unverified());
      }
      if (t[0] == "opqarg" && t.size() == 2) { // the same value passed as tainted and as tainted_opaque to long f(long)
        i128 v = parse_dec(t[1]);
        if (!representable<long>(v)) return "badinput";
        tainted<long, SbxA> x = (long)v;
        auto one = [&](auto&& arg) -> std::string {
          g_seen_ret = 0x5a5a5a5a;
          try { g_sb.INTERNAL_invoke_with_func_ptr<long(long)>("gl_see", reinterpret_cast<void*>(&gl_see), arg); }
          catch (const std::runtime_error&) { return "abort"; }
          return std::to_string(g_seen_ret);
        };
        std::string a = one(x), b = one(x.to_opaque());
        return "ok tainted=" + a + " opaque=" + b;
      }
      if (t[0] == "cbopqd" && t.size() == 3) {     // cbopqd <arg> <ret>: integral values carried in double / float opaques
        long a = (long)parse_dec(t[1]), rv = (long)parse_dec(t[2]);
        g_cb_val_d = (double)rv; g_cb_seen_d = -12345.0; g_cb_seen_f = -12345.0f;
        auto cb = g_sb.register_callback(cb_opq_d);
        using F = double (*)(double);
        auto r = g_sb.INTERNAL_invoke_with_func_ptr<double(F, double)>("gl_callcb_d", reinterpret_cast<void*>(&gl_callcb_d), cb, (double)a);
        auto cbf = g_sb.register_callback(cb_opq_f);
        using FF = float (*)(float);
        auto rf = g_sb.INTERNAL_invoke_with_func_ptr<float(FF, float)>("gl_callcb_f", reinterpret_cast<void*>(&gl_callcb_f), cbf, (float)a);
        return "ok seen=" + std::to_string((long)g_cb_seen_d) + " ret=" + std::to_string((long)r.UNSAFE_unverified()) +
               " seenf=" + std::to_string((long)g_cb_seen_f) + " retf=" + std::to_string((long)rf.UNSAFE_unverified());
      }
      if (t[0] == "rcastfn" && t.size() == 3) {     // rcastfn <tainted|tvol> <name>: a function address reinterpreted as void*
        using Fn = int(int);
        bool vol = t[1] == "tvol";
        tainted<Fn*, SbxA> f = g_sb.INTERNAL_get_sandbox_function_name<Fn>(t[2].c_str());
        const void* want = reinterpret_cast<const void*>(f.UNSAFE_unverified());
        const void* got;
        if (vol) { auto cell = g_sb.malloc_in_sandbox<Fn*>(); *cell = f; got = rlbox::sandbox_reinterpret_cast<void*>(*cell).UNSAFE_unverified(); }
        else got = rlbox::sandbox_reinterpret_cast<void*>(f).UNSAFE_unverified();
        return std::string("ok same=") + (got == want && want != nullptr ? "1" : "0");
      }
      if (t[0] == "cbopq" && t.size() == 2) {
        i128 v = parse_dec(t[1]);
        if (!representable<long>(v)) return "badinput";
        g_cb_val = (long)v; g_seen_ret = 0x5a5a5a5a;
        auto cb = g_sb.register_callback(cb_opq);
        using F = long (*)(long);
        auto r = g_sb.INTERNAL_invoke_with_func_ptr<long(F, long)>("gl_callcb", reinterpret_cast<void*>(&gl_callcb), cb, 1L);
        return "ok guest=" + std::to_string(g_seen_ret) + " ret=" + std::to_string(r.UNSAFE_unverified());
      }
      return "badop";
    });
  });
  return 0;
}
