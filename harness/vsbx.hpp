// rlbox_vsbx: the verification backend ("foreign-ABI model", DESIGN.md §2.2).
// Part of the trusted base; its contract (BackendLaws) is checked by enumeration in the C03/C04
// checks before anything else is compared.
//
//  * memory: one region of 2^K bytes at a 2^K-aligned *deterministic* address
//    (VSBX_BASE0 + slot * VSBX_STRIDE, MAP_FIXED_NOREPLACE), everything around it PROT_NONE;
//  * membership by range, is_in_same_sandbox by mask (2-argument flavour);
//  * data pointers: representation = address - base; context-free translation derives the base
//    from the *example* address;
//  * function pointers: per-instance table (index 0 = null); library functions occupy
//    1..n, callbacks occupy CB_BASE+slot. The application-side "address" of a sandbox function
//    is the address of a descriptor object, distinct from the host-callable address returned by
//    impl_lookup_symbol (needs_internal_lookup_symbol);
//  * ABI: template parameter;
//  * allocation: bump allocator, 8-byte granules, first offset 16, never reuses.
#pragma once
#include <cstdint>
#include <cstdio>
#include <cstdlib>
#include <cstring>
#include <string>
#include <utility>
#include <typeinfo>
#include <vector>
#include <sys/mman.h>

#ifndef RLBOX_SINGLE_THREADED_INVOCATIONS
#  define RLBOX_SINGLE_THREADED_INVOCATIONS
#endif
#include "rlbox.hpp"

namespace vsbx {

struct AbiA { using S = int16_t; using I = int32_t; using L = int32_t; using LL = int64_t; using P = uint32_t; static constexpr const char* name = "A"; };
struct AbiB { using S = int16_t; using I = int32_t; using L = int64_t; using LL = int64_t; using P = uint64_t; static constexpr const char* name = "B"; };
// the host's own ABI with NATIVE pointers as the representation (T_PointerType = void*, like the bundled noop/dylib backends) but with a
// real region: the representation is an offset carried in a pointer-typed value and is clamped into the region on the way out
struct AbiN { using S = short; using I = int; using L = long; using LL = long long; using P = void*; static constexpr const char* name = "N"; };
struct AbiC { using S = int32_t; using I = int64_t; using L = int64_t; using LL = int64_t; using P = uint32_t; static constexpr const char* name = "C"; };

// the same ABI, for a backend that does NOT declare `needs_internal_lookup_symbol` (rlbox then resolves function
// addresses through impl_lookup_symbol and keeps them in its second cache)
struct AbiAn : AbiA { static constexpr bool no_internal_lookup = true; };
template<class A, class = void> struct wants_internal_lookup : std::true_type {};
template<class A> struct wants_internal_lookup<A, std::enable_if_t<A::no_internal_lookup>> : std::false_type {};
template<bool B> struct internal_lookup_marker {};
template<> struct internal_lookup_marker<true> { using needs_internal_lookup_symbol = void; };

// the same ABI for a backend that can grant/deny access to buffers (`can_grant_deny_access`)
struct AbiAg : AbiA { static constexpr bool grants_access = true; };
template<class A, class = void> struct wants_grant : std::false_type {};
template<class A> struct wants_grant<A, std::enable_if_t<A::grants_access>> : std::true_type {};
template<bool B> struct grant_marker {};
template<> struct grant_marker<true> { using can_grant_deny_access = void; };
// how the granting backend answers: 0 = refuses and hands the caller's pointer back (success = false), 1 = grants by moving the
// bytes into its region (success = true), 2 = refuses with a null result
inline thread_local int g_grant_mode = 0;

struct GuestFn { const char* name; void* callable; };
struct Library {
  const char* libname;
  std::vector<GuestFn> fns;
  // one descriptor byte per function: &desc[i] is the application-side address of function i
  std::vector<char> desc;
  explicit Library(const char* n, std::vector<GuestFn> f) : libname(n), fns(std::move(f)), desc(fns.size() + 1) {}
  int find(const char* name) const {
    for (size_t i = 0; i < fns.size(); i++) if (std::strcmp(fns[i].name, name) == 0) return (int)i;
    return -1;
  }
};

// (overridable: under ThreadSanitizer only part of the address space may be mapped by the program)
#ifndef VSBX_BASE0_ADDR
#  define VSBX_BASE0_ADDR 0x6a0000000000ull
#endif
#ifndef VSBX_STRIDE_BYTES
#  define VSBX_STRIDE_BYTES 0x400030000ull // 16 GiB + 192 KiB between slots: NOT a multiple of 2^32, so an offset taken relative to the wrong sandbox is visible even in a 32-bit representation
#endif
constexpr uintptr_t VSBX_BASE0 = VSBX_BASE0_ADDR;
constexpr uintptr_t VSBX_STRIDE = VSBX_STRIDE_BYTES;

// which address slots are in use (process-wide; the harness is single threaded unless stated)
inline bool g_slot_used[64];
inline thread_local uintptr_t g_last_same_sbx[2] = { 0, 0 };
inline thread_local unsigned long g_n_same_sbx = 0;
inline thread_local uintptr_t g_first_same_sbx[2] = { 0, 0 };   // the first pair checked since g_n_same_sbx was last reset
inline int g_next_slot_hint = 0;
// harness knobs for the allocation path only: the allocator inside the sandbox is guest code (its result is forced to
// g_malloc_force_value), and the backend translates that result like a backend that does not clamp (base + value)
inline thread_local bool g_malloc_force = false;
inline thread_local uint64_t g_malloc_force_value = 0;
inline thread_local bool g_unclamped = false;
// a backend is not obliged to scrub its own fields in impl_destroy_sandbox: with this knob the destroyed instance keeps
// describing its old memory range (its memory is unmapped and its address slot is free for the next sandbox)
inline bool g_keep_stale_fields = false;
// what the sandbox's own `free` does to the block it gets back: overwrite its first g_free_poison bytes (0 = nothing)
inline size_t g_free_poison = 0;

} // namespace vsbx

namespace rlbox {

template<class Abi, unsigned K, unsigned NCB>
class rlbox_vsbx;

template<class Abi, unsigned K, unsigned NCB>
struct rlbox_vsbx_thread_data { rlbox_vsbx<Abi, K, NCB>* sandbox; uint32_t last_callback_invoked; };

template<class Abi, unsigned K, unsigned NCB>
class rlbox_vsbx : public vsbx::internal_lookup_marker<vsbx::wants_internal_lookup<Abi>::value>, public vsbx::grant_marker<vsbx::wants_grant<Abi>::value>
{
public:
  using Self = rlbox_vsbx<Abi, K, NCB>;
  using T_LongLongType = typename Abi::LL;
  using T_LongType = typename Abi::L;
  using T_IntType = typename Abi::I;
  using T_PointerType = typename Abi::P;
  using T_ShortType = typename Abi::S;

  static constexpr uintptr_t Size = uintptr_t(1) << K;
  static constexpr uintptr_t OffMask = Size - 1;
  static constexpr uintptr_t Mask = ~OffMask;
  static constexpr uintptr_t CB_BASE = 0x4000;
  // representation <-> integer (the representation may be an integer type or a pointer type)
  static inline uintptr_t U(T_PointerType p) { if constexpr (std::is_pointer_v<T_PointerType>) return reinterpret_cast<uintptr_t>(p); else return static_cast<uintptr_t>(p); }
  static inline T_PointerType P(uintptr_t u) { if constexpr (std::is_pointer_v<T_PointerType>) return reinterpret_cast<T_PointerType>(u); else return static_cast<T_PointerType>(u); }
  static constexpr uint32_t MAX_CALLBACKS = NCB;

  // ----- observable state (public: this is the harness's own backend) -----
  uintptr_t Base = 0;
  bool mapped = false;
  int slot = -1;
  size_t brk = 16;
  uint64_t n_malloc = 0, n_free = 0;
  const vsbx::Library* lib = nullptr;
  void* callback_unique_keys[NCB]{ 0 };
  void* callbacks[NCB]{ 0 };
  const std::type_info* callback_sigs[NCB]{ 0 }; // signature (sandbox ABI) each entry point was registered with
  char cbdesc[NCB]{ 0 }; // &cbdesc[i]: application-side address of callback slot i
  thread_local static inline rlbox_vsbx_thread_data<Abi, K, NCB> thread_data{ 0, 0 };

  bool in_region(const void* p) const
  {
    auto v = reinterpret_cast<uintptr_t>(p);
    return Base != 0 && v >= Base && v - Base < Size;
  }

  // called by guest code to run function-pointer representation `rep`
  template<typename T_Ret, typename... T_Args>
  T_Ret guest_call_fnptr(T_PointerType rep, T_Args... args)
  {
    using T_Func = T_Ret (*)(T_Args...);
    if (U(rep) >= CB_BASE && U(rep) < CB_BASE + NCB) {
      uint32_t n = static_cast<uint32_t>(U(rep) - CB_BASE);
      thread_data.last_callback_invoked = n;
      // typed indirect call: the guest's idea of the signature must be the one the entry point was registered with
      auto* sig = thread_data.sandbox->callback_sigs[n];
      detail::dynamic_check(sig != nullptr && *sig == typeid(T_Ret(T_Args...)), "vsbx: indirect call signature mismatch (trap)");
      auto f = reinterpret_cast<T_Func>(thread_data.sandbox->callbacks[n]);
      return f(args...);
    }
    // library function by table index
    auto f = reinterpret_cast<T_Func>(lib->fns.at(static_cast<size_t>(U(rep)) - 1).callable);
    return f(args...);
  }

  // harness use only: give the address slot back even when destroy_sandbox could not run
  void force_release() { if (mapped) impl_destroy_sandbox(); }

protected:
  inline bool impl_create_sandbox(const vsbx::Library* library = nullptr, bool ok = true, int want_slot = -1)
  {
    // `ok == false` models a backend that fails LATE: its memory is already mapped (and stays mapped: rlbox never calls
    // impl_destroy_sandbox on an instance whose creation failed); the harness releases it with force_release()
    int s = want_slot;
    if (s < 0) { for (int i = 0; i < 64; i++) if (!vsbx::g_slot_used[i]) { s = i; break; } }
    if (s < 0 || vsbx::g_slot_used[s]) std::abort();
    uintptr_t want = vsbx::VSBX_BASE0 + uintptr_t(s) * vsbx::VSBX_STRIDE;
    // a PROT_NONE page run on both sides of the region
    const size_t guard = 1u << 16;
    void* lo = mmap(reinterpret_cast<void*>(want - guard), Size + 2 * guard, PROT_NONE,
                    MAP_PRIVATE | MAP_ANONYMOUS | MAP_NORESERVE | MAP_FIXED_NOREPLACE, -1, 0);
    if (lo != reinterpret_cast<void*>(want - guard)) { std::fprintf(stderr, "vsbx: cannot map fixed region\n"); std::abort(); }
    if constexpr (K <= 24) {
      if (mprotect(reinterpret_cast<void*>(want), Size, PROT_READ | PROT_WRITE) != 0) std::abort();
    } else {
      // large regions: commit only the first and last 64 KiB
      if (mprotect(reinterpret_cast<void*>(want), guard, PROT_READ | PROT_WRITE) != 0) std::abort();
      if (mprotect(reinterpret_cast<void*>(want + Size - guard), guard, PROT_READ | PROT_WRITE) != 0) std::abort();
    }
    vsbx::g_slot_used[s] = true;
    slot = s;
    Base = want;
    mapped = true;
    brk = 16;
    lib = library;
    return ok;
  }

  inline void impl_destroy_sandbox()
  {
    const size_t guard = 1u << 16;
    munmap(reinterpret_cast<void*>(Base - guard), Size + 2 * guard);
    vsbx::g_slot_used[slot] = false;
    mapped = false;
    if (!vsbx::g_keep_stale_fields) {
      Base = 0;
      slot = -1;
      lib = nullptr;
    }
    // entry points handed out to this incarnation die with it (as in the bundled backends)
    for (uint32_t i = 0; i < NCB; i++) { callback_unique_keys[i] = nullptr; callbacks[i] = nullptr; callback_sigs[i] = nullptr; }
  }

  template<typename T>
  inline void* impl_get_unsandboxed_pointer(T_PointerType p) const
  {
    if constexpr (std::is_function_v<std::remove_pointer_t<T>>) {
      if (U(p) >= CB_BASE && U(p) < CB_BASE + NCB) return const_cast<char*>(&cbdesc[U(p) - CB_BASE]);
      if (lib != nullptr && U(p) >= 1 && U(p) <= lib->fns.size()) return const_cast<char*>(&lib->desc[U(p)]);
      // unknown table index: a non-null, non-callable marker that is not a data address
      return const_cast<char*>(&cbdesc[0]) + 0; // deliberately the first descriptor
    } else {
      if (vsbx::g_unclamped) return reinterpret_cast<void*>(Base + U(p));
      return reinterpret_cast<void*>(Base + (U(p) & OffMask));
    }
  }

  template<typename T>
  inline T_PointerType impl_get_sandboxed_pointer(const void* p) const
  {
    if constexpr (std::is_function_v<std::remove_pointer_t<T>>) {
      auto c = static_cast<const char*>(p);
      if (c >= &cbdesc[0] && c < &cbdesc[0] + NCB) return P(CB_BASE + static_cast<uintptr_t>(c - &cbdesc[0]));
      if (lib != nullptr && c >= lib->desc.data() + 1 && c < lib->desc.data() + lib->desc.size())
        return P(static_cast<uintptr_t>(c - lib->desc.data()));
      return P(0x3fff); // not a function of this instance
    } else {
      return P(reinterpret_cast<uintptr_t>(p) - Base);
    }
  }

  template<typename T>
  static inline void* impl_get_unsandboxed_pointer_no_ctx(T_PointerType p, const void* ex, Self* (*finder)(const void*))
  {
    if constexpr (std::is_function_v<std::remove_pointer_t<T>>) {
      auto sandbox = finder(ex);
      if (sandbox == nullptr) return nullptr; // no live sandbox owns the example address
      return sandbox->template impl_get_unsandboxed_pointer<T>(p);
    } else {
      auto base = Mask & reinterpret_cast<uintptr_t>(ex);
      return reinterpret_cast<void*>(base + (U(p) & OffMask));
    }
  }

  template<typename T>
  static inline T_PointerType impl_get_sandboxed_pointer_no_ctx(const void* p, const void* ex, Self* (*finder)(const void*))
  {
    if constexpr (std::is_function_v<std::remove_pointer_t<T>>) {
      auto sandbox = finder(ex);
      if (sandbox == nullptr) return P(0);
      return sandbox->template impl_get_sandboxed_pointer<T>(p);
    } else {
      auto base = Mask & reinterpret_cast<uintptr_t>(ex);
      return P(reinterpret_cast<uintptr_t>(p) - base);
    }
  }

  inline T_PointerType impl_malloc_in_sandbox(size_t size)
  {
    n_malloc++;
    if (vsbx::g_malloc_force) return P(static_cast<uintptr_t>(vsbx::g_malloc_force_value));
    size_t r = (size + 7) & ~size_t(7);
    if (r < size || brk + r > Size || brk + r < brk) return 0;
    auto ret = P(brk);
    brk += r;
    return ret;
  }
  inline void impl_free_in_sandbox(T_PointerType p)
  {
    n_free++;
    if (vsbx::g_free_poison) {
      uintptr_t off = static_cast<uintptr_t>(U(p));
      if (off < Size) std::memset(reinterpret_cast<void*>(Base + off), 0xDD, std::min<size_t>(vsbx::g_free_poison, Size - off));
    }
  }

  // only reachable on the AbiAg flavour (rlbox asks for the `can_grant_deny_access` marker first)
  template<typename T> inline T* impl_grant_access(T* src, size_t num, bool& success)
  {
    if (vsbx::g_grant_mode == 1) {
      size_t bytes = num * sizeof(T), r = (bytes + 7) & ~size_t(7);
      if (brk + r <= Size) {
        void* dst = reinterpret_cast<void*>(Base + brk);
        std::memcpy(dst, const_cast<const void*>(reinterpret_cast<const volatile void*>(src)), bytes);
        brk += r; success = true;
        return reinterpret_cast<T*>(dst);
      }
    }
    success = false;
    return vsbx::g_grant_mode == 2 ? nullptr : src;
  }
  template<typename T> inline T* impl_deny_access(T* src, size_t num, bool& success)
  {
    if (vsbx::g_grant_mode == 1) {
      void* dst = std::malloc(num * sizeof(T) ? num * sizeof(T) : 1);
      std::memcpy(dst, const_cast<const void*>(reinterpret_cast<const volatile void*>(src)), num * sizeof(T));
      success = true;
      return reinterpret_cast<T*>(dst);
    }
    success = false;
    return vsbx::g_grant_mode == 2 ? nullptr : src;
  }

public:
  // rlbox inspects the arity of this member through decltype, so it cannot be overloaded.
  static inline bool impl_is_in_same_sandbox(const void* p1, const void* p2)
  {
    // observable for the harness: the last pair that was range/arith-checked on this thread
    vsbx::g_last_same_sbx[0] = reinterpret_cast<uintptr_t>(p1); vsbx::g_last_same_sbx[1] = reinterpret_cast<uintptr_t>(p2);
    if (vsbx::g_n_same_sbx == 0) { vsbx::g_first_same_sbx[0] = vsbx::g_last_same_sbx[0]; vsbx::g_first_same_sbx[1] = vsbx::g_last_same_sbx[1]; }
    vsbx::g_n_same_sbx++;
    return (Mask & reinterpret_cast<uintptr_t>(p1)) == (Mask & reinterpret_cast<uintptr_t>(p2));
  }

protected:
  inline bool impl_is_pointer_in_sandbox_memory(const void* p) { return in_region(p); }
  inline bool impl_is_pointer_in_app_memory(const void* p) { return !in_region(p); }
  inline size_t impl_get_total_memory() { return Size; }
  inline void* impl_get_memory_location() { return reinterpret_cast<void*>(Base); }

  void* impl_lookup_symbol(const char* name)
  {
    int i = lib ? lib->find(name) : -1;
    if (i < 0) return nullptr;
    return lib->fns[(size_t)i].callable;
  }
  void* impl_internal_lookup_symbol(const char* name)
  {
    int i = lib ? lib->find(name) : -1;
    if (i < 0) return nullptr;
    return const_cast<char*>(&lib->desc[(size_t)i + 1]);
  }

  template<typename T, typename T_Converted, typename... T_Args>
  auto impl_invoke_with_func_ptr(T_Converted* func_ptr, T_Args&&... params)
  {
    auto old = thread_data.sandbox;
    thread_data.sandbox = this;
    auto on_exit = detail::make_scope_exit([&] { thread_data.sandbox = old; });
    return (*func_ptr)(params...);
  }

  template<typename T_Ret, typename... T_Args>
  inline T_PointerType impl_register_callback(void* key, void* callback)
  {
    for (uint32_t i = 0; i < NCB; i++) {
      if (callback_unique_keys[i] == nullptr) {
        callback_unique_keys[i] = key;
        callbacks[i] = callback;
        callback_sigs[i] = &typeid(T_Ret(T_Args...));
        return P(CB_BASE + i);
      }
    }
    detail::dynamic_check(false, "vsbx: no free callback slot");
    return 0;
  }

  static inline std::pair<Self*, void*> impl_get_executed_callback_sandbox_and_key()
  {
    auto s = thread_data.sandbox;
    return std::make_pair(s, s->callback_unique_keys[thread_data.last_callback_invoked]);
  }

  template<typename T_Ret, typename... T_Args>
  inline void impl_unregister_callback(void* key)
  {
    for (uint32_t i = 0; i < NCB; i++)
      if (callback_unique_keys[i] == key) { callback_unique_keys[i] = nullptr; callbacks[i] = nullptr; callback_sigs[i] = nullptr; break; }
  }
};

} // namespace rlbox
