"""C20 — Opaque wrappers and sandbox casts preserve bits, designation and taint."""
from vlib import core
from checks.c06 import TYPES, rng_of
from checks.c05 import GUEST_BYTES_A
from checks.c11 import ccast, fits, guest

BASE = [t for t in TYPES if t != "wchar"]
BLK = 1 << 16


def build():
    return core.build_harness("h_casts", ["h_casts.cpp"], core.SAN)


FPREC = {"float": 24, "double": 53, "ldouble": 64}


def round_sig(p, n):
    """n >= 0 rounded to p significant bits, nearest, ties to the even significand (independent formulation: the two
    neighbouring multiples of the unit in the last place are compared by distance)"""
    if n < (1 << p):
        return n
    sh = n.bit_length() - p
    lo = (n >> sh) << sh
    hi = lo + (1 << sh)
    if n - lo != hi - n:
        return lo if n - lo < hi - n else hi
    return lo if ((lo >> sh) & 1) == 0 else hi


def int_to_float(f, v):
    r = round_sig(FPREC[f], abs(v))
    if f == "double" and abs(v) < (1 << 1000):
        assert int(float(abs(v))) == r        # CPython's int -> float conversion is correctly rounded: ground truth for binary64
    return -r if v < 0 else r


def show_dy(num, k):
    if num == 0:
        return "0 0"
    n, e = abs(num), -k
    while n % 2 == 0:
        n //= 2; e += 1
    return f"{'-' if num < 0 else ''}{n} {e}"


def oracle(toks, line):
    if line in ("badinput", "badop"):
        return None
    c = toks[0]
    if c == "scastf":
        w, fr = toks[2].split(":"); v = int(toks[3])
        if w == "tvol" and not fits(guest(fr), v):
            return line == "abort"
        return line == "ok " + show_dy(int_to_float(toks[1], v), 0)     # ONE correctly rounded conversion of the underlying value
    if c == "scastfi":
        num, k = int(toks[3]), int(toks[4])
        if toks[1] == "bool":
            return line == f"ok {1 if num else 0}"
        t = abs(num) >> k
        return line == f"ok {-t if num < 0 else t}"        # fraction discarded, toward zero
    if c == "scastff":
        num, k = int(toks[3]), int(toks[4])
        return line == "ok " + show_dy(int_to_float(toks[1], num), k)
    if c == "opq":
        ty, v = toks[1], toks[2]
        if ty == "ptr":
            return line == ("ok same=1 val=null" if v == "null" else f"ok same=1 val=in0:{v}")
        if ty == "arr":
            return line == f"ok same=1 val={int(v) + 3}"
        if ty == "st":
            return line == f"ok same=1 val={int(v) >> 8}"
        return line == f"ok same=1 val={int(v)}"
    if c == "scaste":
        UND = {"e64": "ullong", "eu32": "uint", "es8": "schar"}
        w, en = toks[2].split(":")
        return line == f"ok {ccast(TYPES[toks[1]], int(toks[3]))}" if en in UND else None
    if c == "scast":
        to = toks[1]
        w, fr = toks[2].split(":")
        v = int(toks[3])
        if w == "tvol" and not fits(guest(fr), v):
            return line == "abort"       # the value could not even be stored in sandbox memory
        return line == f"ok {ccast(TYPES[to], v)}"      # the plain static_cast on the underlying value
    if c == "scastp":
        off = toks[3]
        if off in ("null", "0"):
            return line == "ok null"
        d = {"derived>baseb": 8, "baseb>derived": -8, "derived>basea": 0}[toks[2]]
        return line == f"ok in0:{int(off) + d}"          # what static_cast yields on the underlying pointer
    if c == "opqalias":
        v1 = int(toks[1])
        import math
        return line == f"ok {v1} {int(math.fmod(v1, 1000)) + 2}"
    if c in ("ccastn", "rcastn"):
        return line == ("ok null" if toks[1] in ("null", "0") else f"ok in0:{toks[1]}")
    if c in ("rcast", "ccast"):
        off = toks[-1]
        return line == ("ok null" if off in ("null", "0") else f"ok in0:{off}")     # the designated sandbox address never changes
    if c == "cbopqd":
        return line == f"ok seen={int(toks[1])} ret={int(toks[2])} seenf={int(toks[1])} retf={int(toks[2])}"
    if c == "rcastfn":
        return line == "ok same=1"
    if c == "opqarg":
        v = int(toks[1])
        r = str(v) if fits(guest("long"), v) else "abort"
        return line == f"ok tainted={r} opaque={r}"
    if c == "cbopq":
        v = int(toks[1])
        return line == (f"ok guest={v} ret={v}" if fits(guest("long"), v) else "abort")
    return None


def run(chk):
    thorough = chk.tier == "thorough"
    chk.lean(thorough_checker=thorough)
    binp, log = build()
    if binp is None:
        chk.fail("harness h_casts does not compile against the current headers", {"log_tail": log[-3000:]}, found=False)
        return
    rng = chk.rng
    ops = []
    def vals(t, n):
        lo, hi = rng_of(*TYPES[t])
        glo, ghi = rng_of(*guest(t))
        s = {lo, hi, 0, 1, glo, ghi, 255, 256, 65535, 65536, -1, -128, 127, 128} | {rng.randint(lo, hi) for _ in range(n)} | {rng.randint(glo, ghi) for _ in range(n)}
        return sorted(x for x in s if lo <= x <= hi)
    for t in BASE:
        for v in vals(t, 4):
            ops.append(f"opq {t} {v}")
    for o in ["null", "1", "256", "65535"] + [str(rng.randrange(1, BLK)) for _ in range(10)]:
        ops.append(f"opq ptr {o}")
    for v in (0, 7, -9, 2147483000, 25637, (123456 << 8) | 99):
        ops += [f"opq arr {v}" if abs(v) < 2 ** 31 - 4 else "opq arr 1", f"opq st {v}"]
    for to in BASE:
        for fr in BASE:
            vv = vals(fr, 1)
            for w in ("tainted", "tvol"):
                for v in (vv if thorough else rng.sample(vv, min(6, len(vv)))):
                    ops.append(f"scast {to} {w}:{fr} {v}")
    # enum sources (#68): underlying types wider than int / unsigned above INT_MAX / negative
    for to in BASE:
        for en, un in (("e64", "ullong"), ("eu32", "uint"), ("es8", "schar")):
            vv = vals(un, 1)
            for w in ("tainted", "tvol"):
                for v in (vv if thorough else rng.sample(vv, min(5, len(vv)))):
                    ops.append(f"scaste {to} {w}:{en} {v}")
    # casts that involve a floating-point type (every integer type x {float, double, long double}, both directions, and
    # between the floating-point types); integers beyond the significand exercise rounding: exactly one, to nearest even
    def fvals(t):
        lo, hi = rng_of(*TYPES[t])
        s = {lo, hi, 0, 1, -1, (1 << 24) + 1, (1 << 24) + 3, -(1 << 24) - 1, (1 << 53) + 1, (1 << 53) + 3, (1 << 60) + (1 << 36) + 1,
             (1 << 60) + (1 << 36), -(1 << 60) - (1 << 36) - 1, (1 << 63) + 1, (1 << 63) + (1 << 10) + 1, (1 << 64) - 1, (1 << 31) - 1, (1 << 31) - 65, 33554435}
        for _ in range(6):
            b = rng.randrange(1, 65)
            s.add(rng.randrange(1 << (b - 1), 1 << b)); s.add(-rng.randrange(1 << (b - 1), 1 << b))
            # a tie / near-tie pattern for float and for double
            hi_bits = rng.randrange(1 << 23, 1 << 24)
            s.add((hi_bits << 30) + (1 << 29)); s.add((hi_bits << 30) + (1 << 29) + 1); s.add((hi_bits << 30) + (1 << 29) - 1)
            s.add((hi_bits << 35) + (1 << 34) + (1 << 5))      # above the tie for float, but a tie-to-even victim after a first rounding to double
        return sorted(x for x in s if lo <= x <= hi)
    for f in FPREC:
        for t in BASE:
            vv = fvals(t)
            for w in ("tainted", "tvol"):
                for v in (vv if thorough else rng.sample(vv, min(8, len(vv)))):
                    ops.append(f"scastf {f} {w}:{t} {v}")
            lo, hi = rng_of(*TYPES[t])
            for w in ("tainted", "tvol"):
                for _ in range(6 if thorough else 2):
                    k = rng.randrange(0, 12)
                    lim = (1 << (FPREC[f] - 1)) - 1
                    num = rng.choice([rng.randrange(-lim, lim + 1), rng.randrange(-(1 << 12), 1 << 12), 7, -7, 1, -1, (1 << 20) + 1])
                    tq = abs(num) >> k
                    tq = -tq if num < 0 else tq
                    if t == "bool" or lo <= tq <= hi:      # (an out-of-range result is undefined behaviour of the C++ cast itself)
                        ops.append(f"scastfi {t} {w}:{f} {num} {k}")
        for g in FPREC:
            for w in ("tainted", "tvol"):
                for _ in range(8 if thorough else 3):
                    lim = (1 << (FPREC[g] - 1)) - 1
                    num = rng.choice([rng.randrange(-lim, lim + 1), (1 << 24) + 1, (1 << 25) + 3, -(1 << 30) - (1 << 6), lim, 1, 0])
                    if abs(num) <= lim:
                        ops.append(f"scastff {f} {w}:{g} {num} {rng.randrange(0, 40)}")
    for w in ("tainted", "tvol"):
        for src, dst in (("int", "char"), ("char", "int"), ("int", "st"), ("st", "char"), ("int", "void"), ("pp", "char"),
                         ("baseb", "derived"), ("derived", "baseb"), ("derived", "basea"), ("basea", "baseb")):     # class pointees related by inheritance
            for o in ["null", "1", "16", "4660", "65532", "65535"] + [str(rng.randrange(1, BLK)) for _ in range(6 if thorough else 2)]:
                ops.append(f"rcast {w} {src} {dst} {o}")
        for o in ["null", "4", "65532", str(rng.randrange(1, BLK))]:
            ops.append(f"ccast {w} {o}")
    for o in ["null", "4", "8", "4660", "65532", str(rng.randrange(1, BLK // 4) * 4)]:
        ops += [f"ccastn {o}", f"rcastn {o}"]
    for w in ("tainted", "tvol"):
        for d in ("derived>baseb", "baseb>derived", "derived>basea"):
            for o in ["null", "64", "4096", str(rng.randrange(8, BLK // 16) * 8)]:
                ops.append(f"scastp {w} {d} {o}")
    for v1, v2 in ((5, 9), (-7, 7), (123456789, 1), (rng.randrange(-10 ** 9, 10 ** 9), rng.randrange(-10 ** 9, 10 ** 9))):
        ops.append(f"opqalias {v1} {v2}")      # a backend with pointer-wide offsets as representation (ABI N), source in sandbox memory
    for v in (0, 1, -1, 2147483647, -2147483648, 2147483648, -2147483649, rng.randrange(-10 ** 9, 10 ** 9)):
        ops.append(f"cbopq {v}")
    for a, r in ((3, 7), (0, 0), (-1, 1), (1000, -1000), (rng.randrange(-10 ** 6, 10 ** 6), rng.randrange(-10 ** 6, 10 ** 6))):
        ops.append(f"cbopqd {a} {r}")      # |values| < 2^24: exact in float as well
    for w in ("tainted", "tvol"):
        for name in ("gl_see", "gl_callcb"):
            ops.append(f"rcastfn {w} {name}")
        ops.append(f"opqarg {v}")
    for _ in range(20):
        ops.append(f"opqarg {rng.choice([rng.randrange(-2 ** 63, 2 ** 63), rng.randrange(-2 ** 31, 2 ** 31)])}")
    ops = list(dict.fromkeys(ops))
    res = core.differential(chk, ops, binp, oracle, label="opaque/cast ops")
    kinds = {}
    for o in ops:
        kinds[o.split()[0]] = kinds.get(o.split()[0], 0) + 1
    chk.cov["input_distribution"] = {"ops_by_kind": kinds}
    chk.cov["distinct_nontrivial"] = len(ops)
    chk.cov["rule"] = ("opaque round trips (byte image compared with memcmp) for 14 integer types, pointers, an array and a registered struct; sandbox_static_cast for all 14x14 integer type pairs and for every pair with a floating-point type {float, double, long double} (integer->floating incl. values beyond the significand: one rounding to nearest-even; floating->integer in range; floating<->floating) from "
                       "tainted and tainted_volatile sources at boundary/random values (result type asserted at compile time); sandbox_reinterpret_cast / sandbox_const_cast between 6 pointer type pairs from "
                       "tainted and tainted_volatile sources incl. null and region ends; a callback returning tainted_opaque; opaque ARGUMENTS of invocations are exercised by the C11 check (form 'opaque')")
    chk.add_samples([{"op": o, "impl": a} for o, a in list(zip(ops, res["impl"]))[::max(1, len(ops) // 6)]])
    chk.cov["trusted_base"] += ["C20: taint of cast results is a static property asserted at compile time in the harness (decltype == tainted<T_Lhs>) and covered by C01"]


def replay(chk, rp):
    binp, log = build()
    ops = [rp["op"]] if "op" in rp else [d["op"] for d in rp.get("disagreements", [])]
    core.differential(chk, ops, binp, oracle, label="replay")
    return chk.finish()
