"""C20 — Opaque wrappers and sandbox casts preserve bits, designation and taint."""
from vlib import core
from checks.c06 import TYPES, rng_of
from checks.c05 import GUEST_BYTES_A
from checks.c11 import ccast, fits, guest

BASE = [t for t in TYPES if t != "wchar"]
BLK = 1 << 16


def build():
    return core.build_harness("h_casts", ["h_casts.cpp"], core.SAN)


def oracle(toks, line):
    if line in ("badinput", "badop"):
        return None
    c = toks[0]
    if c == "opq":
        ty, v = toks[1], toks[2]
        if ty == "ptr":
            return line == ("ok same=1 val=null" if v == "null" else f"ok same=1 val=in0:{v}")
        if ty == "arr":
            return line == f"ok same=1 val={int(v) + 3}"
        if ty == "st":
            return line == f"ok same=1 val={int(v) >> 8}"
        return line == f"ok same=1 val={int(v)}"
    if c == "scast":
        to = toks[1]
        w, fr = toks[2].split(":")
        v = int(toks[3])
        if w == "tvol" and not fits(guest(fr), v):
            return line == "abort"       # the value could not even be stored in sandbox memory
        return line == f"ok {ccast(TYPES[to], v)}"      # the plain static_cast on the underlying value
    if c in ("rcast", "ccast"):
        off = toks[-1]
        return line == ("ok null" if off in ("null", "0") else f"ok in0:{off}")     # the designated sandbox address never changes
    if c == "cbopqd":
        return line == f"ok seen={int(toks[1])} ret={int(toks[2])} seenf={int(toks[1])} retf={int(toks[2])}"
    if c == "rcastfn":
        return line == "ok same=1"
    if c == "opqarg":
        v = int(toks[1])
        r = str(v) if fits(guest("long"), v) else "abort"
        return line == f"ok tainted={r} opaque={r}"
    if c == "cbopq":
        v = int(toks[1])
        return line == (f"ok guest={v} ret={v}" if fits(guest("long"), v) else "abort")
    return None


def run(chk):
    thorough = chk.tier == "thorough"
    chk.lean(thorough_checker=thorough)
    binp, log = build()
    if binp is None:
        chk.fail("harness h_casts does not compile against the current headers", {"log_tail": log[-3000:]}, found=False)
        return
    rng = chk.rng
    ops = []
    def vals(t, n):
        lo, hi = rng_of(*TYPES[t])
        glo, ghi = rng_of(*guest(t))
        s = {lo, hi, 0, 1, glo, ghi, 255, 256, 65535, 65536, -1, -128, 127, 128} | {rng.randint(lo, hi) for _ in range(n)} | {rng.randint(glo, ghi) for _ in range(n)}
        return sorted(x for x in s if lo <= x <= hi)
    for t in BASE:
        for v in vals(t, 4):
            ops.append(f"opq {t} {v}")
    for o in ["null", "1", "256", "65535"] + [str(rng.randrange(1, BLK)) for _ in range(10)]:
        ops.append(f"opq ptr {o}")
    for v in (0, 7, -9, 2147483000, 25637, (123456 << 8) | 99):
        ops += [f"opq arr {v}" if abs(v) < 2 ** 31 - 4 else "opq arr 1", f"opq st {v}"]
    for to in BASE:
        for fr in BASE:
            vv = vals(fr, 1)
            for w in ("tainted", "tvol"):
                for v in (vv if thorough else rng.sample(vv, min(6, len(vv)))):
                    ops.append(f"scast {to} {w}:{fr} {v}")
    for w in ("tainted", "tvol"):
        for src, dst in (("int", "char"), ("char", "int"), ("int", "st"), ("st", "char"), ("int", "void"), ("pp", "char"),
                         ("baseb", "derived"), ("derived", "baseb"), ("derived", "basea"), ("basea", "baseb")):     # class pointees related by inheritance
            for o in ["null", "1", "16", "4660", "65532", "65535"] + [str(rng.randrange(1, BLK)) for _ in range(6 if thorough else 2)]:
                ops.append(f"rcast {w} {src} {dst} {o}")
        for o in ["null", "4", "65532", str(rng.randrange(1, BLK))]:
            ops.append(f"ccast {w} {o}")
    for v in (0, 1, -1, 2147483647, -2147483648, 2147483648, -2147483649, rng.randrange(-10 ** 9, 10 ** 9)):
        ops.append(f"cbopq {v}")
    for a, r in ((3, 7), (0, 0), (-1, 1), (1000, -1000), (rng.randrange(-10 ** 6, 10 ** 6), rng.randrange(-10 ** 6, 10 ** 6))):
        ops.append(f"cbopqd {a} {r}")      # |values| < 2^24: exact in float as well
    for w in ("tainted", "tvol"):
        for name in ("gl_see", "gl_callcb"):
            ops.append(f"rcastfn {w} {name}")
        ops.append(f"opqarg {v}")
    for _ in range(20):
        ops.append(f"opqarg {rng.choice([rng.randrange(-2 ** 63, 2 ** 63), rng.randrange(-2 ** 31, 2 ** 31)])}")
    ops = list(dict.fromkeys(ops))
    res = core.differential(chk, ops, binp, oracle, label="opaque/cast ops")
    kinds = {}
    for o in ops:
        kinds[o.split()[0]] = kinds.get(o.split()[0], 0) + 1
    chk.cov["input_distribution"] = {"ops_by_kind": kinds}
    chk.cov["distinct_nontrivial"] = len(ops)
    chk.cov["rule"] = ("opaque round trips (byte image compared with memcmp) for 14 integer types, pointers, an array and a registered struct; sandbox_static_cast for all 14x14 integer type pairs from "
                       "tainted and tainted_volatile sources at boundary/random values (result type asserted at compile time); sandbox_reinterpret_cast / sandbox_const_cast between 6 pointer type pairs from "
                       "tainted and tainted_volatile sources incl. null and region ends; a callback returning tainted_opaque; opaque ARGUMENTS of invocations are exercised by the C11 check (form 'opaque')")
    chk.add_samples([{"op": o, "impl": a} for o, a in list(zip(ops, res["impl"]))[::max(1, len(ops) // 6)]])
    chk.cov["trusted_base"] += ["C20: taint of cast results is a static property asserted at compile time in the harness (decltype == tainted<T_Lhs>) and covered by C01"]


def replay(chk, rp):
    binp, log = build()
    ops = [rp["op"]] if "op" in rp else [d["op"] for d in rp.get("disagreements", [])]
    core.differential(chk, ops, binp, oracle, label="replay")
    return chk.finish()
