"""C07 — Sandbox-memory accesses use exactly the bytes and encoding of the sandbox ABI."""
import re
from vlib import core
from checks import memcommon
from checks.c06 import TYPES, rng_of
from checks.c05 import GUEST_BYTES_A

BLK = 1 << 16
BASE = [t for t in TYPES if t != "wchar"]
PAT = memcommon.PAT


def gty(t):
    sg, by, isb = TYPES[t]
    return sg, GUEST_BYTES_A.get(t, by), isb


def decode(t, off):
    sg, by, isb = gty(t)
    v = int.from_bytes(PAT[off:off + by], "little", signed=sg)
    return v


def oracle(toks, line):
    if line in ("badop", "badinput"):
        return None
    if toks[0] == "store":
        sb, t, off, v = int(toks[1]), toks[2], int(toks[3]), int(toks[4])
        sg, by, isb = gty(t)
        lo, hi = rng_of(sg, by, isb)
        if not (lo <= v <= hi):
            return line == "abort"
        if off + by > BLK:
            return None
        m = re.match(r"ok win=([0-9a-f]+) h=(\d+) h_other=(\d+)$", line)
        if not m:
            return False
        img = bytearray(PAT)
        img[off:off + by] = (v % (1 << (8 * by))).to_bytes(by, "little")
        wlo, whi = max(0, off - 8), min(BLK, off + 16)
        return m.group(1) == bytes(img[wlo:whi]).hex()
    if toks[0] == "pstoreb":
        # pointer cell / whole pointer array on the ABI with application-width guest pointers: the image holds the
        # sandbox ENCODING (offset), never the application's bytes
        pos, tgt = toks[1], toks[2]
        r = 0 if tgt == "null" else int(tgt)
        back = "null" if r == 0 else f"inB:{r}"
        return line == (f"ok rep={r} back={back}" if pos == "cell" else f"ok rep={r},0 back={back},null")
    if toks[0] == "pfoot":
        # footprint of a pointer store on the 32-bit-pointer ABI: exactly the 4 bytes of the guest pointer change
        pos, tgt = toks[1], toks[3]
        r = 0 if tgt == "null" else int(tgt)
        CELL = 0x100
        img = bytearray(PAT)
        def w4(off, v):
            img[off:off + 4] = v.to_bytes(4, "little")
        if pos == "cell": w4(CELL, r)
        elif pos == "cellnull": w4(CELL, 0)
        elif pos in ("arrel", "field"): w4(CELL + 8, r)
        elif pos in ("arrelnull", "fieldnull"): w4(CELL + 8, 0)
        elif pos == "arrwhole": w4(CELL, 0); w4(CELL + 4, r); w4(CELL + 8, r); w4(CELL + 12, 0)
        elif pos == "structwhole": img[CELL] = ord("x"); w4(CELL + 4, 7); w4(CELL + 8, r)
        else: return None
        return line == "ok win=" + bytes(img[CELL - 8:CELL + 24]).hex()
    if toks[0] == "starr":
        shape, off = toks[2], int(toks[3])
        elt, n = {"int2x3": ("int", 6), "long2x3": ("long", 6), "char3x5": ("char", 15), "long3": ("long", 3), "ushort4": ("ushort", 4)}[shape]
        sg, by, isb = gty(elt)
        vs = [int(x) for x in toks[4:]]
        lo, hi = rng_of(sg, by, isb)
        if not all(lo <= v <= hi for v in vs):
            return line == "abort"
        m = re.match(r"ok win=([0-9a-f]+) h=(\d+) back=(.*)$", line)
        if not m:
            return False
        img = bytearray(PAT)
        for i, v in enumerate(vs):
            img[off + i * by:off + (i + 1) * by] = (v % (1 << (8 * by))).to_bytes(by, "little")
        def win(o):
            return bytes(img[max(0, o - 8):min(BLK, o + 16)]).hex()
        w = win(off) + win(off + 24) + (win(off + 48) if n > 4 else "")
        return m.group(1) == w and m.group(3).split() == [str(v) for v in vs]
    if toks[0] == "load":
        how, sb, t, off = toks[1], int(toks[2]), toks[3], int(toks[4])
        sg, by, isb = gty(t)
        if t == "bool":
            return None
        app = TYPES[t]
        def one(o):
            if o + by > BLK:
                return None
            v = decode(t, o)
            alo, ahi = rng_of(*app)
            return str(v) if alo <= v <= ahi else "abort"
        if how in ("deref", "unverified", "cav"):
            w = one(off)
            if w is None:
                return line in ("segv", "abort")
            return line == (w if w == "abort" else "ok " + w)
        if how == "idx1":
            w = one(off + by)
            if w is None:
                return line in ("segv", "abort")
            return line == (w if w == "abort" else "ok " + w)
        if how == "cavrange":
            a, b = one(off), one(off + by)
            if a is None or b is None:
                return line in ("segv", "abort")
            if "abort" in (a, b):
                return line == "abort"
            # the range check is done on application-sized elements and may (conservatively) abort near the end
            if off + 2 * app[1] > BLK:
                return line in ("abort", f"ok {a} {b}")
            return line == f"ok {a} {b}"
    return None


def signature(toks, line):
    return None


def values(t, rng, n):
    lo, hi = rng_of(*TYPES[t])
    glo, ghi = rng_of(*gty(t))
    v = {lo, hi, 0, 1, -1, glo, ghi, glo - 1, ghi + 1, 0x55, 0x1234, -0x1234}
    v |= {rng.randint(glo, ghi) for _ in range(n)}
    return sorted(x for x in v if lo <= x <= hi)


def run(chk):
    thorough = chk.tier == "thorough"
    chk.lean(thorough_checker=thorough)
    binp, log = memcommon.build()
    if binp is None:
        chk.fail("harness h_mem does not compile against the current headers", {"log_tail": log[-3000:]}, found=False)
        return
    rng = chk.rng
    ops = []
    for t in BASE:
        sg, by, isb = gty(t)
        positions = [0, 1, 8, BLK - by, BLK - by - 1, BLK - 8] + [4096 + a for a in range(8)] + [rng.randrange(16, BLK - 16) for _ in range(6 if thorough else 2)]
        positions = sorted({p for p in positions if 0 <= p <= BLK - by})
        for off in positions:
            for v in values(t, rng, 6 if thorough else 2):
                ops.append(f"store {rng.randrange(2)} {t} {off} {v}")
            if t != "bool":
                for how in ("deref", "unverified", "cav", "cavrange", "idx1"):
                    ops.append(f"load {how} {rng.randrange(2)} {t} {off}")
        if t != "bool":
            for off in (BLK - by, BLK - by + 1 if by > 1 else BLK - 1, BLK - 2 * by, BLK - 3 * by):
                for how in ("deref", "cav", "cavrange", "idx1"):
                    ops.append(f"load {how} 0 {t} {max(0, off)}")
    for shape, elt, n in (("int2x3", "int", 6), ("long2x3", "long", 6), ("char3x5", "char", 15), ("long3", "long", 3), ("ushort4", "ushort", 4)):
        sg, by, isb = gty(elt)
        for off in [64, 4099, BLK - n * by, rng.randrange(100, BLK - 200)]:
            for _ in range(6 if thorough else 2):
                vv = values(elt, rng, 3)
                ops.append(f"starr {rng.randrange(2)} {shape} {off} " + " ".join(str(rng.choice(vv)) for _ in range(n)))
    # regression corpus first
    ops = ["load cav 0 long 100", "load cavrange 0 long 100", "load cav 0 ulong 65532"] + list(dict.fromkeys(ops))
    for o in ["null", "1", "8", "4660", "65528", "65535"] + [str(rng.randrange(1, BLK)) for _ in range(6)]:
        ops += [f"pstoreb cell {o}", f"pstoreb arrwhole {o}"]
    # footprint of pointer stores (guest pointers are 4 bytes on this ABI, the host's 8): data, null constant, null tainted
    for sb in (0, 1):
        for pos in ("cell", "arrel", "field", "arrwhole", "structwhole"):
            for o in ["null", "1", "4660", "65535", str(rng.randrange(1, BLK))]:
                ops.append(f"pfoot {pos} {sb} {o}")
        for pos in ("cellnull", "arrelnull", "fieldnull"):
            ops.append(f"pfoot {pos} {sb} null")
    res = core.differential(chk, ops, binp, oracle, signature=signature, label="typed stores and loads")
    kinds = {}
    for o in ops:
        t = o.split()
        k = t[0] + (" " + t[1] if t[0] == "load" else "")
        kinds[k] = kinds.get(k, 0) + 1
    chk.cov["input_distribution"] = {"ops_by_kind": kinds}
    chk.cov["distinct_nontrivial"] = len(ops)
    chk.cov["rule"] = ("14 integer base types x address alignments 0..7 and positions {first bytes, interior, ending at the last byte of the region} x boundary/random values, "
                       "pseudo-random surrounding bytes; stores: hex window [off-8,off+16) against an independent little-endian reference + FNV hash of the whole 64 KiB region and of the "
                       "other live sandbox's region against the model's memory; loads by dereference, UNSAFE_unverified, copy_and_verify (pointer), copy_and_verify_range, p[1] against the "
                       "reference decoding of exactly guestSize bytes")
    chk.add_samples([{"op": o, "impl": a[:80], "model": b[:80]} for o, a, b in list(zip(ops, res["impl"], res["model"]))[::max(1, len(ops) // 6)]])
    # sandbox reference := sandbox reference of another integer type (`*p_T = *p_U`), all three ABIs: the source is read with
    # ITS guest width and encoding, the destination written with its own, nothing around either cell changes (conv engine)
    from checks import c06
    cbin, clog = core.build_harness("h_conv", ["h_conv.cpp"], core.FAST)
    if cbin is None:
        chk.fail("harness h_conv does not compile against the current headers", {"log_tail": clog[-3000:]}, found=False)
        return
    ops2 = []
    ints = ("schar", "uchar", "short", "ushort", "int", "uint", "long", "ulong", "llong")
    for abi in c06.ABIS:
        for t in ints:
            for u in ints:
                if t != u:
                    g, gu = c06.guest_of(abi, t), c06.guest_of(abi, u)
                    vs = c06.boundary_values(g, gu, rng, 1)
                    for v in (vs if thorough else rng.sample(vs, min(len(vs), 12))):
                        ops2.append(f"tvtv {abi} {t} {u} {v}")
    core.differential(chk, ops2, cbin, c06.oracle, label="mixed-type copies between sandbox references")
    kinds["tvtv"] = len(ops2)
    chk.cov["trusted_base"] += ["C07: bool loads from non-canonical bytes are undefined behaviour of the C++ object model and are not judged; float/double/struct footprints are covered by C08; pointer stores: `pfoot` (32 bytes around the cell)",
                                "theorems C07_frame/C07_roundtrip/C07_decode cover integer types under every well-formed ABI"]


def replay(chk, rp):
    binp, log = memcommon.build()
    ops = [rp["op"]] if "op" in rp else [d["op"] for d in rp.get("disagreements", [])]
    core.differential(chk, ops, binp, oracle, label="replay")
    return chk.finish()
