"""C19 — Transition notifications bracket every boundary crossing and stay balanced."""
from vlib import core
from checks import callscommon as cc


def run(chk):
    thorough = chk.tier == "thorough"
    chk.lean(thorough_checker=thorough)
    allops = []
    for variant in ("vsbx", "noop", "dylib", "noop_hooks", "noop_in", "noop_out"):
        binp, log = cc.build(variant)
        if binp is None:
            chk.fail(f"harness h_calls ({variant}) does not compile against the current headers", {"log_tail": log[-3000:]}, found=False)
            continue
        flags, cmd, nslots = cc.VARIANTS[variant]
        faults = "abr" if variant == "vsbx" else "b"
        gen = cc.Gen(chk.rng, nslots, faults)
        ops = []
        for i in range(5000 if thorough else 900):
            ops.append(gen.line(cmd, chk.rng.randrange(1, 5), 3, with_fault=(i % 2 == 0)))
        # a fault at every position of a fixed tree, in turn
        base = "R 0 0 0 R 1 1 1 T I 0 5 {a} C 0 7 70 {b} I 1 9 {c} C 1 3 30 {d} E E E C 0 8 80 {e} E E I 1 2 {f} E"
        for pos in "abcdef":
            for fl in (("a",) if pos in "acf" else ("b", "r")):
                if variant != "vsbx" and fl != "b":
                    continue
                d = {k: "n" for k in "abcdef"}
                d[pos] = fl
                ops.append(f"{cmd} " + base.format(**d))
        ops = list(dict.fromkeys(ops))
        core.differential(chk, ops, binp, cc.oracle_c19, label=f"transition traces ({variant})", impl_env=cc.env_for(variant))
        allops += ops
    chk.cov["distinct_nontrivial"] = len(set(allops))
    chk.cov["input_distribution"] = {"trees": len(allops), "with_fault": sum(1 for o in allops if any(f" {x} " in o for x in "abr"))}
    chk.cov["rule"] = ("random call trees (depth <= 4, width <= 3, two sandboxes) with RLBOX_TRANSITION_ACTION_IN/OUT logging (kind, function name / callback key, per-sandbox state) and "
                       "RLBOX_MEASURE_TRANSITION_TIMES on (plus builds with the hooks only, with only the IN hook and with only the OUT hook), half of them with one injected abort (argument conversion, callback body, result conversion), plus a fixed tree with a fault at every "
                       "position in turn; oracle: stack automaton for the bracket grammar with payload matching + one timing record per crossing")
    chk.add_samples([{"tree": o} for o in allops[:3]])
    chk.cov["trusted_base"] += ["C19: timing values themselves are not compared, only the number, kind and identity of the records"]


def replay(chk, rp):
    op = rp.get("op") or rp["disagreements"][0]["op"]
    variant = "vsbx" if op.startswith("tree ") else "noop_hooks" if op.startswith("treenh ") else "noop_in" if op.startswith("treeni ") else "noop_out" if op.startswith("treeno ") else "noop"
    binp, log = cc.build(variant)
    core.differential(chk, [op], binp, cc.oracle_c19, label="replay")
    return chk.finish()
