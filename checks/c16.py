"""C16 — Operators on tainted numbers compute exactly what the plain operators compute."""
from vlib import core
from checks.c06 import TYPES, rng_of
from checks.c05 import GUEST_BYTES_A

TY = ["bool", "schar", "uchar", "short", "ushort", "int", "uint", "long", "ulong", "llong", "ullong"]
BIN = ["+", "-", "*", "/", "%", "^", "&", "|", "<<", ">>"]
CMP = ["==", "!=", "<", "<=", ">", ">="]
LOG = ["&&", "||"]     # BooleanBinaryOp: value of the plain expression, always tainted<bool> (never a hint)
WRAPS = [("tainted", "plain"), ("tainted", "tainted"), ("tainted", "tvol"), ("tvol", "plain"), ("tvol", "tainted"), ("tvol", "tvol"),
         ("plain", "tainted"), ("plain", "tvol")]
PARTS = [("h_ops.cpp", [f"-DOPS_PART={i}"]) for i in range(11)] + [("h_ops.cpp", [])]


def build(extra=()):
    return core.build_harness("h_ops" + ("_nota" if extra else ""), PARTS, ["-O0", "-w"] + list(extra))


# --- a third, independent rendering of the C++ integer rules (for compound assignment / ++ --) ---
def promote(t):
    sg, by, isb = t
    return (True, 4, False) if by < 4 else (sg, by, False)


def uac(a, b):
    a, b = promote(a), promote(b)
    if a[0] == b[0]:
        return a if a[1] >= b[1] else b
    u, s = (b, a) if a[0] else (a, b)
    return u if u[1] >= s[1] else s


def cast(t, v):
    sg, by, isb = t
    if isb:
        return 0 if v == 0 else 1
    m = 1 << (8 * by)
    r = v % m
    return r - m if sg and r >= m // 2 else r


def plain_bin(op, lt, rt, a, b):
    """(result type, value) or None when undefined"""
    if op in ("<<", ">>"):
        r = promote(lt)
        x = cast(r, a)
        if b < 0 or b >= 8 * r[1]:
            return None
        if op == "<<":
            if r[0]:
                v = x << b
                lo, hi = rng_of(*r)
                if x < 0 or not (lo <= v <= hi):
                    return None
                return r, v
            return r, cast(r, x << b)
        return r, x >> b
    r = uac(lt, rt)
    x, y = cast(r, a), cast(r, b)
    lo, hi = rng_of(*r)
    def wrap(v):
        if r[0]:
            return (r, v) if lo <= v <= hi else None
        return r, cast(r, v)
    if op == "+":
        return wrap(x + y)
    if op == "-":
        return wrap(x - y)
    if op == "*":
        return wrap(x * y)
    if op in ("/", "%"):
        if y == 0:
            return None
        q = abs(x) // abs(y) * (1 if (x >= 0) == (y >= 0) else -1)
        if r[0] and not (lo <= q <= hi):
            return None
        return (r, q) if op == "/" else (r, x - q * y)
    ux, uy = x % (1 << (8 * r[1])), y % (1 << (8 * r[1]))
    v = {"^": ux ^ uy, "&": ux & uy, "|": ux | uy}[op]
    return r, cast(r, v)


def tyname(t):
    return ("b" if t[2] else "s" if t[0] else "u") + str(t[1])


def guest(tn):
    sg, by, isb = TYPES[tn]
    return (sg, GUEST_BYTES_A.get(tn, by), isb)


def fits(t, v):
    lo, hi = rng_of(*t)
    return lo <= v <= hi


def oracle(toks, line):
    if line in ("badinput", "badop"):
        return None
    if line.startswith("MISMATCH") or " mismatch=" in line and " mismatch=0" not in line:
        return False
    c = toks[0]
    if c in ("bin", "binblk", "unary"):
        # value and type were compared with the plain expression inside the harness; here: wrapper of comparisons
        if c == "bin" and toks[1] in CMP and line.startswith("ok"):
            lw, rw = toks[2].split(":")[0], toks[3].split(":")[0]
            want_hint = "tvol" in (lw, rw)
            return line.startswith("ok hint ") == want_hint
        if c == "bin" and toks[1] in LOG and line.startswith("ok"):
            a, b = int(toks[4]), int(toks[5])
            want = (a != 0 and b != 0) if toks[1] == "&&" else (a != 0 or b != 0)
            return line == f"ok b1 {1 if want else 0}"
        return True
    if c == "cmpd":
        op = toks[1]
        (lw, ltn), (rw, rtn) = toks[2].split(":"), toks[3].split(":")
        a, b = int(toks[4]), int(toks[5])
        lt, rt = TYPES[ltn], TYPES[rtn]
        pr = plain_bin(op, lt, rt, a, b)
        if pr is None:
            return line == "undef"
        if line == "nc":
            return None
        for w, tn, v in ((lw, ltn, a), (rw, rtn, b)):
            if w == "tvol" and not fits(guest(tn), v):
                return line == "abort"
        r, v = pr
        if lw == "tvol":
            if not fits(guest(ltn), v):
                return line == "abort"
            return line == f"ok {tyname(lt)} {v} {tyname(lt)} {v}"
        # a tainted left operand in application memory: the plain compound operator stores the result converted to L (it wraps,
        # it never aborts) and the expression has type L
        return line == f"ok {tyname(lt)} {cast(lt, v)} {tyname(lt)} {cast(lt, v)}"
    if c == "incdec":
        form = toks[1]
        lw, ltn = toks[2].split(":")
        a = int(toks[3])
        lt = TYPES[ltn]
        pr = plain_bin("-" if "dec" in form else "+", lt, (True, 4, False), a, 1)
        if pr is None:
            return line == "undef"
        if line == "nc":
            return None
        if lw == "tvol" and not fits(guest(ltn), a):
            return line == "abort"
        r, v = pr
        if lw == "tvol":
            if not fits(guest(ltn), v):
                return line == "abort"
            return line == f"ok {tyname(lt)} {v} {tyname(lt)} {v}"
        v = cast(lt, v)          # (identity whenever L is its own promoted type; a narrower L wraps like the plain operator)
        e = a if form.startswith("post") else v
        return line == f"ok {tyname(lt)} {e} {tyname(lt)} {v}"
    return None


# --- floating-point operands (engine fops): values are exact dyadic rationals num / 2^k ---
import struct
from fractions import Fraction


def _to_f4(x):
    """round a binary64 value to binary32 (for + - * of binary32 operands the binary64 result is exact or innocuously rounded)"""
    return struct.unpack("f", struct.pack("f", x))[0]


def _show_f(ty, x):
    if x == 0:
        return f"{ty} 0 0"
    fr = Fraction(x)
    n, d = abs(fr.numerator), fr.denominator
    e = -(d.bit_length() - 1)
    while n % 2 == 0:
        n //= 2; e += 1
    return f"{ty} {'-' if x < 0 else ''}{n} {e}"


def _fval(ty, num, k):
    """the operand as the host computes with it (Python floats are IEEE binary64: ground truth)"""
    if ty in ("int", "llong"):
        return int(num)
    return float(Fraction(num, 1 << k))       # exact by the generator's contract


def _f_res(lt, rt):
    if "double" in (lt, rt):
        return "f8"
    return "f4"


def _f_apply(res, op, a, b, lt, rt):
    # usual arithmetic conversions: both operands to the result type first (an integer operand may be rounded there)
    conv = (lambda v: _to_f4(float(v))) if res == "f4" else float
    a, b = conv(a), conv(b)
    r = a + b if op == "+" else a - b if op == "-" else a * b
    return _to_f4(r) if res == "f4" else r


def oracle_f(toks, line):
    if line in ("badinput", "badop"):
        return None
    c = toks[0]
    if c == "fbin":
        lt, rt = toks[2].split(":")[1], toks[3].split(":")[1]
        a, b = _fval(lt, int(toks[4]), int(toks[5])), _fval(rt, int(toks[6]), int(toks[7]))
        res = _f_res(lt, rt)
        return line == "ok " + _show_f(res, _f_apply(res, toks[1], a, b, lt, rt))
    if c == "fincdec":
        w, ty = toks[2].split(":")
        if toks[1].startswith("post") and w == "tvol":
            return line == "nc"
        res = "f8" if ty == "double" else "f4"
        x = _fval(ty, int(toks[3]), int(toks[4]))
        nw = _f_apply(res, "-" if toks[1].endswith("dec") else "+", x, 1, ty, "int")
        e = x if toks[1].startswith("post") else nw         # the post forms yield the value held BEFORE the update
        return line == f"ok {_show_f(res, e)} {_show_f(res, nw)}"
    if c == "fneg":
        ty = toks[1].split(":")[1]
        return line == "ok " + _show_f("f8" if ty == "double" else "f4", -_fval(ty, int(toks[2]), int(toks[3])))
    return None


def _special(tok):
    return {"nan": float("nan"), "inf": float("inf"), "-inf": float("-inf"), "-0": -0.0}.get(tok, None) if tok in ("nan", "inf", "-inf", "-0") else int(tok)


def _show_special(ty, x):
    import math
    if x != x:
        return f"{ty} nan"
    if x == 0:
        return f"{ty} {'-0' if math.copysign(1.0, x) < 0 else '0'}"
    if math.isinf(x):
        return f"{ty} {'-inf' if x < 0 else 'inf'}"
    return _show_f(ty, x)


def oracle_fs(toks, line):
    """special values: CPython's IEEE-754 comparisons and negation are the ground truth"""
    if line in ("badinput", "badop"):
        return None
    if toks[0] == "fcmp":
        a, b = _special(toks[4]), _special(toks[5])
        r = {"==": a == b, "!=": a != b, "<": a < b, "<=": a <= b, ">": a > b, ">=": a >= b}[toks[1]]
        return line == f"ok {1 if r else 0}"
    if toks[0] == "fnegs":
        ty = toks[1].split(":")[1]
        return line == "ok " + _show_special("f8" if ty == "double" else "f4", -float(_special(toks[2])))
    return None


def fops_special(rng, thorough):
    ops = []
    sv = ["nan", "inf", "-inf", "0", "-0", "1", "-1", "7"]
    iv = ["0", "1", "-1", "7"]
    for op in ("==", "!=", "<", "<=", ">", ">="):
        for lw, rw in WRAPS:
            for lt, rt in (("float", "float"), ("double", "double"), ("float", "double"), ("double", "int"), ("int", "float")):
                pairs = [(a, b) for a in (sv if lt != "int" else iv) for b in (sv if rt != "int" else iv)]
                for a, b in (pairs if thorough else rng.sample(pairs, 6) + [p for p in pairs if "nan" in p][:3]):
                    ops.append(f"fcmp {op} {lw}:{lt} {rw}:{rt} {a} {b}")
    for lw in ("tainted", "tvol"):
        for ty in ("float", "double"):
            for a in sv:
                ops.append(f"fnegs {lw}:{ty} {a}")
    return list(dict.fromkeys(ops))


def fops(rng, thorough):
    P = {"float": 24, "double": 53}
    def fv(ty):
        if ty in ("int", "llong"):
            lim = (1 << 31) - 1 if ty == "int" else (1 << 63) - 1
            return rng.choice([0, 1, -1, 3, (1 << 24) + 1, -(1 << 24) - 3, 16777217, 33554435, lim, -lim, rng.randrange(-lim, lim + 1), rng.randrange(-1000, 1000)]), 0
        p = P[ty]
        num = rng.choice([1, -1, 3, 13421773 if ty == "float" else 3602879701896397, (1 << p) - 1, -(1 << p) + 1, 1 << (p - 1), (1 << (p - 1)) + 1,
                          rng.randrange(-(1 << p) + 1, 1 << p), rng.randrange(-(1 << p) + 1, 1 << p), rng.randrange(-4096, 4096), 0])
        # (exponents stay far inside the normal range of the type: the model has no subnormals / overflow)
        k = rng.choice([0, 0, 1, 2, 10, 23, 27, 30, 40] if ty == "float" else [0, 0, 1, 2, 10, 23, 27, 30, 52, 60, 100])
        return num, k
    ops = []
    for op in "+-*":
        for lw, rw in WRAPS:
            for lt in ("float", "double", "int", "llong"):
                for rt in ("float", "double", "int", "llong"):
                    if lt in ("int", "llong") and rt in ("int", "llong"):
                        continue
                    for _ in range(4 if thorough else 1):
                        (an, ak), (bn, bk) = fv(lt), fv(rt)
                        ops.append(f"fbin {op} {lw}:{lt} {rw}:{rt} {an} {ak} {bn} {bk}")
    for form in ("preinc", "predec", "postinc", "postdec"):
        for lw in ("tainted", "tvol"):
            for ty in ("float", "double"):
                p = P[ty]
                fixed = [(13421773, 27) if ty == "float" else (3602879701896397, 55), (1 << p, 0), ((1 << p) - 1, 0), (1, 60), (1, 1), (-1, 1), (0, 0), (-(1 << p), 0), (3, 0), ((1 << p) - 1, 1)]
                for num, k in fixed + [fv(ty) for _ in range(12 if thorough else 4)]:
                    ops.append(f"fincdec {form} {lw}:{ty} {num} {k}")
    for lw in ("tainted", "tvol"):
        for ty in ("float", "double"):
            for _ in range(4):
                num, k = fv(ty)
                ops.append(f"fneg {lw}:{ty} {num} {k}")
    return list(dict.fromkeys(ops))


def vals(tn, rng, n):
    lo, hi = rng_of(*TYPES[tn])
    glo, ghi = rng_of(*guest(tn))
    v = {lo, hi, 0, 1, -1, 2, 3, 7, 8, 31, 32, 63, 64, glo, ghi, ghi + 1, glo - 1, lo + 1, hi - 1, 255, 256, 65535, 65536}
    v |= {rng.randint(lo, hi) for _ in range(n)} | {rng.randint(-70, 70) for _ in range(n)}
    return sorted(x for x in v if lo <= x <= hi)


def run(chk):
    thorough = chk.tier == "thorough"
    chk.lean(thorough_checker=thorough)
    binp, log = build()
    if binp is None:
        import re
        ta = re.findall(r"static assertion failed: (result type of \S+)", log)
        ctx = re.findall(r"type_asserts\(\) \[with ([^\]]*)\]", log)
        if ta:
            # the property quantifies over programs: the harness TU is a program whose wrapped expression has the wrong static type
            chk.fail(f"the wrapped result type differs from decltype of the plain expression: {ta[0]} for operands [{ctx[0] if ctx else '?'}] (compile-time assertion in harness/h_ops.cpp)",
                     {"program": "harness/h_ops.cpp", "static_assert": sorted(set(ta))[:10], "instantiations": sorted(set(ctx))[:10], "log_tail": log[-1500:]},
                     found=True)
            binp, log2 = build(["-DOPS_NO_TYPE_ASSERTS"])   # keep going on values without the type assertions
        if binp is None:
            chk.fail("harness h_ops does not compile against the current headers", {"log_tail": log[-4000:]}, found=False)
            return
    rng = chk.rng
    ops = []
    # (1) exhaustive 8-bit x 8-bit operand pairs (block hash): every operator; wrapper combinations rotate with the seed in quick
    small = ["bool", "schar", "uchar"]
    for op in BIN + CMP + LOG:
        combos = WRAPS if thorough else rng.sample(WRAPS, 2)
        for lw, rw in combos:
            for lt in small[1:]:
                for rt in small[1:]:
                    ops.append(f"binblk {op} {lw}:{lt} {rw}:{rt}")
    # (2) all operators x all wrapper combinations x all type pairs at boundary/random values
    per = 6 if thorough else 2
    for op in BIN + CMP + LOG:
        for lw, rw in WRAPS:
            for lt in TY:
                for rt in TY:
                    la, rb = vals(lt, rng, 2), vals(rt, rng, 2)
                    for _ in range(per):
                        ops.append(f"bin {op} {lw}:{lt} {rw}:{rt} {rng.choice(la)} {rng.choice(rb)}")
    # (3) compound assignment and ++/--
    for op in BIN:
        for lw in ("tainted", "tvol"):
            for rw in ("plain", "tainted", "tvol"):
                for lt in TY[1:]:
                    for rt in TY:
                        la, rb = vals(lt, rng, 2), vals(rt, rng, 2)
                        for _ in range(per):
                            ops.append(f"cmpd {op} {lw}:{lt} {rw}:{rt} {rng.choice(la)} {rng.choice(rb)}")
    for form in ("preinc", "predec", "postinc", "postdec"):
        for lw in ("tainted", "tvol"):
            for lt in TY[1:]:
                for v in vals(lt, rng, 4):
                    ops.append(f"incdec {form} {lw}:{lt} {v}")
    for form in ("neg", "bnot"):
        for lw in ("tainted", "tvol"):
            for lt in TY:
                for v in vals(lt, rng, 3):
                    ops.append(f"unary {form} {lw}:{lt} {v}")
    ops = list(dict.fromkeys(ops))
    # (4) floating-point operands: + - * unary minus ++ -- (separate small harness)
    fbin_, flog = core.build_harness("h_fops", ["h_fops.cpp"], core.SAN)
    if fbin_ is None:
        chk.fail("harness h_fops does not compile against the current headers (wrapped floating-point expression: type assertion or operator missing)", {"log_tail": flog[-3000:]}, found=False)
    else:
        fo = fops(rng, thorough)
        core.differential(chk, fo, fbin_, oracle_f, label="floating-point operator evaluations")
        fs = fops_special(rng, thorough)
        core.differential(chk, fs, fbin_, oracle_fs, label="floating-point special values (comparisons, unary minus)")
        fo = fo + fs
        chk.cov["input_distribution_float"] = {"fbin": sum(o.startswith("fbin") for o in fo), "fincdec": sum(o.startswith("fincdec") for o in fo), "fneg": sum(o.startswith("fneg ") for o in fo), "fcmp": sum(o.startswith("fcmp") for o in fo), "fnegs": sum(o.startswith("fnegs") for o in fo)}
    res = core.differential(chk, ops, binp, oracle, label="operator evaluations")
    nblk = sum(int(a.split(" n=")[1].split()[0]) for o, a in zip(ops, res["impl"]) if o.startswith("binblk") and " n=" in a)
    chk.cov["evaluations"] += nblk
    outcomes = {}
    for a in res["impl"]:
        k = a.split()[0] if a else "?"
        outcomes[k] = outcomes.get(k, 0) + 1
    chk.cov["input_distribution"] = {"outcomes": outcomes, "operand_pairs_enumerated_in_blocks": nblk}
    chk.cov["distinct_nontrivial"] = len(ops) + nblk
    chk.cov["rule"] = ("16 binary/comparison operators x 8 operand-wrapper combinations x 11x11 integer type pairs at boundary/random values; all 8-bit x 8-bit operand pairs per operator by block "
                       "hash (wrapper combinations rotate with the seed; thorough: all 8); compound assignment (10 ops) and ++/-- on tainted and tainted_volatile operands, unary - ~; "
                       "floating-point operands (float, double, mixed with int / long long): + - * unary minus and pre/post ++ -- on all wrapper combinations; only defined plain expressions are evaluated (definedness computed in 128-bit arithmetic); result TYPES are asserted at compile time against decltype of the plain expression "
                       "for every instantiated combination; oracle = the plain C++ expression in the same harness + an independent Python rendering for the update semantics")
    chk.add_samples([{"op": o, "impl": a, "model": b} for o, a, b in list(zip(ops, res["impl"], res["model"]))[::max(1, len(ops) // 6)]])
    chk.cov["trusted_base"] += ["C16: floating-point operands: + - * unary minus ++ -- on float/double (also mixed with int / long long) in engine fops, values as exact dyadic rationals, IEEE round-to-nearest-even, CPython binary64 arithmetic as ground truth; comparisons and unary minus also on the special values (NaN, infinities, signed zeros; ops fcmp / fnegs); floating-point division and compound assignment are not exercised; `tainted_volatile & tainted_volatile`, compound assignment on tainted<T> for T narrower than int and post-inc/dec on tainted_volatile do not compile ('nc') and are outside the property ('that compiles')"]


def replay(chk, rp):
    binp, log = build()
    ops = [rp["op"]] if "op" in rp else [d["op"] for d in rp.get("disagreements", [])]
    if ops and ops[0].split()[0] in ("fbin", "fincdec", "fneg", "fcmp", "fnegs"):
        fbin_, flog = core.build_harness("h_fops", ["h_fops.cpp"], core.SAN)
        core.differential(chk, ops, fbin_, oracle_fs if ops[0].split()[0] in ("fcmp", "fnegs") else oracle_f, label="replay")
        return chk.finish()
    core.differential(chk, ops, binp, oracle, label="replay")
    return chk.finish()
