"""C06 — Integers crossing the ABI boundary keep their value or the operation aborts."""
from vlib import core

# independent type table of the oracle (name -> signed, bytes, isbool)
TYPES = {
    "bool": (False, 1, True), "char": (True, 1, False), "schar": (True, 1, False), "uchar": (False, 1, False),
    "short": (True, 2, False), "ushort": (False, 2, False), "int": (True, 4, False), "uint": (False, 4, False),
    "long": (True, 8, False), "ulong": (False, 8, False), "llong": (True, 8, False), "ullong": (False, 8, False),
    "char16": (False, 2, False), "char32": (False, 4, False), "wchar": (True, 4, False),
}
BASE = [t for t in TYPES if t != "wchar"]
ABIS = {"A": dict(short=2, int=4, long=4, llong=8), "B": dict(short=2, int=4, long=8, llong=8),
        "C": dict(short=4, int=8, long=8, llong=8)}


def rng_of(sg, by, isb):
    if isb:
        return 0, 1
    if sg:
        return -(1 << (8 * by - 1)), (1 << (8 * by - 1)) - 1
    return 0, (1 << (8 * by)) - 1


def guest_of(abi, t):
    sg, by, isb = TYPES[t]
    a = ABIS[abi]
    m = {"short": "short", "ushort": "short", "char16": "short", "int": "int", "uint": "int", "char32": "int",
         "long": "long", "ulong": "long", "llong": "llong", "ullong": "llong"}
    if t in m:
        return (sg, a[m[t]], False)
    return (sg, by, isb)


def rep(ty, v):
    lo, hi = rng_of(*ty)
    return lo <= v <= hi


def oracle(toks, line):
    op = toks[0]
    if line == "badinput":
        return None
    if op == "conv":
        to, fr, v = TYPES[toks[1]], TYPES[toks[2]], int(toks[3], 0)
        return line == (f"ok {v}" if rep(to, v) else "abort")
    if op == "arr":
        to = TYPES[toks[1]]
        vs = [int(x, 0) for x in toks[3:6]]
        return line == ("ok " + " ".join(map(str, vs)) if all(rep(to, v) for v in vs) else "abort")
    if op == "convblk":
        return " oracle_bad=0 " in line + " "
    if op == "tvtv":
        g = guest_of(toks[1], toks[2]); v = int(toks[4], 0)
        return line == (f"ok guest={v}" if rep(g, v) else "abort")
    if op == "tvstore_x":
        g = guest_of(toks[1], toks[2]); v = int(toks[4], 0)
        return line == (f"ok guest={v}" if rep(g, v) else "abort")
    if op in ("tvstore", "tvstore_t", "cbret"):
        g = guest_of(toks[1], toks[2]); v = int(toks[3], 0)
        return line == (f"ok guest={v}" if rep(g, v) else "abort")
    if op in ("tvload", "tvload_u", "invret", "cbarg"):
        v = int(toks[3], 0)
        return line == (f"ok {v}" if rep(TYPES[toks[2]], v) else "abort")
    if op in ("invarg", "invarg_t"):
        g = guest_of(toks[1], toks[2]); v = int(toks[3], 0)
        return line == (f"ok guest={v} ret={v}" if rep(g, v) else "abort")
    return None


def scope(toks):
    # a bool destination fed from a non-bool source is a pair the ABI mapping never produces
    # (Props/C06.lean: C06_abi_pairs); it is compared model-vs-code but not judged.
    if toks[0] in ("conv", "convblk", "arr"):
        return not (toks[1] == "bool" and toks[2] != "bool")
    return True


def boundary_values(to, fr, rng, nrand):
    flo, fhi = rng_of(*fr)
    tlo, thi = rng_of(*to)
    vals = {flo, flo + 1, -1, 0, 1, 2, fhi - 1, fhi, tlo - 1, tlo, tlo + 1, thi - 1, thi, thi + 1, 255, 256, 127, 128, -128, -129}
    for k in range(0, 65):
        for d in (-1, 0, 1):
            vals.add((1 << k) + d)
            vals.add(-(1 << k) + d)
    for _ in range(nrand):
        bits = rng.randrange(1, 65)
        v = rng.getrandbits(bits)
        vals.add(v if rng.random() < 0.6 else -v)
        vals.add(rng.randint(flo, fhi))
    return sorted(v for v in vals if flo <= v <= fhi)


def neighbours(toks):
    out = []
    if toks[0] == "conv":
        v = int(toks[3], 0)
        for t in TYPES:
            for d in (-2, -1, 0, 1, 2):
                out.append(f"conv {t} {toks[2]} {v + d}")
                out.append(f"conv {toks[1]} {t} {v + d}")
    elif toks[0] == "convblk":
        lo, hi = int(toks[3], 0), int(toks[4], 0)
        step = max(1, (hi - lo) // 4096)
        for v in list(range(lo, hi + 1, step))[:5000]:
            out.append(f"conv {toks[1]} {toks[2]} {v}")
    elif len(toks) == 4:
        v = int(toks[3], 0)
        for op in ("tvstore", "tvload", "tvload_u", "invarg", "invret", "cbarg", "cbret"):
            for d in (-1, 0, 1):
                out.append(f"{op} {toks[1]} {toks[2]} {v + d}")
    return out


def run(chk):
    thorough = chk.tier == "thorough"
    chk.lean(thorough_checker=thorough)
    binp, log = core.build_harness("h_conv", ["h_conv.cpp"], core.FAST)
    if binp is None:
        chk.fail("harness h_conv does not compile against the current headers", {"log_tail": log[-3000:]}, found=False)
        return
    rng = chk.rng
    ops = ["types"]
    names = list(TYPES)
    small = [t for t in names if TYPES[t][1] <= 2]
    # (1) exhaustive blocks for every source of at most 16 bits, against every destination
    for to in names:
        for fr in small:
            lo, hi = rng_of(*TYPES[fr])
            ops.append(f"convblk {to} {fr} {lo} {hi}")
    # (2) 32/64-bit sources: boundaries, powers of two +-1, random
    nrand = 2000 if thorough else 60
    wide = [t for t in names if TYPES[t][1] > 2]
    for to in names:
        for fr in wide:
            for v in boundary_values(TYPES[to], TYPES[fr], rng, nrand):
                ops.append(f"conv {to} {fr} {v}")
    # (3) arrays of each element pair
    for to in names:
        for fr in names:
            bv = boundary_values(TYPES[to], TYPES[fr], rng, 0)
            for _ in range(12 if thorough else 3):
                ops.append(f"arr {to} {fr} {rng.choice(bv)} {rng.choice(bv)} {rng.choice(bv)}")
    # (4) the public paths on the three ABIs
    for abi in ABIS:
        for t in BASE:
            app = TYPES[t]; g = guest_of(abi, t)
            av = boundary_values(g, app, rng, 30 if thorough else 4)
            gv = boundary_values(app, g, rng, 30 if thorough else 4)
            for v in av:
                for op in ("tvstore", "tvstore_t", "invarg", "invarg_t", "cbret"):
                    ops.append(f"{op} {abi} {t} {v}")
            for v in gv:
                for op in ("tvload", "tvload_u", "invret", "cbarg"):
                    ops.append(f"{op} {abi} {t} {v}")
    # (5) raw values of ANOTHER integer type stored into sandbox memory: `tainted_volatile<T> = (U)v`
    for abi in ABIS:
        for t in ("schar", "uchar", "short", "ushort", "int", "uint", "long", "ulong"):
            for u in ("schar", "uchar", "short", "int", "uint", "long", "ulong", "llong"):
                g = guest_of(abi, t); ua = TYPES[u]
                for v in boundary_values(g, ua, rng, 6 if thorough else 1):
                    ops.append(f"tvstore_x {abi} {t} {u} {v}")
    # (6) a sandbox reference assigned from a sandbox reference of ANOTHER integer type: `*p_T = *p_U` (guest U -> guest T)
    for abi in ABIS:
        for t in ("schar", "uchar", "short", "ushort", "int", "uint", "long", "ulong", "llong"):
            for u in ("schar", "uchar", "short", "ushort", "int", "uint", "long", "ulong", "llong"):
                if t == u:
                    continue
                g = guest_of(abi, t); gu = guest_of(abi, u)
                for v in boundary_values(g, gu, rng, 4 if thorough else 1):
                    ops.append(f"tvtv {abi} {t} {u} {v}")
    res = core.differential(chk, ops, binp, oracle, scope=scope, neighbours=neighbours, label="conv ops")
    # type table of the platform must be the one the model assumes
    items_in_blocks = 0
    for op, a in zip(ops, res["impl"]):
        if op.startswith("convblk") and " n=" in a:
            items_in_blocks += int(a.split(" n=")[1].split()[0])
    chk.cov["evaluations"] += items_in_blocks
    kinds = {}
    aborts = 0
    for op, a in zip(ops, res["impl"]):
        kinds[op.split()[0]] = kinds.get(op.split()[0], 0) + 1
        aborts += a == "abort"
    chk.cov["input_distribution"] = {"ops_by_kind": kinds, "abort_lines": aborts, "items_enumerated_in_blocks": items_in_blocks}
    distinct = len(set(ops))
    chk.cov["distinct_nontrivial"] = distinct + items_in_blocks
    chk.cov["rule"] = ("every ordered pair of the 15 integer types: all values of sources <= 16 bits (block hash model vs code, "
                       "128-bit oracle inside the block), boundaries/powers of two +-1/random for 32/64-bit sources, arrays, and the six public "
                       "paths (tvol store/load, invoke arg/result, callback arg/result) on ABIs A,B,C; distinct = distinct op lines + enumerated block items")
    chk.cov["exhaustive"] = False
    chk.add_samples([{"op": o, "impl": a, "model": b} for o, a, b in list(zip(ops, res["impl"], res["model"]))[1:4000:700]])
    # (5) thorough: exhaustive 32-bit sources, implementation vs 128-bit oracle (flag-abort build)
    if thorough:
        scan, log = core.build_harness("h_conv_scan", ["h_conv.cpp"], ["-O2", "-DVH_FLAG_ABORT"])
        if scan is None:
            chk.fail("scan harness does not compile", {"log_tail": log[-2000:]}, found=False)
            return
        jobs = []
        for to in names:
            for fr in ("int", "uint", "char32", "wchar"):
                lo, hi = rng_of(*TYPES[fr])
                jobs.append(f"convscan {to} {fr} {lo} {hi}")

        def one(job):
            rc, il, err = core.run_lines(scan, job + "\n")
            return job, (il[0] if il else "<crash>")
        total = 0
        for job, line in core.run_parallel(one, jobs):
            t = job.split()
            if " n=" in line:
                total += int(line.split(" n=")[1].split()[0])
            if scope(["conv", t[1], t[2]]) and " oracle_bad=0 " not in line + " ":
                fb = line.split("first_bad=")[-1]
                chk.fail(f"exhaustive scan: {t[2]} -> {t[1]} violates value-or-abort, first at {fb}: {line}",
                         {"op": f"conv {t[1]} {t[2]} {fb}", "scan": line}, found=True)
        chk.cov["evaluations"] += total
        chk.cov["distinct_nontrivial"] += total
        chk.cov["exhaustive_32bit_sources_scanned"] = total
        chk.cov["exhaustive"] = True
    chk.cov["trusted_base"] += [
        "C06: a bool destination fed from a non-bool source is outside the property (never produced by convert_base_types_t; "
        "theorem C06_abi_pairs); such lines are compared model-vs-code only (C06_bool_witness documents the behaviour)",
        "floating point and enum conversions are assignments by the C++ language and are not modelled"]


def replay(chk, rp):
    binp, log = core.build_harness("h_conv", ["h_conv.cpp"], core.FAST)
    ops = [rp["op"]] if "op" in rp else [d["op"] for d in rp.get("disagreements", [])]
    core.differential(chk, ops, binp, oracle, scope=scope, label="replay")
    for o in ops:
        print("replayed:", o)
    return chk.finish()
