"""C08 — Struct marshalling follows the sandbox ABI layout and round-trips every field.
Generated struct families (all field kinds, seeded orders, nesting <= 2) are compiled against the real
headers on three foreign ABIs; layout through tainted pointers, copy-in image, copy-out, by-value
argument and result, reads through a const view are compared with the Lean model (Struct.lean) and
an independent Python oracle (natural-alignment rule on fixed widths, exact integers)."""
import os, sys
from vlib import core

sys.path.insert(0, os.path.join(core.VERIF, "gen"))
import structs as st

ABIS = ["A", "B", "C"]


def build_family(fid, seed, nstructs):
    structs, tops = st.gen_family(seed, nstructs, fid)
    gen_dir = os.path.join(core.WORK, "gen")
    os.makedirs(gen_dir, exist_ok=True)
    path = os.path.join(gen_dir, f"h_struct_f{fid}.cpp")
    text = st.cpp(structs, tops, fid)
    if not os.path.exists(path) or open(path).read() != text:
        with open(path, "w") as f:
            f.write(text)
    binp, log = core.build_harness(f"h_struct_f{fid}", [path], core.SAN)
    return binp, log, tops, path


def leaf_vals_app(rng, abi, kinds, poison):
    """application-side leaf tokens; at most one integer leaf outside the guest range when `poison`"""
    int_idx = [i for i, k in enumerate(kinds) if k in st.INTS and k != "bool" and (st.guest_range(abi, k)[0] > st.app_range(k)[0] or st.guest_range(abi, k)[1] < st.app_range(k)[1])]
    bad = rng.choice(int_idx) if (poison and int_idx) else None
    out = []
    for i, k in enumerate(kinds):
        if k in st.INTS:
            alo, ahi = st.app_range(k)
            glo, ghi = st.guest_range(abi, k)
            lo, hi = max(alo, glo), min(ahi, ghi)
            if i == bad:
                c = [x for x in (ghi + 1, glo - 1, ahi, alo, rng.randint(alo, ahi)) if alo <= x <= ahi and not (glo <= x <= ghi)]
                out.append(str(rng.choice(c)))
            else:
                c = [0, 1, lo, hi, rng.randint(lo, hi), rng.randint(lo, hi)] + ([-1] if lo < 0 else [])
                out.append(str(rng.choice([x for x in c if lo <= x <= hi])))
        elif k == "enum":
            out.append(str(rng.choice([0, 1, 70000, -5])))
        elif k in ("float", "double"):
            # mostly integral values; sometimes one of the special values (code 2^62+k: NaN, +-inf, -0.0, denormal, max, NaN payload)
            if rng.random() < 0.25:
                out.append(str((1 << 62) + rng.randint(1, 7)))
            else:
                out.append(str(rng.randint(-1000, 1000) if k == "float" else rng.randint(-10 ** 9, 10 ** 9)))
        elif k == "fn":
            out.append(str(rng.randint(0, 3)))
        else:
            out.append(rng.choice(["null", str(rng.randint(1, 65535)), str(rng.choice([1, 4, 65535, 4096]))]))
    return out


def leaf_vals_guest(rng, abi, kinds, poison):
    int_idx = [i for i, k in enumerate(kinds) if k in st.INTS and k != "bool" and not (st.app_range(k)[0] <= st.guest_range(abi, k)[0] and st.guest_range(abi, k)[1] <= st.app_range(k)[1])]
    bad = rng.choice(int_idx) if (poison and int_idx) else None
    out = []
    for i, k in enumerate(kinds):
        if k in st.INTS:
            alo, ahi = st.app_range(k)
            glo, ghi = st.guest_range(abi, k)
            lo, hi = max(alo, glo), min(ahi, ghi)
            if i == bad:
                c = [x for x in (ahi + 1, alo - 1, ghi, glo) if glo <= x <= ghi and not (alo <= x <= ahi)]
                out.append(str(rng.choice(c)))
            else:
                c = [0, 1, lo, hi, rng.randint(lo, hi)] + ([-1] if lo < 0 else [])
                out.append(str(rng.choice([x for x in c if lo <= x <= hi])))
        elif k == "enum":
            out.append(str(rng.choice([0, 1, 70000, -5])))
        elif k in ("float", "double"):
            # mostly integral values; sometimes one of the special values (code 2^62+k: NaN, +-inf, -0.0, denormal, max, NaN payload)
            if rng.random() < 0.25:
                out.append(str((1 << 62) + rng.randint(1, 7)))
            else:
                out.append(str(rng.randint(-1000, 1000) if k == "float" else rng.randint(-10 ** 9, 10 ** 9)))
        elif k == "fn":
            out.append(str(rng.randint(0, 3)))
        else:
            out.append(rng.choice(["null", str(rng.randint(1, 65535))]))
    return out


def expected(op, abi, fields, vals):
    kinds = st.leaves(fields)
    if op == "slay":
        size, al, offs = st.layout(abi, fields)
        return f"ok size={size} align={al} offs={','.join(map(str, offs))} indep=same"
    if op in ("srt", "sarg"):
        img, back = [], []
        for k, v in zip(kinds, vals):
            if k in st.INTS:
                glo, ghi = st.guest_range(abi, k)
                if not (glo <= int(v) <= ghi):
                    return "abort"
                img.append(v); back.append(v)
            elif k in ("enum", "float", "double"):
                img.append(v); back.append(v)
            elif k == "fn":
                img.append("f" + v); back.append("f" + v)
            else:
                img.append("0" if v == "null" else v); back.append("null" if v == "null" else "in:" + v)
        return f"ok img={','.join(img)} pad=0 tail=0 back={','.join(back)}" if op == "srt" else f"ok guest={','.join(img)}"
    app = []
    for k, v in zip(kinds, vals):
        if k in st.INTS:
            alo, ahi = st.app_range(k)
            if not (alo <= int(v) <= ahi):
                return "abort"
            app.append(v)
        elif k in ("enum", "float", "double"):
            app.append(v)
        elif k == "fn":
            app.append("f" + v)
        else:
            app.append("null" if v in ("null", "0") else "in:" + v)
    a = ",".join(app)
    return f"ok app={a}" if op == "sret" else f"ok app={a} const={a} raw={a}"


def run(chk):
    thorough = chk.tier == "thorough"
    chk.lean(thorough_checker=thorough)
    nfam = 50 if thorough else 4
    per_struct = 60 if thorough else 40
    rng = chk.rng
    fams = core.run_parallel(lambda fid: build_family(fid, chk.seed * 1000 + fid, 3), list(range(nfam)))
    kinds_seen, ops_by_kind, aborts, nstructs = {}, {}, 0, 0
    samples = []
    for fid, (binp, log, tops, path) in enumerate(fams):
        if binp is None:
            chk.fail(f"generated struct family {fid} does not compile against the current headers", {"source": path, "log_tail": log[-3000:]}, found=False)
            continue
        table = {}
        ops = []
        for name, fields in tops:
            nstructs += 1
            d = st.desc(fields)
            kinds = st.leaves(fields)
            for k in kinds:
                kinds_seen[k] = kinds_seen.get(k, 0) + 1
            for abi in ABIS:
                ops.append(f"slay {name} {abi} {d} |")
                table[ops[-1]] = ("slay", abi, fields, [])
                for _ in range(per_struct // 4):
                    for op in ("srt", "sarg"):
                        vals = leaf_vals_app(rng, abi, kinds, rng.random() < 0.25)
                        ops.append(f"{op} {name} {abi} {d} | " + " ".join(vals))
                        table[ops[-1]] = (op, abi, fields, vals)
                    for op in ("sret", "srd"):
                        vals = leaf_vals_guest(rng, abi, kinds, rng.random() < 0.25)
                        ops.append(f"{op} {name} {abi} {d} | " + " ".join(vals))
                        table[ops[-1]] = (op, abi, fields, vals)
        ops = list(dict.fromkeys(ops))

        def oracle(toks, line, table=table):
            key = " ".join(toks)
            e = table.get(key)
            if e is None:
                return None
            return line == expected(*e)
        res = core.differential(chk, ops, binp, oracle, label=f"struct ops (family {fid})")
        for o, a in zip(ops, res["impl"]):
            ops_by_kind[o.split()[0]] = ops_by_kind.get(o.split()[0], 0) + 1
            aborts += a == "abort"
        if fid == 0:
            samples = [{"op": o, "impl": a} for o, a in list(zip(ops, res["impl"]))[::max(1, len(ops) // 5)]]
    chk.cov["distinct_nontrivial"] = chk.cov["evaluations"]
    chk.cov["input_distribution"] = {"families": nfam, "top_level_structs": nstructs, "abis": ABIS, "leaf_kinds_covered": kinds_seen, "ops_by_kind": ops_by_kind, "aborting_ops": aborts}
    chk.cov["rule"] = ("seeded struct families: every leaf kind (12 integer types incl. bool, enum, float, double, int*/void*/const char*, function pointer), arrays of char/ushort/uchar/int/long/llong/pointers/function "
                       "pointers, nested structs to depth 2, 2-10 fields in shuffled orders; per struct and ABI (A 32-bit long+pointer, B 64-bit pointer, C widened short/int): layout through tainted pointers vs an "
                       "independently declared fixed-width struct vs the model; copy-in image + copy-out, by-value argument, by-value result, copy-out of a guest-written image, loads through a const view, "
                       "with boundary/random leaf values and one unrepresentable leaf in a quarter of the ops")
    chk.add_samples(samples)
    chk.cov["trusted_base"] += ["C08: gen/structs.py (generator of the struct families and of the independent fixed-width guest structs)",
                                "C08: every op runs in a forked child; termination by SIGABRT (std::terminate from rlbox's noexcept members, or abort()) is read as the library's abort",
                                "C08: arrays of structs and const-qualified fields do not compile with rlbox's struct support and are absent from the families; floating-point fields carry small integral values and the special values (NaN with and without payload, +-inf, -0.0, smallest denormal, largest finite), compared bitwise"]


def replay(chk, rp):
    run(chk)
    return chk.finish()
