"""C17 — Indexing a tainted fixed-size array is bounds-checked for every index type."""
from vlib import core
from checks.c06 import TYPES, rng_of
from checks.c05 import guest_rep

STRIDE = {"app": {"char": 1, "long": 8, "ptr": 8, "short": 2, "int": 4, "uint": 4}, "sbx": {"char": 1, "long": 4, "ptr": 4, "short": 2, "int": 4, "uint": 4}}
IDX = [t for t in TYPES if t != "bool"]
WRAPPED = ["int", "uchar", "llong", "ulong"]
PARTS = [("h_index.cpp", [f"-DIDX_PART={i}"]) for i in range(16)] + [("h_index.cpp", [])]


def build():
    return core.build_harness("h_index", PARTS, core.SAN)


def oracle(toks, line):
    if line in ("badinput", "badop"):
        return None
    if toks[0] == "index":
        _, kind, el, ln, wrap, nty, v = toks
        v, ln = int(v), int(ln)
        if wrap == "tvol" and not guest_rep(nty, v):
            return None
        return line == (f"ok {v * STRIDE[kind][el]}" if 0 <= v < ln else "abort")
    if toks[0] == "index2":
        kind, el, shape = toks[1], toks[2], [int(x) for x in toks[3].split("x")]
        vs = [int(x) for x in toks[5:]]
        if all(0 <= v < n for v, n in zip(vs, shape)):
            flat = 0
            for v, n in zip(vs, shape):
                flat = flat * n + v
            return line == f"ok {flat * STRIDE[kind][el]}"
        return line == "abort"
    return None


def idx_values(nty, ln, rng, nrand):
    lo, hi = rng_of(*TYPES[nty])
    vals = {-1, 0, 1, ln - 1, ln, ln + 1, lo, hi, lo + 1, hi - 1}
    for k in (8, 16, 32, 63, 64):
        for valid in {0, ln - 1, ln // 2}:
            vals |= {(1 << k) + valid, -(1 << k) + valid, (1 << k) - 1}
    for _ in range(nrand):
        vals.add(rng.randint(lo, hi)); vals.add(rng.randint(-2, ln + 2))
    return sorted(v for v in vals if lo <= v <= hi)


def gen_ops(chk, thorough):
    rng = chk.rng
    ops = []
    for kind in ("app", "sbx"):
        for el in ("char", "long", "ptr"):
            for ln in range(1, 17):
                for nty in IDX:
                    wraps = ["plain"] + (["tainted", "tvol"] if nty in WRAPPED else [])
                    vals = idx_values(nty, ln, rng, 4 if thorough else 0)
                    for w in wraps:
                        vv = vals if (thorough or w == "plain") else rng.sample(vals, min(8, len(vals)))
                        for v in vv:
                            ops.append(f"index {kind} {el} {ln} {w} {nty} {v}")
    # an array longer than the positive range of an 8-bit index: negative indices must abort, they must not pass as "255 < 300"
    for kind in ("app", "sbx"):
        for w in ("plain", "tainted"):
            for nty, vs in (("schar", (-128, -127, -44, -2, -1, 0, 1, 127)), ("char", (-128, -1, 0, 127)), ("uchar", (0, 200, 255)),
                            ("short", (-32768, -300, -1, 0, 299, 300, 301, 32767)), ("int", (-1, 0, 299, 300, 65836))):
                for v in vs:
                    ops.append(f"index {kind} char 300 {w} {nty} {v}")
    shapes = [("long", "2x3"), ("long", "3x5"), ("char", "3x5"), ("ptr", "4x1"), ("long", "2x3x4"), ("short", "3x5"), ("short", "4x1"), ("int", "2x3"), ("uint", "4x1")]
    for kind in ("app", "sbx"):
        for el, sh in shapes:
            dims = [int(x) for x in sh.split("x")]
            for nty in ("int", "uchar", "llong", "ulong", "schar"):
                lo, hi = rng_of(*TYPES[nty])
                cands = [[v for v in (-1, 0, 1, n - 1, n, n + 1, hi, lo, 256 + n - 1) if lo <= v <= hi] for n in dims]
                import itertools
                allc = list(itertools.product(*cands))
                if not thorough and len(allc) > 120:
                    allc = rng.sample(allc, 120)
                for c in allc:
                    ops.append(f"index2 {kind} {el} {sh} {nty} " + " ".join(map(str, c)))
    return list(dict.fromkeys(ops))


def neighbours(toks):
    out = []
    if toks[0] == "index":
        v = int(toks[6])
        for d in (-1, 0, 1):
            for ln in (1, 2, int(toks[3]), 16):
                out.append(f"index {toks[1]} {toks[2]} {ln} {toks[4]} {toks[5]} {v + d}")
    return out


def volatile_index(chk):
    """an index that lives in sandbox memory (arr[*p]): the sandbox rewrites it after EVERY machine read of sandbox memory that the
    access performs (the interposer of the C09 engine); the access must abort or designate an element of the array"""
    from checks import c09
    sbin, slog = c09.build()
    if sbin is None:
        chk.fail("harness h_snap does not compile against the current headers", {"log_tail": slog[-3000:]}, found=False)
        return 0
    acts = ["none", "idxbig", "idxsmall", "idxneg"]
    ops = [f"snap idx {init} {k} {a}" for init in ("in", "out") for a in acts for k in range(0, 5)]
    req = [f"snapset idx {init} {a}" for init in ("in", "out") for a in acts]
    rc, mlines, merr = core.run_model("\n".join(req) + "\n")
    if rc != 0 or len(mlines) != len(req):
        raise SystemExit("infrastructure error: model driver failed on snapset idx ops " + merr[-300:])
    msets = {tuple(q.split()[2:]): set(x.strip() for x in l.split("|")) for q, l in zip(req, mlines)}
    rc, lines, err = core.run_lines(sbin, "\n".join(ops) + "\n")
    if len(lines) != len(ops):
        chk.fail("harness h_snap produced fewer result lines than operations", {"ops": len(ops), "lines": len(lines)}, found=False)
        return 0
    bad = []
    for o, l in zip(ops, lines):
        t = o.split()
        out = l.split(" out=", 1)[1] if " out=" in l else l
        ok = out == "abort" or out in ("off=0", "off=4", "off=8", "off=12")
        if not ok:
            chk.fail(f"an index stored in sandbox memory and rewritten by the sandbox during the access reaches beyond the array: `{o}` -> `{l}` (array of 4 ints: offsets 0..12 or abort)",
                     {"op": o, "impl": l, "model_outcomes": sorted(msets[(t[2], t[4])]), "oracle": "fail"}, signature=f"C17/volatile-index-{t[2]}-{t[4]}", found=True)
        elif out not in msets[(t[2], t[4])]:
            bad.append((o, l, sorted(msets[(t[2], t[4])])))
    if bad:
        chk.fail(f"implementation outcome outside the model's outcome set on {len(bad)} schedules; first: `{bad[0][0]}` -> `{bad[0][1]}`",
                 {"correspondence": "volatile index (Snapshot.idxVol)", "disagreements": [dict(op=o, impl=l, model_set=m) for o, l, m in bad[:20]]}, found=False)
    chk.cov["evaluations"] += len(ops)
    return len(ops)


def run(chk):
    thorough = chk.tier == "thorough"
    chk.lean(thorough_checker=thorough)
    nvol = volatile_index(chk)
    binp, log = build()
    if binp is None:
        chk.fail("harness h_index does not compile against the current headers", {"log_tail": log[-3000:]}, found=False)
        return
    ops = gen_ops(chk, thorough)
    res = core.differential(chk, ops, binp, oracle, neighbours=neighbours, label="array index ops")
    outcomes = {}
    for a in res["impl"]:
        k = a.split()[0] if a else "?"
        outcomes[k] = outcomes.get(k, 0) + 1
    chk.cov["input_distribution"] = {"outcomes": outcomes, "ops": len(ops), "volatile_index_schedules": nvol}
    chk.cov["distinct_nontrivial"] = len(ops)
    chk.cov["rule"] = ("{application, sandbox} memory x element types {char,long,pointer} x lengths 1..16 (and 300 with 8/16/32-bit indices) x 14 index types (plain; tainted/tainted_volatile for 4 of them) x "
                       "values {-1,0,1,n-1,n,n+1,type min/max, 2^k + valid index for k=8,16,32,63,64}; shapes [2][3],[3][5],[4][1],[2][3][4]; app-side arrays sit between canaries; "
                       "an index stored in sandbox memory rewritten (to a valid, a too large or a negative value) after every machine read of the access (interposer of the C09 engine); distinct = distinct op lines; oracle: abort iff index outside [0,n), offset = flat index x stride of the memory the array lives in")
    chk.add_samples([{"op": o, "impl": a, "model": b} for o, a, b in list(zip(ops, res["impl"], res["model"]))[::max(1, len(ops) // 6)]])
    chk.cov["trusted_base"] += ["C17: bool index types are excluded (make_unsigned<bool> does not compile); stride tables of the oracle are hand-written for ABI A"]


def replay(chk, rp):
    ops = [rp["op"]] if "op" in rp else [d["op"] for d in rp.get("disagreements", [])]
    if ops and ops[0].startswith("snap "):
        volatile_index(chk)       # the schedules of an index stored in sandbox memory (all 40 of them)
        for o in ops:
            print("replayed:", o)
        return chk.finish()
    binp, log = build()
    core.differential(chk, ops, binp, oracle, label="replay")
    for o in ops:
        print("replayed:", o)
    return chk.finish()
