"""C12 — A callback call runs exactly the registered function with faithful arguments."""
from vlib import core
from checks import callscommon as cc


def run_variant(chk, variant, n, depth, width):
    binp, log = cc.build(variant)
    if binp is None:
        chk.fail(f"harness h_calls ({variant}) does not compile against the current headers", {"log_tail": log[-3000:]}, found=False)
        return []
    flags, cmd, nslots = cc.VARIANTS[variant]
    faults = "abr" if variant == "vsbx" else "b"
    gen = cc.Gen(chk.rng, nslots, faults)
    ops = []
    for i in range(n):
        ops.append(gen.line(cmd, chk.rng.randrange(1, depth + 1), width, with_fault=(i % 3 == 0)))
    # slot reuse / identical signatures / stale entry points: registration churn before the tree
    ops += [f"{cmd} R 0 0 0 R 0 1 1 U 0 R 0 2 2 T I 0 5 n C 2 1 10 n E C 1 2 20 n E E",
            f"{cmd} R 0 0 0 R 1 1 0 R 0 2 1 R 1 3 1 T I 0 1 n C 0 1 1 n I 1 2 n C 1 2 2 n E E E C 2 3 3 n E E",
            f"{cmd} R 0 0 3 R 0 0 2 R 0 0 1 T I 0 9 n C 2 4 40 n E E",
            # a callback body creates, uses and destroys a helper sandbox (number 2); the executing sandbox's later callbacks are unaffected
            f"{cmd} R 0 0 0 R 0 1 1 T I 0 5 n C 0 7 70 n I 2 3 n E E C 1 8 80 n E C 0 9 90 n I 2 4 nv E I 1 6 n E E E",
            f"{cmd} R 1 0 2 T I 2 1 n E I 1 5 n C 0 7 70 n I 2 3 n E I 2 4 n E E E I 2 9 n E"]
    # a callback whose result is a pointer into sandbox memory; many simultaneously live entry points (more than 32 on the
    # bundled backends), one released, two more registered: every entry point still runs its own function
    for sb in (0, 1):
        for v in (0, 1, -1, 4242, 2147483647, -2147483648, chk.rng.randrange(-10 ** 9, 10 ** 9)):
            ops.append(f"cbptr {sb} {v}")
        big = [3, 6] if nslots <= 8 else [3, 31, 32, 33, 40, 61, 62]
        for nn in big:
            for u in sorted({-1, 0, nn - 1, nn // 2, chk.rng.randrange(nn)}):
                ops.append(f"cbmany {sb} {nn} {u}")
    if variant.startswith("dylib"):
        ops += ["dywho", "dymiss"]      # two live sandboxes on two libraries exporting the same names; a name only one of them exports
    ops = list(dict.fromkeys(ops))
    core.differential(chk, ops, binp, cc.oracle_c12, label=f"call trees ({variant})", impl_env=cc.env_for(variant))
    return ops


def run(chk):
    thorough = chk.tier == "thorough"
    chk.lean(thorough_checker=thorough)
    allops = []
    for variant in ("vsbx", "noop", "noop_tls", "dylib", "dylib_tls"):
        allops += run_variant(chk, variant, 4000 if thorough else 700, 4, 3)
    chk.cov["distinct_nontrivial"] = len(set(allops))
    lens = [len(o.split()) for o in allops]
    chk.cov["input_distribution"] = {"trees": len(allops), "mean_tokens": round(sum(lens) / max(1, len(lens)), 1), "max_tokens": max(lens),
                                     "with_callbacks": sum(1 for o in allops if " C " in o), "with_fault": sum(1 for o in allops if any(f" {x} " in o for x in "abr"))}
    chk.cov["rule"] = ("random registration/unregistration histories (4 callbacks with identical signatures, 6 owner variables, overwrites, slot reuse) followed by random call trees "
                       "(depth <= 4, width <= 3, nesting across 2 live sandboxes plus a helper sandbox created, used and destroyed inside a callback body, boundary argument/result values, faults at argument conversion / callback body / result conversion) on "
                       "{foreign-ABI vsbx, noop, noop with embedder-provided TLS, dylib (guest functions in a dlopen'ed shared object), dylib with embedder-provided TLS}; oracle: the function registered for the entry point on the executing sandbox runs, once, with that sandbox "
                       "and the guest's argument, and its result reaches the guest unless a fault struck")
    chk.add_samples([{"tree": o} for o in allops[:3]])
    chk.cov["trusted_base"] += ["C12: the dylib backend is executed with a guest library whose functions forward to the harness (harness/guest_calls.cpp); dlopen/dlsym are exercised, the symbol-visibility rules of real libraries are not",
                                "argument values are long/int32 only in this engine; conversions of all types on callback paths are covered by C06 (cbarg/cbret ops)"]


def replay(chk, rp):
    op = rp.get("op") or rp["disagreements"][0]["op"]
    variant = "vsbx" if op.startswith("tree ") else "noop"
    binp, log = cc.build(variant)
    core.differential(chk, [op], binp, cc.oracle_c12, label="replay")
    return chk.finish()
