"""C04 — Pointer representation conversion is faithful, null-preserving and per-sandbox."""
import re
from vlib import core
from checks import memcommon
from checks.c03 import want_rep

BLK = 1 << 16
VSBX_BASE0, VSBX_STRIDE = 0x6a0000000000, 0x400030000      # harness/vsbx.hpp (the stride is deliberately not a multiple of 2^32)
STORE_POS = ["cell", "arrel", "field", "arg"]
LIBS = {0: ("libA", ["f0", "f1", "f2"]), 1: ("libB", ["f2", "f0"])}


def off_of(sb, tgt):
    """offset of the target inside sandbox sb, or None if it is not one of sb's addresses"""
    if tgt == "null":
        return None
    if tgt.startswith("in"):
        return int(tgt[4:]) if int(tgt[2]) == sb else None
    return int(tgt)


def oracle(toks, line):
    if line in ("badop", "badinput"):
        return None
    op = toks[0]
    if op == "rep":
        return line == "ok " + want_rep(toks[1], int(toks[2]), int(toks[3]))
    if op == "pstore":
        pos, sb, tgt = toks[1], int(toks[2]), toks[3]
        if pos in ("cellnull", "argnull"):
            return line == "ok rep=0"
        if tgt != "null" and off_of(sb, tgt) is None:
            # a pointer into ANOTHER live sandbox, stored in (or passed to) sandbox sb: it is translated relative to sb --
            # the sandbox that owns the cell / receives the argument -- and never relative to the sandbox it points into
            other, off = int(tgt[2]), int(tgt[4:])
            r = (VSBX_BASE0 + other * VSBX_STRIDE + off - (VSBX_BASE0 + sb * VSBX_STRIDE)) % (1 << 32)
        else:
            r = 0 if tgt == "null" else off_of(sb, tgt)
        if pos in STORE_POS:
            return line == f"ok rep={r}"
        if pos == "arrwhole":
            return line == f"ok rep={r},rep=0,rep=0"
        if pos == "structwhole":
            return line == f"ok rep={r} l=7"
    if op == "pstoreb":
        pos, tgt = toks[1], toks[2]
        r = 0 if tgt == "null" else int(tgt)
        back = "null" if r == 0 else f"inB:{r}"
        if pos == "cell":
            return line == f"ok rep={r} back={back}"
        return line == f"ok rep={r},0 back={back},null"
    if op == "prt":
        sb, tgt = int(toks[2]), toks[3]
        if tgt != "null" and off_of(sb, tgt) is None:
            return None
        o = None if tgt == "null" else off_of(sb, tgt)
        # offset 0 is the sandbox's own null: its representation is 0
        return line == ("ok null" if not o else f"ok in{sb}:{o}")
    if op == "fstore":
        sb, name = int(toks[1]), toks[2]
        ln, fns = LIBS[sb]
        if name in fns:
            return line == f"ok rep={fns.index(name) + 1} back={ln}.{name}"
        return line == "ok rep=0 back=null"
    if op in ("fload", "fctx"):
        sb, rep = (int(toks[1]), int(toks[2])) if op == "fload" else (int(toks[2]), int(toks[3]))
        ln, fns = LIBS[sb]
        if rep == 0:
            return line == "ok null"
        if 1 <= rep <= len(fns):
            return line == f"ok {ln}.{fns[rep - 1]}"
        if 0x4000 <= rep < 0x4008:
            return line == f"ok cb{sb}:{rep - 0x4000}"
        return None      # unknown table index: backend-defined
    return None


def neighbours(toks):
    out = []
    if toks[0] in ("pstore", "prt"):
        for pos in (STORE_POS + ["arrwhole", "structwhole"]) if toks[0] == "pstore" else ["cell", "arrel", "field", "structwhole", "call"]:
            for sb in (0, 1):
                for t in ("null", "1", "4", "65535"):
                    out.append(f"{toks[0]} {pos} {sb} {t}")
    return out


def run(chk):
    thorough = chk.tier == "thorough"
    chk.lean(thorough_checker=thorough)
    binp, log = memcommon.build()
    if binp is None:
        chk.fail("harness h_mem does not compile against the current headers", {"log_tail": log[-3000:]}, found=False)
        return
    rng = chk.rng
    ops = []
    offs_all = list(range(0, BLK))
    for sb in (0, 1):
        # every offset of the region: store (address -> representation) and round trip, in the cell position
        step = 1 if thorough else 7
        for o in offs_all[::step] + [1, 2, 3, 65534, 65535]:
            ops.append(f"pstore cell {sb} {o}")
            ops.append(f"prt cell {sb} {o}")
        offs = sorted({0, 1, 4, 255, 256, 4660, 32768, 65532, 65535} | {rng.randrange(1, BLK) for _ in range(200 if thorough else 40)})
        for pos in STORE_POS + ["arrwhole", "structwhole"]:
            for o in offs:
                ops.append(f"pstore {pos} {sb} {o}")
            ops.append(f"pstore {pos} {sb} null")
            ops.append(f"pstore {pos} {sb} in{1 - sb}:100")
        ops += [f"pstore cellnull {sb} null", f"pstore argnull {sb} null"]
        for pos in ["cell", "arrel", "field", "structwhole", "call"]:
            for o in offs:
                ops.append(f"prt {pos} {sb} {o}")
            ops.append(f"prt {pos} {sb} null")
        for pos in ["result", "cbarg", "cell", "arrel", "field"]:
            for r in sorted({0, 1, 65535, 65536, (1 << 32) - 1} | {rng.getrandbits(32) for _ in range(100 if thorough else 20)} | {rng.randrange(0, BLK) for _ in range(300 if thorough else 60)}):
                ops.append(f"rep {pos} {sb} {r}")
        for name in ("f0", "f1", "f2", "nosuch"):
            ops.append(f"fstore {sb} {name}")
        for rep in (0, 1, 2, 3, 4, 0x4000, 0x4001, 0x4007, 0x4008, 77):
            ops.append(f"fload {sb} {rep}")
            ops.append(f"fctx result {sb} {rep}")
            ops.append(f"fctx cbarg {sb} {rep}")
    # a backend whose guest pointers are as wide as the host's (ABI B): whole arrays of pointers must still be translated
    for o in ["null", "1", "4660", "65535"] + [str(rng.randrange(1, BLK)) for _ in range(30 if thorough else 6)]:
        ops.append(f"pstoreb cell {o}")
        ops.append(f"pstoreb arrwhole {o}")
    ops = list(dict.fromkeys(ops))
    res = core.differential(chk, ops, binp, oracle, neighbours=neighbours, label="pointer translation ops")
    kinds = {}
    for o in ops:
        k = " ".join(o.split()[:2])
        kinds[k] = kinds.get(k, 0) + 1
    chk.cov["input_distribution"] = {"ops_by_kind_and_position": kinds}
    chk.cov["distinct_nontrivial"] = len(ops)
    chk.cov["exhaustive"] = bool(thorough)
    chk.cov["rule"] = ("two live sandboxes of one backend type; every region offset (thorough: all 65536; quick: every 7th + boundaries) stored into a pointer cell and round-tripped; "
                       "store positions {cell, array element, whole array, struct field, whole struct, call argument} and load positions {result, callback argument, cell, array element, "
                       "struct field} with null, boundary and random values, both translation paths (with context / from the cell's address); function-pointer cells through the registry; "
                       "oracle: representation == address - base of the owning sandbox, 0 <-> null")
    chk.add_samples([{"op": o, "impl": a, "model": b} for o, a, b in list(zip(ops, res["impl"], res["model"]))[::max(1, len(ops) // 6)]])
    chk.cov["trusted_base"] += ["C04: the first byte of a region has representation 0 (= the sandbox's null) by the backend's convention; theorems exclude it explicitly (C04_rt_addr)",
                                "sets of 3 live sandboxes and create/destroy orders are exercised by the C14 check (registry exactness), which shares the registry theorems C04_find_own/C04_find_none"]


def replay(chk, rp):
    binp, log = memcommon.build()
    ops = [rp["op"]] if "op" in rp else [d["op"] for d in rp.get("disagreements", [])]
    core.differential(chk, ops, binp, oracle, label="replay")
    return chk.finish()
