"""C13 — Callback registrations have exactly one owner and end when that owner does."""
import itertools
from vlib import core
from checks import histcommon


def sig_fn(ref, t, a, tainted):
    # F6b (registrations of an earlier incarnation survive destroy/create) was repaired; nothing is suppressed any more
    return None


def oracle(ops, lines):
    return histcommon.oracle_block(ops, lines, sig_fn)


def run(chk):
    thorough = chk.tier == "thorough"
    chk.lean(thorough_checker=thorough)
    binp, log = histcommon.build()
    if binp is None:
        chk.fail("harness h_hist does not compile against the current headers", {"log_tail": log[-3000:]}, found=False)
        return
    rng = chk.rng
    blocks = []
    # corpus: witnesses of the findings first
    blocks.append("hnew vsbx2|create 0 ok 0|reg 0 0 0|reg 0 1 1|cbmove 0 1|stat|hprobe 0".split("|"))
    blocks.append("hnew vsbx2|create 0 ok 0|reg 0 0 0|stat|destroy 0|create 0 ok 0|stat|reg 0 1 0|stat|cbdestroy 0|stat|hprobe 0".split("|"))   # F6b (repaired)
    blocks.append("hnew noop|create 0 ok|reg 0 0 0|destroy 0|create 0 ok|reg 0 1 0|stat|cbdestroy 0|stat|reg 0 2 0".split("|"))
    blocks.append("hnew vsbx2|create 0 ok 0|reg 0 0 0|reg 0 0 1|stat|hprobe 0".split("|"))
    blocks.append(["hnew noop", "create 0 ok"] + [f"reg 0 {k % 3} {k}" if False else f"reg 0 0 {k}" for k in range(0)] + ["stat"])
    # (1) exhaustive to depth 3 (thorough 4) on the 2-slot backend: 3 functions x 3 owners x 1 sandbox + lifecycle
    ops = ([f"reg 0 {o} {f}" for o in range(3) for f in range(3)] + [f"cbunreg {o}" for o in range(3)] + [f"cbdestroy {o}" for o in range(2)] +
           [f"cbmove {d} {s}" for d in range(3) for s in range(3)] + ["destroy 0", "create 0 ok 0"])
    depth = 4 if thorough else 3
    for d in range(1, depth + 1):
        seqs = itertools.product(ops, repeat=d)
        if d == depth and not thorough:
            seqs = list(seqs)
            seqs = rng.sample(seqs, 6000)
        elif d == depth and thorough:
            seqs = list(seqs)
            seqs = rng.sample(seqs, 60000)
        for s in seqs:
            b = ["hnew vsbx2", "create 0 ok 0"]
            for o in s:
                b += [o, "stat"]
            blocks.append(b + ["hprobe 0"])
    # (1b) incarnation histories: a registration, destroy + re-create while its owner is still alive, then every short suffix --
    #      (the territory of the repaired defect F6b)
    regs = [f"reg 0 {o} {f}" for o in range(3) for f in range(2)]
    suffix_ops = ([f"reg 0 {o} {f}" for o in range(3) for f in range(2)] + [f"cbunreg {o}" for o in range(3)] + [f"cbdestroy {o}" for o in range(2)] +
                  [f"cbmove {d} {s}" for d in range(3) for s in range(3) if d != s])
    for pre in regs:
        sufs = list(itertools.product(suffix_ops, repeat=2)) + rng.sample(list(itertools.product(suffix_ops, repeat=3)), 400 if thorough else 120)
        for suf in sufs:
            b = ["hnew vsbx2", "create 0 ok 0", pre, "stat", "destroy 0", "create 0 ok 0", "stat"]
            for o in suf:
                b += [o, "stat"]
            blocks.append(b + ["hprobe 0"])
    # (2) random long histories with pools larger than the table: vsbx8 (8 slots, 12 functions), noop (64 slots, 70 functions)
    for be, nf, n in (("vsbx8", 12, 30 if thorough else 10), ("noop", 70, 20 if thorough else 6), ("vsbx2", 4, 30 if thorough else 10)):
        for _ in range(n):
            b = [f"hnew {be}", "create 0 ok 0", "create 1 ok 1"]
            for _ in range(rng.randrange(20, 200 if not be == "noop" else 400)):
                r = rng.random()
                if r < 0.5:
                    b.append(f"reg {rng.choice([0, 0, 0, 1])} {rng.randrange(3)} {rng.randrange(nf)}")
                elif r < 0.65:
                    b.append(f"cbunreg {rng.randrange(3)}")
                elif r < 0.75:
                    b.append(f"cbdestroy {rng.randrange(3)}")
                elif r < 0.9:
                    b.append(f"cbmove {rng.randrange(3)} {rng.randrange(3)}")
                elif r < 0.95:
                    b.append("stat")
                else:
                    b.append(rng.choice(["destroy 1", "create 1 ok 0", "hprobe 0"]))
            blocks.append(b + ["stat", "hprobe 0"])
    # (3) table exhaustion on noop: 64 live registrations need 64 owners; the harness has 3 owner variables,
    #     so fill the table through overwritten owners is impossible once overwrite releases; instead leak registrations
    #     is not possible either -- exhaustion on the 64-entry backends is exercised by `regfill`
    blocks.append(["hnew noop", "create 0 ok", "regfill 0 64", "stat", "reg 0 0 64"])
    blocks.append(["hnew noop", "create 0 ok", "regfill 0 63", "reg 0 0 63", "stat", "cbunreg 0", "reg 0 1 69", "stat"])
    blocks.append(["hnew vsbx8", "create 0 ok 0", "regfill 0 8", "reg 0 0 8"])
    # (4) entry points do not leak across incarnations: more destroy/create cycles, each with a registration whose owner
    #     outlives the sandbox, than the backend has entry points (bundled noop backend: 64; vsbx: 8 and 2)
    for be, n in (("noop", 70), ("vsbx8", 12), ("vsbx2", 5)):
        cyc = []
        for k in range(n):
            cyc += [f"reg 0 {k % 2} {k % 5}", "destroy 0", "create 0 ok" + ("" if be == "noop" else " 0")]
        blocks.append([f"hnew {be}", "create 0 ok" + ("" if be == "noop" else " 0")] + cyc + ["reg 0 2 0", "stat", "cbdestroy 0", "cbdestroy 1", "stat", "hprobe 0"])
    out = core.differential_blocks(chk, histcommon.with_end(blocks), binp, oracle, label="callback ownership histories")
    chk.cov["distinct_nontrivial"] = len({tuple(b) for b in blocks})
    chk.cov["traces_validated_against_impl"] = len(blocks)
    lens = [len(b) for b in blocks]
    chk.cov["input_distribution"] = {"histories": len(blocks), "max_length": max(lens), "mean_length": sum(lens) / len(lens)}
    chk.cov["rule"] = ("all sequences up to depth 2 (thorough 3) and a sample of 6000 (60000) at the next depth over {register f on owner o (empty or live), unregister, destroy owner, "
                       "move-assign onto empty/live/self, destroy sandbox, re-create} with 3 functions x 3 owners on a 2-slot backend, `stat` (is_unregistered of every owner + functions reachable "
                       "through the backend table) after every step and a forked can-register probe at the end; random histories on 8-slot and 64-slot (noop) backends with pools of 12/70 functions; "
                       "table exhaustion on noop (64) and vsbx (8)")
    chk.add_samples([{"history": b[:10], "impl": a[:10]} for b, a, m in (out[:1] + out[len(out) // 2:len(out) // 2 + 1] + out[-3:-2])])
    chk.cov["trusted_base"] += ["C13: with RLBOX_USE_EXCEPTIONS an abort is an exception; histories are compared only up to the first abort (the process would be gone)",
                                "reachability through the entry-point table is read from vsbx's public slot table; on noop it is observed through registration outcomes and the null entry point"]


def replay(chk, rp):
    binp, log = histcommon.build()
    h = rp.get("history") or rp.get("first", {}).get("history")
    core.differential_blocks(chk, [h], binp, oracle, label="replay")
    return chk.finish()
