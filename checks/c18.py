"""C18 — Distinct sandboxes can be used from distinct threads without interference.
Lean: noninterference for every interleaving of owned atomic steps + the source facts the atomicity
model rests on (guards around sandbox_list, thread_local thread_data, atomic status) regenerated from
/repo.  Execution: 2..16 threads under ThreadSanitizer (clang++-14), each running a seeded random
operation sequence on its own instances (vsbx: example-based lookups; noop: real trampolines);
every thread's concurrent log must equal its ALONE log and the model's sequential log; any TSan
report is a violation."""
import os, re, subprocess
from vlib import core

TSAN = ["-O1", "-g", "-fsanitize=thread", "-pthread"]
VSBX_ADDR = ["-DVSBX_BASE0_ADDR=0x7e9000000000ull", "-DVSBX_STRIDE_BYTES=0x100000000ull"]
OPS = "cdmrpgufial"


def build(backend):
    flags = TSAN + (["-DTHR_NOOP"] if backend == "noop" else ["-DTHR_NOOP", "-DTHR_EMBEDDER_TLS"] if backend == "noop_tls" else VSBX_ADDR)
    return core.build_harness("h_thr_" + backend, ["h_thr.cpp"], flags, compiler="clang++-14")


def gen_prog(rng, length):
    prog = ["c0"] if rng.random() < 0.8 else []
    live = {0} if prog else set()
    for _ in range(length):
        r = rng.random()
        i = rng.randint(0, 1)
        if r < 0.12:
            op = "c"
        elif r < 0.22:
            op = "d"
        elif r < 0.36:
            op = "m"
        elif r < 0.46:
            op = "r"
        elif r < 0.54:
            op = "p"
        elif r < 0.66:
            op = "g"
        elif r < 0.71:
            op = "u"
        elif r < 0.80:
            op = "f"
        elif r < 0.86:
            op = "a"
        elif r < 0.91:
            op = "l"
        else:
            op = "i"
        prog.append(op + str(i))
    return prog


def run_scenario(binp, line):
    env = dict(os.environ)
    env["TSAN_OPTIONS"] = "halt_on_error=0 report_signal_unsafe=0 exitcode=0 second_deadlock_stack=0"
    try:
        p = subprocess.run([binp], input=line + "\n", stdout=subprocess.PIPE, stderr=subprocess.PIPE, text=True, env=env, timeout=90)
    except subprocess.TimeoutExpired as e:
        return -999, "", "scenario did not finish within 90 s (deadlock or livelock)\n" + ((e.stderr or b"").decode(errors="replace") if isinstance(e.stderr, bytes) else (e.stderr or ""))[-2000:]
    return p.returncode, p.stdout.strip(), p.stderr


def tsan_summary(err):
    out = []
    for blk in re.split(r"(?:WARNING|ERROR): ThreadSanitizer:", err)[1:4]:
        lines = blk.split("\n")
        head = lines[0].strip()
        frames = [l.strip() for l in lines if re.search(r"#\d+ .*(rlbox|h_thr)", l)][:4]
        out.append({"kind": head, "frames": [re.sub(r"\s*\(BuildId.*", "", f)[:220] for f in frames]})
    return out


def run(chk):
    thorough = chk.tier == "thorough"
    chk.lean(thorough_checker=thorough)
    bins = {}
    for b in ("vsbx", "noop", "noop_tls"):
        binp, log = build(b)
        if binp is None:
            chk.fail(f"harness h_thr ({b}) does not compile against the current headers", {"log_tail": log[-3000:]}, found=False)
            return
        bins[b] = binp
    rng = chk.rng
    nscen = 600 if thorough else 48
    scen = []
    for k in range(nscen):
        backend = "vsbx" if k % 2 == 0 else ("noop" if k % 4 == 1 else "noop_tls")     # noop_tls: embedder-provided TLS configuration
        n = rng.choice([2, 2, 3, 4, 4, 6, 8, 12, 16])
        progs = [gen_prog(rng, rng.randint(8, 40)) for _ in range(n)]
        line = f"thr {n} {rng.randrange(1 << 30)} " + " ".join("| " + " ".join(p) for p in progs)
        scen.append((backend, n, progs, line))
    # model: sequential log of each thread's program
    mq = []
    for backend, n, progs, line in scen:
        for t, p in enumerate(progs):
            mq.append(f"thrseq {backend.split('_')[0]} {t} " + " ".join(p))
    rc, mlines, merr = core.run_model("\n".join(mq) + "\n")
    if rc != 0 or len(mlines) != len(mq):
        raise SystemExit("infrastructure error: model driver failed on thrseq " + merr[-300:])
    res = core.run_parallel(lambda s: run_scenario(bins[s[0]], s[3]), scen)
    mi = 0
    nthreads_hist, ops_hist, tsan_reports, mism = {}, {}, 0, 0
    for (backend, n, progs, line), (rc, out, err) in zip(scen, res):
        nthreads_hist[n] = nthreads_hist.get(n, 0) + 1
        for p in progs:
            for o in p:
                ops_hist[o[0]] = ops_hist.get(o[0], 0) + 1
        model = mlines[mi:mi + n]
        mi += n
        if "ThreadSanitizer" in err:
            tsan_reports += 1
            kinds = sorted(set(re.findall(r"(?:WARNING|ERROR): ThreadSanitizer: ([a-z\- ]+)", err)))
            chk.fail(f"ThreadSanitizer reports {', '.join(kinds) or 'an error'} ({backend} backend, {n} threads)", {"scenario": line, "backend": backend, "tsan": tsan_summary(err), "replay_hint": "pipe the scenario line into the h_thr binary of that backend"},
                     signature=None, found=True)
            continue
        if not out.startswith("ok"):
            chk.fail(f"thread harness failed on a scenario (rc={rc})", {"scenario": line, "backend": backend, "stdout": out[-500:], "stderr_tail": err[-1500:]}, found=True)
            continue
        logs = dict(re.findall(r" ([TA]\d+)=(\S*)", out))
        for t in range(n):
            conc, alone = logs.get(f"T{t}"), logs.get(f"A{t}")
            if conc != alone:
                mism += 1
                chk.fail(f"thread {t} observed different results when running concurrently ({backend} backend, {n} threads)",
                         {"scenario": line, "backend": backend, "thread": t, "concurrent": conc, "alone": alone, "model": model[t]}, found=True)
            elif alone != model[t]:
                mism += 1
                chk.fail(f"correspondence model/implementation broke on a sequential thread program ({backend})",
                         {"correspondence": "thr sequential", "program": " ".join(progs[t]), "impl_alone": alone, "model": model[t]}, found=False)
    chk.cov["evaluations"] += sum(len(p) for s in scen for p in s[2])
    chk.cov["distinct_nontrivial"] = len(scen)
    chk.cov["input_distribution"] = {"scenarios": len(scen), "threads_per_scenario": nthreads_hist, "ops_by_kind": ops_hist, "backends": {b: sum(1 for x in scen if x[0] == b) for b in ("vsbx", "noop", "noop_tls")},
                                     "scenarios_with_tsan_report": tsan_reports, "log_mismatches": mism}
    chk.cov["rule"] = ("seeded scenarios of 2..16 threads, each thread owning two instances and running 8-40 random ops (create, destroy, malloc+store, read back, pointer-cell round trip, register/unregister callback, "
                       "function-pointer cell round trip = example-based lookup in the shared live list, invoke with callback checking the sandbox it is given), random yields to perturb the schedule, all threads released together; "
                       "ThreadSanitizer build; per-thread concurrent log vs alone log vs the model's sequential log")
    chk.add_samples([{"scenario": s[3][:300], "result": r[1][:300]} for s, r in list(zip(scen, res))[:3]])
    chk.cov["trusted_base"] += ["C18: data-race freedom under the C++ memory model is SAMPLED by ThreadSanitizer on the explored schedules, not proved; the theorem covers the logic: what is shared, that the source accesses it under the "
                                "discipline the extractor sees (facts regenerated each run), and that results do not depend on the interleaving of atomic steps",
                                "C18: gen/extract_facts.py (guard discipline around sandbox_list, thread_local, atomic) ; the dylib backend is not executed (its thread_data declaration is checked textually)"]


def replay(chk, rp):
    run(chk)
    return chk.finish()
