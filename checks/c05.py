"""C05 — Tainted pointer arithmetic stays in the sandbox and uses the sandbox stride."""
from vlib import core
from checks.c06 import TYPES, rng_of

K = 16
SIZE = 1 << K
# guest (ABI A) size of each pointee, written down independently of the model and of rlbox
GSIZE = {"char": 1, "short": 2, "int": 4, "long": 4, "llong": 8, "float": 4, "double": 8, "ptr": 4, "arr3": 12, "st12": 12, "arr2x3": 24}
ASIZE = {"char": 1, "short": 2, "int": 4, "long": 8, "llong": 8, "float": 4, "double": 8, "ptr": 8, "arr3": 12, "st12": 24, "arr2x3": 48}
GUEST_BYTES_A = {"short": 2, "ushort": 2, "char16": 2, "int": 4, "uint": 4, "char32": 4, "long": 4, "ulong": 4, "llong": 8, "ullong": 8}
FORMS_N = ["add", "sub", "addeq", "subeq", "idx", "addridx"]
FORMS_1 = ["preinc", "postinc", "predec", "postdec"]

PARTS = [("h_ptr.cpp", [f"-DPTR_PART={i}"]) for i in range(11)] + [("h_ptr.cpp", [])]


def build():
    return core.build_harness("h_ptr", PARTS, core.SAN)


def guest_rep(nty, n):
    sg, by, isb = TYPES[nty]
    by = GUEST_BYTES_A.get(nty, by)
    lo, hi = rng_of(sg, by, isb)
    return lo <= n <= hi


def expected(toks):
    """Independent oracle: what C05 demands. Returns expected output string or None (not judged)."""
    _, form, pty, off, wrap, nty, n = toks
    n = int(n)
    s = GSIZE[pty]
    if wrap == "tvol" and not guest_rep(nty, n):
        return None  # the operand could not even be stored in sandbox memory
    if form in FORMS_1:
        n = 1
    sign = -1 if form in ("sub", "subeq", "predec", "postdec") else 1
    if off == "null":
        if form in ("idx", "addridx"):
            return None  # C05 says nothing about indexing null (C03 does)
        return "abort"
    p = int(off)
    e = p + sign * n * s
    if not (0 <= e < SIZE):
        return "abort"
    if form in ("add", "sub", "idx", "addridx"):
        return f"ok in0:{e} in0:{p}"
    if form in ("addeq", "subeq", "preinc", "predec"):
        return f"ok in0:{e} in0:{e}"
    return f"ok in0:{p} in0:{e}"  # post forms return the old value


def oracle(toks, line):
    if toks[0] != "arith" or line in ("badinput", "badop"):
        return None
    exp = expected(toks)
    if exp is None:
        return None
    return line == exp


def signature(toks, line):
    _, form, pty, off, wrap, nty, n = toks
    n = abs(int(n))
    if form in FORMS_1:
        n = 1
    if n * GSIZE[pty] + SIZE > (1 << 64) and line.startswith("ok"):
        return "C05/offset-product-wraps-2^64"
    return None


def values_for(nty, pty, off, rng, nrand):
    s = GSIZE[pty]
    lo, hi = rng_of(*TYPES[nty])
    p = 0 if off == "null" else int(off)
    to_end = (SIZE - p) // s
    to_start = p // s
    vals = {0, 1, -1, 2, -2, lo, hi, lo + 1, hi - 1}
    for v in (to_end, to_start):
        vals |= {v - 1, v, v + 1, -(v - 1), -v, -(v + 1)}
    for k in (7, 8, 15, 16, 31, 32, 62, 63, 64):
        for d in (-1, 0, 1):
            vals |= {(1 << k) + d, -(1 << k) + d, (1 << k) // s + d, -((1 << k) // s) + d}
    # products that wrap exactly back into the region (adversarial for the wrap finding)
    vals |= {(1 << 64) // s, (1 << 64) // s + 1, (1 << 64) // s - 1, ((1 << 64) + 64) // s}
    for _ in range(nrand):
        vals.add(rng.randint(lo, hi))
        vals.add(rng.randint(-to_start - 3, to_end + 3))
    return sorted(v for v in vals if lo <= v <= hi)


def gen_ops(chk, thorough):
    rng = chk.rng
    ops = ["sizes"]
    ptys = list(GSIZE)
    ntys = list(TYPES)
    for pty in ptys:
        s = GSIZE[pty]
        offs = ["null", "0", str(SIZE - s), str(4096), str(4099 if s == 1 else 4096 + 3 * s), str(SIZE - 1 if s == 1 else SIZE - 2 * s)]
        if thorough:
            offs += [str(rng.randrange(1, SIZE - s)) for _ in range(3)]
        for off in offs:
            for form in FORMS_1:
                ops.append(f"arith {form} {pty} {off} plain int 0")
            for nty in ntys:
                wraps = ["plain"] if nty == "wchar" else ["plain", "tainted", "tvol"]
                vals = values_for(nty, pty, off, rng, 6 if thorough else 1)
                for wrap in wraps:
                    forms = FORMS_N if (thorough or wrap == "plain") else rng.sample(FORMS_N, 3)
                    vv = vals if (thorough or wrap == "plain") else rng.sample(vals, min(len(vals), 14))
                    for form in forms:
                        for v in vv:
                            ops.append(f"arith {form} {pty} {off} {wrap} {nty} {v}")
    return ops


def neighbours(toks):
    if toks[0] != "arith":
        return []
    _, form, pty, off, wrap, nty, n = toks
    out = []
    n = int(n)
    for f in FORMS_N + FORMS_1:
        for d in (-1, 0, 1):
            for pt in GSIZE:
                out.append(f"arith {f} {pt} {off} {wrap} {nty} {n + d}")
    return out


def run(chk):
    thorough = chk.tier == "thorough"
    chk.lean(thorough_checker=thorough)
    binp, log = build()
    if binp is None:
        chk.fail("harness h_ptr does not compile against the current headers", {"log_tail": log[-3000:]}, found=False)
        return
    ops = gen_ops(chk, thorough)
    res = core.differential(chk, ops, binp, oracle, signature=signature, neighbours=neighbours, label="pointer arithmetic ops")
    # the stride table the oracle uses must be what rlbox's wrappers really have
    want = "".join(f"{k}={GSIZE[k]}/{ASIZE[k]};" for k in GSIZE)
    if res["impl"][0] != want:
        chk.fail(f"sizeof(tainted_volatile<T>) table differs from the sandbox ABI sizes: {res['impl'][0]} expected {want}",
                 {"op": "sizes", "impl": res["impl"][0], "expected": want}, found=True)
    hist = {}
    outcomes = {"ok": 0, "abort": 0, "other": 0}
    for op, a in zip(ops, res["impl"]):
        t = op.split()
        if t[0] == "arith":
            hist[t[1]] = hist.get(t[1], 0) + 1
            outcomes["ok" if a.startswith("ok") else "abort" if a == "abort" else "other"] += 1
    chk.cov["input_distribution"] = {"by_form": hist, "outcomes": outcomes}
    chk.cov["distinct_nontrivial"] = len(set(ops))
    chk.cov["rule"] = ("11 pointee types (incl. a one- and a two-dimensional array) x {null, first, last element, interior aligned/unaligned, near end} x 10 forms x {plain,tainted,tainted_volatile} "
                       "operands of all 15 integer types x boundary values (0, +-1, elements to either end +-1, type limits, 2^k +-1, (2^k)/s +-1 for k up to 64, random); "
                       "distinct = distinct op lines; oracle = exact integer arithmetic p +- n*s_guest and membership in [0, 2^16)")
    chk.add_samples([{"op": o, "impl": a, "model": b} for o, a, b in list(zip(ops, res["impl"], res["model"]))[1::max(1, len(ops) // 6)]])
    chk.cov["trusted_base"] += [
        "C05: the oracle's guest-size table (ABI A) is written by hand and cross-checked against sizeof(tainted_volatile<T>) reported by the harness",
        "C05_exact_partial needs |n|*s + 2^k <= 2^64; beyond it the code wraps (finding F8, theorem C05_wrap_witness)"]


def replay(chk, rp):
    binp, log = build()
    ops = [rp["op"]] if "op" in rp else [d["op"] for d in rp.get("disagreements", [])]
    core.differential(chk, ops, binp, oracle, signature=signature, label="replay")
    for o in ops:
        print("replayed:", o)
    return chk.finish()
