"""Shared pieces of the `mem` engine checks (C03, C04, C07, C02 run-time half)."""
from vlib import core

BLK = 1 << 16


def build():
    return core.build_harness("h_mem", ["h_mem.cpp"], core.SAN + ["-fno-sanitize=bool"])


def pattern(i):
    return ((i * 131) ^ (i >> 8) ^ 0x5A) & 0xFF


PAT = bytes(pattern(i) for i in range(BLK))
