"""C02 — Application pointers and foreign-sandbox data cannot enter a sandbox unchecked.
Compile-time half: sink table regenerated from the compiler; Lean re-proves that every forbidden shape
is rejected (and every permitted neighbour accepted).  Run-time half: the two checked entry points vs
the model's acceptPointer, three-way, for every address class incl. all offsets around both region ends."""
from vlib import core
from checks import typingcommon as tc, memcommon

BLK = 1 << 16


def oracle(toks, line):
    # accept <how> <sb> <target>
    how, sb, tgt = toks[1], int(toks[2]), toks[3]
    inside = None
    if tgt.startswith("in"):
        which, off = int(tgt[2]), int(tgt[4:])
        inside = which == sb and 0 <= off < BLK
        shown = f"in{sb}:{off}"
        rep = off
    else:
        inside = False
    if not inside:
        return line == "abort"
    return line == (f"ok rep={rep}" if how == "assignvol" else f"ok {shown}")


def run(chk):
    thorough = chk.tier == "thorough"
    table, cached = tc.regenerate()
    if "error" in table:
        chk.cov["obligations"] = 1
        chk.fail("the wrapper API prelude no longer compiles, the sink table cannot be regenerated", {"log_tail": table["error"][-3000:]}, found=False)
        return
    chk.lean(thorough_checker=thorough)
    off = tc.c02_offenders(table)
    for ob, what, r in off:
        rp = tc.tu_replay(r)
        rp["obligation"] = "Rlbox.C02." + ob
        if ob == "C02_controls_accepted":
            # a permitted shape that stopped compiling is not a violation of C02 by itself; it breaks the control obligation
            chk.fail(what, rp, found=False)
        else:
            chk.fail(what, rp, signature="C02/" + r["rule"], found=True)
    if chk.lean_ok and any(ob != "C02_controls_accepted" for ob, _, _ in off):
        chk.fail("Python mirror of the C02 obligations disagrees with the Lean theorems", {"offenders": [w for _, w, _ in off][:5]}, found=False)
    sinks = [r for r in table["rows"] if r["kind"] == "c02"]
    chk.cov["evaluations"] += len(sinks)
    # run-time half
    binp, log = memcommon.build()
    if binp is None:
        chk.fail("harness h_mem does not compile against the current headers", {"log_tail": log[-3000:]}, found=False)
        return
    rng = chk.rng
    offs = {0, 1, 2, 7, 8, 4095, 4096, BLK - 2, BLK - 1, BLK, BLK + 1, 2 * BLK - 1, 2 * BLK} | {rng.randrange(0, BLK) for _ in range(200 if thorough else 40)} | \
           {rng.randrange(BLK, 1 << 34) for _ in range(50 if thorough else 10)}
    if thorough:
        offs |= set(range(0, 64)) | set(range(BLK - 64, BLK + 64))
    ops = []
    for how in ("accept", "assign", "assignvol", "assignfn"):
        for sb in (0, 1):
            for t in ("null", "heap", "stack", "abs:1", "abs:4096", "abs:18446744073709551615", "abs:%d" % rng.randrange(1, 1 << 46)):
                ops.append(f"accept {how} {sb} {t}")
            for which in (0, 1):
                for o in sorted(offs):
                    ops.append(f"accept {how} {sb} in{which}:{o}")
    res = core.differential(chk, ops, binp, oracle, label="checked entry points")
    kinds = {}
    for o in ops:
        t = o.split()
        k = t[1] + ":" + ("own" if t[3].startswith(f"in{t[2]}") else "other-sandbox" if t[3].startswith("in") else t[3].split(":")[0])
        kinds[k] = kinds.get(k, 0) + 1
    chk.cov["input_distribution"] = {"sink_shapes": len(sinks), "forbidden": sum(1 for r in sinks if tc.tt.C02[r["rule"]][2] is True),
                                     "controls": sum(1 for r in sinks if tc.tt.C02[r["rule"]][2] is False),
                                     "info_only": {r["rule"]: r["verdict"] for r in sinks if tc.tt.C02[r["rule"]][2] is None}, "table_cached": cached, "runtime_ops_by_kind": kinds,
                                     "aborts": sum(1 for a in res["impl"] if a == "abort"), "accepted": sum(1 for a in res["impl"] if a.startswith("ok"))}
    chk.cov["distinct_nontrivial"] = len(ops) + len(sinks)
    chk.cov["rule"] = ("66 forbidden shapes (raw pointer / function pointer / pointer array / other-sandbox wrapper into tainted, tainted_volatile, invoke arguments, callback signatures, callback and "
                       "function-address stores, free/memcpy/memset) each with permitted neighbours as controls, judged by g++ on the current headers; the 4 checked entry-point flavours x 2 live sandboxes x "
                       "{null, heap, stack, absolute, every sampled offset of own and other region incl. both ends and beyond}")
    chk.add_samples([tc.tu_replay(r) for r in sinks[:2]] + [{"op": o, "impl": a} for o, a in list(zip(ops, res["impl"]))[::max(1, len(ops) // 4)]])
    chk.cov["trusted_base"] += ["C02: g++ 12 front end as the judge of accept/reject; gen/typing_table.py (the list of sink shapes is fixed in Props/C02.lean, so dropping one breaks a theorem)",
                                "C02: sink shapes outside the enumerated list are not covered"]


def replay(chk, rp):
    run(chk)
    return chk.finish()
