"""Shared pieces of the `hist` engine checks (C13, C14)."""
from vlib import core

MAXSLOTS = {"vsbx2": 2, "vsbx8": 8, "vsbx8n": 8, "noop": 64}   # vsbx8n: the same backend without needs_internal_lookup_symbol
LIBVAL = {("whoami", 0): 1, ("whoami", 1): 2, ("other", 0): 11, ("other", 1): 12}
LIBNAME = {0: "libA", 1: "libB"}


def build():
    return core.build_harness("h_hist", ["h_hist.cpp"], core.SAN)


def fch(f):
    return str(f) if f < 10 else chr(ord('a') + f - 10)


class Ref:
    """Reference (specification-level) state: what the properties C13/C14 demand, history by history."""

    def __init__(self, backend):
        self.be = backend
        self.vsbx = backend.startswith("vsbx")
        self.max = MAXSLOTS[backend]
        self.status = ["nc"] * 3          # nc | init | created
        self.lib = [0] * 3
        self.rgn = [None] * 3             # region (address slot) mapped for the object (created or late-failed creation)
        self.inc = [0] * 3                # incarnation counter: registrations end with destroy_sandbox
        self.owners = [None] * 3 + [None] * 100   # (sbx, f); indices >= 3 are leaked heap owners of `regfill`
        self.tainted = False              # an owner outlived destroy_sandbox of its sandbox in this history (F6b territory)
        self.dead = False

    def live_reg(self, o):
        """an owner holds a live registration iff it was made in the current incarnation of a created sandbox"""
        return o is not None and self.status[o[0]] == "created" and o[2] == self.inc[o[0]]

    def registered(self, i):
        return {o[1] for o in self.owners if self.live_reg(o) and o[0] == i}

    def expect(self, t):
        """returns (expected output or None = not judged, predicate on the actual output or None)"""
        c = t[0]
        if c == "hend":
            return None if self.dead else "ok"
        if self.dead:
            return "dead"
        if c in ("create", "createat"):
            if c == "createat":
                if not self.vsbx:
                    return "na"
                i, r, ok, libarg = int(t[1]), int(t[2]), t[3] == "ok", (t[4] if len(t) > 4 else "0")
            else:
                i, r, ok, libarg = int(t[1]), int(t[1]), (t[2] == "ok" or not self.vsbx), (t[3] if len(t) > 3 else "0")
            if self.status[i] != "nc":
                return "abort"
            if self.vsbx and any(self.rgn[j] == r for j in range(3)):
                return "abort"          # the backend cannot map a region that is in use
            self.rgn[i] = r
            t = [c, str(i), "ok" if ok else "fail", libarg]
            if ok:
                self.status[i] = "created"; self.lib[i] = int(t[3]) if len(t) > 3 and self.vsbx else 0
                self.inc[i] += 1
                return "ok true"
            self.status[i] = "init"
            return "ok false"
        if c == "destroy":
            i = int(t[1])
            if self.status[i] != "created":
                return "abort"
            self.status[i] = "nc"
            self.rgn[i] = None
            if any(o and o[0] == i for o in self.owners):
                self.tainted = True
            return "ok"
        if c == "malloc":
            i = int(t[1])
            if self.status[i] != "created":
                return "ok null"
            return ("prefix", f"ok in{i}:") if self.vsbx else "ok nonnull"
        if c == "free":
            i = int(t[1])
            if not self.vsbx:
                return "ok"
            return "ok freed" if self.status[i] == "created" else "ok ignored"
        if c == "reg":
            i, o, f = int(t[1]), int(t[2]), int(t[3])
            if self.status[i] != "created" or f in self.registered(i):
                return "abort"          # guard abort: nothing changed, the history goes on
            if len(self.registered(i)) >= self.max:
                self.dead = True        # refused by the full table
                return "abort"
            self.owners[o] = (i, f, self.inc[i])
            return ("regex", r"ok slot=(\d+|nn) u0$")
        if c == "regfill":
            i, n = int(t[1]), int(t[2])
            for f in range(n):
                if self.status[i] != "created" or f in self.registered(i) or len(self.registered(i)) >= self.max:
                    self.dead = True
                    return "abort"
                self.owners[3 + f] = (i, f, self.inc[i])
            return "ok filled nullentry=0"
        if c in ("cbunreg", "cbdestroy"):
            self.owners[int(t[1])] = None
            return "ok"
        if c == "cbmove":
            d, s = int(t[1]), int(t[2])
            if d != s:
                self.owners[d] = self.owners[s]; self.owners[s] = None
            return "ok"
        if c == "stat":
            # owners whose sandbox was destroyed meanwhile are dangling: what they report is not specified ('?')
            flags = "o=" + "".join("1" if o is None else ("0" if self.live_reg(o) else "?") for o in self.owners[:3])
            if not self.vsbx:
                return flags
            return ("stat", flags)
        if c == "invoke":
            i = int(t[1])
            if self.status[i] != "created":
                return "notlive"
            return f"ok {LIBVAL[(t[2], self.lib[i])]}" if self.vsbx else "na"
        if c == "fnaddr":
            i = int(t[1])
            if self.status[i] != "created":
                return "notlive"
            return f"ok {LIBNAME[self.lib[i]]}.{t[2]}" if self.vsbx else "na"
        if c == "find":
            r = int(t[1])
            if not self.vsbx:
                return "na"
            # an address of region r designates the one CREATED sandbox that lives there now -- never an earlier tenant
            for i in range(3):
                if self.status[i] == "created" and self.rgn[i] == r:
                    return f"ok found {LIBNAME[self.lib[i]]}"
            return "ok notfound"
        if c == "appptr":
            i = int(t[1])
            if self.status[i] != "created":
                return None     # get_app_pointer outside the window is not specified by C14 (depends on the backend having memory)
            return "ok"
        if c == "hprobe":
            i = int(t[1])
            r = self.registered(i)
            return "canreg=" + "".join("y" if (self.status[i] == "created" and f not in r and len(r) < self.max) else "n" for f in range(5))
        return None

    def check_stat(self, flags, line):
        """owner flags exact; for every CREATED sandbox the functions in the backend table == the registered set"""
        parts = line.split()
        if len(parts[0]) != len(flags) or any(w != "?" and w != h for w, h in zip(flags, parts[0])):
            return f"owner flags {parts[0]} expected {flags}"
        for i in range(3):
            if self.status[i] != "created":
                continue
            tab = parts[1 + i].split("=")[1]
            have = sorted(c for c in tab if c != "-")
            want = sorted(fch(f) for f in self.registered(i))
            if have != want:
                return f"sandbox {i}: functions reachable through the entry-point table {have} != functions owned by live owners {want}"
        return None


def f6b_symptom(t, a, msg):
    """the symptom of the known finding F6b and nothing else: a registration of the EARLIER incarnation is still there --
    (a) a function is reachable through the entry-point table that no live owner holds (table is a strict superset),
    (b) registering a function is refused as 'already registered' although no live owner holds it,
    (c) the can-register probe says 'n' where the specification says 'y'.
    Any other deviation in such a history (a live registration lost, an unregister that aborts, wrong owner flags ...) is a different violation."""
    import re
    if t[0] == "reg" and a == "abort":
        return True
    if t[0] == "stat":
        m = re.search(r"entry-point table \[(.*?)\] != functions owned by live owners \[(.*?)\]", msg)
        if m:
            have = set(x.strip(" '") for x in m.group(1).split(",") if x.strip())
            want = set(x.strip(" '") for x in m.group(2).split(",") if x.strip())
            return want < have
        return False
    if t[0] == "hprobe":
        m = re.search(r"-> `canreg=([yn]+)`, expected `canreg=([yn]+)`", msg)
        if m and len(m.group(1)) == len(m.group(2)):
            return all(h == w or (h == "n" and w == "y") for h, w in zip(m.group(1), m.group(2)))
        return False
    return False


def with_end(blocks):
    """every history ends with `hend`: the sandboxes still created are destroyed, which must not abort"""
    return [b + ["hend"] for b in blocks]


def oracle_block(ops, lines, sig_fn=None):
    import re
    fails = []
    ref = None
    for idx, (op, a) in enumerate(zip(ops, lines)):
        t = op.split()
        if t[0] == "hnew":
            ref = Ref(t[1])
            continue
        was_tainted = ref.tainted
        exp = ref.expect(t)
        if exp is None:
            continue
        msg = None
        if isinstance(exp, tuple):
            kind, val = exp
            if kind == "prefix" and not a.startswith(val):
                msg = f"`{op}` -> `{a}`, expected `{val}...`"
            elif kind == "regex" and not re.match(val, a):
                msg = f"`{op}` -> `{a}`, expected a successful registration"
            elif kind == "stat":
                e = ref.check_stat(val, a) if a not in ("dead", "abort") else f"`{a}`"
                if e:
                    msg = f"`{op}`: {e}"
        elif isinstance(exp, str) and exp.startswith("o=") and "?" in exp:
            if len(a) != len(exp) or any(w != "?" and w != h for w, h in zip(exp, a)):
                msg = f"`{op}` -> `{a}`, expected `{exp}`"
        elif a != exp:
            msg = f"`{op}` -> `{a}`, expected `{exp}`"
        if msg:
            sig = sig_fn(ref, t, a, (was_tainted or ref.tainted) and f6b_symptom(t, a, msg)) if sig_fn else None
            fails.append((idx, msg, sig))
            # the reference and the implementation have diverged; later steps are not comparable in general -- except
            # for what the property demands in EVERY state: releasing, destroying or moving an owner, and ending the
            # history, never abort and never bring the application down
            for j in (range(idx + 1, len(ops)) if a != "<crash>" else ()):
                tj, aj = ops[j].split(), lines[j]
                if aj == "dead":
                    break
                if aj == "<crash>" or (tj[0] in ("cbunreg", "cbdestroy", "cbmove", "hend") and aj != "ok"):
                    fails.append((j, f"`{ops[j]}` -> `{aj}`, expected `ok` in every state (after the divergence at step {idx})", None))
                    break
            break
    return fails
