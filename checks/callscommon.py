"""Shared pieces of the `calls` engine checks (C12, C19): tree generator and reference oracles."""
import re
from vlib import core

VARIANTS = {"vsbx": ([], "tree", 8), "noop": (["-DCALLS_NOOP"], "treen", 64), "noop_tls": (["-DCALLS_NOOP", "-DCALLS_EMBEDDER_TLS"], "treen", 64),
            # the bundled dylib backend, executed for real: the guest functions live in a shared object the backend dlopens
            # the two notification hooks WITHOUT RLBOX_MEASURE_TRANSITION_TIMES: notifications must not depend on the timing option
            "noop_hooks": (["-DCALLS_NOOP", "-DCALLS_NO_TIMES"], "treenh", 64),
            # a client that defines only ONE of the two hooks
            "noop_in": (["-DCALLS_NOOP", "-DCALLS_NO_TIMES", "-DCALLS_ONLY_IN"], "treeni", 64),
            "noop_out": (["-DCALLS_NOOP", "-DCALLS_NO_TIMES", "-DCALLS_ONLY_OUT"], "treeno", 64),
            "dylib": (["-DCALLS_DYLIB", "-DCALLS_EXPORTS_OWN_SYMBOL", "-rdynamic"], "treen", 64), "dylib_tls": (["-DCALLS_DYLIB", "-DCALLS_EMBEDDER_TLS", "-DCALLS_EXPORTS_OWN_SYMBOL", "-rdynamic"], "treen", 64)}


def build(variant):
    flags, _, _ = VARIANTS[variant]
    return core.build_harness("h_calls_" + variant, ["h_calls.cpp"], core.SAN + flags)


def guest_so(gid=1):
    """the guest side for the dylib backend (harness/guest_calls.cpp) as a shared object; returns (path, log).
    gid selects which of the two guest libraries (same exported names, different identity) is built."""
    import hashlib, os
    src = os.path.join(core.HARNESS, "guest_calls.cpp")
    key = hashlib.sha256(open(src, "rb").read()).hexdigest()[:16]
    out = os.path.join(core.WORK, "bin", f"libguest_calls{gid}-{key}.so")
    os.makedirs(os.path.dirname(out), exist_ok=True)
    if not os.path.exists(out):
        r = core.sh(["g++", "-shared", "-fPIC", "-O1", "-g", f"-DVH_GUEST_ID={gid}", src, "-o", out + ".tmp"])
        if r.returncode != 0:
            return None, r.stdout
        os.rename(out + ".tmp", out)
    return out, ""


def env_for(variant):
    if variant.startswith("dylib"):
        so, log = guest_so(1)
        so2, log2 = guest_so(2)
        return {"VH_GUEST_SO": so, "VH_GUEST_SO2": so2} if so and so2 else None
    return None


class Gen:
    """random registration history + call tree; simulates first-free slot allocation to keep the tree valid"""

    def __init__(self, rng, nslots, faults):
        self.rng, self.nslots, self.faults = rng, nslots, faults

    def line(self, cmd, depth, width, with_fault):
        rng = self.rng
        toks = [cmd]
        slots = [dict(), dict()]       # per sandbox: slot -> (fn, regindex)
        owners = {}                    # owner -> (sb, slot)
        regs = []                      # regindex -> (sb, slot)
        nreg = rng.randrange(1, 7)
        for _ in range(nreg):
            if owners and rng.random() < 0.3:
                o = rng.choice(list(owners))
                sb, sl = owners.pop(o)
                slots[sb].pop(sl, None)
                toks += ["U", str(o)]
                continue
            sb = rng.randrange(2)
            free_fns = [f for f in range(4) if f not in {v[0] for v in slots[sb].values()}]
            if not free_fns or len(slots[sb]) >= self.nslots or len(regs) >= 12:
                continue
            o = rng.randrange(6)
            f = rng.choice(free_fns)
            # overwriting a live owner releases its registration first (after the new one took its slot)
            sl = min(k for k in range(self.nslots) if k not in slots[sb])
            slots[sb][sl] = (f, len(regs))
            if o in owners:
                osb, osl = owners.pop(o)
                slots[osb].pop(osl, None)
            owners[o] = (sb, sl)
            regs.append((sb, sl))
            toks += ["R", str(sb), str(o), str(f)]
        toks.append("T")
        self.fault_budget = 1 if with_fault else 0

        def live_eps(sb):
            return [ri for sl, (f, ri) in slots[sb].items()]

        def inv(d):
            sb = rng.randrange(2)
            arg = rng.choice([0, 1, -1, 5, 1000, -2147483647, 2147483646, rng.randrange(-10 ** 6, 10 ** 6)])
            fault = "n"
            if self.fault_budget and "a" in self.faults and rng.random() < 0.15:
                fault = "a"; self.fault_budget = 0
                return ["I", str(sb), str(rng.randrange(0, 1000)), fault + ("v" if rng.random() < 0.4 else ""), "E"]
            out = ["I", str(sb), str(arg), fault + ("v" if rng.random() < 0.4 else "")]
            eps = live_eps(sb)
            if d > 0 and eps:
                for _ in range(rng.randrange(0, width + 1)):
                    out += cb(sb, rng.choice(eps), d - 1)
            return out + ["E"]

        def cb(sb, ep, d):
            arg = rng.choice([0, 7, -3, 2147483647, -2147483648, rng.randrange(-10 ** 5, 10 ** 5)])
            ret = rng.choice([0, 70, -9, 2147483647, -2147483648, rng.randrange(-10 ** 5, 10 ** 5)])
            fault = "n"
            fs = [f for f in self.faults if f in "br"]
            if self.fault_budget and fs and rng.random() < 0.2:
                fault = rng.choice(fs); self.fault_budget = 0
                if fault == "r":
                    ret = rng.randrange(0, 1000)
            out = ["C", str(ep), str(arg), str(ret), fault]
            if d > 0:
                for _ in range(rng.randrange(0, width)):
                    out += inv(d - 1)
            if rng.random() < 0.15:
                # the callback body creates a short-lived helper sandbox (number 2), invokes a function in it and destroys it
                out += ["I", "2", str(rng.randrange(-1000, 1000)), rng.choice(["n", "nv"]), "E"]
            return out + ["E"]

        for _ in range(rng.randrange(1, 3)):
            toks += inv(depth)
        return " ".join(toks)


def parse_log(line):
    m = re.match(r"(.*) T0=(\w*) T1=(\w*)$", line)
    if not m:
        return None
    evs = [e for e in m.group(1).split(";") if e]
    return evs, m.group(2), m.group(3)


def oracle_c19(toks, line):
    """bracket grammar by a stack automaton + one timing record per crossing"""
    if toks[0] in ("treeni", "treeno"):
        # only one hook is defined: no brackets to match; every crossing must still carry its one notification of that hook, at its
        # place among the other events of the tree (walk of the tree against the log)
        p = parse_log(line)
        if p is None or "STALE-STATE" in p[0]:
            return False
        return oracle_c12(toks, line)
    p = parse_log(line)
    if p is None:
        return False
    evs, t0, t1 = p
    if "STALE-STATE" in evs:
        return False      # a notification carried a transition state other than the sandbox's current one
    stack = []
    cross = [0, 0, 0]     # (sandbox 2: the helper sandbox of `I 2 ...` nodes; its timing records die with it)
    for e in evs:
        m = re.match(r"(iI|oI)(\d):(\S+)$", e)
        if m:
            kind, sb, name = m.group(1), int(m.group(2)), m.group(3)
            if name != "gl_node" or sb > 2:
                return False
            if kind == "iI":
                if stack and stack[-1][0] != "C":
                    return False
                stack.append(("I", sb)); cross[sb] += 1
            else:
                if not stack or stack[-1] != ("I", sb):
                    return False
                stack.pop()
            continue
        m = re.match(r"(oC|iC)(\d):(\d)$", e)
        if m:
            kind, sb, key = m.group(1), int(m.group(2)), int(m.group(3))
            if key > 3 or sb > 1:
                return False
            if kind == "oC":
                if not stack or stack[-1] != ("I", sb):
                    return False
                stack.append(("C", sb, key)); cross[sb] += 1
            else:
                if not stack or stack[-1] != ("C", sb, key):
                    return False
                stack.pop()
    if stack:
        return False
    if t0 == "none" and t1 == "none":
        return True       # built without the timing option: only the notifications are judged
    return len(t0) == cross[0] and len(t1) == cross[1] and "?" not in t0 + t1


def oracle_scenarios(toks, line):
    """cbptr: the guest reads, through the pointer the callback returned, the value the callback stored; cbmany: every live
    entry point still runs the function it was handed out for"""
    if toks[0] == "dywho":
        return line in ("ok 101 202", "na")
    if toks[0] == "dymiss":
        # the instance bound to the library that exports the name runs that library's function; the other one aborts
        return line in ("ok 111 abort", "na")
    if toks[0] == "cbptr":
        return line == f"ok {int(toks[2])}"
    if toks[0] == "cbmany":
        n, u = int(toks[2]), int(toks[3])
        return line == "ok " + " ".join("-" if i == u else str(i) for i in range(n + 2))
    return None


def oracle_c12(toks, line):
    if toks[0] in ("cbptr", "cbmany", "dywho", "dymiss"):
        return oracle_scenarios(toks, line)
    """every executed callback node: the function registered for that entry point on the executing sandbox runs,
    once, with the executing sandbox and the guest's argument; its result reaches the guest unless something faulted"""
    p = parse_log(line)
    if p is None:
        return False
    evs, _, _ = p
    # registrations: entry-point identity is what the implementation printed (s<k>)
    regs = []
    live = {}   # owner -> regindex
    i = 1
    sidx = 0
    svals = [e for e in evs if re.match(r"s\d+$", e)]
    while i < len(toks) and toks[i] != "T":
        if toks[i] == "R":
            sb, o, f = int(toks[i + 1]), int(toks[i + 2]), int(toks[i + 3])
            if sidx >= len(svals):
                return None
            regs.append({"sb": sb, "f": f, "ep": svals[sidx], "live": True}); sidx += 1
            if o in live:
                regs[live[o]]["live"] = False
            live[o] = len(regs) - 1
            i += 4
        else:
            o = int(toks[i + 1])
            if o in live:
                regs[live.pop(o)]["live"] = False
            i += 2
    tree = toks[i + 1:]
    body = [e for e in evs if not re.match(r"s\d+$", e)]
    # walk the tree tokens and the event stream together
    pos = [0]
    ev = [0]

    def nxt():
        pos[0] += 1
        return tree[pos[0] - 1]

    def expect(pat):
        # single-hook builds: the notifications of the hook that is not defined are simply absent
        if (toks[0] == "treeni" and pat[:2] in ("oI", "oC")) or (toks[0] == "treeno" and pat[:2] in ("iI", "iC")):
            return True
        if ev[0] >= len(body):
            return None
        m = re.match(pat, body[ev[0]])
        if m:
            ev[0] += 1
        return m

    class Fault(Exception):
        pass

    def run_inv():
        nxt(); sb = int(nxt()); arg = int(nxt()); fault = nxt().rstrip("v")   # "nv"/"av": void flavour, same crossings
        if not expect(rf"iI{sb}:gl_node$"):
            raise AssertionError("missing in-notification")
        if fault == "a":
            if not expect(rf"oI{sb}:gl_node$"):
                raise AssertionError
            raise Fault()
        if not expect(rf"g{sb}:{arg}$".replace("-", r"\-")):
            raise AssertionError(f"guest of sandbox {sb} did not observe argument {arg}")
        try:
            while tree[pos[0]] == "C":
                run_cb(sb)
        except Fault:
            if not expect(rf"oI{sb}:gl_node$"):
                raise AssertionError
            raise
        nxt()
        if not expect(rf"oI{sb}:gl_node$") or not expect(rf"r{arg + 1}$".replace("-", r"\-")):
            raise AssertionError("invocation result")

    def run_cb(sb):
        nxt(); ep = int(nxt()); arg = int(nxt()); ret = int(nxt()); fault = nxt()
        cand = [r for r in regs if r["live"] and r["sb"] == sb and r["ep"] == regs[ep]["ep"]]
        if len(cand) != 1:
            raise KeyError("entry point not live for this sandbox")
        f = cand[0]["f"]
        if not expect(rf"oC{sb}:{f}$") or not expect(rf"c{f}:{sb}:{arg}$".replace("-", r"\-")):
            raise AssertionError(f"entry point of registration {ep} in sandbox {sb}: expected function {f} with sandbox {sb} and argument {arg}, log has {body[ev[0]] if ev[0] < len(body) else '<end>'}")
        try:
            while tree[pos[0]] == "I":
                run_inv()
        except Fault:
            if not expect(rf"iC{sb}:{f}$"):
                raise AssertionError
            raise
        nxt()
        if not expect(rf"iC{sb}:{f}$"):
            raise AssertionError
        if fault in ("b", "r"):
            raise Fault()
        if not expect(rf"gr{ret}$".replace("-", r"\-")):
            raise AssertionError(f"guest did not receive the callback result {ret}")

    try:
        try:
            while pos[0] < len(tree) and tree[pos[0]] == "I":
                run_inv()
        except Fault:
            if not expect(r"x$"):
                return False
        return ev[0] == len(body)
    except KeyError:
        return None
    except (AssertionError, IndexError):
        return False
