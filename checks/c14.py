"""C14 — Sandbox lifecycle is a strict state machine; the live-sandbox registry is exact."""
import itertools
from vlib import core
from checks import histcommon


def sig_fn(ref, t, a, tainted):
    # F6b (registrations of an earlier incarnation survive destroy/create) was repaired; nothing is suppressed any more
    return None


def oracle(ops, lines):
    return histcommon.oracle_block(ops, lines, sig_fn)


OPS = (["create {s} ok 0", "create {s} ok 1", "create {s} fail 0", "destroy {s}", "malloc {s}", "free {s}", "reg {s} 0 0", "reg {s} 1 1",
        "invoke {s} whoami", "invoke {s} other", "fnaddr {s} whoami", "find {s}", "appptr {s}"])


def run(chk):
    thorough = chk.tier == "thorough"
    chk.lean(thorough_checker=thorough)
    binp, log = histcommon.build()
    if binp is None:
        chk.fail("harness h_hist does not compile against the current headers", {"log_tail": log[-3000:]}, found=False)
        return
    rng = chk.rng
    blocks = []
    probe = ["find 0", "find 1", "find 2", "malloc 0", "malloc 1", "stat"]
    # corpus: witnesses first
    blocks.append("hnew vsbx8|create 0 ok 0|invoke 0 whoami|destroy 0|create 0 ok 1|invoke 0 whoami|fnaddr 0 whoami".split("|"))
    blocks.append("hnew vsbx8|create 0 ok 0|invoke 0 whoami|fnaddr 0 whoami".split("|"))
    # the same on a backend that does not declare needs_internal_lookup_symbol (function addresses go through rlbox's second cache)
    blocks.append("hnew vsbx8n|create 0 ok 0|fnaddr 0 whoami|invoke 0 whoami|destroy 0|create 0 ok 1|fnaddr 0 whoami|invoke 0 whoami|fnaddr 0 other".split("|"))
    blocks.append("hnew vsbx8|create 0 ok 0|create 1 ok 1|create 2 ok 0|destroy 0|find 0|find 1|find 2|destroy 2|find 1|find 2|destroy 1|find 1".split("|"))
    blocks.append("hnew vsbx8|create 0 ok 0|reg 0 0 0|destroy 0|create 0 ok 0|stat|hprobe 0|reg 0 1 0".split("|"))
    # (1) all sequences to depth 3 (thorough 4) on two sandbox objects (+ a third in the random part), lock-step
    ops2 = [o.format(s=s) for s in (0, 1) for o in OPS] + ["cbunreg 0", "cbdestroy 1"]
    depth = 4 if thorough else 3
    for d in range(1, depth + 1):
        seqs = list(itertools.product(ops2, repeat=d))
        cap = 60000 if thorough else 8000
        if len(seqs) > cap:
            seqs = rng.sample(seqs, cap)
        for s in seqs:
            b = ["hnew vsbx8"]
            for o in s:
                b.append(o)
            blocks.append(b + probe)
    # (1b) one region, several tenants: sandbox objects created one after the other in the SAME address slot, on a backend that
    #      does not scrub its own fields when destroyed; lookups by address must find the current tenant only
    blocks.append("hnew vsbx8 stale|createat 0 5 ok 0|find 5|destroy 0|find 5|createat 1 5 ok 1|find 5|invoke 1 whoami|destroy 1|find 5|createat 0 5 ok 1|find 5".split("|"))
    rops = [f"createat {i} {r} {ok} {lib}" for i in (0, 1) for r in (4, 5) for ok, lib in (("ok", 0), ("ok", 1), ("fail", 0))] + ["destroy 0", "destroy 1", "find 4", "find 5"]
    seqs = list(itertools.product(rops, repeat=3)) + rng.sample(list(itertools.product(rops, repeat=5)), 6000 if thorough else 1500)
    for sq in seqs:
        b = ["hnew vsbx8 stale"]
        for o in sq:
            b += [o] + (["find 4", "find 5"] if not o.startswith("find") else [])
        blocks.append(b)
    # (2) random histories of length up to 300 over three objects
    ops3 = [o.format(s=s) for s in (0, 1, 2) for o in OPS] + ["cbunreg 0", "cbunreg 1", "cbdestroy 0", "cbmove 0 1", "stat"]
    for be in ("vsbx8", "vsbx2", "noop", "vsbx8n"):
        for _ in range(40 if thorough else 12):
            b = [f"hnew {be}"]
            # bias towards legal lifecycles so that histories get long
            live = [False] * 3
            stuck = [False] * 3
            for _ in range(rng.randrange(10, 300)):
                o = rng.choice(ops3)
                t = o.split()
                if t[0] in ("create", "destroy") and rng.random() < 0.85:
                    s = int(t[1])
                    if t[0] == "create" and (live[s] or stuck[s]):
                        continue
                    if t[0] == "destroy" and not live[s]:
                        continue
                if t[0] == "create":
                    s = int(t[1])
                    if not live[s] and not stuck[s]:
                        if t[2] == "ok" or be == "noop":
                            live[s] = True
                        else:
                            stuck[s] = True
                if t[0] == "destroy" and live[int(t[1])]:
                    live[int(t[1])] = False
                if t[0] in ("reg", "appptr") and not live[int(t[1])] and rng.random() < 0.9:
                    continue
                b.append(o)
                if rng.random() < 0.2:
                    b.append(rng.choice(probe))
            blocks.append(b + probe)
    out = core.differential_blocks(chk, histcommon.with_end(blocks), binp, oracle, label="lifecycle histories")
    chk.cov["distinct_nontrivial"] = len({tuple(b) for b in blocks})
    chk.cov["traces_validated_against_impl"] = len(blocks)
    lens = [len(b) for b in blocks]
    chk.cov["input_distribution"] = {"histories": len(blocks), "max_length": max(lens), "mean_length": round(sum(lens) / len(lens), 1)}
    chk.cov["rule"] = ("all sequences to depth 2 (thorough 3) and a sample of 8000 (60000) at the next depth over {create ok(lib A/B)/fail, destroy, malloc, free, register, unregister, "
                       "invoke by name, function address, example-based lookup, get_app_pointer} on two sandbox objects, followed by lookups for all three regions; random legal-biased histories up to "
                       "length 300 on three objects (vsbx 8/2 slots, noop); reference = 4-state machine + set of live regions + library bound at the current creation")
    chk.add_samples([{"history": b[:10], "impl": a[:10]} for b, a, m in (out[:2] + out[len(out) // 2:len(out) // 2 + 1])])
    chk.cov["trusted_base"] += ["C14: a failed create_sandbox leaves the object INITIALIZING for ever (create and destroy abort afterwards) -- allowed by the statement, mirrored by model and reference",
                                "histories are compared up to the first abort"]


def replay(chk, rp):
    binp, log = histcommon.build()
    h = rp.get("history") or rp.get("first", {}).get("history")
    core.differential_blocks(chk, [h], binp, oracle, label="replay")
    return chk.finish()
