"""C15 — App-pointer tokens are non-zero, bounded, unique and resolve to their pointer."""
from vlib import core


def build():
    return core.build_harness("h_tokens", ["h_tokens.cpp"], core.SAN)


def oracle_table(ops, lines):
    """Reference set model of the bare table. The oracle does not say WHICH free token is chosen."""
    fails = []
    live = {}
    mx = 0
    for i, (op, a) in enumerate(zip(ops, lines)):
        t = op.split()
        if t[0] == "tnew":
            live, mx = {}, int(t[2])
        elif t[0] in ("treg", "tregn"):
            full = len(live) == mx
            if a == "abort":
                if not full:
                    fails.append((i, f"registration aborted although only {len(live)} of {mx} tokens are in use", None))
            elif a.startswith("ok "):
                tok = int(a[3:])
                if full:
                    fails.append((i, f"registration returned token {tok} although all {mx} tokens are in use", None))
                if not (1 <= tok <= mx):
                    fails.append((i, f"token {tok} outside [1,{mx}]", None))
                if tok in live:
                    fails.append((i, f"token {tok} issued twice", None))
                live[tok] = int(t[1]) if t[0] == "treg" else "null"
            else:
                fails.append((i, f"unexpected result {a}", None))
        elif t[0] == "trel":
            tok = int(t[1])
            if tok in live:
                if a != "ok":
                    fails.append((i, f"release of live token {tok} -> {a}", None))
                live.pop(tok, None)
            elif tok != 0 and a != "abort":
                fails.append((i, f"release of unknown token {tok} -> {a}", None))
        elif t[0] == "tlook":
            tok = int(t[1])
            if tok in live:
                if a != f"ok {live[tok]}":
                    fails.append((i, f"lookup of token {tok} -> {a}, expected pointer {live[tok]}", None))
            elif tok != 0 and a != "abort":
                fails.append((i, f"lookup of released/unknown token {tok} -> {a} (must abort)", None))
    return fails


def oracle_owner(ops, lines):
    """Reference model of owners: a token is live iff exactly one owner holds it."""
    fails = []
    own = {0: None, 1: None, 2: None}   # owner -> (token, ptr)
    everissued = set()
    for i, (op, a) in enumerate(zip(ops, lines)):
        t = op.split()
        if t[0] == "onew":
            own = {0: None, 1: None, 2: None}
            everissued = set()
        elif t[0] == "oreg":
            o = int(t[1])
            if not a.startswith("ok "):
                fails.append((i, f"registration -> {a}", None)); continue
            tok = int(a[3:])
            livetoks = {v[0] for k, v in own.items() if v and k != o}
            if tok == 0 or tok in livetoks:
                fails.append((i, f"token {tok} is zero or already live", None))
            own[o] = (tok, int(t[2]))
            everissued.add(tok)
        elif t[0] == "ofill":
            live = sum(1 for v in own.values() if v)
            want = f"ok n={65535 - live} max=65535 zero=0"
            if a != want:
                fails.append((i, f"filling the sandbox's token space -> {a}, expected {want} (every token 1..65535 not held by an owner, none beyond, never 0)", None))
        elif t[0] in ("omove", "omovec"):
            d, s = int(t[1]), int(t[2])
            if d != s:
                own[d] = own[s]; own[s] = None
        elif t[0] in ("ounreg", "odestroy"):
            own[int(t[1])] = None
        elif t[0] == "ostat":
            o = int(t[1])
            want = f"tok={own[o][0]} unreg=0" if own[o] else "tok=0 unreg=1"
            if a != want:
                fails.append((i, f"owner {o} reports {a}, expected {want}", None))
        elif t[0] == "ott":
            v = own[int(t[1])]
            want = "ok tt=null" if not v else f"ok tt=in same=1 rt={v[1]}"
            if a != want:
                fails.append((i, f"the tainted pointer handed out by owner {t[1]} -> {a}, expected {want} (inside this sandbox, representation = token, looks up to the registered pointer)", None))
        elif t[0] == "olook":
            tok = int(t[1])
            holder = [v for v in own.values() if v and v[0] == tok]
            if holder:
                if a != f"ok {holder[0][1]}":
                    fails.append((i, f"lookup of live token {tok} -> {a}", None))
            elif tok != 0 and a != "abort":
                fails.append((i, f"token {tok} still resolves ({a}) although no owner holds it (overwritten/destroyed/unregistered owner must release)",
                              "C15/owner-overwrite-leaks-token" if False else None))
    return fails


def bfs_histories(limit):
    """Complete exploration of the model's reachable states for one limit, by the model driver itself."""
    ops = ["treg 7"] + [f"trel {t}" for t in range(1, limit + 1)]
    seen = {}
    frontier = [[]]
    hist_all = []
    head = [f"tnew 8 {limit}"]
    # state of the empty history
    while frontier:
        cands = [h + [o] for h in frontier for o in ops]
        text = "\n".join("\n".join(head + c + ["tstate"]) for c in cands) + "\n"
        rc, out, err = core.run_model(text)
        pos = 0
        nxt = []
        for c in cands:
            lines = out[pos:pos + len(c) + 2]
            pos += len(c) + 2
            st = lines[-1]
            hist_all.append(c)
            if st not in seen:
                seen[st] = c
                nxt.append(c)
        frontier = nxt
    return hist_all, len(seen)


def run(chk):
    thorough = chk.tier == "thorough"
    chk.lean(thorough_checker=thorough)
    binp, log = build()
    if binp is None:
        chk.fail("harness h_tokens does not compile against the current headers", {"log_tail": log[-3000:]}, found=False)
        return
    rng = chk.rng
    blocks = []
    states_total = 0
    # (1) complete state-space exploration at 8 bits for small limits: every transition out of every reachable state
    for limit in range(1, (7 if thorough else 6)):
        hs, nstates = bfs_histories(limit)
        states_total += nstates
        for h in hs:
            probe = [f"tlook {t}" for t in range(0, limit + 2)]
            blocks.append([f"tnew 8 {limit}"] + h + probe)
    chk.cov["states"] = states_total
    chk.cov["transitions"] = len(blocks)
    # (2) random long histories, 8/32/64-bit tables, limits incl. 254
    def random_history(bits, limit, n):
        live = []
        b = [f"tnew {bits} {limit}"]
        for _ in range(n):
            r = rng.random()
            if r < 0.5 or not live:
                b.append(f"treg {rng.randrange(1, 1000)}" if rng.random() < 0.9 else "tregn")
                live.append(None)
            elif r < 0.8:
                b.append(f"trel {rng.randrange(1, min(limit, 300) + 1)}")
            else:
                b.append(f"tlook {rng.randrange(0, min(limit, 300) + 2)}")
        return b
    for bits, limit in [(8, 1), (8, 2), (8, 7), (8, 127), (8, 254), (32, 254), (32, 70000), (64, 300), (64, (1 << 40))]:
        for _ in range(6 if thorough else 2):
            blocks.append(random_history(bits, limit, 3000 if thorough else 600))
    out = core.differential_blocks(chk, blocks, binp, oracle_table, label="token-table histories")
    # (3) owners on real sandboxes
    oblocks = []
    oops = ([f"oreg {o} {p}" for o in range(3) for p in (11, 12)] + [f"omove {d} {s}" for d in range(3) for s in range(3)] +
            [f"omovec {d} {s}" for d in range(3) for s in range(3) if d != s] +
            [f"ounreg {o}" for o in range(3)] + [f"odestroy {o}" for o in range(3)])
    probe = [f"ostat {o}" for o in range(3)] + [f"olook {t}" for t in range(0, 6)] + [f"ott {o}" for o in range(3)]
    import itertools
    for be in ("vsbx", "noop"):
        depth = 3 if thorough else 2
        for d in range(1, depth + 1):
            seqs = list(itertools.product(oops, repeat=d))
            if len(seqs) > (6000 if thorough else 800):
                seqs = rng.sample(seqs, 6000 if thorough else 800)
            for s in seqs:
                oblocks.append([f"onew {be}"] + list(s) + probe)
        for _ in range(40 if thorough else 10):
            n = rng.randrange(5, 60)
            b = [f"onew {be}"]
            for _ in range(n):
                b.append(rng.choice(oops))
                if rng.random() < 0.3:
                    b.append(rng.choice(probe))
            oblocks.append(b + probe)
    # filling the token space of a real sandbox (vsbx: 2^16 bytes => tokens 1..65535) with 0..2 owners already holding tokens
    for pre in ([], ["oreg 0 11"], ["oreg 0 11", "oreg 2 12", "ounreg 0", "oreg 1 13"]):
        oblocks.append(["onew vsbx"] + pre + ["ofill", "ostat 0", "ostat 1"])
    out2 = core.differential_blocks(chk, oblocks, binp, oracle_owner, label="owner histories")
    chk.cov["distinct_nontrivial"] = len({tuple(b) for b in blocks}) + len({tuple(b) for b in oblocks})
    chk.cov["traces_validated_against_impl"] = len(blocks) + len(oblocks)
    chk.cov["rule"] = ("(1) complete exploration of the model's reachable (live set, cursor) states for an 8-bit table and limits 1..5 (thorough ..6): every transition "
                       "(register, release t) out of every state followed by lookups of every token, run in lock-step on app_pointer_map<uint8_t>; (2) random histories "
                       "of 600 (thorough 3000) ops on 8/32/64-bit tables with limits up to 254 / 70000 / 2^40; (3) owner histories (register onto empty or live owner, "
                       "move, self-move, unregister, destroy) on vsbx and noop sandboxes, all sequences to depth 2 (thorough 3) + random; distinct = distinct histories")
    chk.add_samples([{"history": b[:8], "impl": a[:8]} for b, a, m in (out[:1] + out[len(out) // 2:len(out) // 2 + 1] + out2[5:7])])
    chk.cov["trusted_base"] += ["C15: the 8-bit instantiation needs max+1 < 2^8 (limits 1..254 as the property says); releasing the reserved token 0 is not an API-reachable operation and is excluded"]


def replay(chk, rp):
    binp, log = build()
    h = rp.get("history") or rp.get("first", {}).get("history")
    orc = oracle_owner if h and h[0].startswith("onew") else oracle_table
    core.differential_blocks(chk, [h], binp, orc, label="replay")
    print("replayed history of", len(h), "steps")
    return chk.finish()
