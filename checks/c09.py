"""C09 — Verified copies are application-memory snapshots: no check/use window.
Every machine read of sandbox memory by rlbox is an interleave point (mprotect + x86 trap flag, no
source hook); an adversary action is injected after read number k, for every k (quick) and for pairs
of points (thorough).  Each outcome must belong to the set the Lean model yields over ALL byte-level
schedules of the same action(s) (refinement), and must satisfy the property oracle directly."""
import re
from vlib import core

VARIANTS = [("int", "app"), ("ptr", "app"), ("ptr", "cell"), ("struct", "app"), ("struct", "cell"), ("structval", "app"), ("structauto", "app"), ("arr", "app"), ("arrref", "app"),
            ("range", "app"), ("range", "cell"), ("stru", "app"), ("stru", "cell"), ("strs", "app"), ("strs", "cell"),
            ("addr", "app"), ("addr", "cell"), ("buf", "app"), ("buf", "cell"), ("copymem", "app")]
ACTIONS = ["none", "flip", "lengthen", "shorten", "unterminate", "nullcell", "retarget"]


def build():
    return core.build_harness("h_snap", ["h_snap.cpp"], ["-O1", "-g"])


def split_out(line):
    m = re.match(r"reads=(\S+) out=(.*)$", line)
    if not m:
        return None, line, {}
    out = m.group(2)
    attrs = dict(re.findall(r" (where|after|from|chk0)=(\S+)", out))
    core_out = re.sub(r" (where|after|from|chk0)=\S+", "", out)
    return m.group(1), core_out, attrs


def attrs_full(x):
    return x


STATIC_ACTIONS = {"none", "nullcell", "retarget"}     # the adversary changes the pointer cell only, never a datum


def judge(variant, src, core_out, attrs, actions=()):
    """the property, evaluated directly on what the verifier/application got. None = fine"""
    if attrs.get("from") in ("OTHER", "outside") and set(actions) <= STATIC_ACTIONS:
        return "the bytes handed to the verifier are not those of the extent that was range-checked (copied from an address fetched at another moment)"
    if variant == "buf" and core_out.startswith("addr=") and "chk0" in attrs and core_out != "addr=null":
        if attrs["chk0"] != core_out[5:]:
            return f"the buffer address handed to the verifier ({core_out[5:]}) is not the start of the extent that was range-checked ({attrs['chk0']})"
    if attrs.get("where", "app") != "app":
        return "the object handed to the verifier lies in sandbox memory"
    if attrs.get("after", "same") != "same":
        return "the object handed to the verifier changed when the sandbox region was overwritten afterwards"
    if core_out.startswith("segv:"):
        a = core_out[5:]
        if variant == "struct" and a == "null":
            return None     # null struct pointer from the start: C03/F7 territory (no check/use window involved)
        if a.startswith("in:") or a == "guard":
            return None     # a run off the end of the region into its guard page (an unterminated string): judged by the refinement check
        return f"the application faulted at {a} (outside the sandbox) during the call"
    if core_out.startswith("killed") or core_out == "empty":
        return "the application died during the call: " + core_out
    if variant in ("stru", "strs") and core_out.startswith("s=") and "chk=" in attrs_full(core_out):
        # never longer than the length that was range-checked (the extent rlbox handed to the backend's same-sandbox test)
        m = re.search(r"size=(\d+)", core_out); c = re.search(r"chk=(\S+)", core_out).group(1)
        need = int(m.group(1)) + (1 if variant == "strs" else 0)
        if int(m.group(1)) > 0 and (c == "none" or int(c) < need):
            return f"string of {need} bytes (with terminator) delivered although only {c} bytes were range-checked"
    if variant == "stru" and core_out.startswith("s="):
        m = re.search(r"size=(\d+) nul=(-?\d+)", core_out)
        if int(m.group(2)) < 0 or int(m.group(2)) >= int(m.group(1)):
            return "string delivered without a NUL inside its own buffer"
    return None


def shape(core_out):
    """outcome with the data bytes abstracted away: which bytes of a bulk copy are old and which are new
    depends on the order in which memcpy/strlen/the compiler read them, which neither rlbox nor the
    property fixes; kind, buffer size and addresses are kept"""
    if core_out.startswith("segv"):
        return "segv"
    core_out = re.sub(r" chk=\S+", "", core_out)
    m = re.match(r"s=[0-9a-f]* size=(\d+)", core_out)
    if m:
        return f"val size={m.group(1)}"
    m = re.match(r"a=\S+ size=(\d+)", core_out)
    if m:
        return f"val size={m.group(1)}"
    if re.match(r"(s=|a=|v=|c=)", core_out):
        return "val"
    return core_out


def in_model(core_out, mset):
    return shape(core_out) in {shape(x) for x in mset}


def run(chk):
    thorough = chk.tier == "thorough"
    chk.lean(thorough_checker=thorough)
    binp, log = build()
    if binp is None:
        chk.fail("harness h_snap does not compile against the current headers", {"log_tail": log[-3000:]}, found=False)
        return
    # 1. baseline read counts
    base_ops = [f"snap {v} {s} -1 none" for v, s in VARIANTS] + [f"snap {v} {s} 0 {a}" for v, s in VARIANTS for a in ACTIONS]
    rc, lines, err = core.run_lines(binp, "\n".join(base_ops) + "\n")
    reads = {}
    for o, l in zip(base_ops, lines):
        t = o.split()
        r, _, _ = split_out(l)
        n = int(r) if r and r.isdigit() else 20
        reads[(t[1], t[2])] = max(reads.get((t[1], t[2]), 0), n)
    # 2. single-point schedules: every k for every action
    ops, msets_req = [], []
    for v, s in VARIANTS:
        for a in ACTIONS:
            if a in ("nullcell", "retarget") and s == "app":
                continue
            msets_req.append(f"snapset {v} {s} {a}")
            for k in range(0, reads[(v, s)] + 3):
                ops.append(f"snap {v} {s} {k} {a}")
    pair_actions = []
    if thorough:
        acts2 = [a for a in ACTIONS if a not in ("none", "unterminate")]
        for v, s in VARIANTS:
            for a1 in acts2:
                for a2 in acts2:
                    if s == "app" and (a1 in ("nullcell", "retarget") or a2 in ("nullcell", "retarget")):
                        continue
                    if a1 == a2 and a1 != "retarget":
                        continue
                    pair_actions.append((v, s, a1, a2))
                    msets_req.append(f"snapset2 {v} {s} {a1} {a2}")
                    n = min(reads[(v, s)] + 2, 18)
                    for k1 in range(0, n + 1):
                        for k2 in range(k1, n + 1):
                            ops.append(f"snap {v} {s} {k1} {a1} {k2} {a2}")
    rc, mlines, merr = core.run_model("\n".join(msets_req) + "\n")
    if rc != 0 or len(mlines) != len(msets_req):
        raise SystemExit("infrastructure error: model driver failed on snapset ops " + merr[-300:])
    msets = {}
    for q, l in zip(msets_req, mlines):
        t = q.split()
        msets[tuple(t[1:])] = set(x.strip() for x in l.split("|"))
    chunks = core.chunked(ops, core.NCPU)
    res = core.run_parallel(lambda ch: core.run_lines(binp, "\n".join(ch) + "\n")[1], chunks)
    impl = [l for part in res for l in part]
    if len(impl) != len(ops):
        chk.fail("harness h_snap produced fewer result lines than operations", {"ops": len(ops), "lines": len(impl)}, found=False)
        return
    outcomes = {}
    bad_corr = []
    for o, l in zip(ops, impl):
        t = o.split()
        v, s = t[1], t[2]
        key = (v, s, t[4]) if len(t) == 5 else (v, s, t[4], t[6])
        _, core_out, attrs = split_out(l)
        outcomes.setdefault(key, {}).setdefault(core_out, 0)
        outcomes[key][core_out] += 1
        why = judge(v, s, core_out, attrs, key[2:])
        if why is not None:
            chk.fail(f"{why}: `{o}` -> `{l}`", {"op": o, "impl": l, "model_outcomes": sorted(msets[key])[:12], "oracle": "fail"},
                     signature=f"C09/{v}-{s}-{'+'.join(key[2:])}", found=True)
        elif not in_model(core_out, msets[key]):
            bad_corr.append((o, l, sorted(msets[key])[:12]))
    if bad_corr:
        chk.fail(f"implementation outcome outside the model's outcome set on {len(bad_corr)} schedules; first: `{bad_corr[0][0]}` -> `{bad_corr[0][1]}`",
                 {"correspondence": "snapshot refinement", "disagreements": [dict(op=o, impl=l, model_set=m) for o, l, m in bad_corr[:30]]}, found=False)
    chk.cov["evaluations"] += len(ops)
    chk.cov["distinct_nontrivial"] = len(ops)
    chk.cov["input_distribution"] = {"variants": len(VARIANTS), "actions": ACTIONS, "machine_read_events_per_variant": {f"{v}/{s}": n for (v, s), n in reads.items()},
                                     "single_point_schedules": sum(1 for o in ops if len(o.split()) == 5), "two_point_schedules": sum(1 for o in ops if len(o.split()) == 7),
                                     "distinct_outcomes_per_case": {"/".join(k): len(v) for k, v in list(outcomes.items())[:400]},
                                     "model_outcome_set_sizes": {"/".join(k): len(v) for k, v in list(msets.items())[:400]}}
    chk.cov["rule"] = ("12 copy_and_verify variants (fundamental, pointer, struct pointer, struct value, array by value and by const reference, range, string/unique_ptr, string/std::string, address, buffer address, copy_memory_or_deny_access) x "
                       "pointer held in application memory / in a sandbox cell x 7 adversary actions (flip every datum, lengthen/shorten/unterminate the string, null or retarget the pointer cell) injected after EVERY "
                       "machine read of sandbox memory (thorough: every ordered pair of points for every pair of actions); observed: what the verifier got, where it lives, whether it changes when the region is overwritten, "
                       "exact buffer size and terminator position (buffers come from a guarded arena)")
    ex = [o for o in ops if " stru cell " in o][:3] + [o for o in ops if " ptr cell " in o][:2]
    chk.add_samples([{"op": o, "impl": impl[ops.index(o)]} for o in ex])
    chk.cov["trusted_base"] += ["C09: the interposer (mprotect + x86 trap flag) delivers one interleave point per machine instruction that reads sandbox memory; atomicity of a single machine read is assumed (a machine read of several bytes = byte reads with no adversary action in between, one of the schedules the theorems quantify over)",
                                "C09: harness built with g++ -O1 without sanitizers; compiler-introduced re-reads would appear as additional read events",
                                "C09: refinement is judged on the SHAPE of an outcome (kind, buffer size, addresses); which bytes of a bulk copy are pre- or post-mutation depends on the read order of memcpy/strlen and is not compared",
                                "C09: the scenario (one string, one int array, one struct, one pointer cell) is fixed; the theorems quantify over all memories, the correspondence check over this scenario"]


def replay(chk, rp):
    run(chk)
    return chk.finish()
