"""C10 — Bulk memory operations never straddle or leave the sandbox."""
import re
from vlib import core

BLK = 1 << 16
W64 = 1 << 64
APPSZ = {"char": 1, "short": 2, "int": 4, "long": 8, "llong": 8, "double": 8, "st12": 24}


def parse_addr(s):
    if s == "null":
        return ("null", 0)
    return (s[:3], int(s[4:]))


def inside(kind, off, n):
    """[off, off+n) is a non-wrapping range wholly inside one sandbox region / one aligned application block"""
    if kind == "null" or n <= 0:
        return False
    if kind in ("in0", "in1"):
        return 0 <= off and off + n <= BLK
    return off // BLK == (off + n - 1) // BLK and off + n <= 3 * BLK


def runs(s):
    if s == "-":
        return []
    out = []
    for r in s.split(","):
        m = re.match(r"(in0|in1|app):(\d+)\+(\d+)$", r)
        out.append((m.group(1), int(m.group(2)), int(m.group(3))))
    return out


def oracle(toks, line):
    op = toks[0]
    if line in ("badinput", "badop"):
        return None
    if line in ("segv", "<crash>"):
        return False
    if op == "memset":
        kind, off = parse_addr(toks[1]); n = int(toks[4]) % W64
        if n == 0:
            return line in ("abort", "ok -")
        if n <= BLK and inside(kind, off, n):
            return line == f"ok {kind}:{off}+{n}"
        return line == "abort"
    if op in ("memcpy", "memcmp"):
        (dk, do), (sk, so) = parse_addr(toks[1]), parse_addr(toks[2]); n = int(toks[3])
        if n == 0:
            return line == "abort" or line.startswith("ok")
        valid = n <= BLK and inside(dk, do, n) and inside(sk, so, n)
        if not valid:
            return line == "abort"
        if op == "memcmp":
            return line in ("ok eq", "ok lt", "ok gt")
        if not line.startswith("ok "):
            return False
        want = [(dk, do, n)] if sk == "app" else []
        return runs(line[3:]) == want
    if op in ("cvrange", "bufaddr", "safeptr", "deny"):
        kind, off = parse_addr(toks[2]); c = int(toks[3]); sz = APPSZ[toks[1]]
        if kind == "null":
            if op == "deny":
                return line in ("abort", "ok nullret")
            if op == "safeptr":
                return line == "ok null"
            return line == ("abort" if c == 0 else "ok null")
        if c == 0:
            return line == "abort" or (op == "safeptr" and line in ("abort", f"ok {kind}:{off}"))
        ok = inside(kind, off, c * sz)
        if op == "cvrange":
            return line == "ok copied app=1" if ok else line in ("abort", "badalloc")
        if op == "deny":
            return line == "ok copied=1 app=1" if ok else line in ("abort", "ok nullret")
        return line == (f"ok {kind}:{off}" if ok else "abort")
    if op == "denyfs":
        kind, off = parse_addr(toks[2]); c = int(toks[3]); sz = APPSZ[toks[1]]
        if kind == "null":
            return line in ("abort", "ok nullret")
        if c == 0:
            return line == "abort"
        if not inside(kind, off, c * sz):
            return line in ("abort", "ok nullret")
        # carried out on exactly those bytes: the copy holds the source as it was, and the source was released once
        return line == "ok copied=1 app=1 bytes=same freed=1"
    if op == "grant":
        kind, off = parse_addr(toks[2]); c = int(toks[3]); sz = APPSZ[toks[1]]
        if c == 0 or c > 0xFFFFFFFF:
            return line == "abort"
        nbytes = c * sz
        fits = 0x8000 + (nbytes + 7) // 8 * 8 <= BLK
        if kind == "null":
            # a null source never proceeds: abort, or the allocation failed first
            return line == "abort" or (not fits and line == "ok null copied=0 -")
        if not fits:
            return line in ("abort", "ok null copied=0 -")
        if not inside(kind, off, nbytes):
            return line == "abort"
        want = [("in0", 0x8000, nbytes)] if kind == "app" else []
        m = re.match(r"ok in0:32768 copied=1 (\S+)$", line)
        return bool(m) and runs(m.group(1)) == want
    if op == "grantg":
        # whatever a granting backend answers, the tainted result designates sandbox memory holding the source bytes;
        # a null source or a source range that crosses a boundary never reaches the backend
        kind, off = parse_addr(toks[3]); nbytes = int(toks[4]) * APPSZ[toks[2]]
        if kind == "null" or not inside(kind, off, nbytes):
            return line == "abort"
        return line == f"ok inside copied={0 if toks[1] == '1' else 1} bytes=same"
    if op == "denyg":
        return line == f"ok app copied={0 if toks[1] == '1' else 1} bytes=same"
    if op == "denygo":
        off, nbytes = int(toks[3]), int(toks[4]) * APPSZ[toks[2]]
        if off == 0 or off + nbytes > BLK:
            return line == "abort"      # (offset 0 is the sandbox's null)
        return line == f"ok app copied={0 if toks[1] == '1' else 1} bytes=same"
    if op == "grantf":
        # the allocator inside the sandbox returns anything: the copy proceeds only into a buffer wholly inside the sandbox
        kind, off = parse_addr(toks[2]); c = int(toks[3]); sz = APPSZ[toks[1]]; v = int(toks[4]) % (1 << 32)
        if c == 0 or c > 0xFFFFFFFF:
            return line == "abort"
        nbytes = c * sz
        if v == 0:
            return line in ("ok null copied=0 -", "abort")
        if not (v < BLK and v + nbytes <= BLK):
            return line == "abort"
        if kind == "null" or not inside(kind, off, nbytes):
            return line == "abort"
        want = [("in0", v, nbytes)] if kind == "app" else []
        m = re.match(rf"ok in0:{v} copied=1 (\S+)$", line)
        return bool(m) and runs(m.group(1)) == want
    return None


def signature(toks, line):
    return None


def extents(off_to_end, el):
    e = {0, 1, 2, off_to_end - 1, off_to_end, off_to_end + 1, BLK - 1, BLK, BLK + 1, (1 << 32) - 1, 1 << 32, (1 << 32) + 1,
         1 << 63, W64 - 1, W64 - 2, W64 // el - 1, W64 // el, W64 // el + 1, (W64 + 64) // el}
    return sorted(x for x in e if 0 <= x < W64)


def gen_ops(chk, thorough):
    rng = chk.rng
    ops = []
    starts0 = [0, 1, 100, 4099, BLK - 64, BLK - 17, BLK - 2, BLK - 1] + [rng.randrange(2, BLK - 70) for _ in range(4 if thorough else 1)]
    app_starts = [BLK + 0x4000, BLK + 1, BLK - 6, 2 * BLK - 5, 2 * BLK - 1]
    def dsts():
        return ["null"] + [f"in0:{o}" for o in starts0]
    def ext_for(off, el=1):
        ex = extents((BLK - off) // el, el)
        return ex
    for d in dsts():
        off = 0 if d == "null" else int(d[4:])
        for n in ext_for(off):
            ops.append(f"memset {d} ulong plain {n}")
            if n < (1 << 63):
                ops.append(f"memset {d} llong tainted {n}")
        for n in (-1, -2, -(1 << 31), 5):
            ops.append(f"memset {d} int plain {n}")
        ops.append(f"memset {d} uint tainted {min(BLK - off, 4294967295) if off else 7}")
    srcs = ["null"] + [f"in0:{o}" for o in (0, 200, BLK - 8, BLK - 1)] + [f"in1:{o}" for o in (0, 50, BLK - 4)] + [f"app:{o}" for o in app_starts]
    for d in dsts():
        doff = 0 if d == "null" else int(d[4:])
        for s in (srcs if thorough else rng.sample(srcs, 7)):
            skind, soff = parse_addr(s)
            cand = {0, 1, 4, 8, BLK - doff - 1, BLK - doff, BLK - doff + 1, BLK, BLK + 1, W64 - 1, 1 << 63, (1 << 32) + 1}
            if skind != "null":
                lim = BLK - soff if skind != "app" else (soff // BLK + 1) * BLK - soff
                cand |= {lim - 1, lim, lim + 1}
            for n in sorted(x for x in cand if 0 <= x < W64):
                ops.append(f"memcpy {d} {s} {n}")
                ops.append(f"memcmp {d} {s} {n}")
    for el, sz in APPSZ.items():
        for d in dsts():
            off = 0 if d == "null" else int(d[4:])
            for c in ext_for(off, sz):
                if el != "st12":
                    ops.append(f"bufaddr {el} {d} {c}")
                    if c * sz < (1 << 20) or c * sz >= (1 << 62):
                        ops.append(f"cvrange {el} {d} {c}")
                ops.append(f"safeptr {el} {d} {c}")
                if el in ("char", "short", "double") and (c * sz % W64 < (1 << 20) or c * sz % W64 >= (1 << 48)):
                    ops.append(f"deny {el} {d} {c}")
    for el in ("char", "short", "double"):
        sz = APPSZ[el]
        for d in ("null", "in0:64", "in0:4096", f"in0:{BLK - 64}", f"in0:{BLK - 8}", "in0:1"):
            for c in (0, 1, 2, 8, 64 // sz, 64 // sz + 1, 1000):
                ops.append(f"denyfs {el} {d} {c}")
    for el in ("char", "short", "double"):
        sz = APPSZ[el]
        for s in ["null"] + [f"app:{o}" for o in app_starts] + ["in0:64", f"in0:{BLK - 16}", "in1:64"]:
            for c in (0, 1, 2, 5, 8, 16, 17, 100, (BLK - 0x8000) // sz, (BLK - 0x8000) // sz + 1, BLK, 0xFFFFFFFF, 0x100000000, 1 << 40,
                      # element counts whose byte extent wraps the address space to a few bytes (or to exactly 2^32)
                      (1 << 64) // sz + 2, (1 << 63) + 2, (1 << 64) // sz + 16 // sz, (1 << 64) - 1, ((1 << 64) + (1 << 32)) // sz):
                if c < (1 << 64):
                    ops.append(f"grant {el} {s} {c}")
    # a backend that declares can_grant_deny_access and grants (1), refuses with the caller's pointer (0) or refuses with null (2)
    for mode in (0, 1, 2):
        for el in ("char", "short", "double"):
            for c in (1, 2, 16, 100):
                ops.append(f"grantg {mode} {el} app:64 {c}")
                ops.append(f"denyg {mode} {el} {c}")
            sz = APPSZ[el]
            ops += [f"grantg {mode} {el} null 4", f"grantg {mode} {el} app:{BLK - 8} {32 // sz}", f"grantg {mode} {el} app:{BLK - 16} {16 // sz}",
                    f"denygo {mode} {el} {BLK - 8} {32 // sz}", f"denygo {mode} {el} {BLK - 32} {32 // sz}", f"denygo {mode} {el} 4096 8", f"denygo {mode} {el} {BLK - 8} {16 // sz}"]
    for el in ("char", "short", "double"):
        sz = APPSZ[el]
        for s in ["app:64", "in0:64", "null"]:
            for c in (1, 2, 16, 100, BLK // sz):
                for v in (0, 16, 0x8000, BLK - c * sz, BLK - c * sz + 1, BLK - 1, BLK, BLK + 64, 0x10040, 2 * BLK - 8, 3 * BLK, (1 << 32) - 8):
                    if v >= 0:
                        ops.append(f"grantf {el} {s} {c} {v}")
    return ops


def neighbours(toks):
    out = []
    if toks[0] in ("memset",):
        n = int(toks[4])
        for d in (-1, 0, 1):
            out.append(f"memset {toks[1]} ulong plain {(n + d) % W64}")
    elif toks[0] in ("memcpy", "memcmp"):
        n = int(toks[3])
        for d in (-1, 0, 1):
            for op in ("memcpy", "memcmp"):
                out.append(f"{op} {toks[1]} {toks[2]} {(n + d) % W64}")
    elif len(toks) == 4:
        n = int(toks[3])
        for d in (-1, 0, 1):
            for el in ("char", "short", "double"):
                out.append(f"{toks[0]} {el} {toks[2]} {(n + d) % W64}")
    return out


def build():
    return core.build_harness("h_range", ["h_range.cpp"], ["-O0", "-g"])


def run(chk):
    thorough = chk.tier == "thorough"
    chk.lean(thorough_checker=thorough)
    binp, log = build()
    if binp is None:
        chk.fail("harness h_range does not compile against the current headers", {"log_tail": log[-3000:]}, found=False)
        return
    ops = gen_ops(chk, thorough)
    ops = list(dict.fromkeys(ops))
    res = core.differential(chk, ops, binp, oracle, signature=signature, neighbours=neighbours, label="bulk memory ops")
    kinds, outcomes = {}, {}
    for op, a in zip(ops, res["impl"]):
        kinds[op.split()[0]] = kinds.get(op.split()[0], 0) + 1
        k = a.split()[0] if a else "?"
        outcomes[k] = outcomes.get(k, 0) + 1
    chk.cov["input_distribution"] = {"ops_by_kind": kinds, "outcomes": outcomes}
    chk.cov["distinct_nontrivial"] = len(ops)
    chk.cov["rule"] = ("operations {memset, memcpy, memcmp, copy_and_verify_range, copy_and_verify_buffer_address, unverified_safe_pointer_because, "
                       "copy_memory_or_grant_access, copy_memory_or_deny_access} x starts {null, first/last bytes, interior, application arena incl. block-crossing, "
                       "other sandbox} x extents {0,1,to-end-1/0/+1,total,total+1,2^32+-1,2^63,2^64-1,2^64/elSize+-1} x element sizes; whole-region and arena byte diff after every op; "
                       "distinct = distinct op lines")
    chk.add_samples([{"op": o, "impl": a, "model": b} for o, a, b in list(zip(ops, res["impl"], res["model"]))[::max(1, len(ops) // 6)]])
    chk.cov["trusted_base"] += [
        "C10: 'inside' for application ranges means inside one 2^16-aligned block (the mask-based backend cannot tell more); guard pages around the regions turn stray accesses into faults",
        "copy_and_verify_string is exercised under C09; its range check is verify_range_helper (C10_counted_partial)"]


def replay(chk, rp):
    binp, log = build()
    ops = [rp["op"]] if "op" in rp else [d["op"] for d in rp.get("disagreements", [])]
    core.differential(chk, ops, binp, oracle, signature=signature, label="replay")
    for o in ops:
        print("replayed:", o)
    return chk.finish()
