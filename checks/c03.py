"""C03 — Every tainted data pointer is null or points into its own sandbox."""
import os, re, subprocess
from vlib import core
from checks import memcommon

BLK = 1 << 16
POS = ["result", "cbarg", "cell", "arrel", "field"]
STRIDE = {"i": 4, "c": 1, "pp": 4, "st": 12}


def want_rep(pos, sb, rep):
    rep &= 0xFFFFFFFF
    w = "null" if rep == 0 else f"in{sb}:{rep & 0xFFFF}"
    return w + "," + w if pos in ("arrel", "field") else w


def oracle(toks, line):
    if line in ("badop", "badinput"):
        return None
    if toks[0] == "rep":
        return line == "ok " + want_rep(toks[1], int(toks[2]), int(toks[3]))
    if toks[0] == "repblk":
        return " oracle_bad=0" in line
    if toks[0] == "nrep":
        rep = int(toks[2]) % (1 << 64)
        one = "null" if rep == 0 else f"inN:{rep % BLK}"
        return line == ("ok " + (one if toks[1] != "arrel" else one + "," + one))
    if toks[0] == "malf":
        # allocation with an untrusted allocator behind a backend that does not clamp: null, or first AND last element inside
        sb, ty, v, n = int(toks[1]), toks[2], int(toks[3]) % (1 << 32), int(toks[4]) % (1 << 32)
        size = {"char": 1, "int": 4, "llong": 8, "st": 24}[ty]
        if n == 0:
            return line == "abort"
        if v == 0:
            return line == "ok null"
        if v < BLK and v + (n - 1) * size < BLK:
            return line == f"ok in{sb}:{v}"
        return line == "abort"
    if toks[0] == "chain":
        if line in ("abort", "segv"):
            return True          # an operation that would produce anything else aborts (a fault on a null dereference is not a pointer)
        m = re.match(r"ok (null|in(\d):\d+|out:0x[0-9a-f]+)$", line)
        if not m:
            return False
        if m.group(1) == "null":
            return True
        return m.group(2) is not None and int(m.group(2)) == int(toks[1])
    return None


_BIN = [None]
_SIGCACHE = {}


def signature(toks, line):
    """A failing chain is attributed to the known designation finding (F7) only if the first step after
    which the pointer is outside the sandbox is itself a member designation (afl/afp): the prefixes of
    the chain are replayed on the implementation to find that step."""
    if toks[0] != "chain" or not line.startswith("ok out:"):
        return None
    key = " ".join(toks)
    if key in _SIGCACHE:
        return _SIGCACHE[key]
    steps = toks[4:]
    sig = None
    if any(s in ("afl", "afp") or s.startswith("ae") for s in steps) and _BIN[0]:
        prefixes = [" ".join(toks[:4] + steps[:i]) for i in range(1, len(steps) + 1)]
        rc, il, err = core.run_lines(_BIN[0], "\n".join(prefixes) + "\n")
        for i, a in enumerate(il):
            if a.startswith("ok out:"):
                # a member / an IN-BOUNDS element of an aggregate that is not wholly inside (or of a null aggregate)
                if steps[i] in ("afl", "afp") or (steps[i].startswith("ae") and 0 <= int(steps[i][2:]) <= 3):
                    sig = "C03/unchecked-member-designation"
                break
    _SIGCACHE[key] = sig
    return sig


def gen_chain(rng, sb, depth):
    start = rng.choice(["null", "0", "16", "4096", "65532", "65535", "65520", "256", str(rng.randrange(1, BLK))])
    tag = rng.choice(["i", "c", "pp", "st"])
    toks = ["chain", str(sb), start, tag]
    for _ in range(depth):
        menu = ["+", "-", "[", "ci", "cc", "cpp", "cst", "opq", "ad", rng.choice(["pi", "pd", "ip", "dp"])]
        if tag == "pp":
            menu += ["ld", "ld"]
        if tag == "st":
            menu += ["fp", "afl", "afp", "afp"]
            menu.remove("ad")
        menu += ["ae"]
        if rng.random() < 0.04:
            menu = ["mal"]
        s = rng.choice(menu)
        if s == "ae":
            s = "ae" + str(rng.choice([0, 1, 2, 3, 3, 4, 4, 5, -1, 1000]))
        if s in "+-[":
            n = rng.choice([0, 1, 2, 3, -1, -2, 5, 16, 100, 1000, 5461, 16383, 16384, 65535, 65536, -65536, 1 << 31, (1 << 32) + 1,
                            (1 << 62), -(1 << 62), rng.randrange(-70000, 70000)])
            s = s + str(n)
        toks.append(s)
        tag = {"ci": "i", "cc": "c", "cpp": "pp", "cst": "st", "ld": "i", "fp": "i", "afl": "c", "afp": "pp", "mal": "i"}.get(s, "i" if s.startswith("ae") else tag)
    return " ".join(toks)


PROBE = r'''
#include "vtypes.hpp"
#include <cstdio>
int main() {
  rlbox::rlbox_sandbox<SbxA> sb; sb.create_sandbox();
  auto p = sb.malloc_in_sandbox<long>(4);
  auto q = EXPR;
  auto v = reinterpret_cast<uintptr_t>(q.UNSAFE_unverified());
  auto b = sb.get_sandbox_impl()->Base;
  bool inside = v == 0 || (v >= b && v - b < 65536);
  printf("%s 0x%lx\n", inside ? "inside" : "OUTSIDE", (unsigned long)(v - b));
  return inside ? 0 : 1;
}
'''


def expression_probes(chk):
    """Expression forms that must either be rejected by the compiler or yield an in-sandbox pointer."""
    exprs = {"int_plus_ptr": "100000L + p", "tainted_int_plus_ptr": "rlbox::tainted<long, SbxA>(100000L) + p",
             "int_minus_ptr_rejected": "5 - p", "bool_plus_ptr": "true + (p + 8190)"}
    wd = os.path.join(core.WORK, "probes_c03")
    os.makedirs(wd, exist_ok=True)
    res = {}
    for name, ex in exprs.items():
        src = os.path.join(wd, name + ".cpp")
        open(src, "w").write(PROBE.replace("EXPR", ex))
        exe = os.path.join(wd, name)
        r = core.sh(["g++", "-std=c++17", "-O0", "-I" + core.INC, "-I" + core.HARNESS, src, "-o", exe])
        if r.returncode != 0:
            res[name] = "rejected by the compiler"
            continue
        rr = core.sh([exe])
        res[name] = "compiles: " + rr.stdout.strip()
        if rr.returncode != 0:
            chk.fail(f"expression `{ex}` on a tainted pointer compiles and yields an address outside the sandbox without a check ({rr.stdout.strip()})",
                     {"program": src, "expression": ex, "output": rr.stdout}, signature="C03/plain-left-operand-pointer-arithmetic", found=True)
    chk.cov["expression_probes"] = res
    chk.cov["evaluations"] += len(exprs)


def run(chk):
    thorough = chk.tier == "thorough"
    chk.lean(thorough_checker=thorough)
    binp, log = memcommon.build()
    if binp is None:
        chk.fail("harness h_mem does not compile against the current headers", {"log_tail": log[-3000:]}, found=False)
        return
    _BIN[0] = binp
    expression_probes(chk)
    rng = chk.rng
    ops = []
    for pos in POS:
        for sb in (0, 1):
            # all 2^16 canonical representations by block hash (model vs code) with the oracle inside the block
            for lo in range(0, BLK, 8192):
                ops.append(f"repblk {pos} {sb} {lo} {lo + 8191}")
            reps = {0, 1, 65535, 65536, 65537, (1 << 31) - 1, 1 << 31, (1 << 32) - 1, (1 << 32) - 65536, 0x12345678}
            reps |= {rng.getrandbits(32) for _ in range(300 if thorough else 40)}
            for r in sorted(reps):
                ops.append(f"rep {pos} {sb} {r}")
    nchains = 30000 if thorough else 5000
    for i in range(nchains):
        ops.append(gen_chain(rng, i % 2, rng.randrange(1, 13 if thorough else 7)))
    # a backend whose pointer representation is a pointer type (void*, as in the bundled backends) but which has a real region:
    # every 64-bit pattern in every position still goes through the backend's translation
    pats = {0, 1, 8, BLK - 1, BLK, BLK + 8, 0xdeadbeef, (1 << 32), (1 << 47) - 8, (1 << 64) - 1, (1 << 64) - BLK, 0x6a0000000000, 0x6a0000000000 + 3 * 0x400030000 + 64,
            0x7ffc00001000, 0x555555554000} | {rng.getrandbits(64) for _ in range(60 if thorough else 12)} | {rng.getrandbits(17) for _ in range(20 if thorough else 6)}
    for pos in ("result", "cbarg", "cell", "arrel"):
        for r in sorted(pats):
            ops.append(f"nrep {pos} {r}")
    # allocation: the allocator inside the sandbox returns anything (inside, straddling the end, wholly outside, far outside)
    for sb in (0, 1):
        for ty, size in (("char", 1), ("int", 4), ("llong", 8), ("st", 24)):
            vs = {0, 1, 16, 0x8000, BLK - size, BLK - size + 1, BLK - 1, BLK, BLK + 1, BLK + 64, 0x10040, 2 * BLK, 2 * BLK - 1, (1 << 32) - 1, (1 << 32) - BLK, 1 << 31}
            vs |= {rng.randrange(0, 4 * BLK) for _ in range(40 if thorough else 8)} | {rng.getrandbits(32) for _ in range(20 if thorough else 4)}
            for v in sorted(vs):
                for n in (1, 2, 3, 16, BLK // size, BLK // size + 1, 0) + ((rng.randrange(1, 70000),) if thorough else ()):
                    ops.append(f"malf {sb} {ty} {v} {n}")
    # regression corpus: the witnesses of the findings run first on every seed
    corpus = ["chain 0 65532 i pi", "chain 0 65535 c ip", "chain 1 0 c pd", "chain 1 0 st dp", "chain 0 null i pi", "chain 0 null i [5", "chain 0 65532 c cst afp", "chain 0 null st afl", "chain 1 null pp [3 ld", "chain 0 65520 i ae4", "chain 0 65520 i ae3 +1", "chain 1 16 c ae5"]
    ops = corpus + list(dict.fromkeys(ops))
    res = core.differential(chk, ops, binp, oracle, signature=signature, label="pointer derivations")
    # granting access: a backend that declares can_grant_deny_access and grants, refuses with the caller's pointer, or refuses
    # with null -- the tainted pointer the application gets designates sandbox memory in every case (range engine)
    from checks import c10
    rbin, rlog = c10.build()
    if rbin is None:
        chk.fail("harness h_range does not compile against the current headers", {"log_tail": rlog[-3000:]}, found=False)
    else:
        gops = [f"grantg {mode} {el} app:{o} {c}" for mode in (0, 1, 2) for el in ("char", "short", "double") for o in (64, 4099) for c in (1, 3, 64)]
        core.differential(chk, gops, rbin, c10.oracle, label="grant-access results")
    blocks = sum(8192 for o in ops if o.startswith("repblk"))
    chk.cov["evaluations"] += blocks
    outcomes = {}
    for o, a in zip(ops, res["impl"]):
        if o.startswith("chain"):
            k = "null" if a == "ok null" else (a.split() or ["<no answer>"])[0] if not a.startswith("ok") else ("inside" if a.startswith("ok in") else "outside")
            outcomes[k] = outcomes.get(k, 0) + 1
    chk.cov["input_distribution"] = {"chain_outcomes": outcomes, "representations_enumerated_in_blocks": blocks}
    chk.cov["distinct_nontrivial"] = len(ops) + blocks
    if thorough:
        # all 2^32 representations in the memory-cell position, implementation vs oracle (harness only)
        jobs = [f"repblk cell 0 {lo} {lo + (1 << 26) - 1}" for lo in range(0, 1 << 32, 1 << 26)]

        def one(j):
            rc, il, err = core.run_lines(binp, j + "\n")
            return j, il[0] if il else "<crash>"
        tot = 0
        for j, line in core.run_parallel(one, jobs):
            if " oracle_bad=0" not in line:
                chk.fail(f"exhaustive representation scan: {j} -> {line}", {"op": j, "impl": line}, found=True)
            else:
                tot += int(line.split(" n=")[1].split()[0])
        chk.cov["evaluations"] += tot
        chk.cov["distinct_nontrivial"] += tot
        chk.cov["all_2^32_representations_scanned_in_cell_position"] = tot
    chk.cov["rule"] = ("every guest representation 0..65535 in 5 positions x 2 live sandboxes (block hash), boundary/random 32-bit representations, "
                       "random derivation chains (depth <= 6, thorough <= 12) over + - [] & * -> casts opaque malloc field/element designation from null/first/last/interior, "
                       "each ending in UNSAFE_unverified(); oracle: null or inside the owning sandbox's region, else abort; thorough: all 2^32 representations in the cell position")
    chk.add_samples([{"op": o, "impl": a, "model": b} for o, a, b in list(zip(ops, res["impl"], res["model"]))[::max(1, len(ops) // 6)]])
    chk.cov["trusted_base"] += ["C03: BackendLaws hold for vsbx by construction (mask translation); the theorems are conditional on them (Sbx.wf)",
                                "function pointers are outside C03 (data pointers only)"]


def replay(chk, rp):
    binp, log = memcommon.build()
    _BIN[0] = binp
    ops = [rp["op"]] if "op" in rp else [d["op"] for d in rp.get("disagreements", [])]
    core.differential(chk, ops, binp, oracle, signature=signature, label="replay")
    return chk.finish()
