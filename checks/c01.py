"""C01 — Sandbox data cannot lose its taint implicitly.
The verdict table (12k single-step forms judged by the C++ front end against the current headers) is
regenerated, the Lean theorems of Props/C01.lean are re-proved about it (the generic depth-independent
theorem in Typing.lean + `decide +kernel` over the table), and a compositional spot check compares the
compiler with the model's typeOf on random expression trees."""
from vlib import core
from checks import typingcommon as tc


def run(chk):
    thorough = chk.tier == "thorough"
    table, cached = tc.regenerate()
    if "error" in table:
        chk.cov["obligations"] = 1
        chk.fail("the wrapper API prelude no longer compiles, the verdict table cannot be regenerated", {"log_tail": table["error"][-3000:]}, found=False)
        return
    rows = [r for r in table["rows"] if r["kind"] != "c02"]
    chk.lean(thorough_checker=thorough)
    off = tc.c01_offenders(table)
    seen = set()
    for ob, what, r in off:
        key = (ob, tc.rname(r), tuple(map(tuple, r["ops"])))
        if key in seen:
            continue
        seen.add(key)
        rp = tc.tu_replay(r)
        rp["obligation"] = "Rlbox.C01." + ob
        chk.fail(what, rp, found=True)
    if chk.lean_ok and off:
        chk.fail("Python mirror of the C01 obligations disagrees with the Lean theorems (mirror finds offenders, Lean proves none)", {"offenders": [w for _, w, _ in off][:5]}, found=False)
    tc.spot_check(chk, table, 1500 if thorough else 250)
    acc = [r for r in rows if r["verdict"] == "accept"]
    chk.cov["evaluations"] += len(rows)
    chk.cov["distinct_nontrivial"] = len(rows)
    by_rule = {}
    for r in rows:
        d = by_rule.setdefault(tc.rname(r), [0, 0])
        d[0 if r["verdict"] == "accept" else 1] += 1
    chk.cov["input_distribution"] = {"rows": len(rows), "accepted": len(acc), "rejected": len(rows) - len(acc), "table_cached": cached,
                                     "accepted_with_plain_result": sum(1 for r in acc if tt_plain(r)), "accept_reject_by_rule": by_rule}
    chk.cov["rule"] = ("every single-step form {69 unary/conversion/member/cast rules + 21 binary operators} x {tainted, tainted_volatile, tainted_opaque, sandbox_callback, app_pointer, "
                       "both hints} x {int, bool, uchar, long, enum, double, int*, void*, const char*, int**, function pointer, int[4], registered struct, struct pointer} judged by g++ against the "
                       "current headers; Lean proves from that table that NO expression tree of any depth loses its taint except through a named unwrapper / pointer null test")
    chk.add_samples([tc.tu_replay(r) for r in acc[::max(1, len(acc) // 3)]][:3] + [tc.tu_replay(r) for r in rows if r["verdict"] != "accept"][:3])
    chk.cov["trusted_base"] += ["C01: g++ 12 front end as the judge of accept/reject and of decltype; gen/typing_table.py (translator: enumerates forms, encodes the verdicts)",
                                "C01: compositionality of C++ typing (the type of a composite expression depends only on the types of its sub-expressions); value categories are abstracted -- rows use lvalue operands; "
                                "the spot check measures the disagreement in both directions on composite trees",
                                "C01: expression forms outside the enumerated rule set are not covered"]


def tt_plain(r):
    return tc.tt.result_of(r)[0] == 0


def replay(chk, rp):
    run(chk)
    return chk.finish()
