"""C11 — Sandbox function invocation delivers arguments and results faithfully."""
import re
from vlib import core
from checks.c06 import TYPES, rng_of
from checks.c05 import GUEST_BYTES_A

SIGS = {
    "S0": ([], "void"), "S1": (["int"], "int"), "S2": (["long", "ulong"], "long"),
    "S3": (["short", "char", "bool", "uchar", "llong"], "ulong"), "S4": (["flt", "flt", "int"], "flt"),
    "S5": (["ptr", "ptr", "ptr"], "ptr"), "S6": (["fn", "int"], "long"), "S7": (["st", "long"], "long"),
    "S8": (["long", "int", "short", "char", "ulong", "uint", "ushort", "uchar", "llong", "ullong", "bool", "long"], "long"),
    "S9": (["ushort", "short"], "ushort"), "S10": (["int"], "st"),
}
FORMS = ["plain", "tainted", "opaque", "tvol"]
LIBOF = {0: "A", 1: "B", 2: "A"}


def build():
    return core.build_harness("h_invoke", ["h_invoke.cpp"], core.SAN)


def guest(tn):
    sg, by, isb = TYPES[tn]
    return (sg, GUEST_BYTES_A.get(tn, by), isb)


def fits(t, v):
    lo, hi = rng_of(*t)
    return lo <= v <= hi


def ccast(t, v):
    sg, by, isb = t
    if isb:
        return 0 if v == 0 else 1
    m = 1 << (8 * by)
    r = v % m
    return r - m if sg and r >= m // 2 else r


def oracle(toks, line):
    if line == "badop":
        return None
    if toks[0] == "invr":
        abi, ty, v = toks[1], toks[2], int(toks[3])
        if line == "badinput":
            return None
        sg, by, isb = TYPES[ty]
        lo, hi = rng_of(sg, by, isb)
        return line == (f"ok {v}" if lo <= v <= hi else "abort")     # the guest's value, or abort when the application type cannot hold it
    if toks[0] == "inamed":
        sb, name, v = int(toks[1]), toks[2], int(toks[3])
        lib = LIBOF[sb]
        want = {("scale", "A"): 2 * v, ("scale", "B"): 3 * v, ("ident", "A"): v + 1000, ("ident", "B"): v + 2000}[(name, lib)]
        return line == f"ok {want}"
    if toks[0] == "irecr":
        l1, l2, name, v = int(toks[1]), int(toks[2]), toks[3], int(toks[4])
        def one(l):
            lib = "AB"[l]
            val = {("scale", "A"): 2 * v, ("scale", "B"): 3 * v, ("ident", "A"): v + 1000, ("ident", "B"): v + 2000}[(name, lib)]
            return f"{val} lib{lib}.{name} {val}"
        return line == f"ok {one(l1)} | {one(l2)}"
    if toks[0] == "ifnaddr":
        sb, name = int(toks[1]), toks[2]
        lib = LIBOF[sb]
        idx = {"A": {"scale": 1, "ident": 2}, "B": {"ident": 1, "scale": 2}}[lib][name]
        return line == f"ok lib{lib}.{name} rep={idx}"
    if toks[0] != "inv":
        return None
    sb, sg, form, ret = int(toks[1]), toks[2], toks[3], int(toks[4])
    ps, rt = SIGS[sg]
    vs = [int(x) for x in toks[5:]]
    want = []
    for p, v in zip(ps, vs):
        if p == "flt":
            want.append(str(v))
        elif p == "ptr":
            want.append("0" if form == "plain" else str(v))     # representation == region offset; plain form passes nullptr
        elif p == "fn":
            want.append("16384")                                # the entry point of the only registered callback
        elif p == "st":
            c, l = v % 128, v >> 8
            if not fits(guest("long"), l):
                return line == "abort calls=0"
            want.append("{%d,%d,0}" % (c, l))
        else:
            av = ccast(TYPES[p], v)                             # the harness writes (A)v
            if not fits(guest(p), av):
                return line == "abort calls=0"                  # not representable: abort BEFORE the call
            want.append(str(av))
    if rt == "void":
        r = "void"
    elif rt == "flt":
        r = str(ret)
    elif rt == "ptr":
        rep = ret % (1 << 32)
        r = "null" if rep == 0 else f"in:{rep & 0xFFFF}"
    elif rt == "st":
        r = "{%d,%d}" % (ret % 128, ccast((True, 4, False), ret >> 8))
    else:
        g = ccast(guest(rt), ret)                               # what the guest function returns
        if not fits(TYPES[rt], g):
            return line == "abort calls=1"
        r = str(g)
    return line == f"ok calls=1 guest=[{','.join(want)}] ret={r}"


def vals_for(p, rng):
    if p in ("flt",):
        return [0, 1, -1, 100, -77, 16777216, rng.randrange(-1000, 1000)]
    if p == "ptr":
        return [0, 1, 16, 256, 4660, 65535, rng.randrange(1, 65536)]
    if p == "fn":
        return [0]
    if p == "st":
        return [0, 25637, (2147483647 << 8) | 5, (2147483648 << 8) | 5, -(5 << 8) | 3, rng.randrange(0, 1 << 30)]
    lo, hi = rng_of(*TYPES[p])
    glo, ghi = rng_of(*guest(p))
    return [lo, hi, 0, 1, -1 if lo < 0 else 2, glo, ghi, ghi + 1 if ghi + 1 <= hi else ghi, glo - 1 if glo - 1 >= lo else glo, rng.randint(lo, hi), rng.randint(glo, ghi)]


def run(chk):
    thorough = chk.tier == "thorough"
    chk.lean(thorough_checker=thorough)
    binp, log = build()
    if binp is None:
        chk.fail("harness h_invoke does not compile against the current headers", {"log_tail": log[-3000:]}, found=False)
        return
    rng = chk.rng
    ops = []
    per = 40 if thorough else 8
    for sg, (ps, rt) in SIGS.items():
        for form in FORMS:
            for sb in (0, 1, 2):
                for _ in range(per):
                    vs = [rng.choice(vals_for(p, rng)) for p in ps]
                    # mostly valid calls: with probability 0.7 keep every integer argument representable in the sandbox ABI
                    # a by-value struct whose field is not representable aborts inside a noexcept member (std::terminate even with
                    # RLBOX_USE_EXCEPTIONS): such calls cannot be observed in-process and are exercised by the C08 check in a child process
                    vs = [v if p != "st" or fits(guest("long"), v >> 8) else 25637 for p, v in zip(ps, vs)]
                    if rng.random() < 0.7:
                        vs = [v if p in ("flt", "ptr", "fn", "st") or fits(guest(p), ccast(TYPES[p], v)) else 1 for p, v in zip(ps, vs)]
                        vs = [v if p != "st" or fits(guest("long"), v >> 8) else 25637 for p, v in zip(ps, vs)]
                    ret = rng.choice([0, 1, -1, 65535, 2147483647, -2147483648, 4294967295, 25637, rng.randrange(-10 ** 9, 10 ** 9)])
                    ops.append(f"inv {sb} {sg} {form} {ret} " + " ".join(map(str, vs)))
    # by-name lookup on three live instances bound to two libraries exporting the same names; addresses before/after invokes
    for _ in range(60 if thorough else 15):
        seq = []
        for _ in range(rng.randrange(2, 8)):
            sb = rng.randrange(3)
            name = rng.choice(["scale", "ident"])
            seq.append(f"inamed {sb} {name} {rng.randrange(-1000, 1000)}" if rng.random() < 0.6 else f"ifnaddr {sb} {name}")
        ops += seq
    # results on the three ABIs (C: guest short/int wider than the application's -> results can be unrepresentable)
    GUESTW = {"A": {"short": 2, "int": 4, "long": 4, "llong": 8}, "B": {"short": 2, "int": 4, "long": 8, "llong": 8}, "C": {"short": 4, "int": 8, "long": 8, "llong": 8}}
    KIND = {"short": "short", "ushort": "short", "int": "int", "uint": "int", "long": "long", "ulong": "long", "llong": "llong", "ullong": "llong", "char16": "short", "char32": "int"}
    rops = []
    for abi in ("A", "B", "C"):
        for ty in [t for t in TYPES if t != "wchar"]:
            sg, by, isb = TYPES[ty]
            gby = GUESTW[abi][KIND[ty]] if ty in KIND else by
            glo, ghi = rng_of(sg, gby, isb)
            alo, ahi = rng_of(sg, by, isb)
            vals = {0, 1, glo, ghi, alo, ahi, alo - 1, ahi + 1, ahi + 5, (1 << 32) + 5, -(1 << 31) - 1, rng.randint(glo, ghi)}
            for v in sorted(x for x in vals if glo <= x <= ghi):
                rops.append(f"invr {abi} {ty} {v}")
    # the same sandbox object created, destroyed and created again with another library: by-name call and function address
    for l1 in (0, 1):
        for l2 in (0, 1):
            for name in ("scale", "ident"):
                ops.append(f"irecr {l1} {l2} {name} {rng.randrange(-1000, 1000)}")
    ops = rops + ["ifnaddr 0 scale", "inamed 0 scale 4", "ifnaddr 0 scale", "ifnaddr 1 ident", "inamed 1 ident 1", "inamed 2 ident 1"] + ops
    # the by-name ops share per-instance caches: keep them in one sequential chunk (the engine is stateless otherwise)
    res = core.differential(chk, ops, binp, oracle, label="invocations", stateless=False)
    # the bundled dylib backend with two real shared libraries exporting the same names, both loaded: a function invoked in
    # one instance runs in that instance's library, including the calls the library makes to its own exported helpers
    from checks import callscommon as cc
    dbin, dlog = cc.build("dylib")
    if dbin is None:
        chk.fail("harness h_calls (dylib) does not compile against the current headers", {"log_tail": dlog[-3000:]}, found=False)
    else:
        core.differential(chk, ["dywho", "dymiss"], dbin, cc.oracle_c12, label="two libraries, same names / a name only one of them exports (dylib)", impl_env=cc.env_for("dylib"))
    kinds = {}
    for o, a in zip(ops, res["impl"]):
        k = o.split()[0] + ":" + (a.split()[0] if a else "?") + ("" if not a.startswith("abort") or len(a.split()) < 2 else ":" + a.split()[1])
        kinds[k] = kinds.get(k, 0) + 1
    chk.cov["input_distribution"] = kinds
    chk.cov["distinct_nontrivial"] = len(set(ops))
    chk.cov["rule"] = ("11 signatures (0..12 parameters over all integer kinds, bool, float/double, object pointers, a callback, a by-value struct; void/integer/float/pointer/struct results) x "
                       "4 argument wrapper forms {plain (nullptr for pointers), tainted, tainted_opaque, tainted_volatile lvalue} x 3 live instances, boundary/random values (70% fully valid calls), "
                       "guest implementations record arguments and call counts; by-name lookup and function addresses on three instances bound to two libraries exporting the same names, in random orders")
    chk.add_samples([{"op": o, "impl": a} for o, a in list(zip(ops, res["impl"]))[6::max(1, len(ops) // 6)]])
    chk.cov["trusted_base"] += ["C11: the calling convention and the machine code of the call are trusted; the dylib backend's by-name path (dlsym) is executed only by the `dywho` / `dymiss` scenarios (two libraries exporting the same names; a name only one exports while the process exports it too), re-creation with another library is covered by C14",
                                "mixed wrapper forms within one call are not generated (one form per call)"]


def replay(chk, rp):
    binp, log = build()
    ops = [rp["op"]] if "op" in rp else [d["op"] for d in rp.get("disagreements", [])]
    core.differential(chk, ops, binp, oracle, label="replay", stateless=False)
    return chk.finish()
