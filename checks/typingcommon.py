"""Shared pieces of the compile-time checks (C01, C02): regenerate the verdict table from the compiler,
mirror the Lean obligations in Python to LOCATE the offending row when a theorem stops checking,
and the compositional spot check (expression trees judged by the compiler vs. the model's typeOf)."""
import hashlib, os, random, re, subprocess, sys
from concurrent.futures import ThreadPoolExecutor
from vlib import core

sys.path.insert(0, os.path.join(core.VERIF, "gen"))
import typing_table as tt

W = tt.WCODE
K = tt.KCODE
WNAME = {v: k for k, v in W.items()}
KNAME = {v: k for k, v in K.items()}
UNWRAPPERS = ["m_unverified", "m_sandboxed", "m_safe_because", "m_safe_ptr_because", "m_internal", "m_cav", "m_cav_addr", "m_cav_range", "m_cav_string", "m_cav_buf"]
NULLTESTS = ["if", "while", "tern", "init_bool", "arg_bool", "scast_bool", "lnot", "eq_null", "ne_null", "bin==", "bin!=", "bin="]
CMP = ["bin==", "bin!=", "bin<", "bin<=", "bin>", "bin>=", "eq_null", "ne_null", "lnot"]
CAV = ["m_cav", "m_cav_addr", "m_cav_range", "m_cav_string", "m_cav_buf"]
OPAQUE_OK = ["init_auto", "addr", "m_set_zero", "f_from_opaque", "free"]
RAW = ["m_get_raw_value", "m_get_raw_sandbox_value", "m_data", "m_val"]
PTRK = (6, 7, 8, 9, 10, 12)


def regenerate():
    """Rebuild the verdict table from /repo's current headers (cached by content hash) and rewrite
    GeneratedTyping.lean when it changed.  Returns (table, cached)."""
    with core.Lock("typing"):
        text, table, cached = tt.generate(core.REPO)
        if text is None:
            return table, cached
        path = os.path.join(core.LEAN, "RlboxModel", "GeneratedTyping.lean")
        old = open(path).read() if os.path.exists(path) else None
        if old != text:
            with core.Lock("lean"):
                with open(path, "w") as f:
                    f.write(text)
        return table, cached


def rname(r):
    return r["rule"] if r["kind"] == "un" else "bin" + r["rule"]


def codes(r):
    return [(W[w], K[t]) for w, t in r["ops"]]


def carries(t):
    return t[0] not in (W["plain"], W["void"])


def declass(name, ops):
    if name in UNWRAPPERS or name == "m_is_unreg":
        return True
    if name in NULLTESTS:
        if len(ops) == 1:
            return ops[0][0] == W["tainted"] and ops[0][1] in PTRK
        if len(ops) == 2:
            (w1, k1), (w2, k2) = ops
            return (w1 == W["tainted"] and k1 in PTRK and w2 == W["plain"] and k2 == K["null"]) or \
                   (name == "bin=" and w1 == W["plain"] and k1 == K["bool"] and w2 == W["tainted"] and k2 in PTRK)
    return False


def tu_replay(r):
    row = (r["kind"], r["rule"], [tuple(o) for o in r["ops"]])
    return {"translation_unit": tt.tu_source(row), "prelude": "gen/typing_table.py:PRE (precompiled)",
            "compile": "g++ -std=c++17 -fsyntax-only -I/repo/code/include -I/verif/harness -include pre.hpp tu.cpp",
            "row": tt.row_id(row), "verdict": r["verdict"], "result_code": r["code"], "first_error": r["msg"]}


def c01_offenders(table):
    """Rows of the regenerated table that falsify one of C01's obligations: (obligation, what, row)."""
    out = []
    for r in table["rows"]:
        if r["kind"] == "c02" or r["verdict"] != "accept":
            continue
        name, ops, res = rname(r), codes(r), tt.result_of(r)
        for o in ops:
            if o[0] == W["void"]:
                out.append(("table_ops_nonvoid", "void operand", r))
        if any(carries(o) for o in ops) and not declass(name, ops) and res[0] == W["plain"]:
            out.append(("table_safe", f"`{name}` on {[WNAME[o[0]] + '<' + KNAME[o[1]] + '>' for o in ops]} compiles and yields a PLAIN value "
                        f"({KNAME.get(res[1], res[1])}) although it is not a named unwrapper / pointer null test", r))
        if name in CMP and any(o[0] in (W["tvol"], W["bhint"], W["ihint"]) for o in ops) and res[0] != W["bhint"]:
            out.append(("C01_hint", f"comparison `{name}` involving sandbox-resident data/hint yields {WNAME[res[0]]}, not a hint", r))
        if any(o[0] in (W["bhint"], W["ihint"]) for o in ops) and res[0] not in (W["bhint"], W["ihint"], W["void"], W["ptrwrap"]) \
                and name not in ("m_unverified", "m_safe_because", "m_internal"):
            out.append(("C01_hint_sticky", f"`{name}` with a hint operand compiles and yields {WNAME[res[0]]}: the hint is laundered into a value a verifier accepts", r))
        if name == "memcmp_hint" and res[0] != W["ihint"]:
            out.append(("C01_memcmp_hint", f"rlbox::memcmp over sandbox memory yields {WNAME[res[0]]}, not an int hint", r))
        if name in CAV and any(o[0] in (W["bhint"], W["ihint"]) for o in ops):
            out.append(("C01_hint_not_verifiable", f"`{name}` compiles on a hint", r))
        opaque_copy = name == "bin=" and all(o[0] == W["opaque"] for o in ops) and res[0] == W["opaque"]     # copying an opaque into an opaque
        if any(o[0] == W["opaque"] for o in ops) and name not in OPAQUE_OK and not opaque_copy:
            out.append(("C01_opaque_inert", f"`{name}` compiles on a tainted_opaque operand", r))
        if name in RAW:
            out.append(("C01_no_raw_access", f"raw storage accessor `{name}` is reachable from application code", r))
    return out


def c02_offenders(table):
    out = []
    for r in table["rows"]:
        if r["kind"] != "c02":
            continue
        forb = tt.C02[r["rule"]][2]
        if forb is None:
            continue            # neighbouring shape outside C02's statement: recorded, no obligation
        if forb and r["verdict"] == "accept":
            out.append(("C02_forbidden_rejected", f"forbidden shape `{r['rule']}` compiles: {tt.C02[r['rule']][1]}", r))
        if not forb and r["verdict"] != "accept":
            out.append(("C02_controls_accepted", f"permitted shape `{r['rule']}` no longer compiles ({r['msg']})", r))
    return out


# ---- compositional spot check ---------------------------------------------------------------

def expr_template(name):
    """C++ expression text of an expression rule with operands written {0}, {1}; None for statement-only rules."""
    if name.startswith("bin"):
        op = name[3:]
        return "({0} " + op + " {1})"
    body, fixed = tt.UN[name]
    m = re.fullmatch(r"report\(kind_of\((.*)\)\);", body)
    if not m or fixed:
        return None
    return "(" + re.sub(r"\ba\b", "{0}", m.group(1).replace("{", "{{").replace("}", "}}")) + ")"


def root_body(name, subs):
    if name.startswith("bin"):
        return f"report(kind_of({subs[0]} {name[3:]} {subs[1]}));"
    body, _ = tt.UN[name]
    return re.sub(r"\ba\b", lambda m: subs[0], body)


class Tree:
    def __init__(self, rule=None, args=(), leaf=None):
        self.rule, self.args, self.leaf = rule, list(args), leaf

    def tokens(self):
        if self.leaf is not None:
            return f"L {self.leaf[0]} {self.leaf[1]}"
        return f"A {self.rule} {len(self.args)} " + " ".join(a.tokens() for a in self.args)

    def leaves(self, acc):
        if self.leaf is not None:
            acc.append(self)
        for a in self.args:
            a.leaves(acc)
        return acc

    def depth(self):
        return 0 if self.leaf is not None else 1 + max([a.depth() for a in self.args] or [0])


def cpp_of(t, names):
    if t.leaf is not None:
        return names[id(t)]
    tpl = expr_template(t.rule)
    return tpl.format(*[cpp_of(a, names) for a in t.args])


def tree_tu(root):
    ls = root.leaves([])
    names = {id(l): f"p{i}" for i, l in enumerate(ls)}
    params = ", ".join(tt.decl(WNAME[l.leaf[0]], KNAME[l.leaf[1]], names[id(l)]) for l in ls)
    subs = [cpp_of(a, names) for a in root.args]
    ret = "int" if root.rule == "return_int" else "void"
    return f"{ret} f({params}) {{ {root_body(root.rule, subs)} }}\n"


def gen_trees(table, rng, n):
    acc = [r for r in table["rows"] if r["kind"] != "c02" and r["verdict"] == "accept"]
    by_ops = {}
    for r in acc:
        by_ops.setdefault(tuple(codes(r)), []).append(r)
    leaf_types = sorted({o for r in table["rows"] if r["kind"] != "c02" for o in map(tuple, codes(r))})
    inner_rows = [r for r in acc if expr_template(rname(r)) is not None and tt.result_of(r)[0] not in (W["void"], W["ptrwrap"]) and tt.result_of(r)[1] != 13]
    all_rules = list(tt.UN) + ["bin" + o for o in tt.BINOPS]
    trees = []
    while len(trees) < n:
        pool = [(Tree(leaf=lt), lt) for lt in rng.sample(leaf_types, 6)]
        built = []
        for _ in range(rng.randint(2, 5)):
            r = rng.choice(inner_rows)
            ops = codes(r)
            cands = [[p for p in pool if p[1] == tuple(o)] for o in ops]
            if any(not c for c in cands):
                # make a leaf of the needed type
                for o, c in zip(ops, cands):
                    if not c:
                        pool.append((Tree(leaf=tuple(o)), tuple(o)))
                cands = [[p for p in pool if p[1] == tuple(o)] for o in ops]
            args = [rng.choice(c)[0] for c in cands]
            # a fresh copy of leaves so that each parameter is used once
            t = Tree(rule=rname(r), args=[clone(a) for a in args])
            pool.append((t, tuple(tt.result_of(r))))
            built.append((t, tuple(tt.result_of(r))))
        if not built:
            continue
        sub, sty = rng.choice(built)
        if sub.depth() > 3:
            continue
        if rng.random() < 0.5:
            # a root the model accepts
            rows = [r for r in acc if len(r["ops"]) >= 1 and tuple(codes(r)[0]) == sty]
            if not rows:
                continue
            r = rng.choice(rows)
            args = [clone(sub)] + [Tree(leaf=tuple(o)) for o in codes(r)[1:]]
            trees.append(Tree(rule=rname(r), args=args))
        else:
            rule = rng.choice(all_rules)
            if rule.startswith("bin"):
                other = Tree(leaf=rng.choice(leaf_types))
                args = [clone(sub), other] if rng.random() < 0.5 else [other, clone(sub)]
            else:
                args = [clone(sub)]
            trees.append(Tree(rule=rule, args=args))
    return trees


def clone(t):
    if t.leaf is not None:
        return Tree(leaf=t.leaf)
    return Tree(rule=t.rule, args=[clone(a) for a in t.args])


def compile_trees(trees):
    """Judge each tree's translation unit with the compiler.  Returns list of (verdict, code, first error)."""
    inc = os.path.join(core.REPO, "code", "include")
    pch_dir = os.path.join(core.WORK, "typing", f"pch-spot-{os.getpid()}")
    os.makedirs(os.path.join(pch_dir, "tu"), exist_ok=True)
    with open(os.path.join(pch_dir, "pre.hpp"), "w") as f:
        f.write(tt.PRE)
    r = subprocess.run(["g++", "-std=c++17", "-w", "-x", "c++-header", "-I" + inc, "-I" + os.path.join(core.VERIF, "harness"),
                        os.path.join(pch_dir, "pre.hpp"), "-o", os.path.join(pch_dir, "pre.hpp.gch")], capture_output=True, text=True)
    import shutil
    if r.returncode != 0:
        shutil.rmtree(pch_dir, ignore_errors=True)
        return None

    def judge(i):
        src = tree_tu(trees[i])
        fn = os.path.join(pch_dir, "tu", f"t{i}.cpp")
        with open(fn, "w") as f:
            f.write(src)
        p = subprocess.run(["g++", "-std=c++17", "-fsyntax-only", "-fmax-errors=30", "-w", "-I" + inc, "-I" + os.path.join(core.VERIF, "harness"),
                            "-I" + pch_dir, "-include", "pre.hpp", fn], capture_output=True, text=True)
        os.remove(fn)
        if p.returncode == 0:
            return ("accept", None, "")
        errs = [l for l in p.stderr.splitlines() if " error: " in l]
        m = re.search(r"Kind<(\d+)>", p.stderr)
        if m and m.group(1) != "9999" and errs and all(("report" in e or "Kind<" in e) for e in errs):
            return ("accept", int(m.group(1)), "")
        return ("reject", None, (errs[0].split(" error: ")[1][:200] if errs else "?"))

    with ThreadPoolExecutor(os.cpu_count() or 4) as ex:
        res = list(ex.map(judge, range(len(trees))))
    shutil.rmtree(pch_dir, ignore_errors=True)
    return res


def spot_check(chk, table, n):
    """Compositionality of the table model: compiler verdict and result type of depth-2..4 trees vs typeOf."""
    rng = random.Random(chk.seed * 7919 + 17)
    trees = gen_trees(table, rng, n)
    text = "\n".join("ty " + t.tokens() for t in trees) + "\n"
    rc, model, err = core.run_model(text)
    if rc != 0 or len(model) != len(trees):
        chk.fail("model driver failed on the typing engine", {"stderr": err[-1000:]}, found=False)
        return
    res = compile_trees(trees)
    if res is None:
        chk.fail("prelude of the compositional spot check does not compile against the current headers", {}, found=False)
        return
    stats = {"trees": len(trees), "both_accept_same_type": 0, "both_reject": 0, "model_accepts_compiler_rejects": 0,
             "compiler_accepts_model_rejects": 0, "type_differs": 0, "depth_hist": {}}
    gaps = []
    for t, m, (v, code, msg) in zip(trees, model, res):
        d = t.depth()
        stats["depth_hist"][d] = stats["depth_hist"].get(d, 0) + 1
        fixed_plain = (not t.rule.startswith("bin")) and tt.UN[t.rule][1] == "plain"
        obs = None
        if v == "accept":
            obs = (0, 13) if fixed_plain else ((8, 13) if code is None else (code // 100, code % 100))
        # does a wrapped subtree reach the root without a declassifier at the root?  (sub-trees are typed by the model)
        sub_models = []
        if m == "none":
            if v == "reject":
                stats["both_reject"] += 1
                continue
            stats["compiler_accepts_model_rejects"] += 1
            # property failure only if a plain value came out of wrapped operands through a non-declassifying root
            sub_text = "\n".join("ty " + a.tokens() for a in t.args) + "\n"
            _, subs, _ = core.run_model(sub_text)
            sub_ty = []
            tainted = False
            for s in subs:
                mm = re.fullmatch(r"some (\d+) (\d+) taint=(\d)", s)
                if mm:
                    sub_ty.append((int(mm.group(1)), int(mm.group(2))))
                    tainted = tainted or mm.group(3) == "1"
            if obs[0] == 0 and tainted and len(sub_ty) == len(t.args) and not declass(t.rule, sub_ty):
                chk.fail(f"a composite expression compiles to a PLAIN value from wrapped operands through `{t.rule}`",
                         {"translation_unit": tree_tu(t), "tree": t.tokens(), "observed_result": obs}, found=True)
            elif len(gaps) < 8:
                gaps.append({"tree": t.tokens(), "tu": tree_tu(t), "observed": obs, "kind": "compiler accepts, table model has no row (value category / composite-only form)"})
            continue
        mm = re.fullmatch(r"some (\d+) (\d+) taint=(\d)", m)
        mt = (int(mm.group(1)), int(mm.group(2)))
        if v == "reject":
            stats["model_accepts_compiler_rejects"] += 1       # safe direction (e.g. an rvalue where the row used an lvalue)
            if len(gaps) < 8:
                gaps.append({"tree": t.tokens(), "tu": tree_tu(t), "error": msg, "kind": "model accepts, compiler rejects (safe direction)"})
            continue
        if obs == mt or (mt[0] == 8 and obs[0] == 8):
            stats["both_accept_same_type"] += 1
        else:
            stats["type_differs"] += 1
            if obs[0] == 0 and mt[0] != 0 and mm.group(3) == "1":
                chk.fail(f"a composite expression the model types as wrapped compiles to a PLAIN value (`{t.rule}` at the root)",
                         {"translation_unit": tree_tu(t), "tree": t.tokens(), "model": mt, "observed_result": obs}, found=True)
            elif len(gaps) < 8:
                gaps.append({"tree": t.tokens(), "tu": tree_tu(t), "model": mt, "observed": obs, "kind": "result type differs"})
    chk.cov["compositional_spot_check"] = stats
    chk.cov["compositional_gaps_sample"] = gaps
    chk.cov["evaluations"] += len(trees)
