-- Root of the `RlboxModel` library.
import RlboxModel.IntConv
import RlboxModel.Props.C06
