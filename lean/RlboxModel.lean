-- Root of the `RlboxModel` library.
import RlboxModel.Generated
import RlboxModel.IntConv
import RlboxModel.Layout
import RlboxModel.Ptr
import RlboxModel.Range
import RlboxModel.Tokens
import RlboxModel.Lemmas.Arith
import RlboxModel.Props.C05
import RlboxModel.Props.C06
import RlboxModel.Props.C10
import RlboxModel.Props.C15
import RlboxModel.Props.C17
