import RlboxModel.Calls
/-!
# The per-thread record of the bundled backends (rlbox_noop_sandbox.hpp, rlbox_dylib_sandbox.hpp)

`Calls.lean` runs a call tree with the executing sandbox handed down as a parameter.  The bundled
backends have no such parameter: a callback trampoline is a plain C function, so the executing sandbox
and the entry point that was called travel through a *per-thread record*

    struct rlbox_noop_sandbox_thread_data { rlbox_noop_sandbox* sandbox; uint32_t last_callback_invoked; };

* `impl_invoke_with_func_ptr` saves `thread_data.sandbox`, sets it to `this`, and a scope-exit guard
  puts the saved value back (also on exceptional exit);
* `callback_trampoline<N>` writes `last_callback_invoked = N` and calls `thread_data.sandbox->callbacks[N]`
  (the interceptor);
* the interceptor obtains `(sandbox, key)` from `impl_get_executed_callback_sandbox_and_key()`, which reads
  `thread_data.sandbox` and `sandbox->callback_unique_keys[last_callback_invoked]`; it keeps both in
  locals for the rest of the call.

This file is that machine (`lrun*`), operating on the same call trees and emitting the same events.
`Props/C12.lean` proves that it refines the parameter-passing semantics of `Calls.lean` for every tree,
which is the statement "the callback receives a reference to the sandbox instance that is executing"
for the real mechanism.  The driver's `calls` engine runs *this* machine.  Core Lean only.
-/
namespace Rlbox

/-- the per-thread record: current sandbox (null at thread start) and last entry point called -/
structure Tls where
  cur : Option Nat
  last : Nat
deriving DecidableEq, Repr

def Tls.init : Tls := ⟨none, 0⟩

mutual
  /-- `INTERNAL_invoke_with_func_ptr` + `impl_invoke_with_func_ptr` -/
  def lrunInv (slots : SlotMap) (t : Tls) : Inv → Run × Tls
    | .mk sb arg fault cbs =>
      if fault = .argConv then
        -- argument conversion precedes `impl_invoke_with_func_ptr`: the record is not touched
        (⟨[.inI sb, .outI sb], true⟩, t)
      else
        let old := t.cur                                   -- auto old_sandbox = thread_data.sandbox;
        let r := lrunCbs slots { t with cur := some sb } cbs   -- thread_data.sandbox = this; (*func_ptr)(params...)
        let t' : Tls := { r.2 with cur := old }            -- scope exit: thread_data.sandbox = old_sandbox
        let pre := [Ev.inI sb, Ev.guest sb arg] ++ r.1.evs
        if r.1.exc then (⟨pre ++ [.outI sb], true⟩, t')
        else (⟨pre ++ [.outI sb, .appGot (arg + 1)], false⟩, t')
  def lrunCbs (slots : SlotMap) (t : Tls) : List Cb → Run × Tls
    | [] => (⟨[], false⟩, t)
    | c :: cs =>
      let r := lrunCb slots t c
      if r.1.exc then r
      else let rest := lrunCbs slots r.2 cs; (⟨r.1.evs ++ rest.1.evs, rest.1.exc⟩, rest.2)
  /-- `callback_trampoline<slot>` + `sandbox_callback_interceptor` -/
  def lrunCb (slots : SlotMap) (t : Tls) : Cb → Run × Tls
    | .mk slot arg ret fault invs =>
      let t1 : Tls := { t with last := slot }              -- thread_data.last_callback_invoked = N;
      match t1.cur with
      | none => (⟨[], true⟩, t1)                           -- no sandbox is executing on this thread: null dereference
      | some sb =>                                          -- auto sandbox = thread_data.sandbox;
        match slots sb t1.last with                         -- key = sandbox->callback_unique_keys[last_callback_invoked]
        | none => (⟨[], true⟩, t1)
        | some fn =>
          let r := lrunInvs slots t1 invs                   -- the registered function runs (it may invoke again)
          -- `sandbox` and `key` are locals of the interceptor: the closing notification uses them, not the record
          let pre := [Ev.outC sb fn, Ev.cbRun fn sb arg] ++ r.1.evs
          if r.1.exc ∨ fault = .body ∨ fault = .resultConv then (⟨pre ++ [.inC sb fn], true⟩, r.2)
          else (⟨pre ++ [.inC sb fn, .guestGot ret], false⟩, r.2)
  def lrunInvs (slots : SlotMap) (t : Tls) : List Inv → Run × Tls
    | [] => (⟨[], false⟩, t)
    | i :: is =>
      let r := lrunInv slots t i
      if r.1.exc then r
      else let rest := lrunInvs slots r.2 is; (⟨r.1.evs ++ rest.1.evs, rest.1.exc⟩, rest.2)
end

end Rlbox
