import RlboxModel.Mem
/-!
# Opaque wrappers and the three sandbox casts (rlbox_stdlib.hpp, rlbox.hpp)

* `to_opaque` / `from_opaque` reinterpret the same storage: identity on the bit image.
* `sandbox_static_cast<To>(x)`: `tainted<From> t = x` (for a tainted_volatile source: a load with
  ABI conversion, which may abort), then `static_cast<To>` of the underlying value, wrapped as
  `tainted<To>`.
* `sandbox_reinterpret_cast` / `sandbox_const_cast` on pointers: the same conversion to tainted
  first (for a tainted_volatile source: load of the guest representation translated relative to
  the cell), then the plain cast, which leaves the address unchanged.
Core Lean only.
-/
namespace Rlbox

/-- bit image of a value: identity (opaque wrappers hold a single `T`) -/
def toOpaque (img : List Nat) : List Nat := img
def fromOpaque (img : List Nat) : List Nat := img

/-- the integer source of a cast: a tainted value, or a tainted_volatile holding guest bits -/
inductive CastSrc
  | tainted (v : Int)
  | tvol (guestVal : Int)
deriving Repr

/-- `tainted<From> t = src` -/
def srcToTainted (abi : Abi) (fr : BaseTy) : CastSrc → Option Int
  | .tainted v => some v
  | .tvol g => toApplication abi fr g

/-- `sandbox_static_cast<To>` between integer types -/
def sandboxStaticCast (abi : Abi) (to fr : BaseTy) (src : CastSrc) : Option Int :=
  (srcToTainted abi fr src).map to.app.cast

/-- pointer source: an application address (tainted) or a cell at `cell` holding representation `rep` -/
inductive PtrSrc
  | tainted (addr : Nat)
  | tvol (cell rep : Nat)
deriving Repr

/-- `sandbox_reinterpret_cast<Dst*>` / `sandbox_const_cast<Dst*>`: designated address of the result -/
def sandboxPtrCast (k : Nat) : PtrSrc → Nat
  | .tainted a => a
  | .tvol cell rep => ptrLoad k cell rep

/-- `sandbox_static_cast` between pointers to classes related by inheritance: the plain `static_cast` on the underlying
pointer -- null stays null, otherwise the address moves by the offset of the base subobject (`delta`, negative for a
downcast); `sandbox_reinterpret_cast` is `delta = 0` -/
def staticCastClassPtr (delta : Int) (a : Nat) : Nat := if a = 0 then 0 else (a + delta).toNat

/-! ## Casts that involve a floating-point type

`static_cast` between an integer and a binary floating-point type is a *value* conversion: an integer becomes
the nearest representable value (round to nearest, ties to even -- the only rounding the harness runs under), a
floating-point value becomes the integer obtained by discarding the fraction (undefined when that is out of
range).  Values are exact dyadic rationals `num / 2^k`; exponent range is not modelled (the check stays inside
the normal range of every format). -/

/-- number of significant bits of `n` (0 for 0) -/
def bitLen (n : Nat) : Nat := if n = 0 then 0 else Nat.log2 n + 1

/-- `n` rounded to `p` significant bits, ties to even: ONE rounding of the exact value -/
def roundSig (p n : Nat) : Nat :=
  if bitLen n ≤ p then n else
    let sh := bitLen n - p
    let q := n / 2 ^ sh
    let r := n % 2 ^ sh
    let half := 2 ^ (sh - 1)
    (if r > half ∨ (r = half ∧ q % 2 = 1) then q + 1 else q) * 2 ^ sh

inductive FloatTy | float | double | ldouble
deriving DecidableEq, Repr

/-- significand precision: IEEE binary32, binary64, x87 extended -/
def FloatTy.prec : FloatTy → Nat
  | .float => 24 | .double => 53 | .ldouble => 64

/-- `static_cast<F>(v)` for an integer `v`: an integer-valued result -/
def intToFloat (f : FloatTy) (v : Int) : Int :=
  if v < 0 then -(roundSig f.prec v.natAbs : Int) else (roundSig f.prec v.natAbs : Int)

/-- `sandbox_static_cast<F>` of an integer source -/
def sandboxStaticCastIF (abi : Abi) (to : FloatTy) (fr : BaseTy) (src : CastSrc) : Option Int :=
  (srcToTainted abi fr src).map (intToFloat to)

/-- an exact floating-point value `num / 2^k` -/
structure Dy where
  num : Int
  k : Nat
deriving Repr

/-- `static_cast<F>(x)` for a floating-point `x` (a narrowing rounds once; a widening is exact) -/
def floatToFloat (to : FloatTy) (x : Dy) : Dy := ⟨intToFloat to x.num, x.k⟩

/-- the fraction discarded (toward zero) -/
def Dy.trunc (x : Dy) : Int :=
  if x.num < 0 then -((x.num.natAbs / 2 ^ x.k : Nat) : Int) else ((x.num.natAbs / 2 ^ x.k : Nat) : Int)

/-- `static_cast<I>(x)` for a floating-point `x`: the fraction is discarded; `none` = undefined behaviour (out of
range of `I`).  `bool` is the one exception: any non-zero value is `true`. -/
def floatToInt (to : BaseTy) (x : Dy) : Option Int :=
  if to = .bool then some (if x.num = 0 then 0 else 1) else
  if to.app.inRange x.trunc then some x.trunc else none

end Rlbox
