import RlboxModel.Mem
/-!
# Opaque wrappers and the three sandbox casts (rlbox_stdlib.hpp, rlbox.hpp)

* `to_opaque` / `from_opaque` reinterpret the same storage: identity on the bit image.
* `sandbox_static_cast<To>(x)`: `tainted<From> t = x` (for a tainted_volatile source: a load with
  ABI conversion, which may abort), then `static_cast<To>` of the underlying value, wrapped as
  `tainted<To>`.
* `sandbox_reinterpret_cast` / `sandbox_const_cast` on pointers: the same conversion to tainted
  first (for a tainted_volatile source: load of the guest representation translated relative to
  the cell), then the plain cast, which leaves the address unchanged.
Core Lean only.
-/
namespace Rlbox

/-- bit image of a value: identity (opaque wrappers hold a single `T`) -/
def toOpaque (img : List Nat) : List Nat := img
def fromOpaque (img : List Nat) : List Nat := img

/-- the integer source of a cast: a tainted value, or a tainted_volatile holding guest bits -/
inductive CastSrc
  | tainted (v : Int)
  | tvol (guestVal : Int)
deriving Repr

/-- `tainted<From> t = src` -/
def srcToTainted (abi : Abi) (fr : BaseTy) : CastSrc → Option Int
  | .tainted v => some v
  | .tvol g => toApplication abi fr g

/-- `sandbox_static_cast<To>` between integer types -/
def sandboxStaticCast (abi : Abi) (to fr : BaseTy) (src : CastSrc) : Option Int :=
  (srcToTainted abi fr src).map to.app.cast

/-- pointer source: an application address (tainted) or a cell at `cell` holding representation `rep` -/
inductive PtrSrc
  | tainted (addr : Nat)
  | tvol (cell rep : Nat)
deriving Repr

/-- `sandbox_reinterpret_cast<Dst*>` / `sandbox_const_cast<Dst*>`: designated address of the result -/
def sandboxPtrCast (k : Nat) : PtrSrc → Nat
  | .tainted a => a
  | .tvol cell rep => ptrLoad k cell rep

end Rlbox
