import RlboxModel.Mem
/-!
# Pointer-producing operations on tainted pointers (C03)

One step per way the application can derive a new tainted data pointer from an existing one.
Addresses only; types do not matter for membership.
-/
namespace Rlbox

inductive POp
  | arith (f : ArithForm) (n : Int) (s : Nat)   -- `p + n`, `p - n`, `&p[n]` (stride `s`)
  | load (rep : Nat)       -- `tainted<T*> q = *pp`: the cell designated by `p` holds guest bits `rep`
  | addrOf                 -- `&*p`, `&tv`
  | cast                   -- sandbox_reinterpret_cast / const_cast / static_cast, to_opaque ∘ from_opaque
  | field (off size : Nat) -- `&(p->f)`: offset `off` inside an aggregate of `size` bytes at `p`
  | elem (i : Int) (n stride : Nat) -- `&(*pa)[i]` for `pa : T(*)[n]`: bounds-checked index (C17), then designation
deriving Repr

/-- what the code computes -/
def stepPtr (k : Nat) (p : Nat) : POp → Option Nat
  | .arith f n s => ptrArith k f p n s
  | .load rep => if p = 0 then none else some (ptrLoad k p rep)   -- dereferencing null faults
  | .addrOf => some p
  | .cast => some p
  | .field off _ => some ((p + off) % W64)                        -- no check in the code
  | .elem i n stride => if 0 ≤ i ∧ i < n then some ((p + i.toNat * stride) % W64) else none   -- index check only

/-- the designation is of a member of an aggregate that lies wholly inside the region -/
def fieldOk (r : Region) (p : Nat) : POp → Prop
  | .field off size => p ≠ 0 ∧ off < size ∧ p + size ≤ r.base + 2 ^ r.k
  | .elem _ n stride => p ≠ 0 ∧ 0 < stride ∧ p + n * stride ≤ r.base + 2 ^ r.k
  | _ => True

def runPtr (k : Nat) : Nat → List POp → Option Nat
  | p, [] => some p
  | p, op :: ops => (stepPtr k p op).bind fun q => runPtr k q ops

/-- every designation step along the run is of a wholly-inside aggregate -/
def runOk (r : Region) : Nat → List POp → Prop
  | _, [] => True
  | p, op :: ops => fieldOk r p op ∧ match stepPtr r.k p op with | some q => runOk r q ops | none => True

end Rlbox
