import RlboxModel.Mem
/-!
# Pointer-producing operations on tainted pointers (C03)

One step per way the application can derive a new tainted data pointer from an existing one.
Addresses only; types do not matter for membership.
-/
namespace Rlbox

inductive POp
  | arith (f : ArithForm) (n : Int) (s : Nat)   -- `p + n`, `p - n`, `&p[n]` (stride `s`)
  | load (rep : Nat)       -- `tainted<T*> q = *pp`: the cell designated by `p` holds guest bits `rep`
  | addrOf                 -- `&*p`, `&tv`
  | cast                   -- sandbox_reinterpret_cast / const_cast / static_cast, to_opaque ∘ from_opaque
  | field (off size : Nat) -- `&(p->f)`: offset `off` inside an aggregate of `size` bytes at `p`
  | elem (i : Int) (n stride : Nat) -- `&(*pa)[i]` for `pa : T(*)[n]`: bounds-checked index (C17), then designation
deriving Repr

/-- what the code computes -/
def stepPtr (k : Nat) (p : Nat) : POp → Option Nat
  | .arith f n s => ptrArith k f p n s
  | .load rep => if p = 0 then none else some (ptrLoad k p rep)   -- dereferencing null faults
  | .addrOf => some p
  | .cast => some p
  | .field off _ => some ((p + off) % W64)                        -- no check in the code
  | .elem i n stride => if 0 ≤ i ∧ i < n then some ((p + i.toNat * stride) % W64) else none   -- index check only

/-- the designation is of a member of an aggregate that lies wholly inside the region -/
def fieldOk (r : Region) (p : Nat) : POp → Prop
  | .field off size => p ≠ 0 ∧ off < size ∧ p + size ≤ r.base + 2 ^ r.k
  | .elem _ n stride => p ≠ 0 ∧ 0 < stride ∧ p + n * stride ≤ r.base + 2 ^ r.k
  | _ => True

def runPtr (k : Nat) : Nat → List POp → Option Nat
  | p, [] => some p
  | p, op :: ops => (stepPtr k p op).bind fun q => runPtr k q ops

/-- every designation step along the run is of a wholly-inside aggregate -/
def runOk (r : Region) : Nat → List POp → Prop
  | _, [] => True
  | p, op :: ops => fieldOk r p op ∧ match stepPtr r.k p op with | some q => runOk r q ops | none => True

/-- `malloc_in_sandbox<T>(count)` with an untrusted allocator and a backend that does not clamp: the
allocator (guest code) returns the representation `v`, the backend turns a non-null `v` into the
address `base + v` -- possibly outside the region.  As coded: `count = 0` aborts; a null result is
passed on; otherwise the address must lie in the sandbox's memory and the last element must be in
the same sandbox as the first (`uintptr_t` arithmetic, mod 2^64). `size` is `sizeof(T)`. -/
def mallocIn (s : Sbx) (v count size : Nat) : Option Nat :=
  if count = 0 then none else
  if v = 0 then some 0 else
  let p := s.region.base + v
  if ¬ s.region.contains p then none else
  let e := (p + (count - 1) * size) % W64
  if sameSbx s.region.k p e then some p else none

end Rlbox
