import RlboxModel.Typing
import RlboxModel.GeneratedTyping
/-!
# Which steps may declassify (C01's specification of the named unwrappers), over the regenerated table
-/
namespace Rlbox.C01
open Rlbox Rlbox.Typing

def tab : Table := GeneratedTyping.accepted
def ruleName (r : Nat) : String := GeneratedTyping.ruleNames.getD r "?"

/-- the explicitly named unwrapping calls (C01's list, plus the public-but-internal
`INTERNAL_unverified_safe` which is an explicit named call of the same family) -/
def unwrappers : List String :=
  ["m_unverified", "m_sandboxed", "m_safe_because", "m_safe_ptr_because", "m_internal",
   "m_cav", "m_cav_addr", "m_cav_range", "m_cav_string", "m_cav_buf"]

/-- the contexts that test a value for null/truth -/
def nullTests : List String :=
  ["if", "while", "tern", "init_bool", "arg_bool", "scast_bool", "lnot", "eq_null", "ne_null", "bin==", "bin!=", "bin="]

/-- type kinds that are pointers (object, void, char, pointer-to-pointer, function, struct pointer) -/
def isPtrKind (k : Nat) : Bool := k == 6 || k == 7 || k == 8 || k == 9 || k == 10 || k == 12
def isNullK (k : Nat) : Bool := k == 15

/-- steps allowed to yield a plain value from a wrapped operand:
* a named unwrapper;
* a null test of a `tainted` (application-memory) POINTER: `if (p)`, `!p`, `p == nullptr`, `bool b = p`, ...;
* `is_unregistered()` of an owner object (registration state, not sandbox data). -/
def declass : Declass := fun rule ops =>
  let n := ruleName rule
  unwrappers.contains n ||
  (n == "m_is_unreg") ||
  (nullTests.contains n &&
    (match ops with
     | [(w, k)] => w == wTainted && isPtrKind k
     | [(w1, k1), (w2, k2)] =>
         (w1 == wTainted && isPtrKind k1 && w2 == wPlain && isNullK k2) ||      -- p == nullptr, p != nullptr
         (n == "bin=" && w1 == wPlain && k1 == 1 && w2 == wTainted && isPtrKind k2)  -- bool b; b = p
     | _ => false))

end Rlbox.C01
