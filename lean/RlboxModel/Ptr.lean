import RlboxModel.IntConv
/-!
# Addresses, regions, pointer arithmetic, range checks, array indexing

Models of `BinaryOpValAndPtr` / pointer `operator[]` (rlbox.hpp), of
`check_range_doesnt_cross_app_sbx_boundary` (rlbox_range.hpp) and of the array branch of
`operator[]`.  Machine arithmetic on `uintptr_t`/`size_t` is explicit `% 2^64` on `Nat`.
Core Lean only.
-/
namespace Rlbox

def W64 : Nat := 2 ^ 64

/-- A sandbox memory region of the mask-based backends: `2^k` bytes at a `2^k`-aligned base. -/
structure Region where
  k    : Nat
  base : Nat
deriving DecidableEq, Repr, Inhabited

def Region.size (r : Region) : Nat := 2 ^ r.k
/-- aligned, non-null, inside the 64-bit address space -/
def Region.wf (r : Region) : Prop := r.base % 2 ^ r.k = 0 ∧ 0 < r.base ∧ r.base + 2 ^ r.k ≤ W64
def Region.contains (r : Region) (a : Nat) : Prop := r.base ≤ a ∧ a < r.base + 2 ^ r.k
instance (r : Region) (a : Nat) : Decidable (r.contains a) := by unfold Region.contains; exact inferInstance

/-- `impl_is_in_same_sandbox(p1, p2)` of the mask-based backends: equal high bits -/
def sameSbx (k a b : Nat) : Bool := a / 2 ^ k == b / 2 ^ k

/-- which arithmetic form (`+`, `-` and `[]`; all three abort on a null base) -/
inductive ArithForm | add | sub | index
deriving DecidableEq, Repr

/-- `uintptr_t(ptr) op raw_rhs * sizeof(*impl())` followed by the `is_in_same_sandbox` check,
exactly as coded: `raw_rhs` is converted to `size_t` (mod 2^64), the product and the sum wrap
mod 2^64.  `s` is `sizeof(tainted_volatile<T>)`, the guest size of the pointee. -/
def ptrArithCore (k : Nat) (f : ArithForm) (p : Nat) (n : Int) (s : Nat) : Option Nat :=
  if p = 0 then none else
  let nU : Nat := (n % (W64 : Int)).toNat
  let d : Nat := (nU * s) % W64
  let t : Nat := if f = .sub then (p + W64 - d) % W64 else (p + d) % W64
  if sameSbx k p t then some t else none

/-- `detail::check_pointer_offset(raw_rhs, sizeof)`: `|raw_rhs| <= (UINTPTR_MAX / 2) / sizeof` -/
def offsetOk (n : Int) (s : Nat) : Bool := decide (n.natAbs ≤ ((W64 - 1) / 2) / s)

/-- tainted pointer arithmetic as coded: null check, offset magnitude check, wrapped arithmetic,
same-sandbox check -/
def ptrArith (k : Nat) (f : ArithForm) (p : Nat) (n : Int) (s : Nat) : Option Nat :=
  if offsetOk n s then ptrArithCore k f p n s else none

/-- the exact (mathematical) target address -/
def exactTarget (f : ArithForm) (p : Nat) (n : Int) (s : Nat) : Int :=
  if f = .sub then (p : Int) - n * s else (p : Int) + n * s

/-- the ten source forms of C05 -/
inductive PtrForm | add | sub | addEq | subEq | preInc | postInc | preDec | postDec | idx | addrIdx
deriving DecidableEq, Repr

/-- Each form as rlbox defines it: compound assignment, `++`/`--` through `+`/`-` and the wrapper's
assignment (`this_ref = this_ref op rhs`), post-forms return the old value, `p[n]`/`&p[n]` through
the index arithmetic.  Result: (value of the expression, new value of `p`). -/
def ptrForm (k : Nat) (form : PtrForm) (p : Nat) (n : Int) (s : Nat) : Option (Nat × Nat) :=
  match form with
  | .add     => (ptrArith k .add p n s).map fun t => (t, p)
  | .sub     => (ptrArith k .sub p n s).map fun t => (t, p)
  | .addEq   => (ptrArith k .add p n s).map fun t => (t, t)
  | .subEq   => (ptrArith k .sub p n s).map fun t => (t, t)
  | .preInc  => (ptrArith k .add p 1 s).map fun t => (t, t)
  | .postInc => (ptrArith k .add p 1 s).map fun t => (p, t)
  | .preDec  => (ptrArith k .sub p 1 s).map fun t => (t, t)
  | .postDec => (ptrArith k .sub p 1 s).map fun t => (p, t)
  | .idx     => (ptrArith k .index p n s).map fun t => (t, p)
  | .addrIdx => (ptrArith k .index p n s).map fun t => (t, p)

/-! ## `check_range_doesnt_cross_app_sbx_boundary` -/

/-- start non-null, the last byte `(start + size - 1) mod 2^64` does not precede the first (no
wrap-around; skipped for an empty range) and lies in the same sandbox as the first -/
def checkRange (k p size : Nat) : Bool :=
  let e := (p + size + W64 - 1) % W64
  p != 0 && (size == 0 || decide (p ≤ e)) && sameSbx k p e

/-! ## Array branch of `operator[]` -/

/-- `raw_rhs >= 0 && static_cast<make_unsigned_t<T>>(raw_rhs) < extent` -/
def indexOk (idx : IntTy) (v : Int) (n : Nat) : Bool :=
  decide (v ≥ 0) && decide (idx.toUnsigned.cast v < n)

/-- element designated: `&data[raw_rhs]` at `stride` bytes per element (application element size
for `tainted<T[N]>`, guest element size for `tainted_volatile<T[N]>`) -/
def indexArr (idx : IntTy) (v : Int) (n stride base : Nat) : Option Nat :=
  if indexOk idx v n then some (base + v.toNat * stride) else none

/-- extent product of the inner dimensions: `T[n1][n2]...[nk]` steps by `n2*...*nk` elements in dimension 1 -/
def dimsProd : List Nat → Nat
  | [] => 1
  | n :: ns => n * dimsProd ns

/-- arrays of any rank: `operator[]` is applied once per dimension, each application checked against ITS
extent (`std::extent_v<T, 0>` of the array type at that level) and stepping by whole sub-arrays -/
def indexMulti (idx : IntTy) : List Int → List Nat → Nat → Nat → Option Nat
  | [], [], _, base => some base
  | i :: is, n :: ns, s, base =>
      (indexArr idx i n (dimsProd ns * s) base).bind fun r => indexMulti idx is ns s r
  | _, _, _, _ => none

/-- row-major flat index of an index vector -/
def flatIdx : List Int → List Nat → Nat
  | i :: is, _ :: ns => i.toNat * dimsProd ns + flatIdx is ns
  | _, _ => 0

/-- every index lies inside its own dimension (and the ranks agree) -/
def allInside : List Int → List Nat → Prop
  | [], [] => True
  | i :: is, n :: ns => (0 ≤ i ∧ i < (n : Int)) ∧ allInside is ns
  | _, _ => False

end Rlbox
