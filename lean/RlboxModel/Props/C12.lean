import RlboxModel.Props.C19
import RlboxModel.Props.C13
import RlboxModel.Lemmas.TlsLemmas
/-!
# C12 — A callback call runs exactly the registered function with faithful arguments
Property theorems only.
-/
namespace Rlbox.C12
open Rlbox

/-- When guest code running in sandbox `sb` calls entry point `slot`, the application function
registered for that entry point -- and no other -- runs next, exactly once at this node, with a
reference to the executing sandbox and with the guest's argument. -/
theorem C12_dispatch (slots : SlotMap) (sb slot fn : Nat) (arg ret : Int) (fault : Fault) (invs : List Inv)
    (h : slots sb slot = some fn) :
    ∃ rest, (runCb slots sb (.mk slot arg ret fault invs)).evs = Ev.outC sb fn :: Ev.cbRun fn sb arg :: rest ∧
      rest = (runInvs slots invs).evs ++ [Ev.inC sb fn] ++
        (if (runInvs slots invs).exc ∨ fault = .body ∨ fault = .resultConv then [] else [Ev.guestGot ret]) := by
  unfold runCb
  simp only [h]
  split
  · rename_i hc; exact ⟨(runInvs slots invs).evs ++ [Ev.inC sb fn], by simp, by simp [hc]⟩
  · rename_i hc; exact ⟨(runInvs slots invs).evs ++ [Ev.inC sb fn, Ev.guestGot ret], by simp, by simp [hc]⟩

/-- The callback's result reaches guest code exactly when nothing faulted. -/
theorem C12_result (slots : SlotMap) (sb slot fn : Nat) (arg ret : Int) (invs : List Inv)
    (h : slots sb slot = some fn) (hb : (runInvs slots invs).exc = false) :
    (runCb slots sb (.mk slot arg ret .none invs)).exc = false ∧
    Ev.guestGot ret ∈ (runCb slots sb (.mk slot arg ret .none invs)).evs := by
  unfold runCb
  simp [h, hb]

/-- For nested invoke/callback/invoke chains of any depth, across any sandboxes: every callback
execution in the whole trace receives the sandbox that is executing at that moment and is the
function announced for its entry point, every guest function runs with its own sandbox as the
executing one (`nests` checks `cbRun`/`guest` events against the innermost frame). -/
theorem C12_executing_sandbox (slots : SlotMap) (is : List Inv) : nests [] (runInvs slots is).evs :=
  C19.C19_bracketed slots is

/-- After any history of registrations and unregistrations (C13 invariant), the function behind an
occupied entry point is one that an owner object holds through a registration made in the sandbox's
current incarnation -- and only such functions are reachable. -/
theorem C12_dispatch_after_history (w : World) (hi : C13.Inv w) (i k f : Nat) (hk : k < w.max)
    (h : (w.sbx i).slots k = some f) : ∃ o, C13.holdsLive w o i f :=
  have hkeys := (hi.keysSlots i f).2 ⟨k, hk, h⟩
  let ⟨o, ho⟩ := (hi.keysOwned i f).1 hkeys
  ⟨o, ho, hi.keysCreated i f hkeys⟩

theorem C12_owned_is_reachable (w : World) (hi : C13.Inv w) (i o f : Nat) (h : C13.holdsLive w o i f) :
    ∃ k, k < w.max ∧ (w.sbx i).slots k = some f :=
  (hi.keysSlots i f).1 ((hi.keysOwned i f).2 ⟨o, h.1⟩)

/-- Source fact regenerated on every run: the thread-local record of both bundled backends is declared
`thread_local`.  (The dylib backend's callback machinery is no longer compared textually with the noop
backend's: it is executed by the `calls` engine with a dlopen'ed guest library.) -/
theorem backends_thread_data_is_thread_local : Generated.threadDataThreadLocal = true := by decide

/-- **The real mechanism refines the specification.**  The bundled backends do not pass the executing
sandbox to a callback: the trampoline and the interceptor read it from the per-thread record that
`impl_invoke_with_func_ptr` sets and a scope-exit guard restores (`Tls.lean`).  For every call tree --
any depth, any width, any sandboxes, a fault anywhere -- and every initial content of the record, that
machine produces exactly the events of the parameter-passing semantics, and leaves
`thread_data.sandbox` as it found it (so the statement composes over any number of invocations on one
thread). -/
theorem C12_tls_refines (slots : SlotMap) (is : List Inv) (t : Tls) :
    (lrunInvs slots t is).1 = runInvs slots is ∧ (lrunInvs slots t is).2.cur = t.cur :=
  TlsLemmas.tls_invs slots is t

/-- Consequently, in the real mechanism too, every callback execution receives the sandbox that is
executing at that moment and is the function registered for the entry point that was called. -/
theorem C12_tls_executing_sandbox (slots : SlotMap) (is : List Inv) (t : Tls) :
    nests [] (lrunInvs slots t is).1.evs := by
  rw [(C12_tls_refines slots is t).1]; exact C12_executing_sandbox slots is

/-- ... and while guest code of sandbox `sb` runs (the record says `sb`), a call of entry point `slot`
dispatches on `sb`'s table at `slot`, whatever the record's `last_callback_invoked` was before. -/
theorem C12_tls_dispatch (slots : SlotMap) (sb : Nat) (c : Cb) (t : Tls) (h : t.cur = some sb) :
    (lrunCb slots t c).1 = runCb slots sb c ∧ (lrunCb slots t c).2.cur = some sb :=
  TlsLemmas.tls_cb slots sb c t h

/-- non-vacuity: sandbox 0's guest calls a callback whose body invokes sandbox 1 (which calls a callback
of its own); afterwards sandbox 0's guest calls a second callback -- it must still see sandbox 0, which
is exactly what the scope-exit restore provides -/
example :
    let slots : SlotMap := fun sb k => if sb = 0 then some (10 + k) else some (20 + k)
    ((lrunInvs slots Tls.init [.mk 0 5 .none [.mk 1 7 70 .none [.mk 1 9 .none [.mk 0 3 30 .none []]], .mk 2 8 80 .none []]]).1.evs.filter
      (fun e => match e with | .cbRun _ _ _ => true | _ => false) = [.cbRun 11 0 7, .cbRun 20 1 3, .cbRun 12 0 8]) ∧
    (lrunInvs slots Tls.init [.mk 0 5 .none [.mk 1 7 70 .body [.mk 1 9 .none []]]]).2.cur = none := by decide

example :
    let slots : SlotMap := fun sb k => if sb = 0 ∧ k = 1 then some 2 else if sb = 1 ∧ k = 0 then some 0 else none
    (runInvs slots [.mk 0 5 .none [.mk 1 7 70 .none [.mk 1 9 .none [.mk 0 3 30 .none []]]]]).evs.filter
      (fun e => match e with | .cbRun _ _ _ => true | _ => false) = [.cbRun 2 0 7, .cbRun 0 1 3] := by decide

end Rlbox.C12
