import RlboxModel.Props.C03
import RlboxModel.Range
import RlboxModel.Lemmas.Arith
/-!
# C10 — Bulk memory operations never straddle or leave the sandbox
Property theorems only.
-/
namespace Rlbox.C10
open Rlbox

/-- every byte of `[p, p+n)` lies in the same `2^k`-aligned block as `p` -/
def OneBlock (k p n : Nat) : Prop := ∀ a, p ≤ a → a < p + n → a / 2 ^ k = p / 2 ^ k

/-- Soundness of the range check: a checked non-empty range does not wrap around the address
space and lies wholly in one block -- hence wholly inside one sandbox region or wholly outside
every region. For every start and every extent a `size_t` can hold. -/
theorem C10_sound (k p n : Nat) (hp : p < W64) (hn : 0 < n) (hn2 : n < W64)
    (h : checkRange k p n = true) : p + n ≤ W64 ∧ OneBlock k p n := by
  have hM := two_pow_pos k
  unfold checkRange sameSbx at h
  simp only [Bool.and_eq_true, bne_iff_ne, ne_eq, beq_iff_eq, Bool.or_eq_true, decide_eq_true_eq] at h
  obtain ⟨⟨h0, hw0⟩, h1⟩ := h
  have hw1 : p ≤ (p + n + W64 - 1) % W64 := by
    rcases hw0 with hz | hz
    · omega
    · exact hz
  unfold OneBlock
  generalize 2 ^ k = M at *
  have hw : p + n ≤ W64 := by unfold W64 at *; omega
  refine ⟨hw, fun a ha1 ha2 => ?_⟩
  have he : (p + n + W64 - 1) % W64 = p + n - 1 := by unfold W64 at *; omega
  rw [he] at h1
  have hq := Nat.div_add_mod p M
  have hr := Nat.mod_lt p hM
  generalize hQ : p / M = q at *
  have hE := (Nat.div_eq_iff hM).1 h1.symm
  have hqm : M * q = q * M := Nat.mul_comm _ _
  rw [Nat.div_eq_iff hM]
  omega

/-- inside a region: the checked range lies wholly inside that region -/
theorem C10_sound_region (r : Region) (hr : r.wf) (p n : Nat) (hp : r.contains p) (hn : 0 < n)
    (hn2 : n < W64) (h : checkRange r.k p n = true) :
    ∀ a, p ≤ a → a < p + n → r.contains a := by
  have hwf := hr
  obtain ⟨_, _, hb⟩ := hr
  have hpw : p < W64 := by unfold Region.contains at hp; omega
  have := C10_sound r.k p n hpw hn hn2 h
  intro a ha1 ha2
  have hs := this.2 a ha1 ha2
  exact (sameSbx_iff_contains r hwf p a hp).1 (by simp [sameSbx, hs])

/-- outside a region: the checked range never touches that region -/
theorem C10_sound_outside (r : Region) (hr : r.wf) (p n : Nat) (hp : ¬ r.contains p) (hpw : p < W64)
    (hn : 0 < n) (hn2 : n < W64) (h : checkRange r.k p n = true) :
    ∀ a, p ≤ a → a < p + n → ¬ r.contains a := by
  have hwf := hr
  have := C10_sound r.k p n hpw hn hn2 h
  intro a ha1 ha2 hc
  have hs := this.2 a ha1 ha2
  have : sameSbx r.k a p = true := by simp [sameSbx, hs]
  exact hp ((sameSbx_iff_contains r hwf a p hc).1 this)

/-- Completeness: a non-empty range with a non-null start that lies in one block passes. -/
theorem C10_complete (k p n : Nat) (h0 : p ≠ 0) (hn : 0 < n) (hw : p + n ≤ W64)
    (hb : (p + n - 1) / 2 ^ k = p / 2 ^ k) : checkRange k p n = true := by
  unfold checkRange sameSbx
  have he : (p + n + W64 - 1) % W64 = p + n - 1 := by unfold W64 at *; omega
  have hle : p ≤ p + n - 1 := by omega
  simp [he, hb, h0, hle]

/-- ... in particular every non-empty range inside a region -/
theorem C10_complete_region (r : Region) (hr : r.wf) (p n : Nat) (hn : 0 < n)
    (h1 : r.contains p) (h2 : p + n ≤ r.base + 2 ^ r.k) : checkRange r.k p n = true := by
  have hwf := hr
  obtain ⟨_, hb0, hb⟩ := hr
  unfold Region.contains at h1
  apply C10_complete r.k p n (by omega) hn (by omega)
  have hc : r.contains (p + n - 1) := by unfold Region.contains; omega
  have := (sameSbx_iff_contains r hwf p (p + n - 1) (by unfold Region.contains; omega)).2 hc
  simp only [sameSbx, beq_iff_eq] at this
  exact this.symm

/-- Each bulk operation either aborts or touches exactly the ranges it was given, each of which is
non-wrapping and lies in one block. (`total = 2^k` for the mask-based backends.) -/
theorem C10_ops_memset (k dst n : Nat) (rs : List (Nat × Nat)) (hk : k < 64) (hd : dst < W64) (hn : 0 < n)
    (h : memsetOp k (2 ^ k) dst n = some rs) : rs = [(dst, n)] ∧ dst + n ≤ W64 ∧ OneBlock k dst n := by
  unfold memsetOp at h
  split at h
  · rename_i hc
    have hM : 2 ^ k ≤ 2 ^ 63 := Nat.pow_le_pow_right (by decide) (by omega)
    have := C10_sound k dst n hd hn (by unfold W64; omega) hc.2
    cases h; exact ⟨rfl, this⟩
  · cases h

theorem C10_ops_memcpy (k dst src n : Nat) (rs : List (Nat × Nat)) (hk : k < 64) (hd : dst < W64) (hs : src < W64)
    (hn : 0 < n) (h : memcpyOp k (2 ^ k) dst src n = some rs) :
    rs = [(dst, n), (src, n)] ∧ OneBlock k dst n ∧ OneBlock k src n ∧ dst + n ≤ W64 ∧ src + n ≤ W64 := by
  unfold memcpyOp at h
  split at h
  · rename_i hc
    have hM : 2 ^ k ≤ 2 ^ 63 := Nat.pow_le_pow_right (by decide) (by omega)
    have h1 := C10_sound k dst n hd hn (by unfold W64; omega) hc.2.1
    have h2 := C10_sound k src n hs hn (by unfold W64; omega) hc.2.2
    cases h; exact ⟨rfl, h1.2, h2.2, h1.1, h2.1⟩
  · cases h

/-- extents larger than the sandbox never proceed; null starts never proceed -/
theorem C10_too_large (k dst n : Nat) (h : 2 ^ k < n) : memsetOp k (2 ^ k) dst n = none := by
  unfold memsetOp; simp; omega
theorem C10_null_start (k n total : Nat) : memsetOp k total 0 n = none ∧ ∀ s, memcpyOp k total 0 s n = none ∧ memcpyOp k total s 0 n = none := by
  simp [memsetOp, memcpyOp, checkRange]

/-- Element-counted variants (`copy_and_verify_range`, `copy_and_verify_string`,
`copy_and_verify_buffer_address`, the copy path of `copy_memory_or_deny_access`): for every start,
every count and every element size, a returned non-null start really has `count` whole elements,
non-wrapping, in one block. No side condition: the product is checked for overflow and the range
check rejects wrap-around. -/
theorem C10_counted (k p count elSize q : Nat) (hp : p < W64) (hp0 : p ≠ 0) (he : 0 < elSize)
    (h : verifyRangeHelper k p count elSize = some q) :
    q = p ∧ 0 < count ∧ p + count * elSize ≤ W64 ∧ OneBlock k p (count * elSize) := by
  unfold verifyRangeHelper at h
  by_cases hc0 : count = 0
  · simp [hc0] at h
  · simp only [hc0, hp0, if_false] at h
    split at h
    · cases h
    · rename_i hov
      split at h
      · rename_i hcr
        have hlt : count * elSize < W64 := by
          have h1 : count ≤ (W64 - 1) / elSize := by omega
          have h2 := (Nat.le_div_iff_mul_le he).1 h1
          unfold W64 at *; omega
        have := C10_sound k p (count * elSize) hp (Nat.mul_pos (by omega) he) hlt hcr
        cases h; exact ⟨rfl, by omega, this.1, this.2⟩
      · cases h

/-- the same for `unverified_safe_pointer_because` -/
theorem C10_safe_pointer (k p count elSize q : Nat) (hp : p < W64) (hp0 : p ≠ 0) (he : 0 < elSize) (hc : 0 < count)
    (h : safePointerBecause k p count elSize = some q) :
    q = p ∧ p + elSize * count ≤ W64 ∧ OneBlock k p (elSize * count) := by
  unfold safePointerBecause at h
  simp only [hp0, if_false] at h
  split at h
  · cases h
  · split at h
    · rename_i hov hcr
      have hlt : elSize * count < W64 := by
        have h1 : count ≤ (W64 - 1) / elSize := by omega
        have h2 := (Nat.le_div_iff_mul_le he).1 h1
        rw [Nat.mul_comm]; unfold W64 at *; omega
      have := C10_sound k p (elSize * count) hp (Nat.mul_pos he hc) hlt hcr
      cases h; exact ⟨rfl, this.1, this.2⟩
    · cases h

/-- null starts never proceed with a copy; a zero count aborts -/
theorem C10_counted_null_zero (k p elSize : Nat) :
    verifyRangeHelper k p 0 elSize = none ∧ (∀ c, 0 < c → verifyRangeHelper k 0 c elSize = some 0) ∧
    (∀ c, 0 < c → denyAccessCopy k 0 c elSize = some none) := by
  refine ⟨by simp [verifyRangeHelper], fun c hc => ?_, fun c hc => ?_⟩
  · have : c ≠ 0 := by omega
    simp [verifyRangeHelper, this]
  · have : c ≠ 0 := by omega
    simp [denyAccessCopy, verifyRangeHelper, this]

/-- `copy_memory_or_grant_access` with an untrusted allocator behind a backend that does not clamp:
whatever representation `v` the allocator inside the sandbox returns, the copy proceeds only into a
destination range that lies wholly inside the sandbox's region (`mallocIn` admits the start,
`memcpyOp` range-checks the `n` bytes from it). -/
theorem C10_grant_untrusted_allocator (s : Sbx) (hs : C04.Sbx.wf s) (v count size d src n : Nat) (rs : List (Nat × Nat))
    (hd0 : d ≠ 0) (hn : 0 < n) (hn2 : n < W64)
    (hm : mallocIn s v count size = some d) (hc : memcpyOp s.region.k (2 ^ s.region.k) d src n = some rs) :
    ∀ a, d ≤ a → a < d + n → s.region.contains a := by
  have hin : s.region.contains d := by
    rcases C03.C03_malloc s hs v count size d hm with h | h
    · exact absurd h hd0
    · exact h.1
  unfold memcpyOp at hc
  split at hc
  · rename_i h
    exact C10_sound_region s.region hs.1 d n hin hn hn2 (by simpa using h.2.1)
  · cases hc

example : mallocIn ⟨⟨16, 0x6a0000000000⟩, 4⟩ 0x10040 32 1 = none := by decide

/-- regression witnesses of the repaired defects: the wrapping product and the wrapping range end
are now rejected -/
example : verifyRangeHelper 16 0x6a0000000010 (2 ^ 62 + 1) 4 = none := by decide
example : verifyRangeHelper 16 0x6a0000000064 (2 ^ 64 - 2) 1 = none := by decide
example : safePointerBecause 16 0x6a0000000001 (2 ^ 63) 8 = none := by decide
example : verifyRangeHelper 16 0x6a0000000064 4 4 = some 0x6a0000000064 := by decide

example : checkRange 16 0x6a000000fff0 16 = true ∧ checkRange 16 0x6a000000fff0 17 = false := by decide
example : memsetOp 16 (2 ^ 16) 0x6a0000000000 (2 ^ 16) = some [(0x6a0000000000, 2 ^ 16)] := by decide

/-- `copy_memory_or_deny_access` with `free_source_on_copy`: the application's copy holds exactly the source
bytes as they were at the call -- "carried out on exactly those bytes" -- whatever the sandbox's `free` then
writes into the block it gets back, and the sandbox memory afterwards is what `free` made of it. -/
theorem C10_deny_copy_before_free (mem : Nat → Nat) (free : (Nat → Nat) → (Nat → Nat)) (q n : Nat) (b : Bool) :
    (denyCopyMem mem free q n b).1.length = n ∧
    (∀ i, i < n → (denyCopyMem mem free q n b).1[i]? = some (mem (q + i))) ∧
    (denyCopyMem mem free q n b).2 = (if b then free mem else mem) := by
  refine ⟨by simp [denyCopyMem], fun i hi => ?_, rfl⟩
  simp [denyCopyMem, hi]

example : (denyCopyMem (fun a => a % 7) (fun _ _ => 0xDD) 100 4 true).1 = [2, 3, 4, 5] ∧
    (denyCopyMem (fun a => a % 7) (fun _ _ => 0xDD) 100 4 true).2 101 = 0xDD := by decide

end Rlbox.C10
