import RlboxModel.Lemmas.Arith
import RlboxModel.Layout
import RlboxModel.Generated
/-!
# C05 — Tainted pointer arithmetic stays in the sandbox and uses the sandbox stride
Property theorems only.
-/
namespace Rlbox.C05
open Rlbox

theorem core_inside (k : Nat) (f : ArithForm) (p : Nat) (n : Int) (s t : Nat)
    (h : ptrArithCore k f p n s = some t) : sameSbx k p t = true := by
  unfold ptrArithCore at h
  by_cases h0 : p = 0
  · simp [h0] at h
  · simp only [h0, if_false] at h
    by_cases hf : f = .sub
    · simp only [hf, if_true] at h
      split at h
      · rename_i hs; cases h; exact hs
      · cases h
    · simp only [hf, if_false] at h
      split at h
      · rename_i hs; cases h; exact hs
      · cases h

/-- Never leaves: whatever `p`, `n`, `s`, a result is in the same sandbox as `p` (unconditional). -/
theorem C05_inside (k : Nat) (f : ArithForm) (p : Nat) (n : Int) (s t : Nat)
    (h : ptrArith k f p n s = some t) : sameSbx k p t = true := by
  unfold ptrArith at h
  split at h
  · exact core_inside k f p n s t h
  · cases h

/-- ... and therefore inside `p`'s own region. -/
theorem C05_inside_region (r : Region) (hr : r.wf) (f : ArithForm) (p : Nat) (n : Int) (s t : Nat)
    (hp : r.contains p) (h : ptrArith r.k f p n s = some t) : r.contains t :=
  (sameSbx_iff_contains r hr p t hp).1 (C05_inside r.k f p n s t h)

/-- Adding to or subtracting from a null tainted pointer aborts. -/
theorem C05_null_aborts (k : Nat) (f : ArithForm) (n : Int) (s : Nat) :
    ptrArith k f 0 n s = none := by
  simp [ptrArith, ptrArithCore]

/-- What C05 demands: the exact address if it lies inside the sandbox, abort otherwise. -/
def Exact (r : Region) (f : ArithForm) (p : Nat) (n : Int) (s : Nat) : Prop :=
  let e := exactTarget f p n s
  ptrArith r.k f p n s = if (r.base : Int) ≤ e ∧ e < ((r.base + 2 ^ r.k : Nat) : Int) then some e.toNat else none

/-- Full-strength statement: for every non-null in-region `p`, every `n` an integer type can hold
and every stride. -/
def C05_full : Prop :=
  ∀ (r : Region) (f : ArithForm) (p : Nat) (n : Int) (s : Nat), r.wf → r.contains p → 0 < s →
    -(2 ^ 63 : Int) ≤ n → n < 2 ^ 64 → Exact r f p n s

/-- the wrapped arithmetic alone is exact whenever the offset `|n|*s` does not come within `2^k` of
`2^64` (the product or the sum would wrap around the address space otherwise) -/
def ExactCore (r : Region) (f : ArithForm) (p : Nat) (n : Int) (s : Nat) : Prop :=
  let e := exactTarget f p n s
  ptrArithCore r.k f p n s = if (r.base : Int) ≤ e ∧ e < ((r.base + 2 ^ r.k : Nat) : Int) then some e.toNat else none

theorem core_exact (r : Region) (f : ArithForm) (p : Nat) (n : Int) (s : Nat)
    (hr : r.wf) (hp : r.contains p) (hs : 0 < s)
    (hprod : n.natAbs * s + 2 ^ r.k ≤ W64) : ExactCore r f p n s := by
  unfold ExactCore
  have hwf := hr
  obtain ⟨_, hb0, hb1⟩ := hr
  have hpc := hp
  unfold Region.contains at hp
  have hM := two_pow_pos r.k
  have hp0 : p ≠ 0 := by omega
  have hna : n.natAbs ≤ n.natAbs * s := Nat.le_mul_of_pos_right _ hs
  -- the wrapped target
  simp only [ptrArithCore, hp0, if_false]
  -- characterise nU * s mod 2^64
  have key : ∀ t : Nat, (sameSbx r.k p t = true ↔ r.contains t) := fun t => sameSbx_iff_contains r hwf p t hpc
  by_cases hneg : n < 0
  · -- n < 0
    have hnU : (n % (W64 : Int)).toNat = W64 - n.natAbs := by unfold W64 at *; omega
    rw [hnU, neg_mul_mod64 _ _ (by omega)]
    have hE : n * (s : Int) = -((n.natAbs * s : Nat) : Int) := by
      have : n = -(n.natAbs : Int) := by omega
      rw [this]; simp [Int.neg_mul]
    unfold exactTarget
    rw [hE]
    generalize n.natAbs * s = D at *
    have hD : D % W64 = D := Nat.mod_eq_of_lt (by omega)
    rw [hD]
    by_cases hf : f = .sub
    · simp only [hf, if_true]
      have ht : (p + W64 - (W64 - D) % W64) % W64 = (p + D) % W64 := by unfold W64 at *; omega
      rw [ht]
      by_cases hin : r.contains ((p + D) % W64)
      · rw [if_pos ((key _).2 hin)]
        unfold Region.contains at hin
        generalize 2 ^ r.k = M at *
        unfold W64 at *
        rw [if_pos (by omega)]; congr 1; omega
      · have : sameSbx r.k p ((p + D) % W64) = false := by
          cases h : sameSbx r.k p ((p + D) % W64) with
          | false => rfl
          | true => exact absurd ((key _).1 h) hin
        rw [this]
        unfold Region.contains at hin
        generalize 2 ^ r.k = M at *
        unfold W64 at *
        simp only [Bool.false_eq_true, if_false]
        rw [if_neg (by omega)]
    · simp only [hf, if_false]
      have ht : (p + (W64 - D) % W64) % W64 = (p + W64 - D) % W64 := by unfold W64 at *; omega
      rw [ht]
      by_cases hin : r.contains ((p + W64 - D) % W64)
      · rw [if_pos ((key _).2 hin)]
        unfold Region.contains at hin
        generalize 2 ^ r.k = M at *
        unfold W64 at *
        rw [if_pos (by omega)]; congr 1; omega
      · have : sameSbx r.k p ((p + W64 - D) % W64) = false := by
          cases h : sameSbx r.k p ((p + W64 - D) % W64) with
          | false => rfl
          | true => exact absurd ((key _).1 h) hin
        rw [this]
        unfold Region.contains at hin
        generalize 2 ^ r.k = M at *
        unfold W64 at *
        simp only [Bool.false_eq_true, if_false]
        rw [if_neg (by omega)]
  · -- n ≥ 0
    have hpos : 0 ≤ n := by omega
    have hnU : (n % (W64 : Int)).toNat = n.natAbs := by unfold W64 at *; omega
    rw [hnU]
    have hE : n * (s : Int) = ((n.natAbs * s : Nat) : Int) := by
      have : n = (n.natAbs : Int) := by omega
      rw [this]; simp
    unfold exactTarget
    rw [hE]
    generalize n.natAbs * s = D at *
    have hD : D % W64 = D := Nat.mod_eq_of_lt (by omega)
    rw [hD]
    by_cases hf : f = .sub
    · simp only [hf, if_true]
      by_cases hin : r.contains ((p + W64 - D) % W64)
      · rw [if_pos ((key _).2 hin)]
        unfold Region.contains at hin
        generalize 2 ^ r.k = M at *
        unfold W64 at *
        rw [if_pos (by omega)]; congr 1; omega
      · have : sameSbx r.k p ((p + W64 - D) % W64) = false := by
          cases h : sameSbx r.k p ((p + W64 - D) % W64) with
          | false => rfl
          | true => exact absurd ((key _).1 h) hin
        rw [this]
        unfold Region.contains at hin
        generalize 2 ^ r.k = M at *
        unfold W64 at *
        simp only [Bool.false_eq_true, if_false]
        rw [if_neg (by omega)]
    · simp only [hf, if_false]
      by_cases hin : r.contains ((p + D) % W64)
      · rw [if_pos ((key _).2 hin)]
        unfold Region.contains at hin
        generalize 2 ^ r.k = M at *
        unfold W64 at *
        rw [if_pos (by omega)]; congr 1; omega
      · have : sameSbx r.k p ((p + D) % W64) = false := by
          cases h : sameSbx r.k p ((p + D) % W64) with
          | false => rfl
          | true => exact absurd ((key _).1 h) hin
        rw [this]
        unfold Region.contains at hin
        generalize 2 ^ r.k = M at *
        unfold W64 at *
        simp only [Bool.false_eq_true, if_false]
        rw [if_neg (by omega)]

/-- non-vacuity: a concrete in-region pointer, both outcomes -/
example : ptrArith 16 .add 0x6a0000000010 3 4 = some 0x6a000000001c := by decide
example : ptrArith 16 .sub 0x6a0000000010 5 4 = none := by decide
example : (⟨16, 0x6a0000000000⟩ : Region).wf ∧ (⟨16, 0x6a0000000000⟩ : Region).contains 0x6a0000000010 := by
  simp [Region.wf, Region.contains, W64]

/-- **Exact or abort, full strength** (after the repair of F8: `check_pointer_offset`): for every
non-null in-region `p`, EVERY integer `n` and every stride, the result is the exact address
`p ± n*s` when that lies inside the sandbox, and the operation aborts otherwise -- a product or sum
that wraps around the address space can no longer land back inside. -/
theorem C05_exact (r : Region) (f : ArithForm) (p : Nat) (n : Int) (s : Nat)
    (hr : r.wf) (hp : r.contains p) (hs : 0 < s) : Exact r f p n s := by
  have hwf := hr
  obtain ⟨hal, hb0, hb1⟩ := hr
  have hM := two_pow_pos r.k
  -- an aligned positive base is at least the region size, so the region is at most half the address space
  have hk : 2 ^ r.k ≤ r.base := by
    have := Nat.div_add_mod r.base (2 ^ r.k)
    rw [hal] at this
    have hq : 0 < r.base / 2 ^ r.k := by
      rcases Nat.eq_zero_or_pos (r.base / 2 ^ r.k) with h0 | h0
      · rw [h0] at this; omega
      · exact h0
    calc 2 ^ r.k = 2 ^ r.k * 1 := by omega
      _ ≤ 2 ^ r.k * (r.base / 2 ^ r.k) := Nat.mul_le_mul_left _ hq
      _ ≤ r.base := by omega
  unfold Exact ptrArith
  by_cases hok : offsetOk n s = true
  · -- within the offset limit: the wrapped arithmetic is exact
    simp only [hok, if_true]
    have hle : n.natAbs ≤ ((W64 - 1) / 2) / s := by simpa [offsetOk] using hok
    have hmul : n.natAbs * s ≤ (W64 - 1) / 2 := by
      calc n.natAbs * s ≤ ((W64 - 1) / 2) / s * s := Nat.mul_le_mul_right _ hle
        _ ≤ (W64 - 1) / 2 := Nat.div_mul_le_self _ _
    have := core_exact r f p n s hwf hp hs (by unfold W64 at *; omega)
    exact this
  · -- beyond the limit: the exact target is at least 2^63 bytes away from p, hence outside
    have hgt : ((W64 - 1) / 2) / s < n.natAbs := by
      have : ¬ n.natAbs ≤ ((W64 - 1) / 2) / s := by simpa [offsetOk] using hok
      omega
    have hbig : (W64 - 1) / 2 < n.natAbs * s := by
      have h1 : (((W64 - 1) / 2) / s + 1) * s ≤ n.natAbs * s := Nat.mul_le_mul_right _ hgt
      have h2 := Nat.div_add_mod ((W64 - 1) / 2) s
      have h3 := Nat.mod_lt ((W64 - 1) / 2) hs
      rw [Nat.add_mul, Nat.mul_comm] at h1
      omega
    have hE : (n * (s : Int)).natAbs = n.natAbs * s := by simp [Int.natAbs_mul]
    unfold Region.contains at hp
    simp only [hok, if_false, Bool.false_eq_true]
    unfold exactTarget
    generalize hD : n * (s : Int) = D at *
    generalize 2 ^ r.k = M at *
    unfold W64 at *
    by_cases hf : f = .sub
    · simp only [hf, if_true]; rw [if_neg (by omega)]
    · simp only [hf, if_false]; rw [if_neg (by omega)]

/-- the full-strength statement of the property now holds (it was false before the repair: `p + 2^62`
on an `int*` returned `p`; witness kept in corpus/C05/) -/
theorem C05_full_holds : C05_full := by
  intro r f p n s hr hp hs _ _
  exact C05_exact r f p n s hr hp hs

/-- non-vacuity of the guard: the old witness now aborts -/
example : ptrArith 16 .add 0x6a0000000000 (2 ^ 62) 4 = none := by decide
example : ptrArithCore 16 .add 0x6a0000000000 (2 ^ 62) 4 = some 0x6a0000000000 := by decide

/-- The ten source forms are the two primitive forms plus bookkeeping: which primitive, which
operand, what is returned and what is stored back.  (The statement that post-decrement goes through
`-` is tied to the source by `postDec_calls_decrement` below.) -/
theorem C05_compound (k : Nat) (form : PtrForm) (p : Nat) (n : Int) (s : Nat) :
    ptrForm k form p n s =
      match form with
      | .add => (ptrArith k .add p n s).map fun t => (t, p)
      | .sub => (ptrArith k .sub p n s).map fun t => (t, p)
      | .addEq => (ptrArith k .add p n s).map fun t => (t, t)
      | .subEq => (ptrArith k .sub p n s).map fun t => (t, t)
      | .preInc => (ptrArith k .add p 1 s).map fun t => (t, t)
      | .postInc => (ptrArith k .add p 1 s).map fun t => (p, t)
      | .preDec => (ptrArith k .sub p 1 s).map fun t => (t, t)
      | .postDec => (ptrArith k .sub p 1 s).map fun t => (p, t)
      | .idx => (ptrArith k .index p n s).map fun t => (t, p)
      | .addrIdx => (ptrArith k .index p n s).map fun t => (t, p) := by
  cases form <;> rfl

/-- every form stays inside `p`'s region -/
theorem C05_forms_inside (r : Region) (hr : r.wf) (form : PtrForm) (p : Nat) (n : Int) (s : Nat)
    (res newp : Nat) (hp : r.contains p) (h : ptrForm r.k form p n s = some (res, newp)) :
    r.contains res ∧ r.contains newp := by
  cases form <;> simp only [ptrForm, Option.map_eq_some_iff] at h <;> obtain ⟨t, ht, he⟩ := h <;>
    have hc := C05_inside_region r hr _ p _ s t hp ht <;>
    simp only [Prod.mk.injEq] at he <;> obtain ⟨rfl, rfl⟩ := he <;> exact ⟨by assumption, by assumption⟩

/-- Source facts regenerated on every run (gen/extract_facts.py): `PostIncDecOps(op)` must call
`operator op op ()` (token paste of its own symbol), pre-forms step by 1 through `op`, compound
assignment goes through its own `op`, and `+`/`-` are the two pointer-capable binary operators. -/
theorem postDec_calls_decrement : Generated.postIncDecUsesOwnSymbol = true := by decide
theorem preIncDec_step : Generated.preIncDecStep = ("opSymbol", 1) := by decide
theorem compound_through_own_op : Generated.compoundBody = "opSymbol" := by decide
theorem ptr_ops_are_plus_minus :
    (Generated.binaryOpValAndPtr.length = 2 ∧ "+" ∈ Generated.binaryOpValAndPtr ∧ "-" ∈ Generated.binaryOpValAndPtr) ∧
    (Generated.preIncDecOps.length = 2 ∧ "+" ∈ Generated.preIncDecOps ∧ "-" ∈ Generated.preIncDecOps) ∧
    (Generated.postIncDecOps.length = 2 ∧ "+" ∈ Generated.postIncDecOps ∧ "-" ∈ Generated.postIncDecOps) := by decide

/-- The stride is the size of the pointee under the sandbox ABI: for every type it is the size the
layout model (shared with C07/C08) assigns, e.g. `long` is 4 under ABI A and 8 for the application. -/
theorem C05_stride_examples :
    (CTy.base .long).size abiA = 4 ∧ (CTy.base .long).size abiHost = 8 ∧ CTy.ptr.size abiA = 4 ∧
    (CTy.arr 3 (.base .int)).size abiA = 12 ∧
    (CTy.struct [.base .char, .base .long, .ptr]).size abiA = 12 ∧
    (CTy.struct [.base .char, .base .long, .ptr]).size abiHost = 24 := by decide

end Rlbox.C05
