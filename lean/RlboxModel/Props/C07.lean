import RlboxModel.Lemmas.MemLemmas
import RlboxModel.Props.C06Core
/-!
# C07 — Sandbox-memory accesses use exactly the bytes and encoding of the sandbox ABI
Property theorems only.
-/
namespace Rlbox.C07
open Rlbox

/-- Frame: a store through a tainted reference to an integer `T` changes no byte outside
`[a, a + guestSize T)`. Every ABI, type, address, value, surrounding memory. -/
theorem C07_frame (abi : Abi) (t : BaseTy) (a : Nat) (v : Int) (m m' : Mem)
    (h : tvStore abi t a v m = some m') :
    ∀ x, x < a ∨ a + (t.guest abi).bytes ≤ x → m' x = m x := by
  unfold tvStore at h
  cases hs : toSandbox abi t v with
  | none => simp [hs] at h
  | some g =>
    simp only [hs, Option.some.injEq] at h
    subst h
    intro x hx
    apply write_frame
    simpa using hx

/-- Round trip: what was stored is what a load decodes (same mathematical value), whenever the store
did not abort. -/
theorem C07_roundtrip (abi : Abi) (habi : abi.wf) (t : BaseTy) (a : Nat) (v : Int) (m m' : Mem)
    (hv : t.app.inRange v) (h : tvStore abi t a v m = some m') : tvLoad abi t a m' = some v := by
  unfold tvStore at h
  cases hs : toSandbox abi t v with
  | none => simp [hs] at h
  | some g =>
    simp only [hs, Option.some.injEq] at h
    subst h
    have hp := C06.C06_abi_pairs abi habi t v
    have hf := hp.1 hv
    unfold C06.Faithful at hf
    unfold toSandbox at hs
    rw [hs] at hf
    rcases hf with ⟨he, hin⟩ | ⟨he, _⟩
    · have hgv : g = v := by simpa using he
      subst hgv
      unfold tvLoad
      have hlen : (encodeLE (t.guest abi).bytes ((t.guest abi).toBits g)).length = (t.guest abi).bytes := by simp
      have hr := read_write_same m a (encodeLE (t.guest abi).bytes ((t.guest abi).toBits g))
      rw [hlen] at hr
      rw [hr, decode_encode]
      have hwf : (t.guest abi).wf := by
        obtain ⟨h1, h2, h3, h4⟩ := habi
        cases t <;> simp [BaseTy.guest, IntTy.wf, *]
      rw [ofBits_toBits _ _ hwf hin]
      have hb := (hp.2 hin)
      unfold C06.Faithful at hb
      rcases hb with ⟨hb1, _⟩ | ⟨_, hb2⟩
      · exact hb1
      · exact absurd hv hb2
    · cases he

/-- Decode locality: a load depends only on the `guestSize T` bytes at the address. -/
theorem C07_decode (abi : Abi) (t : BaseTy) (a : Nat) (m1 m2 : Mem)
    (h : ∀ x, a ≤ x → x < a + (t.guest abi).bytes → m1 x = m2 x) : tvLoad abi t a m1 = tvLoad abi t a m2 := by
  unfold tvLoad
  rw [read_congr m1 m2 a _ h]

/-- The footprint is the size the layout model gives the type under the sandbox ABI (the same
function C05 uses as stride and C08 for field offsets). -/
theorem C07_footprint_is_layout (abi : Abi) (t : BaseTy) : (CTy.base t).size abi = (t.guest abi).bytes := by
  simp [CTy.size, CTy.sizeAlign]

/-- non-vacuity: `long` under ABI A occupies 4 bytes; 2^31 does not fit and aborts -/
example : (tvStore abiA .long 100 (-2) (fun _ => 0x11)).map (fun m => (m.read 98 8)) =
    some [0x11, 0x11, 0xFE, 0xFF, 0xFF, 0xFF, 0x11, 0x11] := by decide
example : (tvStore abiA .long 100 2147483648 (fun _ => 0)).isNone = true := by decide
example : tvLoad abiA .ulong 0 (fun x => if x < 4 then 0xFF else 0x77) = some 4294967295 := by decide

end Rlbox.C07
