import RlboxModel.Lemmas.MemLemmas
import RlboxModel.Props.C06Core
/-!
# C07 — Sandbox-memory accesses use exactly the bytes and encoding of the sandbox ABI
Property theorems only.
-/
namespace Rlbox.C07
open Rlbox

/-- Frame: a store through a tainted reference to an integer `T` changes no byte outside
`[a, a + guestSize T)`. Every ABI, type, address, value, surrounding memory. -/
theorem C07_frame (abi : Abi) (t : BaseTy) (a : Nat) (v : Int) (m m' : Mem)
    (h : tvStore abi t a v m = some m') :
    ∀ x, x < a ∨ a + (t.guest abi).bytes ≤ x → m' x = m x := by
  unfold tvStore at h
  cases hs : toSandbox abi t v with
  | none => simp [hs] at h
  | some g =>
    simp only [hs, Option.some.injEq] at h
    subst h
    intro x hx
    apply write_frame
    simpa using hx

/-- Round trip: what was stored is what a load decodes (same mathematical value), whenever the store
did not abort. -/
theorem C07_roundtrip (abi : Abi) (habi : abi.wf) (t : BaseTy) (a : Nat) (v : Int) (m m' : Mem)
    (hv : t.app.inRange v) (h : tvStore abi t a v m = some m') : tvLoad abi t a m' = some v := by
  unfold tvStore at h
  cases hs : toSandbox abi t v with
  | none => simp [hs] at h
  | some g =>
    simp only [hs, Option.some.injEq] at h
    subst h
    have hp := C06.C06_abi_pairs abi habi t v
    have hf := hp.1 hv
    unfold C06.Faithful at hf
    unfold toSandbox at hs
    rw [hs] at hf
    rcases hf with ⟨he, hin⟩ | ⟨he, _⟩
    · have hgv : g = v := by simpa using he
      subst hgv
      unfold tvLoad
      have hlen : (encodeLE (t.guest abi).bytes ((t.guest abi).toBits g)).length = (t.guest abi).bytes := by simp
      have hr := read_write_same m a (encodeLE (t.guest abi).bytes ((t.guest abi).toBits g))
      rw [hlen] at hr
      rw [hr, decode_encode]
      have hwf : (t.guest abi).wf := by
        obtain ⟨h1, h2, h3, h4⟩ := habi
        cases t <;> simp [BaseTy.guest, IntTy.wf, *]
      rw [ofBits_toBits _ _ hwf hin]
      have hb := (hp.2 hin)
      unfold C06.Faithful at hb
      rcases hb with ⟨hb1, _⟩ | ⟨_, hb2⟩
      · exact hb1
      · exact absurd hv hb2
    · cases he

/-- Decode locality: a load depends only on the `guestSize T` bytes at the address. -/
theorem C07_decode (abi : Abi) (t : BaseTy) (a : Nat) (m1 m2 : Mem)
    (h : ∀ x, a ≤ x → x < a + (t.guest abi).bytes → m1 x = m2 x) : tvLoad abi t a m1 = tvLoad abi t a m2 := by
  unfold tvLoad
  rw [read_congr m1 m2 a _ h]

/-- The footprint is the size the layout model gives the type under the sandbox ABI (the same
function C05 uses as stride and C08 for field offsets). -/
theorem C07_footprint_is_layout (abi : Abi) (t : BaseTy) : (CTy.base t).size abi = (t.guest abi).bytes := by
  simp [CTy.size, CTy.sizeAlign]

/-- Copies between sandbox references of (possibly different) integer types, `*p_T = *p_U`:
frame -- nothing outside the destination's `guestSize T` bytes changes -- ... -/
theorem C07_copy_frame (abi : Abi) (t u : BaseTy) (dst src : Nat) (m m' : Mem)
    (h : tvCopy abi t u dst src m = some m') :
    ∀ x, x < dst ∨ dst + (t.guest abi).bytes ≤ x → m' x = m x := by
  unfold tvCopy at h
  split at h
  · cases h
  · cases h
    intro x hx
    apply write_frame
    simpa using hx

/-- ... and value: the source is read with ITS OWN guest width, sign and size; when the copy does
not abort, the destination cell then holds the same mathematical value, and it aborts exactly when
that value is not representable in the destination's guest type. (Pairs with a `bool` destination
and a non-`bool` source are outside C06, see `C06_abi_pairs`.) -/
theorem C07_copy_value (abi : Abi) (habi : abi.wf) (t u : BaseTy) (dst src : Nat) (m : Mem)
    (hb : (t.guest abi).isBool = true → (u.guest abi).isBool = true)
    (hsrc : (u.guest abi).inRange (guestValueAt abi u src m)) :
    (∀ m', tvCopy abi t u dst src m = some m' →
        guestValueAt abi t dst m' = guestValueAt abi u src m ∧ (t.guest abi).inRange (guestValueAt abi u src m)) ∧
    (tvCopy abi t u dst src m = none ↔ ¬ (t.guest abi).inRange (guestValueAt abi u src m)) := by
  have hwf : ∀ b : BaseTy, (b.guest abi).wf := by
    intro b
    obtain ⟨h1, h2, h3, h4⟩ := habi
    cases b <;> simp [BaseTy.guest, IntTy.wf, *]
  have hf := C06.C06_scalar_partial (t.guest abi) (u.guest abi) (guestValueAt abi u src m) (hwf t) (hwf u) hb hsrc
  unfold C06.Faithful at hf
  unfold tvCopy
  unfold guestValueAt at hf hsrc ⊢
  rcases hf with ⟨he, hin⟩ | ⟨he, hnin⟩
  · rw [he]
    refine ⟨?_, by simp [hin]⟩
    intro m' hm
    cases hm
    refine ⟨?_, hin⟩
    have hlen : (encodeLE (t.guest abi).bytes ((t.guest abi).toBits ((u.guest abi).ofBits (decodeLE (m.read src (u.guest abi).bytes))))).length = (t.guest abi).bytes := by simp
    have hr := read_write_same m dst (encodeLE (t.guest abi).bytes ((t.guest abi).toBits ((u.guest abi).ofBits (decodeLE (m.read src (u.guest abi).bytes)))))
    rw [hlen] at hr
    rw [hr, decode_encode, ofBits_toBits _ _ (hwf t) hin]
  · rw [he]
    refine ⟨?_, ?_⟩
    · intro m' hm; cases hm
    · simp only [true_iff]; exact hnin

/-- A pointer store writes exactly the `ptrBytes` bytes of the cell. -/
theorem C07_ptr_frame (s : Sbx) (off a : Nat) (m : Mem) :
    ∀ x, x < off ∨ off + s.ptrBytes ≤ x → ptrStoreMem s off a m x = m x := by
  intro x hx
  unfold ptrStoreMem
  apply write_frame
  simpa using hx

/-- non-vacuity: a guest `short` holding -2 copied into a guest `long` (4 bytes under ABI A) is sign-extended,
the byte after the destination keeps its value; 200 in a guest `unsigned char` does not fit a `signed char` -/
example : (tvCopy abiA .long .short 8 0 (fun x => if x = 0 then 0xFE else if x = 1 then 0xFF else 0x11)).map (fun m => m.read 8 5) =
    some [0xFE, 0xFF, 0xFF, 0xFF, 0x11] := by decide
example : (tvCopy abiA .schar .uchar 8 0 (fun x => if x = 0 then 200 else 0)).isNone = true := by decide

/-- non-vacuity: `long` under ABI A occupies 4 bytes; 2^31 does not fit and aborts -/
example : (tvStore abiA .long 100 (-2) (fun _ => 0x11)).map (fun m => (m.read 98 8)) =
    some [0x11, 0x11, 0xFE, 0xFF, 0xFF, 0xFF, 0x11, 0x11] := by decide
example : (tvStore abiA .long 100 2147483648 (fun _ => 0)).isNone = true := by decide
example : tvLoad abiA .ulong 0 (fun x => if x < 4 then 0xFF else 0x77) = some 4294967295 := by decide

end Rlbox.C07
