import RlboxModel.Lemmas.LifeLemmas
/-!
# C14 — Sandbox lifecycle is a strict state machine; the live-sandbox registry is exact
Property theorems only.
-/
namespace Rlbox.C14
open Rlbox

/-- the model's status type is the source's `Sandbox_Status` (regenerated from rlbox_sandbox.hpp) -/
theorem status_enum_matches : Generated.statusEnum = Status.names := by decide

/-- create succeeds only on a sandbox that is not created (any other state aborts) ... -/
theorem C14_create_only_from_not_created (w : World) (i : Nat) (ok : Bool) (lib r : Nat)
    (h : (w.sbx i).status ≠ .notCreated) : w.create i ok lib r = none := by
  simp [World.create, h]

/-- ... and from NOT_CREATED (in a region the backend can map) a successful backend creation makes it
CREATED, registered and bound to the given library and region; a failed one leaves it INITIALIZING
(never registered). -/
theorem C14_create_from_not_created (w : World) (i : Nat) (lib r : Nat) (h : (w.sbx i).status = .notCreated)
    (hr : r ∉ w.mapped) :
    (∀ w' b, w.create i true lib r = some (w', b) →
        b = true ∧ (w'.sbx i).status = .created ∧ i ∈ w'.reg ∧ (w'.sbx i).lib = lib ∧ (w'.sbx i).rgn = r) ∧
    (w.create i true lib r).isSome = true ∧
    (∀ w' b, w.create i false lib r = some (w', b) →
        b = false ∧ (w'.sbx i).status = .initializing ∧ w'.reg = w.reg) ∧
    (w.create i false lib r).isSome = true := by
  refine ⟨?_, by simp [World.create, h, hr], ?_, by simp [World.create, h, hr]⟩
  · intro w' b hc
    obtain ⟨_, _, rfl, rfl⟩ := create_cases w w' i true lib r b hc
    simp [World.setS]
  · intro w' b hc
    obtain ⟨_, _, rfl, rfl⟩ := create_cases w w' i false lib r b hc
    simp [World.setS]

/-- destroy succeeds only on a created sandbox; afterwards it is NOT_CREATED (can be created again),
its symbol cache, its callback keys and its entry-point table are empty and its incarnation number
has advanced. -/
theorem C14_destroy_only_from_created (w : World) (i : Nat) (h : (w.sbx i).status ≠ .created) : w.destroy i = none := by
  simp [World.destroy, h]

theorem C14_destroy_effect (w w' : World) (i : Nat) (h : w.destroy i = some w') :
    (w.sbx i).status = .created ∧ (w'.sbx i).status = .notCreated ∧ (∀ n, (w'.sbx i).cache n = none) ∧
    w'.reg = w.reg.erase i ∧ (∀ j, j ≠ i → w'.sbx j = w.sbx j) ∧
    (∀ f, (w'.sbx i).keys f = false) ∧ (∀ k, (w'.sbx i).slots k = none) ∧ (w'.sbx i).inc = (w.sbx i).inc + 1 ∧
    w'.mapped = w.mapped.erase (w.sbx i).rgn := by
  unfold World.destroy at h
  by_cases h1 : (w.sbx i).status ≠ .created
  · simp [h1] at h
  · by_cases h2 : i ∉ w.reg
    · simp [h1, h2] at h
    · simp only [h1, h2, if_false, Option.some.injEq] at h
      subst h
      refine ⟨by simpa using h1, by simp [World.setS, destroyedObj], by simp [World.setS, destroyedObj], rfl, ?_,
        by simp [World.setS, destroyedObj], by simp [World.setS, destroyedObj], by simp [World.setS, destroyedObj], rfl⟩
      intro j hj; simp [World.setS, hj]

/-- the registry invariant: exactly the CREATED sandbox objects are in the list, each once -/
def RegInv (w : World) : Prop := (∀ i, i ∈ w.reg ↔ (w.sbx i).status = .created) ∧ w.reg.Nodup

theorem release_status (w w' : World) (o : Nat) (h : w.release o = some w') :
    w'.reg = w.reg ∧ ∀ j, (w'.sbx j).status = (w.sbx j).status := by
  rcases release_cases w w' o h with ⟨_, rfl⟩ | ⟨i, f, _, _, _, rfl⟩ | ⟨i, f, _, _, _, _, _, rfl⟩
  · exact ⟨rfl, fun _ => rfl⟩
  · exact ⟨rfl, fun _ => rfl⟩
  · refine ⟨rfl, fun j => ?_⟩
    by_cases hj : j = i
    · subst hj; simp [World.setS, releasedObj]
    · simp [World.setS, hj]

theorem moveOwner_status (w w' : World) (d s : Nat) (h : w.moveOwner d s = some w') :
    w'.reg = w.reg ∧ ∀ j, (w'.sbx j).status = (w.sbx j).status := by
  unfold World.moveOwner at h
  by_cases hds : d = s
  · simp [hds] at h; subst h; exact ⟨rfl, fun _ => rfl⟩
  · simp only [hds, if_false] at h
    cases hrel : w.release d with
    | none => simp [hrel] at h
    | some w1 =>
      simp only [hrel, Option.some.injEq] at h; subst h
      obtain ⟨r1, r2⟩ := release_status w w1 d hrel
      exact ⟨by simpa using r1, fun j => by simp only [setO_sbx]; exact r2 j⟩

theorem register_status (w w' : World) (i o f k : Nat) (h : w.register i o f = some (w', k)) :
    w'.reg = w.reg ∧ ∀ j, (w'.sbx j).status = (w.sbx j).status := by
  unfold World.register at h
  cases hn : w.registerNew i tmpOwner f with
  | none => simp [hn] at h
  | some r =>
    obtain ⟨w1, k1⟩ := r
    simp only [hn, Option.map_eq_some_iff, Prod.mk.injEq] at h
    obtain ⟨w2, hm, rfl, rfl⟩ := h
    obtain ⟨_, _, _, rfl⟩ := registerNew_cases w w1 i tmpOwner f k1 hn
    obtain ⟨r1, r2⟩ := moveOwner_status _ w2 o tmpOwner hm
    refine ⟨by simpa using r1, fun j => ?_⟩
    rw [r2 j, setO_sbx]
    by_cases hj : j = i
    · subst hj; simp [World.setS, registeredObj]
    · simp [World.setS, hj]

theorem release_rgn (w w' : World) (o : Nat) (h : w.release o = some w') :
    w'.mapped = w.mapped ∧ ∀ j, (w'.sbx j).rgn = (w.sbx j).rgn := by
  rcases release_cases w w' o h with ⟨_, rfl⟩ | ⟨i, f, _, _, _, rfl⟩ | ⟨i, f, _, _, _, _, _, rfl⟩
  · exact ⟨rfl, fun _ => rfl⟩
  · exact ⟨rfl, fun _ => rfl⟩
  · refine ⟨rfl, fun j => ?_⟩
    by_cases hj : j = i
    · subst hj; simp [World.setS, releasedObj]
    · simp [World.setS, hj]

theorem moveOwner_rgn (w w' : World) (d s : Nat) (h : w.moveOwner d s = some w') :
    w'.mapped = w.mapped ∧ ∀ j, (w'.sbx j).rgn = (w.sbx j).rgn := by
  unfold World.moveOwner at h
  by_cases hds : d = s
  · simp [hds] at h; subst h; exact ⟨rfl, fun _ => rfl⟩
  · simp only [hds, if_false] at h
    cases hrel : w.release d with
    | none => simp [hrel] at h
    | some w1 =>
      simp only [hrel, Option.some.injEq] at h; subst h
      obtain ⟨r1, r2⟩ := release_rgn w w1 d hrel
      exact ⟨by simpa [World.setO] using r1, fun j => by simp only [setO_sbx]; exact r2 j⟩

theorem register_rgn (w w' : World) (i o f k : Nat) (h : w.register i o f = some (w', k)) :
    w'.mapped = w.mapped ∧ ∀ j, (w'.sbx j).rgn = (w.sbx j).rgn := by
  unfold World.register at h
  cases hn : w.registerNew i tmpOwner f with
  | none => simp [hn] at h
  | some r =>
    obtain ⟨w1, k1⟩ := r
    simp only [hn, Option.map_eq_some_iff, Prod.mk.injEq] at h
    obtain ⟨w2, hm, rfl, rfl⟩ := h
    obtain ⟨_, _, _, rfl⟩ := registerNew_cases w w1 i tmpOwner f k1 hn
    obtain ⟨r1, r2⟩ := moveOwner_rgn _ w2 o tmpOwner hm
    refine ⟨by simpa [World.setO, World.setS] using r1, fun j => ?_⟩
    rw [r2 j, setO_sbx]
    by_cases hj : j = i
    · subst hj; simp [World.setS, registeredObj]
    · simp [World.setS, hj]

theorem step_regInv (w : World) (op : LOp) (h : RegInv w) : RegInv (w.step op) := by
  obtain ⟨hm, hn⟩ := h
  cases op with
  | create i ok lib r =>
    simp only [World.step]
    cases hc : w.create i ok lib r with
    | none => exact ⟨hm, hn⟩
    | some res =>
      obtain ⟨w', b⟩ := res
      simp only
      obtain ⟨h1', _, _, rfl⟩ := create_cases w w' i ok lib r b hc
      cases ok with
      | true =>
        simp only [if_true]
        have hni : i ∉ w.reg := by rw [hm i, h1']; decide
        constructor
        · intro j
          by_cases hj : j = i
          · subst hj; simp [World.setS]
          · simp [World.setS, hj, hm j]
        · simp only [setS_reg]
          rw [List.nodup_append]
          refine ⟨hn, by simp, ?_⟩
          intro a ha b hb; simp at hb; subst hb; intro e; subst e; exact hni ha
      | false =>
        simp only [Bool.false_eq_true, if_false]
        constructor
        · intro j
          by_cases hj : j = i
          · subst hj; simp [World.setS, hm j, h1']
          · simp [World.setS, hj, hm j]
        · exact hn
  | destroy i =>
    simp only [World.step]
    cases hd : w.destroy i with
    | none => exact ⟨hm, hn⟩
    | some w' =>
      simp only [Option.getD_some]
      obtain ⟨s0, s1, _, r, other, _⟩ := C14_destroy_effect w w' i hd
      constructor
      · intro j
        rw [r]
        by_cases hj : j = i
        · subst hj
          rw [s1]
          constructor
          · intro hmem; exact absurd hmem (by rw [List.Nodup.mem_erase_iff hn]; simp)
          · intro e; cases e
        · rw [other j hj, ← hm j, List.Nodup.mem_erase_iff hn]; simp [hj]
      · rw [r]; exact hn.erase i
  | register i o f =>
    simp only [World.step]
    cases hr : w.register i o f with
    | none => exact ⟨hm, hn⟩
    | some r =>
      obtain ⟨w', k⟩ := r
      obtain ⟨r1, r2⟩ := register_status w w' i o f k hr
      exact ⟨fun j => by rw [r1, r2 j]; exact hm j, by rw [r1]; exact hn⟩
  | release o =>
    simp only [World.step]
    cases hr : w.release o with
    | none => exact ⟨hm, hn⟩
    | some w' =>
      obtain ⟨r1, r2⟩ := release_status w w' o hr
      exact ⟨fun j => by simp only [Option.getD_some]; rw [r1, r2 j]; exact hm j, by simp only [Option.getD_some]; rw [r1]; exact hn⟩
  | move d s =>
    simp only [World.step]
    cases hr : w.moveOwner d s with
    | none => exact ⟨hm, hn⟩
    | some w' =>
      simp only [Option.getD_some]
      obtain ⟨r1, r2⟩ := moveOwner_status w w' d s hr
      exact ⟨fun j => by rw [r1, r2 j]; exact hm j, by rw [r1]; exact hn⟩
  | lookup i n =>
    simp only [World.step, World.lookup]
    split
    · exact ⟨hm, hn⟩
    · constructor
      · intro j
        by_cases hj : j = i
        · subst hj; simp [World.setS, hm j]
        · simp [World.setS, hj, hm j]
      · exact hn

/-- For every history (any operations, any length, any number of sandbox objects) the registry
contains exactly the created sandboxes, each once. -/
theorem C14_registry_exact (m : Nat) (ops : List LOp) : RegInv (ops.foldl World.step (World.init m)) := by
  suffices h : ∀ w, RegInv w → RegInv (ops.foldl World.step w) from
    h _ ⟨fun i => by simp [World.init], by simp [World.init]⟩
  induction ops with
  | nil => intro w hw; exact hw
  | cons op ops ih => intro w hw; exact ih _ (step_regInv w op hw)

/-- the region invariant (the backend's law, maintained because a backend cannot map a region that is
in use): every live sandbox's region is mapped, and two live sandboxes never share a region -/
def RgnInv (w : World) : Prop :=
  (∀ i, i ∈ w.reg → (w.sbx i).rgn ∈ w.mapped) ∧
  (∀ i j, i ∈ w.reg → j ∈ w.reg → (w.sbx i).rgn = (w.sbx j).rgn → i = j)

theorem step_rgnInv (w : World) (op : LOp) (h : RegInv w) (hr : RgnInv w) : RgnInv (w.step op) := by
  obtain ⟨hm, hn⟩ := h
  obtain ⟨hin, hdis⟩ := hr
  cases op with
  | create i ok lib r =>
    simp only [World.step]
    cases hc : w.create i ok lib r with
    | none => exact ⟨hin, hdis⟩
    | some res =>
      obtain ⟨w', b⟩ := res
      simp only
      obtain ⟨h1', hfree, _, rfl⟩ := create_cases w w' i ok lib r b hc
      have hni : i ∉ w.reg := by rw [hm i, h1']; decide
      have hne : ∀ j, j ∈ w.reg → j ≠ i := fun j hj e => hni (e ▸ hj)
      cases ok with
      | true =>
        simp only [if_true]
        constructor
        · intro j hj
          simp only [setS_reg, List.mem_append, List.mem_singleton] at hj
          rcases hj with hj | rfl
          · simp [World.setS, hne j hj, hin j hj]
          · simp [World.setS]
        · intro j k hj hk e
          simp only [setS_reg, List.mem_append, List.mem_singleton] at hj hk
          rcases hj with hj | rfl <;> rcases hk with hk | rfl
          · simp only [World.setS, hne j hj, hne k hk, if_false] at e; exact hdis j k hj hk e
          · simp only [World.setS, hne j hj, if_false, if_true] at e
            exact absurd (e ▸ hin j hj) hfree
          · simp only [World.setS, hne k hk, if_false, if_true] at e
            exact absurd (e ▸ hin k hk) hfree
          · rfl
      | false =>
        simp only [Bool.false_eq_true, if_false]
        constructor
        · intro j hj
          simp only [setS_reg] at hj
          simp [World.setS, hne j hj, hin j hj]
        · intro j k hj hk e
          simp only [setS_reg] at hj hk
          simp only [World.setS, hne j hj, hne k hk, if_false] at e; exact hdis j k hj hk e
  | destroy i =>
    simp only [World.step]
    cases hd : w.destroy i with
    | none => exact ⟨hin, hdis⟩
    | some w' =>
      simp only [Option.getD_some]
      obtain ⟨_, _, _, r, other, _, _, _, hmap⟩ := C14_destroy_effect w w' i hd
      have hmem : ∀ j, j ∈ w'.reg → j ∈ w.reg ∧ j ≠ i := by
        intro j hj; rw [r, List.Nodup.mem_erase_iff hn] at hj; exact ⟨hj.2, hj.1⟩
      have hii : i ∈ w.reg := by
        unfold World.destroy at hd
        by_cases h1 : (w.sbx i).status ≠ .created
        · simp [h1] at hd
        · by_cases h2 : i ∉ w.reg
          · simp [h1, h2] at hd
          · simpa using h2
      constructor
      · intro j hj
        obtain ⟨hj1, hj2⟩ := hmem j hj
        rw [other j hj2, hmap]
        have : (w.sbx j).rgn ≠ (w.sbx i).rgn := fun e => hj2 (hdis j i hj1 hii e)
        exact (List.mem_erase_of_ne this).2 (hin j hj1)
      · intro j k hj hk e
        obtain ⟨hj1, hj2⟩ := hmem j hj
        obtain ⟨hk1, hk2⟩ := hmem k hk
        rw [other j hj2, other k hk2] at e
        exact hdis j k hj1 hk1 e
  | register i o f =>
    simp only [World.step]
    cases hr : w.register i o f with
    | none => exact ⟨hin, hdis⟩
    | some res =>
      obtain ⟨w', k⟩ := res
      obtain ⟨r1, _⟩ := register_status w w' i o f k hr
      obtain ⟨m1, g1⟩ := register_rgn w w' i o f k hr
      exact ⟨fun j hj => by rw [m1, g1 j]; exact hin j (r1 ▸ hj),
             fun j k' hj hk e => by rw [g1 j, g1 k'] at e; exact hdis j k' (r1 ▸ hj) (r1 ▸ hk) e⟩
  | release o =>
    simp only [World.step]
    cases hr : w.release o with
    | none => exact ⟨hin, hdis⟩
    | some w' =>
      simp only [Option.getD_some]
      obtain ⟨r1, _⟩ := release_status w w' o hr
      obtain ⟨m1, g1⟩ := release_rgn w w' o hr
      exact ⟨fun j hj => by rw [m1, g1 j]; exact hin j (r1 ▸ hj),
             fun j k' hj hk e => by rw [g1 j, g1 k'] at e; exact hdis j k' (r1 ▸ hj) (r1 ▸ hk) e⟩
  | move d s =>
    simp only [World.step]
    cases hr : w.moveOwner d s with
    | none => exact ⟨hin, hdis⟩
    | some w' =>
      simp only [Option.getD_some]
      obtain ⟨r1, _⟩ := moveOwner_status w w' d s hr
      obtain ⟨m1, g1⟩ := moveOwner_rgn w w' d s hr
      exact ⟨fun j hj => by rw [m1, g1 j]; exact hin j (r1 ▸ hj),
             fun j k' hj hk e => by rw [g1 j, g1 k'] at e; exact hdis j k' (r1 ▸ hj) (r1 ▸ hk) e⟩
  | lookup i n =>
    simp only [World.step, World.lookup]
    split
    · exact ⟨hin, hdis⟩
    · have same : ∀ j, ((w.setS i { w.sbx i with cache := fun m => if m = n then some (w.sbx i).lib else (w.sbx i).cache m }).sbx j).rgn = (w.sbx j).rgn := by
        intro j; by_cases hj : j = i
        · subst hj; simp [World.setS]
        · simp [World.setS, hj]
      exact ⟨fun j hj => by rw [same j]; exact hin j hj,
             fun j k hj hk e => by rw [same j, same k] at e; exact hdis j k hj hk e⟩

/-- both invariants hold after every history -/
theorem C14_invariants (m : Nat) (ops : List LOp) :
    RegInv (ops.foldl World.step (World.init m)) ∧ RgnInv (ops.foldl World.step (World.init m)) := by
  suffices h : ∀ w, RegInv w → RgnInv w → RegInv (ops.foldl World.step w) ∧ RgnInv (ops.foldl World.step w) from
    h _ ⟨fun i => by simp [World.init], by simp [World.init]⟩ ⟨by simp [World.init], by simp [World.init]⟩
  induction ops with
  | nil => intro w hw hr; exact ⟨hw, hr⟩
  | cons op ops ih => intro w hw hr; exact ih _ (step_regInv w op hw) (step_rgnInv w op hw hr)

/-- Exactly between a successful create and the matching destroy a sandbox is found from addresses
inside its memory -- and it is the only one: a lookup with an address of region `r` yields sandbox
`i` iff `i` is created and `r` is the region it was created in; it yields nothing iff no created
sandbox has that region (in particular never a destroyed sandbox whose region has been reused). -/
theorem C14_find (w : World) (h : RegInv w) (hr : RgnInv w) (r i : Nat) :
    (w.find r = some i ↔ ((w.sbx i).status = .created ∧ (w.sbx i).rgn = r)) ∧
    (w.find r = none ↔ ∀ j, (w.sbx j).status = .created → (w.sbx j).rgn ≠ r) := by
  unfold World.find
  constructor
  · constructor
    · intro hf
      have hmem := List.mem_of_find?_eq_some hf
      have hp := List.find?_some hf
      exact ⟨(h.1 i).1 hmem, by simpa using hp⟩
    · rintro ⟨hc, hrg⟩
      have hmem := (h.1 i).2 hc
      cases hf : w.reg.find? (fun j => (w.sbx j).rgn == r) with
      | none =>
        rw [List.find?_eq_none] at hf
        have := hf i hmem; simp [hrg] at this
      | some j =>
        have hj := List.mem_of_find?_eq_some hf
        have hp := List.find?_some hf
        have : (w.sbx j).rgn = r := by simpa using hp
        rw [hr.2 j i hj hmem (by rw [this, hrg])]
  · rw [List.find?_eq_none]
    constructor
    · intro hf j hc e
      have := hf j ((h.1 j).2 hc); simp [e] at this
    · intro hn x hx
      have := hn x ((h.1 x).1 hx)
      simpa using this

/-- Outside the window: allocation is refused (null), registration aborts, and releasing an owner
leaves the sandbox object untouched (unregistration is ignored). -/
theorem C14_outside_window (w : World) (i : Nat) (h : (w.sbx i).status ≠ .created) :
    w.isCreated i = false ∧ (∀ o f, w.register i o f = none) ∧
    (∀ o f n w', w.owners o = some (i, f, n) → w.release o = some w' → w'.sbx i = w.sbx i) := by
  refine ⟨by simp [World.isCreated, h], fun o f => by simp [World.register, World.registerNew, h], ?_⟩
  intro o f n w' ho hr
  rcases release_cases w w' o hr with ⟨hn, _⟩ | ⟨i', f', n', ho', _, rfl⟩ | ⟨i', f', n', ho', hc, _, _, _⟩
  · rw [ho] at hn; cases hn
  · rfl
  · rw [ho] at ho'; cases ho'; exact absurd hc h

/-- Cached symbol addresses of an earlier incarnation are not visible after re-creation: a lookup
after destroy + create resolves in the library bound by the new create. -/
theorem C14_fresh_symbols (w w1 w2 : World) (i lib r : Nat) (name : String)
    (hd : w.destroy i = some w1) (hc : w1.create i true lib r = some (w2, true)) :
    (w2.lookup i name).2 = lib := by
  obtain ⟨_, s1, c1, _, _, _⟩ := C14_destroy_effect w w1 i hd
  obtain ⟨_, _, _, rfl⟩ := create_cases w1 w2 i true lib r true hc
  simp [World.lookup, World.setS, c1 name]

/-- Full freshness: nothing that belonged to the earlier incarnation is visible in the new one -- no
callback key, no entry point, no cached symbol -- whatever owner objects are still alive, and a
stale owner cannot be told apart from an empty one by the sandbox (its release changes nothing).
(Before the repair of F6b this was false: keys and entry points survived.) -/
theorem C14_fresh_full (w w1 w2 : World) (i lib r : Nat)
    (hd : w.destroy i = some w1) (hc : w1.create i true lib r = some (w2, true)) :
    (∀ f, (w2.sbx i).keys f = false) ∧ (∀ k, (w2.sbx i).slots k = none) ∧ (∀ n, (w2.sbx i).cache n = none) ∧
    (w2.sbx i).inc = (w.sbx i).inc + 1 ∧ w2.owners = w.owners := by
  obtain ⟨_, s1, c1, _, _, k1, sl1, n1, _⟩ := C14_destroy_effect w w1 i hd
  have ho1 : w1.owners = w.owners := by
    unfold World.destroy at hd
    by_cases h1 : (w.sbx i).status ≠ .created
    · simp [h1] at hd
    · by_cases h2 : i ∉ w.reg
      · simp [h1, h2] at hd
      · simp only [h1, h2, if_false, Option.some.injEq] at hd
        subst hd; rfl
  obtain ⟨_, _, _, rfl⟩ := create_cases w1 w2 i true lib r true hc
  refine ⟨?_, ?_, ?_, ?_, ho1⟩
  · intro f; simp [World.setS, k1 f]
  · intro k; simp [World.setS, sl1 k]
  · intro n; simp [World.setS, c1 n]
  · simp [World.setS, n1]

/-- consequently every owner of the earlier incarnation is stale in the new one: releasing it leaves
the new incarnation's registrations alone -/
theorem C14_old_owner_inert (w w1 w2 w3 : World) (i lib r o f : Nat) (hle : ∀ o i f n, w.owners o = some (i, f, n) → n ≤ (w.sbx i).inc)
    (hd : w.destroy i = some w1) (hc : w1.create i true lib r = some (w2, true))
    (n : Nat) (ho : w2.owners o = some (i, f, n)) (hr : w2.release o = some w3) : w3.sbx = w2.sbx := by
  obtain ⟨_, _, _, hinc, hown⟩ := C14_fresh_full w w1 w2 i lib r hd hc
  have hn : n ≤ (w.sbx i).inc := hle o i f n (by rw [← hown]; exact ho)
  rcases release_cases w2 w3 o hr with ⟨hn', _⟩ | ⟨_, _, _, _, _, rfl⟩ | ⟨i', f', n', ho', _, hinc', _, _⟩
  · rw [ho] at hn'; cases hn'
  · rfl
  · rw [ho] at ho'
    have := Option.some.inj ho'
    simp only [Prod.mk.injEq] at this
    obtain ⟨rfl, rfl, rfl⟩ := this
    omega

/-- non-vacuity of `C14_fresh_full`: a created sandbox with a registered function and a live owner -/
example : ∃ w w1 w2 : World, w.destroy 0 = some w1 ∧ w1.create 0 true 1 0 = some (w2, true) ∧
    (w.sbx 0).keys 7 = true ∧ w.owners 0 = some (0, 7, 0) :=
  ⟨{ max := 2, sbx := fun _ => { status := .created, keys := fun f => f == 7 }, reg := [0],
     owners := fun o => if o = 0 then some (0, 7, 0) else none, mapped := [0] }, _, _, rfl, rfl, rfl, rfl⟩

/-- non-vacuity of the region clause of `C14_find`: sandbox object 0 is created in region 5, destroyed,
object 1 is created in the same region: an address of region 5 finds object 1, never object 0 -/
example :
    let w := [LOp.create 0 true 0 5, .destroy 0, .create 1 true 1 5].foldl World.step (World.init 2)
    w.find 5 = some 1 ∧ (w.sbx 0).rgn = 5 ∧ (w.sbx 0).status = .notCreated := by
  simp [World.step, World.create, World.destroy, World.init, World.setS, World.find, destroyedObj]

end Rlbox.C14
