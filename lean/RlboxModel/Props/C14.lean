import RlboxModel.Lemmas.LifeLemmas
/-!
# C14 — Sandbox lifecycle is a strict state machine; the live-sandbox registry is exact
Property theorems only.
-/
namespace Rlbox.C14
open Rlbox

/-- the model's status type is the source's `Sandbox_Status` (regenerated from rlbox_sandbox.hpp) -/
theorem status_enum_matches : Generated.statusEnum = Status.names := by decide

/-- create succeeds only on a sandbox that is not created (any other state aborts) ... -/
theorem C14_create_only_from_not_created (w : World) (i : Nat) (ok : Bool) (lib : Nat)
    (h : (w.sbx i).status ≠ .notCreated) : w.create i ok lib = none := by
  simp [World.create, h]

/-- ... and from NOT_CREATED a successful backend creation makes it CREATED, registered and bound
to the given library; a failed one leaves it INITIALIZING (never registered). -/
theorem C14_create_from_not_created (w : World) (i : Nat) (lib : Nat) (h : (w.sbx i).status = .notCreated) :
    (∀ w' b, w.create i true lib = some (w', b) →
        b = true ∧ (w'.sbx i).status = .created ∧ i ∈ w'.reg ∧ (w'.sbx i).lib = lib) ∧
    (w.create i true lib).isSome = true ∧
    (∀ w' b, w.create i false lib = some (w', b) →
        b = false ∧ (w'.sbx i).status = .initializing ∧ w'.reg = w.reg) ∧
    (w.create i false lib).isSome = true := by
  refine ⟨?_, by simp [World.create, h], ?_, by simp [World.create, h]⟩
  · intro w' b hc
    simp only [World.create, h, ne_eq, not_true_eq_false, if_false, if_true, Option.some.injEq, Prod.mk.injEq] at hc
    obtain ⟨rfl, rfl⟩ := hc
    simp [World.setS]
  · intro w' b hc
    simp only [World.create, h, ne_eq, not_true_eq_false, if_false, Bool.false_eq_true, Option.some.injEq, Prod.mk.injEq] at hc
    obtain ⟨rfl, rfl⟩ := hc
    simp [World.setS]

/-- destroy succeeds only on a created sandbox; afterwards it is NOT_CREATED (can be created again)
and its symbol cache is empty. -/
theorem C14_destroy_only_from_created (w : World) (i : Nat) (h : (w.sbx i).status ≠ .created) : w.destroy i = none := by
  simp [World.destroy, h]

theorem C14_destroy_effect (w w' : World) (i : Nat) (h : w.destroy i = some w') :
    (w.sbx i).status = .created ∧ (w'.sbx i).status = .notCreated ∧ (∀ n, (w'.sbx i).cache n = none) ∧
    w'.reg = w.reg.erase i ∧ (∀ j, j ≠ i → w'.sbx j = w.sbx j) := by
  unfold World.destroy at h
  by_cases h1 : (w.sbx i).status ≠ .created
  · simp [h1] at h
  · by_cases h2 : i ∉ w.reg
    · simp [h1, h2] at h
    · simp only [h1, h2, if_false, Option.some.injEq] at h
      subst h
      refine ⟨by simpa using h1, by simp [World.setS], by simp [World.setS], rfl, ?_⟩
      intro j hj; simp [World.setS, hj]

/-- the registry invariant: exactly the CREATED sandbox objects are in the list, each once -/
def RegInv (w : World) : Prop := (∀ i, i ∈ w.reg ↔ (w.sbx i).status = .created) ∧ w.reg.Nodup

theorem release_status (w w' : World) (o : Nat) (h : w.release o = some w') :
    w'.reg = w.reg ∧ ∀ j, (w'.sbx j).status = (w.sbx j).status := by
  rcases release_cases w w' o h with ⟨_, rfl⟩ | ⟨i, f, _, _, rfl⟩ | ⟨i, f, _, _, _, rfl⟩
  · exact ⟨rfl, fun _ => rfl⟩
  · exact ⟨rfl, fun _ => rfl⟩
  · refine ⟨rfl, fun j => ?_⟩
    by_cases hj : j = i
    · subst hj; simp [World.setS, releasedObj]
    · simp [World.setS, hj]

theorem moveOwner_status (w w' : World) (d s : Nat) (h : w.moveOwner d s = some w') :
    w'.reg = w.reg ∧ ∀ j, (w'.sbx j).status = (w.sbx j).status := by
  unfold World.moveOwner at h
  by_cases hds : d = s
  · simp [hds] at h; subst h; exact ⟨rfl, fun _ => rfl⟩
  · simp only [hds, if_false] at h
    cases hrel : w.release d with
    | none => simp [hrel] at h
    | some w1 =>
      simp only [hrel, Option.some.injEq] at h; subst h
      obtain ⟨r1, r2⟩ := release_status w w1 d hrel
      exact ⟨by simpa using r1, fun j => by simp only [setO_sbx]; exact r2 j⟩

theorem register_status (w w' : World) (i o f k : Nat) (h : w.register i o f = some (w', k)) :
    w'.reg = w.reg ∧ ∀ j, (w'.sbx j).status = (w.sbx j).status := by
  unfold World.register at h
  cases hn : w.registerNew i tmpOwner f with
  | none => simp [hn] at h
  | some r =>
    obtain ⟨w1, k1⟩ := r
    simp only [hn, Option.map_eq_some_iff, Prod.mk.injEq] at h
    obtain ⟨w2, hm, rfl, rfl⟩ := h
    obtain ⟨_, _, _, rfl⟩ := registerNew_cases w w1 i tmpOwner f k1 hn
    obtain ⟨r1, r2⟩ := moveOwner_status _ w2 o tmpOwner hm
    refine ⟨by simpa using r1, fun j => ?_⟩
    rw [r2 j, setO_sbx]
    by_cases hj : j = i
    · subst hj; simp [World.setS, registeredObj]
    · simp [World.setS, hj]

theorem step_regInv (w : World) (op : LOp) (h : RegInv w) : RegInv (w.step op) := by
  obtain ⟨hm, hn⟩ := h
  cases op with
  | create i ok lib =>
    simp only [World.step]
    cases hc : w.create i ok lib with
    | none => exact ⟨hm, hn⟩
    | some r =>
      obtain ⟨w', b⟩ := r
      simp only
      unfold World.create at hc
      by_cases h1 : (w.sbx i).status ≠ .notCreated
      · simp [h1] at hc
      · have h1' : (w.sbx i).status = .notCreated := by simpa using h1
        cases ok with
        | true =>
          simp only [h1, if_false, if_true, Option.some.injEq, Prod.mk.injEq] at hc
          obtain ⟨rfl, _⟩ := hc
          have hni : i ∉ w.reg := by rw [hm i, h1']; decide
          constructor
          · intro j
            by_cases hj : j = i
            · subst hj; simp [World.setS]
            · simp [World.setS, hj, hm j]
          · simp only [setS_reg]
            rw [List.nodup_append]
            refine ⟨hn, by simp, ?_⟩
            intro a ha b hb; simp at hb; subst hb; intro e; subst e; exact hni ha
        | false =>
          simp only [h1, if_false, Bool.false_eq_true, Option.some.injEq, Prod.mk.injEq] at hc
          obtain ⟨rfl, _⟩ := hc
          constructor
          · intro j
            by_cases hj : j = i
            · subst hj; simp [World.setS, hm j, h1']
            · simp [World.setS, hj, hm j]
          · exact hn
  | destroy i =>
    simp only [World.step]
    cases hd : w.destroy i with
    | none => exact ⟨hm, hn⟩
    | some w' =>
      simp only [Option.getD_some]
      obtain ⟨s0, s1, _, r, other⟩ := C14_destroy_effect w w' i hd
      constructor
      · intro j
        rw [r]
        by_cases hj : j = i
        · subst hj
          rw [s1]
          constructor
          · intro hmem; exact absurd hmem (by rw [List.Nodup.mem_erase_iff hn]; simp)
          · intro e; cases e
        · rw [other j hj, ← hm j, List.Nodup.mem_erase_iff hn]; simp [hj]
      · rw [r]; exact hn.erase i
  | register i o f =>
    simp only [World.step]
    cases hr : w.register i o f with
    | none => exact ⟨hm, hn⟩
    | some r =>
      obtain ⟨w', k⟩ := r
      obtain ⟨r1, r2⟩ := register_status w w' i o f k hr
      exact ⟨fun j => by rw [r1, r2 j]; exact hm j, by rw [r1]; exact hn⟩
  | release o =>
    simp only [World.step]
    cases hr : w.release o with
    | none => exact ⟨hm, hn⟩
    | some w' =>
      obtain ⟨r1, r2⟩ := release_status w w' o hr
      exact ⟨fun j => by simp only [Option.getD_some]; rw [r1, r2 j]; exact hm j, by simp only [Option.getD_some]; rw [r1]; exact hn⟩
  | move d s =>
    simp only [World.step]
    cases hr : w.moveOwner d s with
    | none => exact ⟨hm, hn⟩
    | some w' =>
      simp only [Option.getD_some]
      obtain ⟨r1, r2⟩ := moveOwner_status w w' d s hr
      exact ⟨fun j => by rw [r1, r2 j]; exact hm j, by rw [r1]; exact hn⟩
  | lookup i n =>
    simp only [World.step, World.lookup]
    split
    · exact ⟨hm, hn⟩
    · constructor
      · intro j
        by_cases hj : j = i
        · subst hj; simp [World.setS, hm j]
        · simp [World.setS, hj, hm j]
      · exact hn

/-- For every history (any operations, any length, any number of sandbox objects) the registry
contains exactly the created sandboxes, each once. -/
theorem C14_registry_exact (m : Nat) (ops : List LOp) : RegInv (ops.foldl World.step (World.init m)) := by
  suffices h : ∀ w, RegInv w → RegInv (ops.foldl World.step w) from
    h _ ⟨fun i => by simp [World.init], by simp [World.init]⟩
  induction ops with
  | nil => intro w hw; exact hw
  | cons op ops ih => intro w hw; exact ih _ (step_regInv w op hw)

/-- Exactly between a successful create and the matching destroy a sandbox is found from addresses
inside its memory. -/
theorem C14_find (w : World) (h : RegInv w) (i : Nat) :
    (w.find i = some i ↔ (w.sbx i).status = .created) ∧ (w.find i = none ↔ (w.sbx i).status ≠ .created) := by
  unfold World.find
  constructor
  · rw [← h.1 i]
    constructor
    · intro hf; have := List.mem_of_find?_eq_some hf; exact this
    · intro hm
      cases hf : w.reg.find? (· == i) with
      | none => rw [List.find?_eq_none] at hf; have := hf i hm; simp at this
      | some j => have := List.find?_some hf; simp at this; rw [this]
  · rw [List.find?_eq_none]
    constructor
    · intro hf hc; have hm := (h.1 i).2 hc; have := hf i hm; simp at this
    · intro hn x hx; simp; intro e; subst e; exact hn ((h.1 x).1 hx)

/-- Outside the window: allocation is refused (null), registration aborts, and releasing an owner
leaves the sandbox object untouched (unregistration is ignored). -/
theorem C14_outside_window (w : World) (i : Nat) (h : (w.sbx i).status ≠ .created) :
    w.isCreated i = false ∧ (∀ o f, w.register i o f = none) ∧
    (∀ o f w', w.owners o = some (i, f) → w.release o = some w' → w'.sbx i = w.sbx i) := by
  refine ⟨by simp [World.isCreated, h], fun o f => by simp [World.register, World.registerNew, h], ?_⟩
  intro o f w' ho hr
  rcases release_cases w w' o hr with ⟨hn, _⟩ | ⟨i', f', ho', _, rfl⟩ | ⟨i', f', ho', hc, _, _⟩
  · rw [ho] at hn; cases hn
  · rfl
  · rw [ho] at ho'; cases ho'; exact absurd hc h

/-- Cached symbol addresses of an earlier incarnation are not visible after re-creation: a lookup
after destroy + create resolves in the library bound by the new create. -/
theorem C14_fresh_symbols (w w1 w2 : World) (i lib : Nat) (name : String)
    (hd : w.destroy i = some w1) (hc : w1.create i true lib = some (w2, true)) :
    (w2.lookup i name).2 = lib := by
  obtain ⟨_, s1, c1, _, _⟩ := C14_destroy_effect w w1 i hd
  simp only [World.create, s1, ne_eq, not_true_eq_false, if_false, if_true, Option.some.injEq, Prod.mk.injEq, and_true] at hc
  subst hc
  simp [World.lookup, World.setS, c1 name]

/-- Full freshness (also callback registrations of the earlier incarnation are gone). -/
def C14_fresh_full : Prop :=
  ∀ (w w1 w2 : World) (i lib : Nat), w.destroy i = some w1 → w1.create i true lib = some (w2, true) →
    ∀ f, (w2.sbx i).keys f = false

/-- False of the code as it is (finding F6b): `callback_keys` (and the backend slot table) survive
destroy_sandbox when an owner outlives it; in the new incarnation the function cannot be registered. -/
theorem C14_fresh_witness : ¬ C14_fresh_full := by
  intro h
  -- a created sandbox with function 7 registered
  let w : World := { max := 2, sbx := fun _ => { status := .created, keys := fun f => f == 7 }, reg := [0],
                     owners := fun o => if o = 0 then some (0, 7) else none }
  obtain ⟨w1, hd⟩ : ∃ w1, w.destroy 0 = some w1 := ⟨_, rfl⟩
  obtain ⟨_, s1, _, _, _⟩ := C14_destroy_effect w w1 0 hd
  obtain ⟨w2, hc⟩ : ∃ w2, w1.create 0 true 1 = some (w2, true) := by
    simp [World.create, s1]
  have hk := h w w1 w2 0 1 hd hc 7
  -- keys are untouched by destroy and create
  have hd' := hd
  simp only [World.destroy, w] at hd'
  simp at hd'
  subst hd'
  simp only [World.create, World.setS] at hc
  simp at hc
  subst hc
  simp [World.setS] at hk

end Rlbox.C14
