import RlboxModel.IntConv
/-!
# C06 — Integers crossing the ABI boundary keep their value or the operation aborts
Property theorems only (the part that does not depend on the regenerated source facts; `Props/C06.lean`
adds the tie to the translated source).
-/
namespace Rlbox.C06
open Rlbox

/-- what C06 demands of one scalar conversion: value preserved (and representable), or abort
(and not representable) -/
def Faithful (to fr : IntTy) (v : Int) : Prop :=
  (convertFund to fr v = some v ∧ to.inRange v) ∨ (convertFund to fr v = none ∧ ¬ to.inRange v)

/-- Full-strength statement over *every* ordered pair of well-formed integer types. -/
def C06_full : Prop :=
  ∀ (to fr : IntTy) (v : Int), to.wf → fr.wf → fr.inRange v → Faithful to fr v

/-- Proved part: every ordered pair except a `bool` destination fed from a non-`bool` source
(a pair the ABI mapping never produces: see `C06_abi_pairs`). Every value, no sampling. -/
theorem C06_scalar_partial (to fr : IntTy) (v : Int) (hto : to.wf) (hfr : fr.wf)
    (hb : to.isBool = true → fr.isBool = true) (hv : fr.inRange v) : Faithful to fr v := by
  obtain ⟨ts, tb, tB⟩ := to
  obtain ⟨fs, fb, fB⟩ := fr
  simp only [IntTy.wf] at hto hfr
  obtain ⟨hto1, hto2⟩ := hto
  obtain ⟨hfr1, hfr2⟩ := hfr
  simp only [Faithful, convertFund, IntTy.inRange, IntTy.min, IntTy.max, IntTy.cast, IntTy.bits] at hv ⊢
  cases tB <;> cases fB <;> simp at hb hto2 hfr2 <;>
    rcases hto1 with h | h | h | h <;> subst h <;>
    rcases hfr1 with h | h | h | h <;> subst h <;>
    cases ts <;> cases fs <;> simp at hv hto2 hfr2 ⊢ <;> omega

/-- Non-vacuity: the hypotheses are met by concrete non-trivial instances (both outcomes occur). -/
example : Faithful ⟨false, 4, false⟩ ⟨true, 8, false⟩ 4294967295 := by
  apply C06_scalar_partial <;> decide
example : convertFund ⟨false, 4, false⟩ ⟨true, 8, false⟩ 4294967296 = none := by decide
example : convertFund ⟨false, 4, false⟩ ⟨true, 8, false⟩ 4294967295 = some 4294967295 := by decide

/-- The full statement is false of the code as it is: `unsigned char` 200 → `bool` takes the
"same signedness, destination not narrower" branch and silently becomes 1.  This pair is never
produced by the ABI mapping (`C06_abi_pairs`), it is reachable only through the raw helper
`rlbox::detail::convert_type_fundamental`. -/
theorem C06_bool_witness : ¬ C06_full := by
  intro h
  have := h ⟨false, 1, true⟩ ⟨false, 1, false⟩ 200 (by decide) (by decide) (by decide)
  simp [Faithful, convertFund, IntTy.inRange, IntTy.min, IntTy.max, IntTy.cast] at this

/-- Arrays: element-wise, all-or-nothing. -/
theorem C06_array (to fr : IntTy) (vs : List Int) (hto : to.wf) (hfr : fr.wf)
    (hb : to.isBool = true → fr.isBool = true) (hv : ∀ v ∈ vs, fr.inRange v) :
    (convertArr to fr vs = some vs ∧ ∀ v ∈ vs, to.inRange v) ∨
    (convertArr to fr vs = none ∧ ∃ v ∈ vs, ¬ to.inRange v) := by
  unfold convertArr
  split
  · -- memcpy branch: same width and signedness; every element is representable and unchanged
    rename_i hs
    left
    refine ⟨rfl, fun v hvm => ?_⟩
    have hf := C06_scalar_partial to fr v hto hfr hb (hv v hvm)
    have hc : convertFund to fr v = some (to.cast v) := by
      unfold convertFund; simp [hs.1, hs.2]
    rcases hf with ⟨_, h2⟩ | ⟨h1, _⟩
    · exact h2
    · rw [hc] at h1; cases h1
  · induction vs with
    | nil => left; simp
    | cons a as ih =>
      have ha := C06_scalar_partial to fr a hto hfr hb (hv a (by simp))
      have ih' := ih (fun v hvm => hv v (by simp [hvm]))
      rcases ha with ⟨h1, h2⟩ | ⟨h1, h2⟩
      · rcases ih' with ⟨i1, i2⟩ | ⟨i1, w, hw, hw2⟩
        · left; refine ⟨by simp [List.mapM_cons, h1, i1], ?_⟩
          intro v hvm; simp at hvm; rcases hvm with rfl | hvm
          · exact h2
          · exact i2 v hvm
        · right; exact ⟨by simp [List.mapM_cons, h1, i1], w, by simp [hw], hw2⟩
      · right; exact ⟨by simp [List.mapM_cons, h1], a, by simp, h2⟩

/-- Every pair `(T, convert_base_types_t<T>)` and its reverse, for every well-formed ABI and every
base type, is faithful in both directions: store/argument (`toSandbox`) and load/result
(`toApplication`). This is the statement C06 makes about ABI crossings. -/
theorem C06_abi_pairs (abi : Abi) (habi : abi.wf) (t : BaseTy) (v : Int) :
    (t.app.inRange v → Faithful (t.guest abi) t.app v) ∧
    ((t.guest abi).inRange v → Faithful t.app (t.guest abi) v) := by
  obtain ⟨h1, h2, h3, h4⟩ := habi
  constructor <;> intro hv <;> apply C06_scalar_partial _ _ _ _ _ _ hv <;>
    cases t <;> simp [BaseTy.guest, BaseTy.app, IntTy.wf, *]

example : abiA.wf ∧ abiB.wf ∧ abiC.wf := by simp [Abi.wf, abiA, abiB, abiC]
/-- non-vacuity of `C06_abi_pairs`: `long` 2^31 does not fit ABI A's 32-bit `long` -/
example : toSandbox abiA .long 2147483648 = none ∧ toSandbox abiA .long 2147483647 = some 2147483647 := by
  decide

end Rlbox.C06
