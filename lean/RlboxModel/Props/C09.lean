import RlboxModel.Snapshot
/-!
# C09 — Verified copies are application-memory snapshots: no check/use window
Property theorems only.  Every statement is for EVERY adversary (`Adv`: an arbitrary rewrite of the
whole sandbox memory before every single byte read), every initial memory and every pointer source.
-/
namespace Rlbox.C09
open Rlbox Rlbox.Snap

theorem run_clock_mono {α : Type} (adv : Adv) (p : Prog α) : ∀ s, s.clock ≤ (run adv p s).2.clock := by
  induction p with
  | ret a => intro s; simp [run]
  | read addr k ih =>
    intro s
    simp only [run]
    have := ih (adv s.clock s.mem addr) ⟨adv s.clock s.mem, s.clock + 1⟩
    simp only at this
    omega

/-- **Snapshot**: the outcome of ANY program over sandbox reads -- in particular of every
`copy_and_verify` variant below -- depends only on what the adversary did before the reads that
were actually performed.  Whatever the sandbox writes after the last read (while the verifier runs,
or afterwards) cannot change what the verifier received, for every adversary. -/
theorem C09_snapshot {α : Type} (p : Prog α) (adv adv' : Adv) :
    ∀ s, (∀ n, s.clock ≤ n → n < (run adv p s).2.clock → adv' n = adv n) → run adv' p s = run adv p s := by
  induction p with
  | ret a => intro s _; simp [run]
  | read addr k ih =>
    intro s h
    have hm := run_clock_mono adv (k (adv s.clock s.mem addr)) ⟨adv s.clock s.mem, s.clock + 1⟩
    have h0 : adv' s.clock = adv s.clock := by
      apply h s.clock (Nat.le_refl _)
      simp only [run]
      simp only at hm
      omega
    simp only [run, h0]
    apply ih
    intro n hn1 hn2
    apply h n (by simp only at hn1; omega)
    simpa [run] using hn2

/-- the variants are such programs: what they return is a value, not a reference into the sandbox -/
def variants (src : PSrc) : List (Prog Out) :=
  [cavScalar 0x300 4, cavPtr src 4, cavStruct src 12, cavRange src 4 4, cavStrU src, cavStrS src, cavAddr src, cavBuf src 16, copyMem 0x100 6]

theorem C09_snapshot_variants (src : PSrc) (adv adv' : Adv) (s : St) :
    ∀ p ∈ variants src, (∀ n, s.clock ≤ n → n < (run adv p s).2.clock → adv' n = adv n) → (run adv' p s).1 = (run adv p s).1 := by
  intro p _ h
  rw [C09_snapshot p adv adv' s h]

/-! ## run of a bind, lengths of what was read -/

theorem run_bind {α β : Type} (adv : Adv) (x : Prog α) (f : α → Prog β) :
    ∀ s, run adv (x >>= f) s = run adv (f (run adv x s).1) (run adv x s).2 := by
  induction x with
  | ret a => intro s; rfl
  | read addr k ih =>
    intro s
    show run adv (Prog.read addr fun b => (k b).bind f) s = _
    simp only [run]
    exact ih _ _

theorem run_pure {α : Type} (adv : Adv) (a : α) (s : St) : run adv (pure a : Prog α) s = (a, s) := rfl

theorem readBytes_length (adv : Adv) (n : Nat) : ∀ a s, (run adv (readBytes a n) s).1.length = n := by
  induction n with
  | zero => intro a s; rfl
  | succ n ih =>
    intro a s
    simp only [readBytes, run_bind, run_pure, List.length_cons, ih]

theorem copyLoop_length (adv : Adv) (src : PSrc) (elSize : Nat) (n : Nat) :
    ∀ i s bs, (run adv (copyLoop src elSize n i) s).1 = some bs → bs.length = n * elSize := by
  induction n with
  | zero => intro i s bs h; simp only [copyLoop, run_pure, Option.some.injEq] at h; subst h; simp
  | succ n ih =>
    intro i s bs h
    simp only [copyLoop, run_bind] at h
    split at h
    · simp [run_pure] at h
    · split at h
      · simp [run_pure] at h
      · simp only [run_bind, run_pure] at h
        cases hr : (run adv (copyLoop src elSize n (i + 1))
            (run adv (readBytes ((run adv (fetch src) s).1 + i * elSize) elSize) (run adv (fetch src) s).2).2).1 with
        | none => simp [hr] at h
        | some rest =>
          simp only [hr, Option.map_some, Option.some.injEq] at h
          subst h
          have := ih _ _ rest hr
          simp only [List.length_append, readBytes_length, this]
          rw [Nat.succ_mul]; omega

/-- `copy_and_verify_range_helper`: a delivered buffer has exactly `count` elements, and that extent
was range-checked against a pointer value inside the sandbox -/
theorem rangeHelper_val (adv : Adv) (src : PSrc) (count elSize : Nat) (s : St) (bs : List Nat)
    (h : (run adv (rangeHelper src count elSize) s).1 = .val bs) :
    bs.length = count * elSize ∧ count ≠ 0 ∧ ∃ p, p ≠ 0 ∧ p + count * elSize ≤ rsize := by
  simp only [rangeHelper, verifyRange, run_bind] at h
  by_cases hc : count = 0
  · simp [hc, run_pure, run_bind] at h
  · simp only [hc, if_false, run_bind] at h
    by_cases hp : (run adv (fetch src) s).1 = 0
    · simp [hp, run_pure, run_bind] at h
    · simp only [hp, if_false] at h
      by_cases hr : rangeOk (run adv (fetch src) s).1 (count * elSize) = true
      · simp only [hr, if_true, run_pure] at h
        cases hp' : (run adv (fetch src) s).1 with
        | zero => exact absurd hp' hp
        | succ p' =>
          simp only [hp', run_bind] at h
          cases hl : (run adv (copyLoop src elSize count 0) (run adv (fetch src) s).2).1 with
          | none => simp [hl, run_pure] at h
          | some l =>
            simp only [hl, run_pure, Out.val.injEq] at h
            subst h
            refine ⟨copyLoop_length adv src elSize count 0 _ l hl, hc, (run adv (fetch src) s).1, hp, ?_⟩
            simpa [rangeOk] using hr
      · simp [hr, run_pure] at h

/-- **Strings** (`unique_ptr<char[]>` verifier): for every adversary, a delivered string has a NUL as
the last byte of its own buffer (so it is terminated inside the buffer), and the buffer is exactly
as long as an extent `[p, p + length)` that was range-checked (never longer than the checked length). -/
theorem C09_string (adv : Adv) (src : PSrc) (s : St) (bs : List Nat)
    (h : (run adv (cavStrU src) s).1 = .val bs) :
    bs ≠ [] ∧ bs.getLast? = some 0 ∧ (∃ i, i < bs.length ∧ bs[i]? = some 0) ∧
    (∃ p, p ≠ 0 ∧ p + bs.length ≤ rsize) := by
  simp only [cavStrU, run_bind] at h
  by_cases hp : (run adv (fetch src) s).1 = 0
  · simp [hp, run_pure] at h
  · simp only [hp, if_false, run_bind] at h
    cases hl : (run adv (strlenFrom (run adv (fetch src) s).1 rsize 0) (run adv (fetch src) s).2).1 with
    | none => simp [hl, run_pure] at h
    | some len =>
      simp only [hl, run_bind] at h
      cases hr : (run adv (rangeHelper src (len + 1) 1)
          (run adv (strlenFrom (run adv (fetch src) s).1 rsize 0) (run adv (fetch src) s).2).2).1 with
      | val cs =>
        simp only [hr, run_pure, Out.val.injEq] at h
        obtain ⟨h1, _, p, hp0, h3⟩ := rangeHelper_val adv src (len + 1) 1 _ cs hr
        subst h
        have hlen : (setLast cs 0).length = len + 1 := by
          simp only [setLast, List.length_append, List.length_dropLast, List.length_cons, List.length_nil]
          omega
        refine ⟨?_, ?_, ⟨len, by omega, ?_⟩, ⟨p, hp0, by omega⟩⟩
        · intro hnil; rw [hnil] at hlen; simp at hlen
        · simp [setLast]
        · simp only [setLast]
          rw [List.getElem?_append_right (by simp; omega)]
          simp only [List.length_dropLast]
          have : len - (cs.length - 1) = 0 := by omega
          simp [this]
      | null => simp [hr, run_pure] at h
      | abort => simp [hr, run_pure] at h
      | fault => simp [hr, run_pure] at h
      | addr a => simp [hr, run_pure] at h

theorem verifyRange_some (adv : Adv) (src : PSrc) (count elSize : Nat) (s : St) (q : Nat)
    (h : (run adv (verifyRange src count elSize) s).1 = some q) (hq : q ≠ 0) : q + count * elSize ≤ rsize := by
  simp only [verifyRange] at h
  by_cases hc : count = 0
  · simp [hc, run_pure] at h
  · simp only [hc, if_false, run_bind] at h
    by_cases hp : (run adv (fetch src) s).1 = 0
    · simp only [hp, if_true, run_pure, Option.some.injEq] at h; exact absurd h.symm hq
    · simp only [hp, if_false] at h
      by_cases hr : rangeOk (run adv (fetch src) s).1 (count * elSize) = true
      · simp only [hr, if_true, run_pure, Option.some.injEq] at h
        subst h
        simpa [rangeOk] using hr
      · simp [hr, run_pure] at h

/-- **Strings** (`std::string` verifier): the delivered string plus its terminator is exactly an extent
`[q, q + length + 1)` that was range-checked, for every adversary -- never longer than the checked length. -/
theorem C09_string_std (adv : Adv) (src : PSrc) (s : St) (bs : List Nat)
    (h : (run adv (cavStrS src) s).1 = .val bs) : (∃ q, q ≠ 0 ∧ q + (bs.length + 1) ≤ rsize) ∨ bs = [] := by
  simp only [cavStrS, run_bind] at h
  by_cases hp : (run adv (fetch src) s).1 = 0
  · simp only [hp, if_true, run_pure, Out.val.injEq] at h; exact Or.inr h.symm
  · simp only [hp, if_false, run_bind] at h
    cases hl : (run adv (strlenFrom (run adv (fetch src) s).1 rsize 0) (run adv (fetch src) s).2).1 with
    | none => simp [hl, run_pure] at h
    | some len =>
      simp only [hl, run_bind] at h
      cases hv : (run adv (verifyRange src (len + 1) 1)
          (run adv (strlenFrom (run adv (fetch src) s).1 rsize 0) (run adv (fetch src) s).2).2).1 with
      | none => simp [hv, run_pure] at h
      | some q =>
        cases q with
        | zero => simp only [hv, run_pure, Out.val.injEq] at h; exact Or.inr h.symm
        | succ q' =>
          simp only [hv, run_bind, run_pure, Out.val.injEq] at h
          subst h
          left
          have := verifyRange_some adv src (len + 1) 1 _ (q' + 1) hv (by omega)
          refine ⟨q' + 1, by omega, ?_⟩
          simp only [readBytes_length]
          omega

/-- **Ranges**: a delivered buffer holds exactly `count` elements -- never sized from a second look
at the sandbox -- and `count` elements fit the sandbox. -/
theorem C09_range (adv : Adv) (src : PSrc) (count elSize : Nat) (s : St) (bs : List Nat)
    (h : (run adv (cavRange src count elSize) s).1 = .val bs) :
    bs.length = count * elSize ∧ ∃ p, p ≠ 0 ∧ p + count * elSize ≤ rsize := by
  have := rangeHelper_val adv src count elSize s bs h
  exact ⟨this.1, this.2.2⟩

/-- **Pointer to a fundamental value**: the pointer is fetched once; a null pointer reaches the
verifier as `nullptr` and is never dereferenced, whatever the sandbox does to the pointer cell
afterwards. -/
theorem C09_ptr (adv : Adv) (src : PSrc) (n : Nat) (s : St) :
    let p := (run adv (fetch src) s).1
    (p = 0 → (run adv (cavPtr src n) s).1 = .null) ∧
    (p ≠ 0 → p + n ≤ rsize → ∃ bs, (run adv (cavPtr src n) s).1 = .val bs ∧ bs.length = n ∧
        bs = (run adv (readBytes p n) (run adv (fetch src) s).2).1) := by
  intro p
  constructor
  · intro hp
    simp only [cavPtr, run_bind]
    simp [p, hp] at *
    simp [hp, run_pure]
  · intro hp hr
    refine ⟨(run adv (readBytes p n) (run adv (fetch src) s).2).1, ?_, readBytes_length _ _ _ _, rfl⟩
    simp only [cavPtr, run_bind]
    have hp' : ¬ (run adv (fetch src) s).1 = 0 := hp
    have hr' : (run adv (fetch src) s).1 + n ≤ rsize := hr
    simp [hp', hr', run_pure, run_bind, p]

/-- non-vacuity: "hello" at 0x100; an adversary that removes the terminator after the length was
taken still yields a terminated 6-byte buffer -/
def exMem : Mem := fun a => if a = 0x100 then 104 else if a = 0x101 then 101 else if a = 0x102 then 108 else if a = 0x103 then 108
  else if a = 0x104 then 111 else if a = 0x105 then 0 else if a = 0x106 then 70 else 0
def exAdv : Adv := fun n m => if n = 6 then (fun a => if a = 0x105 then 88 else m a) else m
example : (run exAdv (cavStrU (.app 0x100)) ⟨exMem, 0⟩).1 = .val [104, 101, 108, 108, 111, 0] := by decide
example : (run (fun _ m => m) (cavStrU (.app 0x100)) ⟨exMem, 0⟩).2.clock = 12 := by decide

end Rlbox.C09
