import RlboxModel.Tokens
/-!
# C15 — App-pointer tokens are non-zero, bounded, unique and resolve to their pointer
Property theorems only. All statements hold for every limit `max` and every table state that
satisfies the invariant; `C15_inv` shows every reachable state does (any history, any length).
-/
namespace Rlbox.C15
open Rlbox

/-- `scan` returns the first free token of its span -/
theorem scan_some (used : Nat → Option Nat) (i f t : Nat) (h : scan used i f = some t) :
    i ≤ t ∧ t < i + f ∧ used t = none := by
  induction f generalizing i with
  | zero => simp [scan] at h
  | succ f ih =>
    unfold scan at h
    split at h
    · cases h; rename_i hu; exact ⟨Nat.le_refl _, by omega, hu⟩
    · obtain ⟨a, b, c⟩ := ih (i + 1) h; exact ⟨by omega, by omega, c⟩

theorem scan_none (used : Nat → Option Nat) (i f : Nat) :
    scan used i f = none ↔ ∀ j, i ≤ j → j < i + f → used j ≠ none := by
  induction f generalizing i with
  | zero => simp [scan]; intro j h1 h2; omega
  | succ f ih =>
    unfold scan
    split
    · rename_i hu
      simp only [reduceCtorEq, false_iff]
      intro h; exact h i (Nat.le_refl _) (by omega) hu
    · rename_i hu
      rw [ih (i + 1)]
      constructor
      · intro h j h1 h2
        by_cases hj : j = i
        · subst hj; exact hu
        · exact h j (by omega) (by omega)
      · intro h j h1 h2; exact h j (by omega) (by omega)

/-- the table invariant: token 0 is permanently reserved, the cursor stays in `[1, max+1]` -/
def Inv (max : Nat) (m : TokMap) : Prop := m.used 0 ≠ none ∧ 1 ≤ m.counter ∧ m.counter ≤ max + 1

theorem inv_init (max : Nat) : Inv max TokMap.init := by
  simp [Inv, TokMap.init]

theorem getUnused_spec (m : TokMap) (max t : Nat) (hi : Inv max m) (h : getUnused m max = some t) :
    1 ≤ t ∧ t ≤ max ∧ m.used t = none := by
  obtain ⟨_, h1, h2⟩ := hi
  unfold getUnused at h
  split at h
  · rename_i i hs; cases h
    obtain ⟨a, b, c⟩ := scan_some _ _ _ _ hs
    exact ⟨by omega, by omega, c⟩
  · obtain ⟨a, b, c⟩ := scan_some _ _ _ _ h
    exact ⟨by omega, by omega, c⟩

theorem getUnused_none (m : TokMap) (max : Nat) (hi : Inv max m) :
    getUnused m max = none ↔ ∀ t, 1 ≤ t → t ≤ max → m.used t ≠ none := by
  obtain ⟨_, h1, h2⟩ := hi
  unfold getUnused
  split
  · rename_i i hs
    simp only [reduceCtorEq, false_iff]
    obtain ⟨a, b, c⟩ := scan_some _ _ _ _ hs
    intro h; exact h i (by omega) (by omega) c
  · rename_i hs
    rw [scan_none] at hs ⊢
    constructor
    · intro h t ht1 ht2
      by_cases hc : t < m.counter
      · exact h t ht1 (by omega)
      · exact hs t (by omega) (by omega)
    · intro h j hj1 hj2; exact h j hj1 (by omega)

/-- A registration yields a token that is non-zero, within the limit and free at that moment (hence
different from every currently registered token); the table then maps exactly that token to the
pointer and is otherwise unchanged; the invariant is kept. -/
theorem C15_token (m m' : TokMap) (max p t : Nat) (hi : Inv max m)
    (h : m.register max p = some (t, m')) :
    1 ≤ t ∧ t ≤ max ∧ m.used t = none ∧ m'.lookup t = some p ∧
    (∀ t', t' ≠ t → m'.lookup t' = m.lookup t') ∧ Inv max m' := by
  unfold TokMap.register at h
  cases hg : getUnused m max with
  | none => simp [hg] at h
  | some i =>
    simp only [hg, Option.some.injEq, Prod.mk.injEq] at h
    obtain ⟨rfl, rfl⟩ := h
    obtain ⟨a, b, c⟩ := getUnused_spec m max i hi hg
    refine ⟨a, b, c, by simp [TokMap.lookup, updateFn], ?_, ?_⟩
    · intro t' ht; simp [TokMap.lookup, updateFn, ht]
    · refine ⟨?_, by simp, by simp; omega⟩
      have : (0 : Nat) ≠ i := by omega
      simp [updateFn, this]; exact hi.1

/-- Registration aborts exactly when every token `1..max` is in use -- never a duplicate. -/
theorem C15_exhausted (m : TokMap) (max p : Nat) (hi : Inv max m) :
    m.register max p = none ↔ ∀ t, 1 ≤ t → t ≤ max → m.used t ≠ none := by
  rw [← getUnused_none m max hi]
  unfold TokMap.register
  cases getUnused m max <;> simp

/-- Lookup returns the registered pointer until the token is released; afterwards it aborts and the
token is free again; releasing an unknown token aborts; other tokens are unaffected. -/
theorem C15_lookup (m m' : TokMap) (t : Nat) (h : m.remove t = some m') :
    m.lookup t ≠ none ∧ m'.lookup t = none ∧ (∀ t', t' ≠ t → m'.lookup t' = m.lookup t') ∧ m'.counter = m.counter := by
  unfold TokMap.remove at h
  split at h
  · cases h
  · rename_i hu; cases h
    refine ⟨hu, by simp [TokMap.lookup, updateFn], ?_, rfl⟩
    intro t' ht; simp [TokMap.lookup, updateFn, ht]

theorem C15_remove_unknown (m : TokMap) (t : Nat) : m.remove t = none ↔ m.lookup t = none := by
  unfold TokMap.remove TokMap.lookup; split <;> simp_all

theorem remove_inv (m m' : TokMap) (max t : Nat) (hi : Inv max m) (ht : t ≠ 0) (h : m.remove t = some m') : Inv max m' := by
  unfold TokMap.remove at h
  split at h
  · cases h
  · cases h
    refine ⟨?_, hi.2.1, hi.2.2⟩
    have : (0 : Nat) ≠ t := fun e => ht e.symm
    simp [updateFn, this]; exact hi.1

/-- The invariant holds in every reachable state: any sequence of registrations and releases of
non-zero tokens (token 0 is never handed out, `C15_token`), any length, any limit. -/
theorem C15_inv (max : Nat) (ops : List TokOp) (hz : ∀ op ∈ ops, op ≠ TokOp.rel 0) :
    Inv max (ops.foldl (fun m op => m.step max op) TokMap.init) := by
  suffices h : ∀ m, Inv max m → Inv max (ops.foldl (fun m op => m.step max op) m) from h _ (inv_init max)
  induction ops with
  | nil => intro m hm; exact hm
  | cons op ops ih =>
    intro m hm
    simp only [List.foldl_cons]
    apply ih (fun o ho => hz o (by simp [ho]))
    cases op with
    | reg p =>
      simp only [TokMap.step]
      cases hr : m.register max p with
      | none => exact hm
      | some r => obtain ⟨t, m'⟩ := r; exact (C15_token m m' max p t hm hr).2.2.2.2.2
    | rel t =>
      simp only [TokMap.step]
      cases hr : m.remove t with
      | none => exact hm
      | some m' =>
        have ht : t ≠ 0 := by
          intro e; subst e; exact hz (TokOp.rel 0) (by simp) rfl
        exact remove_inv m m' max t hm ht hr

/-! ## Owners -/

/-- every non-empty owner holds a live token and no two owners hold the same token -/
def OwnInv (max : Nat) (s : OwnState) : Prop :=
  Inv max s.map ∧ (∀ o, s.owners o ≠ 0 → s.map.used (s.owners o) ≠ none) ∧
  (∀ o1 o2, o1 ≠ o2 → s.owners o1 ≠ 0 → s.owners o1 ≠ s.owners o2)

theorem release_spec (max : Nat) (s s' : OwnState) (o : Nat) (hi : OwnInv max s) (h : s.release o = some s') :
    OwnInv max s' ∧ s'.owners o = 0 ∧ (∀ o', o' ≠ o → s'.owners o' = s.owners o') ∧
    (s.owners o ≠ 0 → s'.map.lookup (s.owners o) = none) ∧
    (∀ t, t ≠ s.owners o → s'.map.lookup t = s.map.lookup t) := by
  obtain ⟨hm, hl, hu⟩ := hi
  unfold OwnState.release at h
  split at h
  · rename_i h0; cases h
    exact ⟨⟨hm, hl, hu⟩, h0, fun _ _ => rfl, fun hne => absurd h0 hne, fun _ _ => rfl⟩
  · rename_i h0
    cases hr : s.map.remove (s.owners o) with
    | none => simp [hr] at h
    | some m' =>
      simp only [hr, Option.some.injEq] at h; subst h
      obtain ⟨_, l2, l3, _⟩ := C15_lookup s.map m' (s.owners o) hr
      refine ⟨⟨remove_inv s.map m' max _ hm h0 hr, ?_, ?_⟩, by simp [setOwner], ?_, fun _ => l2, l3⟩
      · intro o' ho'
        by_cases e : o' = o
        · subst e; simp [setOwner] at ho'
        · simp only [setOwner, e, if_false] at ho' ⊢
          have hne : s.owners o' ≠ s.owners o := hu o' o e ho'
          have := l3 (s.owners o') hne
          simp only [TokMap.lookup] at this
          rw [this]; exact hl o' ho'
      · intro o1 o2 hne h1
        by_cases e1 : o1 = o
        · subst e1; simp [setOwner] at h1
        · simp only [setOwner, e1, if_false] at h1 ⊢
          by_cases e2 : o2 = o
          · subst e2; simp; exact h1
          · simp only [e2, if_false]; exact hu o1 o2 hne h1
      · intro o' ho'; simp [setOwner, ho']

/-- Moving an owner transfers the token and leaves the source inert; overwriting an owner releases
what it held (lookup of that token aborts afterwards); nothing else changes. -/
theorem C15_owner_move (max : Nat) (s s' : OwnState) (dst src : Nat) (hne : dst ≠ src) (hi : OwnInv max s)
    (h : s.step max (.moveAssign dst src) = some s') :
    OwnInv max s' ∧ s'.owners dst = s.owners src ∧ s'.owners src = 0 ∧
    (s.owners dst ≠ 0 → s'.map.lookup (s.owners dst) = none) ∧
    (∀ t, t ≠ s.owners dst → s'.map.lookup t = s.map.lookup t) := by
  simp only [OwnState.step, hne, if_false] at h
  cases hr : s.release dst with
  | none => simp [hr] at h
  | some s1 =>
    simp only [hr, Option.some.injEq] at h; subst h
    obtain ⟨⟨im, il, iu⟩, r0, rother, rfree, rkeep⟩ := release_spec max s s1 dst hi hr
    have hsrc : s1.owners src = s.owners src := rother src (fun e => hne e.symm)
    refine ⟨⟨im, ?_, ?_⟩, ?_, by simp [setOwner], rfree, rkeep⟩
    · intro o ho
      by_cases e1 : o = src
      · subst e1; simp [setOwner] at ho
      · by_cases e2 : o = dst
        · subst e2
          simp only [setOwner, e1, if_false, if_true] at ho ⊢
          exact il src ho
        · simp only [setOwner, e1, e2, if_false] at ho ⊢; exact il o ho
    · intro o1 o2 hne12 h1
      have key : ∀ o, (setOwner (setOwner s1.owners dst (s1.owners src)) src 0) o =
          if o = src then 0 else if o = dst then s1.owners src else s1.owners o := by
        intro o; simp [setOwner]
      simp only [key] at h1 ⊢
      by_cases a1 : o1 = src
      · rw [if_pos a1] at h1; exact absurd rfl h1
      · rw [if_neg a1] at h1 ⊢
        by_cases b1 : o1 = dst
        · rw [if_pos b1] at h1 ⊢
          by_cases a2 : o2 = src
          · rw [if_pos a2]; exact h1
          · rw [if_neg a2]
            by_cases b2 : o2 = dst
            · exact absurd (b1.trans b2.symm) hne12
            · rw [if_neg b2]; exact iu src o2 (fun e => a2 e.symm) h1
        · rw [if_neg b1] at h1 ⊢
          by_cases a2 : o2 = src
          · rw [if_pos a2]; exact h1
          · rw [if_neg a2]
            by_cases b2 : o2 = dst
            · rw [if_pos b2]; exact iu o1 src a1 h1
            · rw [if_neg b2]; exact iu o1 o2 hne12 h1
    · simp [setOwner, hne, hsrc]

/-- Destroying / unregistering an owner releases its token. -/
theorem C15_owner_release (max : Nat) (s s' : OwnState) (o : Nat) (hi : OwnInv max s)
    (h : s.step max (.unregister o) = some s') :
    OwnInv max s' ∧ s'.owners o = 0 ∧ (s.owners o ≠ 0 → s'.map.lookup (s.owners o) = none) := by
  simp only [OwnState.step] at h
  obtain ⟨a, b, _, d, _⟩ := release_spec max s s' o hi h
  exact ⟨a, b, d⟩

/-- non-vacuity: a reachable state with two live tokens, exhaustion at limit 2, reuse after release -/
example :
    let m0 := TokMap.init
    let r1 := m0.register 2 111
    (r1.map (·.1) = some 1) ∧
    ((r1.bind fun (_, m1) => m1.register 2 222).map (·.1) = some 2) ∧
    ((r1.bind fun (_, m1) => (m1.register 2 222).bind fun (_, m2) => m2.register 2 333).isNone = true) ∧
    ((r1.bind fun (_, m1) => (m1.register 2 222).bind fun (_, m2) => (m2.remove 1).bind fun m3 => m3.register 2 333).map (·.1) = some 1) := by
  decide

end Rlbox.C15
