import RlboxModel.TypingSpec
/-!
# C01 — Sandbox data cannot lose its taint implicitly
Property theorems only.  The table of single-step facts is regenerated from the compiler's
verdicts on the current headers on every run; the theorems below are proved about that table.
-/
namespace Rlbox.C01
open Rlbox Rlbox.Typing

def stepSafeB : Bool := tab.all (rowSafe declass)
def opsNonVoidB : Bool := tab.all fun r => r.2.1.all fun o => o.1 != wVoid

/-- PROOF OBLIGATION re-checked against the compiler's verdicts on every run: every accepted
single-step row with a wrapped operand yields a wrapped result, unless it is a declassifier. -/
theorem table_safe : stepSafeB = true := by decide +kernel
theorem table_ops_nonvoid : opsNonVoidB = true := by decide +kernel

theorem stepSafe : StepSafe declass tab := by
  intro r hr
  have := table_safe
  unfold stepSafeB at this
  rw [List.all_eq_true] at this
  exact this r hr

theorem opsNonVoid : OpsNonVoid tab := by
  intro r hr o ho
  have := table_ops_nonvoid
  unfold opsNonVoidB at this
  rw [List.all_eq_true] at this
  have h2 := this r hr
  rw [List.all_eq_true] at h2
  simpa using h2 o ho

/-- **C01**: for every expression tree over the wrapper API (every operator, conversion context,
member, cast; leaves of every wrapper and type kind; ANY depth), if it compiles and still carries
sandbox-originated data then its type is not a plain application type. -/
theorem C01_taint_preserved (e : Expr) (t : Ty) (h : typeOf tab e = some t) (ht : semTaint declass tab e = true) :
    t.1 ≠ wPlain :=
  taint_preserved declass tab stepSafe opsNonVoid e t h ht

def cmpRules : List String := ["bin==", "bin!=", "bin<", "bin<=", "bin>", "bin>=", "eq_null", "ne_null", "lnot"]

/-- any comparison that involves data still residing in sandbox memory (a tainted_volatile operand)
or a hint yields only a hint -/
def hintB : Bool := tab.all fun r =>
  !(cmpRules.contains (ruleName r.1) && r.2.1.any (fun o => o.1 == wTvol || o.1 == wBHint || o.1 == wIHint)) ||
  r.2.2.1 == wBHint
theorem C01_hint : hintB = true := by decide +kernel

/-- `rlbox::memcmp` compares bytes that reside in sandbox memory: its result is only ever an int hint -/
def memcmpHintB : Bool := tab.all fun r => !(ruleName r.1 == "memcmp_hint") || r.2.2.1 == wIHint
theorem C01_memcmp_hint : memcmpHintB = true ∧ (tab.any fun r => ruleName r.1 == "memcmp_hint") = true := by decide +kernel

/-- a hint stays a hint: whatever is computed from a hint operand (copies, negation, comparisons, arithmetic, logic) is again
a hint (or nothing, or the address of the hint object) -- it can never be laundered into a `tainted` value, which a verifier
would accept; only the explicitly named unsafe unwrappers turn it into a plain value -/
def hintStickyB : Bool := tab.all fun r =>
  !(r.2.1.any fun o => o.1 == wBHint || o.1 == wIHint) ||
  r.2.2.1 == wBHint || r.2.2.1 == wIHint || r.2.2.1 == wVoid || r.2.2.1 == wPtrToWrapper ||
  ["m_unverified", "m_safe_because", "m_internal"].contains (ruleName r.1)
theorem C01_hint_sticky : hintStickyB = true := by decide +kernel

/-- hints cannot be passed to a verifier: no `copy_and_verify*` row with a hint operand compiles -/
def hintNotVerifiableB : Bool := tab.all fun r =>
  !(["m_cav", "m_cav_addr", "m_cav_range", "m_cav_string", "m_cav_buf"].contains (ruleName r.1) &&
    r.2.1.any (fun o => o.1 == wBHint || o.1 == wIHint))
theorem C01_hint_not_verifiable : hintNotVerifiableB = true := by decide +kernel

/-- `tainted_opaque` is inert: the only accepted steps on an opaque operand are copying it
(initialisation, or assignment of an opaque to an opaque, which yields the opaque again), taking its
address, `set_zero`, `from_opaque` and freeing it -- in particular no comparison, arithmetic or
logical operator accepts an opaque operand on either side -/
def opaqueInertB : Bool := tab.all fun r =>
  !(r.2.1.any (fun o => o.1 == wOpaque)) ||
  ["init_auto", "addr", "m_set_zero", "f_from_opaque", "free"].contains (ruleName r.1) ||
  (ruleName r.1 == "bin=" && r.2.1.all (fun o => o.1 == wOpaque) && r.2.2.1 == wOpaque)
theorem C01_opaque_inert : opaqueInertB = true := by decide +kernel

/-- private storage stays private: no member access to the raw fields compiles -/
def noRawAccessB : Bool := tab.all fun r =>
  !(["m_get_raw_value", "m_get_raw_sandbox_value", "m_data", "m_val"].contains (ruleName r.1))
theorem C01_no_raw_access : noRawAccessB = true := by decide +kernel

/-- non-vacuity: the table is large, and both a wrapped and a declassified result occur -/
example : tab.length > 1500 ∧ GeneratedTyping.rejectedCount > 5000 := by decide +kernel
example : typeOf tab (.app (GeneratedTyping.ruleNames.idxOf "bin+") [.app (GeneratedTyping.ruleNames.idxOf "deref") [.leaf (wTainted, 6)], .leaf (wPlain, 0)])
    = some (wTainted, 0) := by decide +kernel

end Rlbox.C01
