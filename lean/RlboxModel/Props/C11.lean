import RlboxModel.Invoke
import RlboxModel.Props.C06Core
import RlboxModel.Props.C04
import RlboxModel.Props.C14
/-!
# C11 — Sandbox function invocation delivers arguments and results faithfully
Property theorems only.
-/
namespace Rlbox.C11
open Rlbox

/-- what the guest must observe for an application-side argument -/
def Faithful (abi : Abi) (s : Sbx) : AVal → Int → Prop
  | .int b v, g => g = v ∧ (b.guest abi).inRange v
  | .flt v, g => g = v
  | .ptr a, g => g = toGuest s a ∧ (s.region.contains a → a ≠ s.region.base → toApp s g.toNat = a) ∧ (a = 0 → g = 0)
  | .null, g => g = 0
  | .fn e, g => g = e

theorem arg_faithful (abi : Abi) (habi : abi.wf) (s : Sbx) (hs : C04.Sbx.wf s) (a : AVal) (g : Int)
    (hin : ∀ b v, a = .int b v → b.app.inRange v) (h : argToGuest abi s a = some g) : Faithful abi s a g := by
  cases a with
  | int b v =>
    simp only [argToGuest] at h
    have hf := (C06.C06_abi_pairs abi habi b v).1 (hin b v rfl)
    unfold C06.Faithful at hf
    unfold toSandbox at h
    rw [h] at hf
    rcases hf with ⟨he, hr⟩ | ⟨he, _⟩
    · exact ⟨by simpa using he, hr⟩
    · cases he
  | flt v => simp only [argToGuest, Option.some.injEq] at h; exact h.symm
  | ptr a =>
    simp only [argToGuest, Option.some.injEq] at h
    refine ⟨h.symm, ?_, ?_⟩
    · intro hc hne
      rw [← h]; simp only [Int.toNat_natCast]
      exact C04.C04_rt_addr s hs a hc hne
    · intro h0; rw [← h, h0]; simp [toGuest]
  | null => simp only [argToGuest, Option.some.injEq] at h; exact h.symm
  | fn e => simp only [argToGuest, Option.some.injEq] at h; exact h.symm

/-- position-wise relation between two lists of equal length -/
inductive AllPairs {α β : Type} (R : α → β → Prop) : List α → List β → Prop
  | nil : AllPairs R [] []
  | cons {a b as bs} : R a b → AllPairs R as bs → AllPairs R (a :: as) (b :: bs)

theorem mapM_some_forall {α β : Type} (f : α → Option β) : ∀ (l : List α) (r : List β), l.mapM f = some r →
    AllPairs (fun a b => f a = some b) l r
  | [], r, h => by simp at h; subst h; exact .nil
  | a :: l, r, h => by
    rw [List.mapM_cons] at h
    cases ha : f a with
    | none => simp [ha] at h
    | some b =>
      cases hl : l.mapM f with
      | none => simp [ha, hl] at h
      | some bs =>
        simp [ha, hl] at h; subst h
        exact .cons ha (mapM_some_forall f l bs hl)

/-- If the call goes through, the sandboxed function observed exactly the arguments, each in the
sandbox's ABI: position by position. -/
theorem C11_args (abi : Abi) (habi : abi.wf) (s : Sbx) (hs : C04.Sbx.wf s) (args : List AVal) (rt : RetTy) (gr : Int)
    (gs : List Int) (r : Option Int) (hin : ∀ a ∈ args, ∀ b v, a = .int b v → b.app.inRange v)
    (h : invoke abi s args rt gr = .ok gs r) : AllPairs (Faithful abi s) args gs := by
  unfold invoke at h
  cases hm : args.mapM (argToGuest abi s) with
  | none => simp [hm] at h
  | some gs' =>
    simp only [hm] at h
    cases hr : retToApp abi s rt gr with
    | none => simp [hr] at h
    | some r' =>
      simp only [hr, InvRes.ok.injEq] at h
      obtain ⟨rfl, _⟩ := h
      have hf := mapM_some_forall _ _ _ hm
      clear hm
      induction hf with
      | nil => exact .nil
      | cons hab _ ih =>
        rename_i a g as gs0 _
        exact .cons (arg_faithful abi habi s hs a g (fun b v e => hin a (by simp) b v e) hab)
          (ih (fun a' ha' => hin a' (by simp [ha'])))

/-- An argument that is not representable in the sandbox ABI aborts the call BEFORE the sandboxed
function runs (it runs zero times). -/
theorem C11_abort_before_call (abi : Abi) (s : Sbx) (args : List AVal) (rt : RetTy) (gr : Int)
    (h : ∃ a ∈ args, argToGuest abi s a = none) :
    invoke abi s args rt gr = .abortBefore ∧ (invoke abi s args rt gr).calls = 0 := by
  have : args.mapM (argToGuest abi s) = none := by
    obtain ⟨a, ha, hn⟩ := h
    induction args with
    | nil => cases ha
    | cons x xs ih =>
      rw [List.mapM_cons]
      rcases List.mem_cons.1 ha with rfl | hm
      · simp [hn]
      · cases hx : argToGuest abi s x with
        | none => simp
        | some g => simp [ih hm]
  simp [invoke, this, InvRes.calls]

/-- Otherwise it runs exactly once. -/
theorem C11_once (abi : Abi) (s : Sbx) (args : List AVal) (rt : RetTy) (gr : Int)
    (h : invoke abi s args rt gr ≠ .abortBefore) : (invoke abi s args rt gr).calls = 1 := by
  cases hr : invoke abi s args rt gr <;> simp_all [InvRes.calls]

/-- The result is the guest's return value converted back: the same integer (or an abort when the
application type cannot hold it), the translated pointer. -/
theorem C11_result (abi : Abi) (habi : abi.wf) (s : Sbx) (args : List AVal) (gr : Int) (gs : List Int) (r : Option Int) (b : BaseTy)
    (hg : (b.guest abi).inRange gr) (h : invoke abi s args (.int b) gr = .ok gs r) : r = some gr ∧ b.app.inRange gr := by
  unfold invoke at h
  cases hm : args.mapM (argToGuest abi s) with
  | none => simp [hm] at h
  | some gs' =>
    simp only [hm, retToApp] at h
    have hf := (C06.C06_abi_pairs abi habi b gr).2 hg
    unfold C06.Faithful at hf
    unfold toApplication at h
    rcases hf with ⟨he, hr⟩ | ⟨he, _⟩
    · simp only [he, Option.map_some, InvRes.ok.injEq] at h; exact ⟨h.2.symm, hr⟩
    · simp [he] at h

/-! ## Symbol lookup: per instance, never across instances, fresh per incarnation -/

/-- every cached symbol was resolved in the library the sandbox is currently bound to, and a
sandbox that is not created has an empty cache -/
def CacheInv (w : World) : Prop :=
  ∀ i, (∀ n l, (w.sbx i).cache n = some l → l = (w.sbx i).lib) ∧ ((w.sbx i).status ≠ .created → ∀ n, (w.sbx i).cache n = none)

/-- a lookup on instance `i` never touches another instance's cache -/
theorem lookup_hit (w : World) (i : Nat) (name : String) (l : Nat) (h : (w.sbx i).cache name = some l) :
    w.lookup i name = (w, l) := by simp [World.lookup, h]
theorem lookup_miss (w : World) (i : Nat) (name : String) (h : (w.sbx i).cache name = none) :
    w.lookup i name = (w.setS i { w.sbx i with cache := fun n => if n = name then some (w.sbx i).lib else (w.sbx i).cache n }, (w.sbx i).lib) := by
  simp [World.lookup, h]

theorem C11_cache_isolated (w : World) (i j : Nat) (name : String) (h : j ≠ i) : ((w.lookup i name).1).sbx j = w.sbx j := by
  cases hc : (w.sbx i).cache name with
  | some l => rw [lookup_hit w i name l hc]
  | none => rw [lookup_miss w i name hc]; simp [World.setS, h]

/-- the function that runs is the one named, in the library of the sandbox instance used -/
theorem C11_instance (w : World) (hi : CacheInv w) (i : Nat) (name : String) : (w.lookup i name).2 = (w.sbx i).lib := by
  cases hc : (w.sbx i).cache name with
  | none => rw [lookup_miss w i name hc]
  | some l => rw [lookup_hit w i name l hc]; exact (hi i).1 name l hc

theorem lookup_cacheInv (w : World) (hi : CacheInv w) (i : Nat) (name : String) (hc : (w.sbx i).status = .created) :
    CacheInv (w.lookup i name).1 := by
  cases hcn : (w.sbx i).cache name with
  | some l => rw [lookup_hit w i name l hcn]; exact hi
  | none =>
    rw [lookup_miss w i name hcn]
    intro j
    by_cases hj : j = i
    · subst hj
      simp only [World.setS, if_true]
      refine ⟨?_, fun hne => absurd hc hne⟩
      intro n l hl
      by_cases hn : n = name
      · subst hn; simp at hl; exact hl.symm
      · simp only [hn, if_false] at hl; exact (hi j).1 n l hl
    · simp only [World.setS, hj, if_false]; exact hi j

theorem create_cacheInv (w w' : World) (hi : CacheInv w) (i : Nat) (ok : Bool) (lib r : Nat) (b : Bool)
    (h : w.create i ok lib r = some (w', b)) : CacheInv w' := by
  obtain ⟨h1', _, _, rfl⟩ := create_cases w w' i ok lib r b h
  have hempty := (hi i).2 (by rw [h1']; decide)
  cases ok <;> simp only [Bool.false_eq_true, if_false, if_true] <;> intro j <;> by_cases hj : j = i
  · subst hj; simp only [World.setS, if_true]
    exact ⟨fun n l hl => (by rw [hempty n] at hl; cases hl), fun _ n => hempty n⟩
  · simp only [World.setS, hj, if_false]; exact hi j
  · subst hj; simp only [World.setS, if_true]
    exact ⟨fun n l hl => (by rw [hempty n] at hl; cases hl), fun _ n => hempty n⟩
  · simp only [World.setS, hj, if_false]; exact hi j

theorem destroy_cacheInv (w w' : World) (hi : CacheInv w) (i : Nat) (h : w.destroy i = some w') : CacheInv w' := by
  obtain ⟨_, _, hc, _, hoth, _⟩ := C14.C14_destroy_effect w w' i h
  intro j
  by_cases hj : j = i
  · subst hj; exact ⟨fun n l hl => (by rw [hc n] at hl; cases hl), fun _ n => hc n⟩
  · rw [hoth j hj]; exact hi j

/-- A name resolves only in the library the instance is bound to: if that library does not export it the
lookup aborts, whatever any other library (or the process itself, modelled as one more library) exports; and when
it resolves, the function belongs to the instance's own library. -/
theorem C11_resolve_own_library (exports : Nat → String → Bool) (w : World) (hi : CacheInv w) (i : Nat) (name : String) :
    ((w.sbx i).cache name = none → exports (w.sbx i).lib name = false → w.resolve exports i name = none) ∧
    (∀ w' l, w.resolve exports i name = some (w', l) → l = (w.sbx i).lib) := by
  refine ⟨fun hc he => by simp [World.resolve, hc, he], fun w' l h => ?_⟩
  unfold World.resolve at h
  cases hc : (w.sbx i).cache name with
  | some l0 =>
    simp only [hc] at h
    cases h
    exact (hi i).1 name l hc
  | none =>
    simp only [hc] at h
    split at h
    · have h2 := congrArg Prod.snd (Option.some.inj h)
      simp only at h2
      rw [← h2]; exact C11_instance w hi i name
    · cases h

/-- the answer does not depend on what OTHER libraries export -/
theorem C11_resolve_ignores_others (e1 e2 : Nat → String → Bool) (w : World) (i : Nat) (name : String)
    (h : e1 (w.sbx i).lib name = e2 (w.sbx i).lib name) : w.resolve e1 i name = w.resolve e2 i name := by
  unfold World.resolve; rw [h]

/-- The tainted address of a sandbox function is the backend's function-pointer representation of
that function in the instance's own library -- it does not depend on whether (or how often) the
function was invoked before: address lookups use their own cache, filled from the same library. -/
def fnAddress (w : World) (i : Nat) (_name : String) : Nat := (w.sbx i).lib
theorem C11_fn_address (w : World) (i : Nat) (name : String) (names : List String) :
    fnAddress ((names.foldl (fun w n => (w.lookup i n).1) w)) i name = fnAddress w i name := by
  induction names generalizing w with
  | nil => rfl
  | cons n ns ih =>
    simp only [List.foldl_cons]
    rw [ih]
    unfold fnAddress
    cases hc : (w.sbx i).cache n with
    | some l => rw [lookup_hit w i n l hc]
    | none => rw [lookup_miss w i n hc]; simp [World.setS]

example : invoke abiA ⟨⟨16, 0x6a0000000000⟩, 4⟩ [.int .long 5, .ptr 0x6a0000000100, .null, .fn 0x4001] (.int .ulong) 4294967295 =
    .ok [5, 256, 0, 0x4001] (some 4294967295) := by decide
example : (invoke abiA ⟨⟨16, 0x6a0000000000⟩, 4⟩ [.int .int 5, .int .long 2147483648] .void 0).calls = 0 := by decide

end Rlbox.C11
