import RlboxModel.Props.C06Core
import RlboxModel.Generated
/-!
# C06 — Integers crossing the ABI boundary keep their value or the operation aborts
The theorems of `Props/C06Core.lean` (audited together with this file) plus the tie to the source by
translation.
-/
namespace Rlbox.C06
open Rlbox

/-! ## Tie to the source by translation: the `if constexpr` chain of rlbox_conversion.hpp is parsed on every
run into `Generated.convChain`; `convertFund` IS its meaning, so every theorem above is about the chain the
source contains now (a merged, reordered or dropped branch or check breaks `chainChecks_eq`). -/

open Rlbox.ConvChain in
/-- which dynamic checks guard the final cast, per pair of types (what the model's `convertFund` encodes) -/
def expectedChecks (to fr : IntTy) : List Chk :=
  if to.signed = fr.signed ∧ to.bytes ≥ fr.bytes then []
  else if ¬ to.signed ∧ ¬ fr.signed then [.leToMax]
  else if to.signed ∧ fr.signed then [.geToMin, .leToMax]
  else if ¬ to.signed ∧ fr.signed then (if to.bytes < fr.bytes then [.geZero, .leToMaxAsFrom] else [.geZero])
  else (if to.bytes ≤ fr.bytes then [.leToMaxAsFrom] else [])

open Rlbox.ConvChain in
/-- same checks, in any order, duplicates allowed -/
def sameChecks (a b : List Chk) : Bool := a.all (· ∈ b) && b.all (· ∈ a)

set_option linter.unusedSimpArgs false in
open Rlbox.ConvChain in
/-- for every pair of integer types the translated chain selects exactly the checks the model encodes.
Proved by full case analysis (signedness of both types x ordering of their sizes), so it does not
depend on how the source spells or orders its mutually exclusive branches. -/
theorem chainChecks_eq (to fr : IntTy) : sameChecks (chainChecks to fr Generated.convChain) (expectedChecks to fr) = true := by
  obtain ⟨ts, tb, tB⟩ := to
  obtain ⟨fs, fb, fB⟩ := fr
  rcases Nat.lt_trichotomy tb fb with h | h | h
  · have h1 : ¬ fb ≤ tb := by omega
    have h2 : tb ≤ fb := by omega
    have h3 : ¬ fb < tb := by omega
    have h4 : ¬ tb = fb := by omega
    cases ts <;> cases fs <;>
      simp [Generated.convChain, chainChecks, bodyChecks, subChecks, Atom.holds, expectedChecks, sameChecks, h, h1, h2, h3, h4]
  · subst h
    cases ts <;> cases fs <;>
      simp [Generated.convChain, chainChecks, bodyChecks, subChecks, Atom.holds, expectedChecks, sameChecks]
  · have h1 : fb ≤ tb := by omega
    have h2 : ¬ tb ≤ fb := by omega
    have h3 : ¬ tb < fb := by omega
    have h4 : ¬ tb = fb := by omega
    cases ts <;> cases fs <;>
      simp [Generated.convChain, chainChecks, bodyChecks, subChecks, Atom.holds, expectedChecks, sameChecks, h, h1, h2, h3, h4]

open Rlbox.ConvChain in
theorem checksPass_congr (to fr : IntTy) (v : Int) (a b : List Chk) (h : sameChecks a b = true) :
    checksPass to fr v a = checksPass to fr v b := by
  unfold sameChecks at h
  simp only [Bool.and_eq_true, List.all_eq_true, decide_eq_true_eq] at h
  obtain ⟨hab, hba⟩ := h
  unfold checksPass
  cases ha : a.all (Chk.holds to fr v) <;> cases hb : b.all (Chk.holds to fr v) <;> try rfl
  · -- a fails, b passes: the failing check of a is in b
    rw [List.all_eq_true] at hb
    have : a.all (Chk.holds to fr v) = true := by
      rw [List.all_eq_true]; intro c hc; exact hb c (hab c hc)
    rw [this] at ha; cases ha
  · rw [List.all_eq_true] at ha
    have : b.all (Chk.holds to fr v) = true := by
      rw [List.all_eq_true]; intro c hc; exact ha c (hba c hc)
    rw [this] at hb; cases hb

open Rlbox.ConvChain in
/-- the model function about which C06 is proved is the meaning of the chain TRANSLATED from the source -/
theorem C06_model_is_translated_source (to fr : IntTy) (v : Int) :
    convertFund to fr v = evalChain Generated.convChain to fr v := by
  unfold evalChain
  rw [checksPass_congr to fr v _ _ (chainChecks_eq to fr)]
  unfold convertFund expectedChecks
  split
  · simp [checksPass]
  · split
    · simp [checksPass, Chk.holds]
    · split
      · simp [checksPass, Chk.holds]
      · split
        · split <;> simp [checksPass, Chk.holds]
        · split <;> simp [checksPass, Chk.holds]

open Rlbox.ConvChain in
/-- C06 stated directly about the translated chain -/
theorem C06_translated_chain_faithful (abi : Abi) (habi : abi.wf) (t : BaseTy) (v : Int) (hv : t.app.inRange v) :
    (evalChain Generated.convChain (t.guest abi) t.app v = some v ∧ (t.guest abi).inRange v) ∨
    (evalChain Generated.convChain (t.guest abi) t.app v = none ∧ ¬ (t.guest abi).inRange v) := by
  rw [← C06_model_is_translated_source]
  exact (C06_abi_pairs abi habi t v).1 hv

end Rlbox.C06
