import RlboxModel.IntConv
import RlboxModel.Generated
/-!
# C06 — Integers crossing the ABI boundary keep their value or the operation aborts
Property theorems only.
-/
namespace Rlbox.C06
open Rlbox

/-- what C06 demands of one scalar conversion: value preserved (and representable), or abort
(and not representable) -/
def Faithful (to fr : IntTy) (v : Int) : Prop :=
  (convertFund to fr v = some v ∧ to.inRange v) ∨ (convertFund to fr v = none ∧ ¬ to.inRange v)

/-- Full-strength statement over *every* ordered pair of well-formed integer types. -/
def C06_full : Prop :=
  ∀ (to fr : IntTy) (v : Int), to.wf → fr.wf → fr.inRange v → Faithful to fr v

/-- Proved part: every ordered pair except a `bool` destination fed from a non-`bool` source
(a pair the ABI mapping never produces: see `C06_abi_pairs`). Every value, no sampling. -/
theorem C06_scalar_partial (to fr : IntTy) (v : Int) (hto : to.wf) (hfr : fr.wf)
    (hb : to.isBool = true → fr.isBool = true) (hv : fr.inRange v) : Faithful to fr v := by
  obtain ⟨ts, tb, tB⟩ := to
  obtain ⟨fs, fb, fB⟩ := fr
  simp only [IntTy.wf] at hto hfr
  obtain ⟨hto1, hto2⟩ := hto
  obtain ⟨hfr1, hfr2⟩ := hfr
  simp only [Faithful, convertFund, IntTy.inRange, IntTy.min, IntTy.max, IntTy.cast, IntTy.bits] at hv ⊢
  cases tB <;> cases fB <;> simp at hb hto2 hfr2 <;>
    rcases hto1 with h | h | h | h <;> subst h <;>
    rcases hfr1 with h | h | h | h <;> subst h <;>
    cases ts <;> cases fs <;> simp at hv hto2 hfr2 ⊢ <;> omega

/-- Non-vacuity: the hypotheses are met by concrete non-trivial instances (both outcomes occur). -/
example : Faithful ⟨false, 4, false⟩ ⟨true, 8, false⟩ 4294967295 := by
  apply C06_scalar_partial <;> decide
example : convertFund ⟨false, 4, false⟩ ⟨true, 8, false⟩ 4294967296 = none := by decide
example : convertFund ⟨false, 4, false⟩ ⟨true, 8, false⟩ 4294967295 = some 4294967295 := by decide

/-- The full statement is false of the code as it is: `unsigned char` 200 → `bool` takes the
"same signedness, destination not narrower" branch and silently becomes 1.  This pair is never
produced by the ABI mapping (`C06_abi_pairs`), it is reachable only through the raw helper
`rlbox::detail::convert_type_fundamental`. -/
theorem C06_bool_witness : ¬ C06_full := by
  intro h
  have := h ⟨false, 1, true⟩ ⟨false, 1, false⟩ 200 (by decide) (by decide) (by decide)
  simp [Faithful, convertFund, IntTy.inRange, IntTy.min, IntTy.max, IntTy.cast] at this

/-- Arrays: element-wise, all-or-nothing. -/
theorem C06_array (to fr : IntTy) (vs : List Int) (hto : to.wf) (hfr : fr.wf)
    (hb : to.isBool = true → fr.isBool = true) (hv : ∀ v ∈ vs, fr.inRange v) :
    (convertArr to fr vs = some vs ∧ ∀ v ∈ vs, to.inRange v) ∨
    (convertArr to fr vs = none ∧ ∃ v ∈ vs, ¬ to.inRange v) := by
  unfold convertArr
  split
  · -- memcpy branch: same width and signedness; every element is representable and unchanged
    rename_i hs
    left
    refine ⟨rfl, fun v hvm => ?_⟩
    have hf := C06_scalar_partial to fr v hto hfr hb (hv v hvm)
    have hc : convertFund to fr v = some (to.cast v) := by
      unfold convertFund; simp [hs.1, hs.2]
    rcases hf with ⟨_, h2⟩ | ⟨h1, _⟩
    · exact h2
    · rw [hc] at h1; cases h1
  · induction vs with
    | nil => left; simp
    | cons a as ih =>
      have ha := C06_scalar_partial to fr a hto hfr hb (hv a (by simp))
      have ih' := ih (fun v hvm => hv v (by simp [hvm]))
      rcases ha with ⟨h1, h2⟩ | ⟨h1, h2⟩
      · rcases ih' with ⟨i1, i2⟩ | ⟨i1, w, hw, hw2⟩
        · left; refine ⟨by simp [List.mapM_cons, h1, i1], ?_⟩
          intro v hvm; simp at hvm; rcases hvm with rfl | hvm
          · exact h2
          · exact i2 v hvm
        · right; exact ⟨by simp [List.mapM_cons, h1, i1], w, by simp [hw], hw2⟩
      · right; exact ⟨by simp [List.mapM_cons, h1], a, by simp, h2⟩

/-- Every pair `(T, convert_base_types_t<T>)` and its reverse, for every well-formed ABI and every
base type, is faithful in both directions: store/argument (`toSandbox`) and load/result
(`toApplication`). This is the statement C06 makes about ABI crossings. -/
theorem C06_abi_pairs (abi : Abi) (habi : abi.wf) (t : BaseTy) (v : Int) :
    (t.app.inRange v → Faithful (t.guest abi) t.app v) ∧
    ((t.guest abi).inRange v → Faithful t.app (t.guest abi) v) := by
  obtain ⟨h1, h2, h3, h4⟩ := habi
  constructor <;> intro hv <;> apply C06_scalar_partial _ _ _ _ _ _ hv <;>
    cases t <;> simp [BaseTy.guest, BaseTy.app, IntTy.wf, *]

example : abiA.wf ∧ abiB.wf ∧ abiC.wf := by simp [Abi.wf, abiA, abiB, abiC]
/-- non-vacuity of `C06_abi_pairs`: `long` 2^31 does not fit ABI A's 32-bit `long` -/
example : toSandbox abiA .long 2147483648 = none ∧ toSandbox abiA .long 2147483647 = some 2147483647 := by
  decide


/-! ## Tie to the source by translation: the `if constexpr` chain of rlbox_conversion.hpp is parsed on every
run into `Generated.convChain`; `convertFund` IS its meaning, so every theorem above is about the chain the
source contains now (a merged, reordered or dropped branch or check breaks `chainChecks_eq`). -/

open Rlbox.ConvChain in
/-- which dynamic checks guard the final cast, per pair of types (what the model's `convertFund` encodes) -/
def expectedChecks (to fr : IntTy) : List Chk :=
  if to.signed = fr.signed ∧ to.bytes ≥ fr.bytes then []
  else if ¬ to.signed ∧ ¬ fr.signed then [.leToMax]
  else if to.signed ∧ fr.signed then [.geToMin, .leToMax]
  else if ¬ to.signed ∧ fr.signed then (if to.bytes < fr.bytes then [.geZero, .leToMaxAsFrom] else [.geZero])
  else (if to.bytes ≤ fr.bytes then [.leToMaxAsFrom] else [])

open Rlbox.ConvChain in
/-- same checks, in any order, duplicates allowed -/
def sameChecks (a b : List Chk) : Bool := a.all (· ∈ b) && b.all (· ∈ a)

set_option linter.unusedSimpArgs false in
open Rlbox.ConvChain in
/-- for every pair of integer types the translated chain selects exactly the checks the model encodes.
Proved by full case analysis (signedness of both types x ordering of their sizes), so it does not
depend on how the source spells or orders its mutually exclusive branches. -/
theorem chainChecks_eq (to fr : IntTy) : sameChecks (chainChecks to fr Generated.convChain) (expectedChecks to fr) = true := by
  obtain ⟨ts, tb, tB⟩ := to
  obtain ⟨fs, fb, fB⟩ := fr
  rcases Nat.lt_trichotomy tb fb with h | h | h
  · have h1 : ¬ fb ≤ tb := by omega
    have h2 : tb ≤ fb := by omega
    have h3 : ¬ fb < tb := by omega
    have h4 : ¬ tb = fb := by omega
    cases ts <;> cases fs <;>
      simp [Generated.convChain, chainChecks, subChecks, Atom.holds, expectedChecks, sameChecks, h, h1, h2, h3, h4]
  · subst h
    cases ts <;> cases fs <;>
      simp [Generated.convChain, chainChecks, subChecks, Atom.holds, expectedChecks, sameChecks]
  · have h1 : fb ≤ tb := by omega
    have h2 : ¬ tb ≤ fb := by omega
    have h3 : ¬ tb < fb := by omega
    have h4 : ¬ tb = fb := by omega
    cases ts <;> cases fs <;>
      simp [Generated.convChain, chainChecks, subChecks, Atom.holds, expectedChecks, sameChecks, h, h1, h2, h3, h4]

open Rlbox.ConvChain in
theorem checksPass_congr (to fr : IntTy) (v : Int) (a b : List Chk) (h : sameChecks a b = true) :
    checksPass to fr v a = checksPass to fr v b := by
  unfold sameChecks at h
  simp only [Bool.and_eq_true, List.all_eq_true, decide_eq_true_eq] at h
  obtain ⟨hab, hba⟩ := h
  unfold checksPass
  cases ha : a.all (Chk.holds to fr v) <;> cases hb : b.all (Chk.holds to fr v) <;> try rfl
  · -- a fails, b passes: the failing check of a is in b
    rw [List.all_eq_true] at hb
    have : a.all (Chk.holds to fr v) = true := by
      rw [List.all_eq_true]; intro c hc; exact hb c (hab c hc)
    rw [this] at ha; cases ha
  · rw [List.all_eq_true] at ha
    have : b.all (Chk.holds to fr v) = true := by
      rw [List.all_eq_true]; intro c hc; exact ha c (hba c hc)
    rw [this] at hb; cases hb

open Rlbox.ConvChain in
/-- the model function about which C06 is proved is the meaning of the chain TRANSLATED from the source -/
theorem C06_model_is_translated_source (to fr : IntTy) (v : Int) :
    convertFund to fr v = evalChain Generated.convChain to fr v := by
  unfold evalChain
  rw [checksPass_congr to fr v _ _ (chainChecks_eq to fr)]
  unfold convertFund expectedChecks
  split
  · simp [checksPass]
  · split
    · simp [checksPass, Chk.holds]
    · split
      · simp [checksPass, Chk.holds]
      · split
        · split <;> simp [checksPass, Chk.holds]
        · split <;> simp [checksPass, Chk.holds]

open Rlbox.ConvChain in
/-- C06 stated directly about the translated chain -/
theorem C06_translated_chain_faithful (abi : Abi) (habi : abi.wf) (t : BaseTy) (v : Int) (hv : t.app.inRange v) :
    (evalChain Generated.convChain (t.guest abi) t.app v = some v ∧ (t.guest abi).inRange v) ∨
    (evalChain Generated.convChain (t.guest abi) t.app v = none ∧ ¬ (t.guest abi).inRange v) := by
  rw [← C06_model_is_translated_source]
  exact (C06_abi_pairs abi habi t v).1 hv

end Rlbox.C06
