import RlboxModel.Ptr
import RlboxModel.Layout
import RlboxModel.Props.C09
/-!
# C17 — Indexing a tainted fixed-size array is bounds-checked for every index type
Property theorems only.
-/
namespace Rlbox.C17
open Rlbox

/-- The check accepts exactly the indices `0 ≤ v < n`, for every (non-bool) integer index type and
every value of that type: the comparison is made on `static_cast<make_unsigned_t<T>>(v)`, after
`v >= 0`, so no truncation can alias a large index to a valid one. -/
theorem C17_checked (idx : IntTy) (v : Int) (n : Nat) (hw : idx.wf) (hnb : idx.isBool = false)
    (hv : idx.inRange v) : indexOk idx v n = true ↔ (0 ≤ v ∧ v < n) := by
  obtain ⟨sg, by_, isb⟩ := idx
  simp only at hnb
  subst hnb
  obtain ⟨hb, _⟩ := hw
  simp only [indexOk, IntTy.toUnsigned, IntTy.cast, IntTy.inRange, IntTy.min, IntTy.max, IntTy.bits] at hv ⊢
  rcases hb with h | h | h | h <;> subst h <;> cases sg <;> simp at hv ⊢ <;> omega

/-- An accepted index designates exactly element `v`, wholly inside the array:
`base + v*stride`, with `base + v*stride + stride ≤ base + n*stride`. -/
theorem C17_designates (idx : IntTy) (v : Int) (n stride base a : Nat) (hw : idx.wf) (hnb : idx.isBool = false)
    (hv : idx.inRange v) (h : indexArr idx v n stride base = some a) :
    a = base + v.toNat * stride ∧ a + stride ≤ base + n * stride ∧ 0 ≤ v ∧ v < n := by
  unfold indexArr at h
  split at h
  · rename_i hok
    have := (C17_checked idx v n hw hnb hv).1 hok
    cases h
    refine ⟨rfl, ?_, this.1, this.2⟩
    have hlt : v.toNat + 1 ≤ n := by omega
    have := Nat.mul_le_mul_right stride hlt
    rw [Nat.add_mul] at this
    omega
  · cases h

/-- Out-of-range indices abort, whatever the index type. -/
theorem C17_aborts (idx : IntTy) (v : Int) (n stride base : Nat) (hw : idx.wf) (hnb : idx.isBool = false)
    (hv : idx.inRange v) (hbad : v < 0 ∨ (n : Int) ≤ v) : indexArr idx v n stride base = none := by
  unfold indexArr
  have : indexOk idx v n = false := by
    cases h : indexOk idx v n with
    | false => rfl
    | true => have := (C17_checked idx v n hw hnb hv).1 h; omega
  simp [this]

/-- Two-dimensional arrays `T[n1][n2]`: the outer index steps by whole rows (`n2*s` bytes), the inner
by elements; both are checked, and the designated element is row-major `(i*n2 + j)` inside the array. -/
def index2 (idx : IntTy) (i j : Int) (n1 n2 s base : Nat) : Option Nat :=
  (indexArr idx i n1 (n2 * s) base).bind fun r => indexArr idx j n2 s r

theorem C17_multi (idx : IntTy) (i j : Int) (n1 n2 s base a : Nat) (hw : idx.wf) (hnb : idx.isBool = false)
    (hi : idx.inRange i) (hj : idx.inRange j) (h : index2 idx i j n1 n2 s base = some a) :
    a = base + (i.toNat * n2 + j.toNat) * s ∧ a + s ≤ base + n1 * n2 * s ∧ 0 ≤ i ∧ i < n1 ∧ 0 ≤ j ∧ j < n2 := by
  unfold index2 at h
  cases hr : indexArr idx i n1 (n2 * s) base with
  | none => simp [hr] at h
  | some r =>
    simp only [hr, Option.bind_some] at h
    obtain ⟨e1, b1, i0, i1⟩ := C17_designates idx i n1 (n2 * s) base r hw hnb hi hr
    obtain ⟨e2, b2, j0, j1⟩ := C17_designates idx j n2 s r a hw hnb hj h
    refine ⟨?_, ?_, i0, i1, j0, j1⟩
    · rw [e2, e1, Nat.add_mul, Nat.mul_assoc]; omega
    · have : n1 * n2 * s = n1 * (n2 * s) := Nat.mul_assoc _ _ _
      omega

/-- Arrays of ANY rank (no bound on the number of dimensions): if the chain of checked index applications
yields an address, every index lies inside its own dimension, the address is that of the row-major element,
and the element lies wholly inside the array. By induction on the rank. -/
theorem C17_multi_n (idx : IntTy) (hw : idx.wf) (hnb : idx.isBool = false) (s : Nat) :
    ∀ (is : List Int) (ns : List Nat) (base a : Nat), (∀ i ∈ is, idx.inRange i) →
      indexMulti idx is ns s base = some a →
      a = base + flatIdx is ns * s ∧ a + s ≤ base + dimsProd ns * s ∧
        allInside is ns := by
  intro is
  induction is with
  | nil =>
    intro ns base a _ h
    cases ns with
    | nil => simp [indexMulti] at h; subst h; simp [flatIdx, dimsProd, allInside]
    | cons n ns => simp [indexMulti] at h
  | cons i is ih =>
    intro ns base a hr h
    cases ns with
    | nil => simp [indexMulti] at h
    | cons n ns =>
      simp only [indexMulti] at h
      cases hr1 : indexArr idx i n (dimsProd ns * s) base with
      | none => simp [hr1] at h
      | some r =>
        simp only [hr1, Option.bind_some] at h
        obtain ⟨e1, b1, i0, i1⟩ := C17_designates idx i n (dimsProd ns * s) base r hw hnb (hr i (by simp)) hr1
        obtain ⟨e2, b2, f2⟩ := ih ns r a (fun j hj => hr j (by simp [hj])) h
        refine ⟨?_, ?_, ⟨⟨i0, i1⟩, f2⟩⟩
        · simp only [flatIdx]
          rw [e2, e1, Nat.add_mul, Nat.mul_assoc]; omega
        · simp only [dimsProd]
          have : n * dimsProd ns * s = n * (dimsProd ns * s) := Nat.mul_assoc _ _ _
          omega

/-- Converse for any rank: in-range index vectors of the right rank are never refused. -/
theorem C17_multi_n_complete (idx : IntTy) (hw : idx.wf) (hnb : idx.isBool = false) (s : Nat) :
    ∀ (is : List Int) (ns : List Nat) (base : Nat), (∀ i ∈ is, idx.inRange i) → allInside is ns →
      indexMulti idx is ns s base = some (base + flatIdx is ns * s) := by
  intro is
  induction is with
  | nil =>
    intro ns base _ h
    cases ns with
    | nil => simp [indexMulti, flatIdx]
    | cons n ns => simp [allInside] at h
  | cons i is ih =>
    intro ns base hr h
    cases ns with
    | nil => simp [allInside] at h
    | cons n ns =>
      obtain ⟨hi, hrest⟩ := h
      have hok : indexOk idx i n = true := (C17_checked idx i n hw hnb (hr i (by simp))).2 hi
      simp only [indexMulti, indexArr, hok, if_true, Option.bind_some]
      rw [ih ns _ (fun j hj => hr j (by simp [hj])) hrest]
      simp only [flatIdx, Nat.add_mul, Nat.mul_assoc, Nat.add_assoc]

/-- the 2-dimensional case of the general definition is `index2` -/
theorem index2_eq_multi (idx : IntTy) (i j : Int) (n1 n2 s base : Nat) :
    indexMulti idx [i, j] [n1, n2] s base = index2 idx i j n1 n2 s base := by
  simp only [indexMulti, index2, dimsProd, Nat.mul_one, Nat.one_mul]
  cases indexArr idx i n1 (n2 * s) base with
  | none => rfl
  | some r => simp only [Option.bind_some]; cases indexArr idx j n2 s r <;> rfl

/-- distinct accepted indices designate disjoint elements -/
theorem C17_disjoint (idx : IntTy) (v w : Int) (n stride base a b : Nat) (hw : idx.wf) (hnb : idx.isBool = false)
    (hv : idx.inRange v) (hw' : idx.inRange w) (ha : indexArr idx v n stride base = some a)
    (hb : indexArr idx w n stride base = some b) (hne : v ≠ w) : a + stride ≤ b ∨ b + stride ≤ a := by
  obtain ⟨ea, _, v0, _⟩ := C17_designates idx v n stride base a hw hnb hv ha
  obtain ⟨eb, _, w0, _⟩ := C17_designates idx w n stride base b hw hnb hw' hb
  subst ea eb
  rcases Int.lt_or_gt_of_ne hne with h | h
  · left
    have : v.toNat + 1 ≤ w.toNat := by omega
    have := Nat.mul_le_mul_right stride this
    rw [Nat.add_mul] at this; omega
  · right
    have : w.toNat + 1 ≤ v.toNat := by omega
    have := Nat.mul_le_mul_right stride this
    rw [Nat.add_mul] at this; omega

/-- An index that lives in sandbox memory (`arr[*p]`, a `tainted_volatile` integer) may be rewritten by the
sandbox at any moment: whatever the adversary does and whenever, the access aborts or designates an element
of the array -- never a neighbour -- because the value that is checked is the value that is used. -/
theorem C17_volatile_index (adv : Snap.Adv) (s : Snap.St) (c n elSize : Nat) :
    (Snap.run adv (Snap.idxVol c n elSize) s).1 = .abort ∨
    ∃ i, i < n ∧ (Snap.run adv (Snap.idxVol c n elSize) s).1 = .addr (i * elSize) := by
  unfold Snap.idxVol
  rw [C09.run_bind]
  generalize (Snap.run adv (Snap.readBytes c 4) s).1 = bs
  generalize (Snap.run adv (Snap.readBytes c 4) s).2 = s'
  by_cases h : decodeLE bs ≥ 2147483648 ∨ decodeLE bs ≥ n
  · left; simp only [h, if_true]; rfl
  · right; simp only [h, if_false]
    exact ⟨decodeLE bs, by omega, rfl⟩

/-- non-vacuity and the aliasing case: a 64-bit index equal to a valid index modulo 2^32 aborts -/
example : indexArr ⟨true, 8, false⟩ 4294967297 3 1 0 = none := by decide
example : indexArr ⟨false, 8, false⟩ 18446744073709551615 1 1 0 = none := by decide
example : indexArr ⟨true, 1, false⟩ (-1) 4 8 100 = none := by decide
example : indexArr ⟨false, 1, false⟩ 3 4 8 100 = some 124 := by decide
example : index2 ⟨true, 4, false⟩ 2 4 3 5 4 0 = some 56 := by decide
example : indexMulti ⟨true, 4, false⟩ [1, 2, 3] [2, 3, 4] 8 0 = some ((1*12 + 2*4 + 3) * 8) := by decide
example : indexMulti ⟨true, 4, false⟩ [1, 3, 3] [2, 3, 4] 8 0 = none := by decide
/-- the stride is that of the memory the array lives in -/
example : (CTy.base .long).size abiHost = 8 ∧ (CTy.base .long).size abiA = 4 := by decide

end Rlbox.C17
