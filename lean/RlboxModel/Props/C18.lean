import RlboxModel.Threads
import RlboxModel.Generated
/-!
# C18 — Distinct sandboxes can be used from distinct threads without interference
Property theorems only.
-/
namespace Rlbox.C18
open Rlbox Rlbox.Thr

/-- what thread `t` can see of the world: its own instances, its own thread record, and which of
its own instances are in the live list -/
def Sim {σ : Type} (owner : Iid → Tid) (t : Tid) (w w' : World σ) : Prop :=
  (∀ i, owner i = t → w.inst i = w'.inst i) ∧ w.cur t = w'.cur t ∧ (∀ i, owner i = t → (i ∈ w.reg ↔ i ∈ w'.reg)) ∧
  w.reg.Nodup ∧ w'.reg.Nodup

/-- with pairwise disjoint regions, an address inside instance `i` is found iff `i` is live, whatever
else the list contains and in whatever order -/
theorem find_own (region : Iid → Region) (hd : Disjoint region) (i off : Nat) (ho : off < 2 ^ (region i).k) (l : List Iid) :
    l.find? (fun j => decide ((region j).contains ((region i).base + off))) = if i ∈ l then some i else none := by
  induction l with
  | nil => simp
  | cons j l ih =>
    by_cases hji : j = i
    · subst hji
      have : (region j).contains ((region j).base + off) := by unfold Region.contains; omega
      simp [List.find?, this]
    · have hn : ¬ (region j).contains ((region i).base + off) := by
        have := hd j i hji
        unfold Region.contains; omega
      have hne : ¬ i = j := fun h => hji h.symm
      simp only [List.find?, hn, decide_false, ih, List.mem_cons, hne, false_or]

/-- the live list never holds an instance twice -/
theorem step_nodup {σ : Type} (region : Iid → Region) (w : World σ) (t : Tid) (st : Step σ) (h : w.reg.Nodup) :
    (step region w t st).1.reg.Nodup := by
  cases st with
  | regAdd i =>
    simp only [step]
    split
    · exact h
    · next hn => rw [List.nodup_append]; simp [h]; intro a ha e; subst e; exact hn ha
  | regDel i => exact List.Nodup.erase i h
  | find i off => exact h
  | localOp i f => exact h
  | setCur v => exact h
  | callback => exact h

theorem step_other {σ : Type} (owner : Iid → Tid) (region : Iid → Region) (t u : Tid) (hut : u ≠ t) (st : Step σ)
    (hown : ∀ i ∈ st.ids, owner i = u) (w w' : World σ) (h : Sim owner t w w') :
    Sim owner t (step region w u st).1 w' := by
  obtain ⟨h1, h2, h3, n1, n2⟩ := h
  have nd := step_nodup region w u st n1
  cases st with
  | regAdd i =>
    have hi : owner i = u := hown i (by simp [Step.ids])
    refine ⟨h1, h2, ?_, nd, n2⟩
    intro j hj
    have hne : j ≠ i := by intro e; subst e; exact hut (hi.symm.trans hj)
    simp only [step]
    split
    · exact h3 j hj
    · simp only [List.mem_append, List.mem_singleton, hne, or_false]; exact h3 j hj
  | regDel i =>
    have hi : owner i = u := hown i (by simp [Step.ids])
    refine ⟨h1, h2, ?_, nd, n2⟩
    intro j hj
    have hne : j ≠ i := by intro e; subst e; exact hut (hi.symm.trans hj)
    simp only [step]
    rw [List.mem_erase_of_ne hne]
    exact h3 j hj
  | find i off => exact ⟨h1, h2, h3, n1, n2⟩
  | localOp i f =>
    have hi : owner i = u := hown i (by simp [Step.ids])
    refine ⟨?_, h2, h3, n1, n2⟩
    intro j hj
    have hne : j ≠ i := by intro e; subst e; exact hut (hi.symm.trans hj)
    simp only [step, upd, hne, if_false]
    exact h1 j hj
  | setCur v =>
    refine ⟨h1, ?_, h3, n1, n2⟩
    have : ¬ t = u := fun e => hut e.symm
    simp only [step, upd, this, if_false]
    exact h2
  | callback => exact ⟨h1, h2, h3, n1, n2⟩

theorem step_own {σ : Type} (owner : Iid → Tid) (region : Iid → Region) (hd : Disjoint region) (t : Tid) (st : Step σ)
    (hown : ∀ i ∈ st.ids, owner i = t) (hoff : ∀ i off, st = .find i off → off < 2 ^ (region i).k)
    (w w' : World σ) (h : Sim owner t w w') :
    Sim owner t (step region w t st).1 (step region w' t st).1 ∧ (step region w t st).2 = (step region w' t st).2 := by
  obtain ⟨h1, h2, h3, n1, n2⟩ := h
  have nd1 := step_nodup region w t st n1
  have nd2 := step_nodup region w' t st n2
  cases st with
  | regAdd i =>
    refine ⟨⟨h1, h2, ?_, nd1, nd2⟩, rfl⟩
    intro j hj
    simp only [step]
    have := h3 j hj
    by_cases hji : j = i
    · subst hji
      by_cases a : j ∈ w.reg <;> by_cases b : j ∈ w'.reg <;> simp [a, b]
    · by_cases a : i ∈ w.reg <;> by_cases b : i ∈ w'.reg <;> simp [a, b, hji, this]
  | regDel i =>
    refine ⟨⟨h1, h2, ?_, nd1, nd2⟩, rfl⟩
    intro j hj
    simp only [step]
    by_cases hji : j = i
    · subst hji
      rw [List.Nodup.mem_erase_iff n1, List.Nodup.mem_erase_iff n2]
      simp
    · rw [List.mem_erase_of_ne hji, List.mem_erase_of_ne hji]; exact h3 j hj
  | find i off =>
    have hi : owner i = t := hown i (by simp [Step.ids])
    refine ⟨⟨h1, h2, h3, n1, n2⟩, ?_⟩
    simp only [step]
    rw [find_own region hd i off (hoff i off rfl), find_own region hd i off (hoff i off rfl)]
    have := h3 i hi
    by_cases a : i ∈ w.reg
    · simp [a, this.mp a]
    · have b : i ∉ w'.reg := fun hb => a (this.mpr hb)
      simp [a, b]
  | localOp i f =>
    have hi : owner i = t := hown i (by simp [Step.ids])
    have he := h1 i hi
    refine ⟨⟨?_, h2, h3, n1, n2⟩, by simp [step, he]⟩
    intro j hj
    simp only [step, upd]
    by_cases hji : j = i
    · simp [hji, he]
    · simp [hji, h1 j hj]
  | setCur v => exact ⟨⟨h1, by simp [step, upd], h3, n1, n2⟩, rfl⟩
  | callback => exact ⟨⟨h1, h2, h3, n1, n2⟩, by simp [step, h2]⟩

/-- **C18 (logic)**: for EVERY interleaving of any number of threads, each operating on its own
instances (pairwise disjoint regions) and looking up addresses inside its own regions, each thread
observes exactly what it observes when its steps run alone -- for arbitrary instance-private
operations, overlapping creation/destruction by the other threads, and any order of the live list. -/
theorem C18_noninterference {σ : Type} (owner : Iid → Tid) (region : Iid → Region) (hd : Disjoint region) (t : Tid) :
    ∀ (sched : List (Tid × Step σ)) (w w' : World σ), Owned owner region sched → Sim owner t w w' →
      obsOf t (runSched region w sched).2 = (runSched region w' (sched.filter (·.1 == t))).2.map (·.2) := by
  intro sched
  induction sched with
  | nil => intro w w' _ _; rfl
  | cons p rest ih =>
    intro w w' ho hs
    obtain ⟨u, st⟩ := p
    have hp := ho (u, st) List.mem_cons_self
    have hrest : Owned owner region rest := fun q hq => ho q (List.mem_cons_of_mem _ hq)
    by_cases hut : u = t
    · subst hut
      obtain ⟨hs', hobs⟩ := step_own owner region hd u st hp.1 hp.2 w w' hs
      have := ih (step region w u st).1 (step region w' u st).1 hrest hs'
      simp only [runSched, obsOf, List.filter_cons, beq_self_eq_true, if_true, List.map_cons] at this ⊢
      rw [hobs, this]
    · have hs' := step_other owner region t u hut st hp.1 w w' hs
      have := ih (step region w u st).1 w' hrest hs'
      have hb : (u == t) = false := by simpa using hut
      simp only [runSched, obsOf, List.filter_cons, hb] at this ⊢
      simpa [obsOf] using this

/-- in particular a callback always sees the sandbox its own thread entered, whatever the other
threads enter or leave meanwhile (this is what `thread_local thread_data` provides) -/
theorem C18_tls {σ : Type} (region : Iid → Region) (w : World σ) (t u : Tid) (hut : u ≠ t) (v : Option Iid) :
    (step region (step region w u (.setCur v)).1 t .callback).2 = (step region w t .callback).2 := by
  have : ¬ t = u := fun e => hut e.symm
  simp [step, upd, this]

/-! ## The source facts the atomic-step model rests on (regenerated from /repo on every run) -/

/-- every write to the live-sandbox list is inside a UNIQUE guard of its lock, every read inside a
SHARED or UNIQUE guard; the list is one static per backend type; the status word is atomic; the
backends' current-sandbox record is `thread_local` -/
theorem registry_accesses_guarded :
    Generated.registryAccesses.all (fun a => if a.1 == "write" then a.2 == "UNIQUE" else a.2 == "SHARED" || a.2 == "UNIQUE") = true ∧
    Generated.registryAccesses.any (fun a => a.1 == "write") = true ∧
    Generated.registryAccesses.any (fun a => a.1 == "read" && a.2 == "SHARED") = true := by decide
theorem thread_data_is_thread_local : Generated.threadDataThreadLocal = true := by decide
theorem status_is_atomic : Generated.statusAtomic = true := by decide
theorem sandbox_list_is_static : Generated.sandboxListStatic = true := by decide
/-- `find` is ONE atomic step: every entry of the live list is asked "is this address yours?" while the guard on the list
is held, so an instance cannot be torn down by its owner in the middle of another thread's walk -/
theorem find_walk_atomic : Generated.findQueriesInsideGuard = true := by decide
/-- `regDel` is ONE atomic step: the lookup of the instance in the live list and its removal happen
inside the same UNIQUE guard (no window in which another thread's create/destroy can shift or
reallocate the list between the two) -/
theorem destroy_find_erase_atomic : Generated.destroyFindAndEraseInOneGuard = true := by decide
/-- an instance is in the live list only while its backend memory exists: it is unlinked before the
backend is torn down and linked after the backend was created (so `find` never returns an instance
whose region is gone or may already belong to another thread's new sandbox) -/
theorem live_list_within_backend_lifetime :
    Generated.destroyUnlinksBeforeBackendTeardown = true ∧ Generated.createLinksAfterBackendCreate = true := by decide

/-- non-vacuity: two threads, two instances, thread 1 creates/destroys while thread 0 looks up -/
def exRegion (i : Nat) : Region := ⟨16, 0x6a0000000000 + i * 0x400000000⟩
def exSched : List (Tid × Step Nat) :=
  [(0, .regAdd 0), (1, .regAdd 1), (0, .find 0 5), (1, .regDel 1), (0, .setCur (some 0)), (1, .setCur (some 1)), (0, .callback), (0, .find 0 7),
   (1, .localOp 1 (fun s => (s + 1, s))), (0, .localOp 0 (fun s => (s + 10, s)))]
example : obsOf 0 (runSched exRegion ⟨[], fun _ => 0, fun _ => none⟩ exSched).2 = [none, some 1, none, some 1, some 1, some 0] := by decide

end Rlbox.C18
