import RlboxModel.Calls
/-!
# C19 — Transition notifications bracket every boundary crossing and stay balanced
Property theorems only.  (C12 reuses the same automaton for "the callback sees the executing sandbox".)
-/
namespace Rlbox.C19
open Rlbox

/-- a stack on which a new invocation may start: top level, or inside a callback -/
def InvOk : List Frame → Prop
  | [] => True
  | .cb _ _ :: _ => True
  | .inv _ :: _ => False

def runFrom (st : List Frame) (evs : List Ev) : Option (List Frame) := evs.foldl nestStep (some st)

theorem runFrom_append (st : List Frame) (a b : List Ev) :
    runFrom st (a ++ b) = (runFrom st a).bind fun s => runFrom s b := by
  unfold runFrom
  rw [List.foldl_append]
  cases h : List.foldl nestStep (some st) a with
  | none =>
    simp only [Option.bind_none]
    induction b with
    | nil => rfl
    | cons e es ih => simpa [List.foldl_cons, nestStep] using ih
  | some s => rfl

theorem step_inI (st : List Frame) (sb : Nat) (h : InvOk st) : nestStep (some st) (.inI sb) = some (.inv sb :: st) := by
  cases st with
  | nil => rfl
  | cons f rest => cases f with
    | inv _ => exact absurd h (by simp [InvOk])
    | cb s k => rfl

mutual
  /-- an invocation started on an admissible stack returns the stack unchanged, whatever faults -/
  theorem nests_inv (slots : SlotMap) : ∀ (i : Inv) (st : List Frame), InvOk st → runFrom st (runInv slots i).evs = some st
    | .mk sb arg fault cbs, st, hst => by
      unfold runInv
      by_cases hf : fault = .argConv
      · simp only [hf, if_true]
        unfold runFrom
        simp only [List.foldl_cons, List.foldl_nil, step_inI st sb hst]
        simp [nestStep]
      · simp only [hf, if_false]
        have hb := nests_cbs slots sb cbs st
        by_cases he : (runCbs slots sb cbs).exc
        · simp only [he, if_true]
          rw [runFrom_append, runFrom_append]
          have h1 : runFrom st [Ev.inI sb, Ev.guest sb arg] = some (.inv sb :: st) := by
            unfold runFrom; simp only [List.foldl_cons, List.foldl_nil, step_inI st sb hst]; simp [nestStep]
          rw [h1]; simp only [Option.bind_some]; rw [hb]; simp only [Option.bind_some]
          unfold runFrom; simp [nestStep]
        · simp only [he, Bool.false_eq_true, if_false]
          rw [runFrom_append, runFrom_append]
          have h1 : runFrom st [Ev.inI sb, Ev.guest sb arg] = some (.inv sb :: st) := by
            unfold runFrom; simp only [List.foldl_cons, List.foldl_nil, step_inI st sb hst]; simp [nestStep]
          rw [h1]; simp only [Option.bind_some]; rw [hb]; simp only [Option.bind_some]
          unfold runFrom; simp [nestStep]
  theorem nests_cbs (slots : SlotMap) (sb : Nat) : ∀ (cs : List Cb) (st : List Frame),
      runFrom (.inv sb :: st) (runCbs slots sb cs).evs = some (.inv sb :: st)
    | [], st => by unfold runCbs; rfl
    | c :: cs, st => by
      unfold runCbs
      have h1 := nests_cb slots sb c st
      by_cases he : (runCb slots sb c).exc
      · simp only [he, if_true]; exact h1
      · simp only [he, Bool.false_eq_true, if_false]
        rw [runFrom_append, h1]; simp only [Option.bind_some]
        exact nests_cbs slots sb cs st
  theorem nests_cb (slots : SlotMap) (sb : Nat) : ∀ (c : Cb) (st : List Frame),
      runFrom (.inv sb :: st) (runCb slots sb c).evs = some (.inv sb :: st)
    | .mk slot arg ret fault invs, st => by
      unfold runCb
      cases hs : slots sb slot with
      | none => rfl
      | some fn =>
        simp only
        have hb := nests_invs slots invs (.cb sb fn :: .inv sb :: st) (by simp [InvOk])
        have h1 : runFrom (.inv sb :: st) [Ev.outC sb fn, Ev.cbRun fn sb arg] = some (.cb sb fn :: .inv sb :: st) := by
          unfold runFrom; simp [nestStep]
        split
        · rw [runFrom_append, runFrom_append, h1]; simp only [Option.bind_some]; rw [hb]; simp only [Option.bind_some]
          unfold runFrom; simp [nestStep]
        · rw [runFrom_append, runFrom_append, h1]; simp only [Option.bind_some]; rw [hb]; simp only [Option.bind_some]
          unfold runFrom; simp [nestStep]
  theorem nests_invs (slots : SlotMap) : ∀ (is : List Inv) (st : List Frame), InvOk st →
      runFrom st (runInvs slots is).evs = some st
    | [], st, _ => by unfold runInvs; rfl
    | i :: is, st, hst => by
      unfold runInvs
      have h1 := nests_inv slots i st hst
      by_cases he : (runInv slots i).exc
      · simp only [he, if_true]; exact h1
      · simp only [he, Bool.false_eq_true, if_false]
        rw [runFrom_append, h1]; simp only [Option.bind_some]
        exact nests_invs slots is st hst
end

/-- Every tree of nested invocations and callbacks, of any depth and width, with a fault at any
argument-conversion, callback-body or result-conversion position (or none), produces a properly
nested, balanced sequence of notifications: an invocation is `in ... out`, a callback inside it
`out ... in`, each carrying the sandbox and callback identity of its opening notification. -/
theorem C19_bracketed (slots : SlotMap) (is : List Inv) : nests [] (runInvs slots is).evs :=
  nests_invs slots is [] (by simp [InvOk])

/-- counting: `records` (scope-exit side) and `crossings` (entry side) -/
theorem crossings_append (a b : List Ev) : crossings (a ++ b) = crossings a + crossings b := by
  simp [crossings, List.filter_append]
theorem records_append (a b : List Ev) : records (a ++ b) = records a + records b := by
  simp [records, List.filter_append]

mutual
  theorem count_inv (slots : SlotMap) : ∀ (i : Inv), records (runInv slots i).evs = crossings (runInv slots i).evs
    | .mk sb arg fault cbs => by
      unfold runInv
      have hb := count_cbs slots sb cbs
      by_cases hf : fault = .argConv
      · simp [hf, records, crossings]
      · simp only [hf, if_false]
        split <;> simp only [records_append, crossings_append, hb] <;> simp [records, crossings] <;> omega
  theorem count_cbs (slots : SlotMap) (sb : Nat) : ∀ (cs : List Cb), records (runCbs slots sb cs).evs = crossings (runCbs slots sb cs).evs
    | [] => by unfold runCbs; rfl
    | c :: cs => by
      unfold runCbs
      have h1 := count_cb slots sb c
      have h2 := count_cbs slots sb cs
      simp only
      by_cases he : (runCb slots sb c).exc = true
      · simp only [he, if_true]; exact h1
      · simp only [he, Bool.false_eq_true, if_false, records_append, crossings_append, h1, h2]
  theorem count_cb (slots : SlotMap) (sb : Nat) : ∀ (c : Cb), records (runCb slots sb c).evs = crossings (runCb slots sb c).evs
    | .mk slot arg ret fault invs => by
      unfold runCb
      cases hs : slots sb slot with
      | none => rfl
      | some fn =>
        simp only
        have hb := count_invs slots invs
        split <;> simp only [records_append, crossings_append, hb] <;> simp [records, crossings] <;> omega
  theorem count_invs (slots : SlotMap) : ∀ (is : List Inv), records (runInvs slots is).evs = crossings (runInvs slots is).evs
    | [] => by unfold runInvs; rfl
    | i :: is => by
      unfold runInvs
      have h1 := count_inv slots i
      have h2 := count_invs slots is
      simp only
      by_cases he : (runInv slots i).exc = true
      · simp only [he, if_true]; exact h1
      · simp only [he, Bool.false_eq_true, if_false, records_append, crossings_append, h1, h2]
end

/-- Exactly one exit notification / timing record per boundary crossing, also on exceptional exit. -/
theorem C19_one_record_per_crossing (slots : SlotMap) (is : List Inv) :
    records (runInvs slots is).evs = crossings (runInvs slots is).evs := count_invs slots is

/-- `scope_exit` runs its action exactly once, also when moved: a guard is (armed?, action-count). -/
structure Guard where
  armed : Bool
  ran : Nat
/-- move-construction transfers the armed flag and disarms the source -/
def Guard.moveFrom (src : Guard) : Guard × Guard := (⟨src.armed, 0⟩, ⟨false, src.ran⟩)
def Guard.destroy (g : Guard) : Guard := if g.armed then ⟨false, g.ran + 1⟩ else g
theorem C19_scope_exit_once (g : Guard) (h : g.armed = true) (h0 : g.ran = 0) :
    let (dst, src) := g.moveFrom
    (src.destroy).ran + (dst.destroy).ran = 1 := by
  simp [Guard.moveFrom, Guard.destroy, h, h0]

/-- the `in` notifications (entries into sandboxed code) and the `out` notifications (exits) -/
def isIn : Ev → Bool | .inI _ | .inC _ _ => true | _ => false
def isOut : Ev → Bool | .outI _ | .outC _ _ => true | _ => false

/-- A client that defines only ONE of the two hooks still gets every notification of that hook -- for
invocations and for callbacks alike, in the same order --, none of the other hook, and every other
event unchanged; with both hooks the view is the whole trace. -/
theorem C19_single_hook (evs : List Ev) :
    hookView true true evs = evs ∧
    (hookView true false evs).filter isIn = evs.filter isIn ∧ (hookView true false evs).filter isOut = [] ∧
    (hookView false true evs).filter isOut = evs.filter isOut ∧ (hookView false true evs).filter isIn = [] ∧
    (hookView true false evs).filter (fun e => !isTransition e) = evs.filter (fun e => !isTransition e) ∧
    (hookView false true evs).filter (fun e => !isTransition e) = evs.filter (fun e => !isTransition e) := by
  unfold hookView
  refine ⟨?_, ?_, ?_, ?_, ?_, ?_, ?_⟩ <;>
    (induction evs with
     | nil => rfl
     | cons e es ih => cases e <;> simp_all [List.filter_cons, isIn, isOut, isTransition])

/-- so with one hook as with two: exactly one `in` per entry and one `out` per exit (counts of the full
trace, `C19_one_record_per_crossing`) -/
theorem C19_single_hook_counts (slots : SlotMap) (is : List Inv) :
    ((hookView true false (runInvs slots is).evs).filter isIn).length = ((runInvs slots is).evs.filter isIn).length ∧
    ((hookView false true (runInvs slots is).evs).filter isOut).length = ((runInvs slots is).evs.filter isOut).length := by
  have h := C19_single_hook (runInvs slots is).evs
  exact ⟨by rw [h.2.1], by rw [h.2.2.2.1]⟩

/-- non-vacuity: a nested tree with a fault in an inner callback body -/
example :
    let t : List Inv := [.mk 0 5 .none [.mk 1 7 70 .none [.mk 1 9 .none [.mk 0 3 30 .body []]]], .mk 0 6 .none []]
    let slots : SlotMap := fun _ k => if k < 2 then some k else none
    (runInvs slots t).exc = true ∧ crossings (runInvs slots t).evs = 4 := by decide

end Rlbox.C19
