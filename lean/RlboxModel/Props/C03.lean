import RlboxModel.PtrOps
import RlboxModel.Props.C04
import RlboxModel.Props.C05
/-!
# C03 — Every tainted data pointer is null or points into its own sandbox
Property theorems only.
-/
namespace Rlbox.C03
open Rlbox

/-- the invariant: null, or inside the region of the sandbox it came from -/
def Inv (r : Region) (p : Nat) : Prop := p = 0 ∨ r.contains p

/-- Whatever bit pattern the guest supplies (result, callback argument, memory cell, array element,
struct field), the pointer the application obtains is null or inside the sandbox: for ALL
representations, not a sample. -/
theorem C03_from_guest (s : Sbx) (hs : C04.Sbx.wf s) (rep : Nat) : Inv s.region (toApp s rep) := by
  obtain ⟨⟨_, _, _⟩, _, _⟩ := hs
  unfold Inv toApp Region.contains
  by_cases h : rep = 0
  · simp [h]
  · right; simp only [h, if_false]
    have := Nat.mod_lt rep (two_pow_pos s.region.k)
    omega

/-- the same through a memory cell (context-free translation from the cell's own address) -/
theorem C03_from_cell (s : Sbx) (hs : C04.Sbx.wf s) (cell rep : Nat) (hc : s.region.contains cell) :
    Inv s.region (ptrLoad s.region.k cell rep) := by
  rw [(C04.C04_cell_relative s hs cell hc rep 0).1]
  exact C03_from_guest s hs rep

/-- One derivation step keeps the invariant (designation steps under `fieldOk`). -/
theorem C03_step (s : Sbx) (hs : C04.Sbx.wf s) (p q : Nat) (op : POp) (hp : Inv s.region p)
    (hok : fieldOk s.region p op) (h : stepPtr s.region.k p op = some q) : Inv s.region q := by
  have hwf := hs.1
  cases op with
  | arith f n st =>
    simp only [stepPtr] at h
    rcases hp with rfl | hp
    · -- null base: `+`, `-` and `[]` all abort
      simp [ptrArith, ptrArithCore] at h
    · exact Or.inr (C05.C05_inside_region s.region hwf f p n st q hp h)
  | load rep =>
    simp only [stepPtr] at h
    split at h
    · cases h
    · rename_i hne
      cases h
      rcases hp with rfl | hp
      · exact absurd rfl hne
      · exact C03_from_cell s hs p rep hp
  | addrOf => simp only [stepPtr] at h; cases h; exact hp
  | cast => simp only [stepPtr] at h; cases h; exact hp
  | field off size =>
    simp only [stepPtr] at h; cases h
    obtain ⟨h0, h1, h2⟩ := hok
    rcases hp with rfl | hp
    · exact absurd rfl h0
    · right
      obtain ⟨_, _, hb⟩ := hwf
      unfold Region.contains at hp ⊢
      have : (p + off) % W64 = p + off := Nat.mod_eq_of_lt (by omega)
      rw [this]; omega
  | elem i n stride =>
    simp only [stepPtr] at h
    split at h
    · next hi =>
      cases h
      obtain ⟨h0, hst, h2⟩ := hok
      rcases hp with rfl | hp
      · exact absurd rfl h0
      · right
        obtain ⟨_, _, hb⟩ := hwf
        unfold Region.contains at hp ⊢
        have hlt : i.toNat < n := by omega
        have hmul : i.toNat * stride + stride ≤ n * stride := by
          have := Nat.mul_le_mul_right stride (Nat.succ_le_of_lt hlt)
          rw [Nat.succ_mul] at this; exact this
        have : (p + i.toNat * stride) % W64 = p + i.toNat * stride := Nat.mod_eq_of_lt (by omega)
        rw [this]; omega
    · cases h

/-- Chains of any length: from null or any in-region address, every derivation chain whose
designation steps are of wholly-inside aggregates ends null or inside the sandbox (no depth bound). -/
theorem C03_chain (s : Sbx) (hs : C04.Sbx.wf s) (ops : List POp) (p q : Nat) (hp : Inv s.region p)
    (hok : runOk s.region p ops) (h : runPtr s.region.k p ops = some q) : Inv s.region q := by
  induction ops generalizing p with
  | nil => simp only [runPtr] at h; cases h; exact hp
  | cons op ops ih =>
    simp only [runPtr] at h
    cases hst : stepPtr s.region.k p op with
    | none => simp [hst] at h
    | some p1 =>
      simp only [hst, Option.bind_some] at h
      simp only [runOk, hst] at hok
      exact ih p1 (C03_step s hs p p1 op hp hok.1 hst) hok.2 h

/-- Allocation: whatever the allocator inside the sandbox returns and however the backend translates
it, `malloc_in_sandbox` yields null or an address whose first and last element both lie inside the
region -- anything else aborts. -/
theorem C03_malloc (s : Sbx) (hs : C04.Sbx.wf s) (v count size p : Nat) (h : mallocIn s v count size = some p) :
    p = 0 ∨ (s.region.contains p ∧ s.region.contains ((p + (count - 1) * size) % W64)) := by
  unfold mallocIn at h
  by_cases hc : count = 0
  · simp [hc] at h
  · by_cases hv : v = 0
    · simp [hc, hv] at h; exact Or.inl h.symm
    · simp only [hc, hv, if_false] at h
      by_cases hin : s.region.contains (s.region.base + v)
      · simp only [hin, not_true_eq_false, if_false] at h
        split at h
        · rename_i hsame
          cases h
          exact Or.inr ⟨hin, (sameSbx_iff_contains s.region hs.1 _ _ hin).1 hsame⟩
        · cases h
      · simp [hin] at h

example : mallocIn ⟨⟨16, 0x6a0000000000⟩, 4⟩ 0x8000 4 4 = some 0x6a0000008000 := by decide
example : mallocIn ⟨⟨16, 0x6a0000000000⟩, 4⟩ 0x10040 4 4 = none := by decide   -- wholly outside: refused
example : mallocIn ⟨⟨16, 0x6a0000000000⟩, 4⟩ 0xfff8 4 4 = none := by decide    -- straddles the end: refused

/-- Full statement without the side condition on designation steps. -/
def C03_full : Prop :=
  ∀ (s : Sbx), C04.Sbx.wf s → ∀ (ops : List POp) (p q : Nat), Inv s.region p →
    runPtr s.region.k p ops = some q → Inv s.region q

/-- It is false of the code as it is (finding F7): designating a member of an aggregate that
straddles the end of the region (or of a null aggregate) yields an address outside the region,
without a check. Witness: a 12-byte struct at the last 4 bytes of the region, member at offset 8. -/
theorem C03_designation_witness : ¬ C03_full := by
  intro h
  have := h ⟨⟨16, 0x6a0000000000⟩, 4⟩ (by refine ⟨⟨by decide, by decide, by decide⟩, by decide, by decide⟩)
    [.field 8 12] 0x6a000000fffc 0x6a0000010004 (Or.inr (by decide)) (by decide)
  revert this; unfold Inv Region.contains; decide

example : runPtr 16 0x6a0000000010 [.arith .add 3 4, .cast, .load 0x12345, .field 4 12, .addrOf] = some 0x6a0000002349 := by decide
example : stepPtr 16 0 (.arith .index 5 4) = none := by decide

end Rlbox.C03
