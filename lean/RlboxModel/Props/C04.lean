import RlboxModel.Lemmas.MemLemmas
/-!
# C04 — Pointer representation conversion is faithful, null-preserving and per-sandbox
Property theorems only.
-/
namespace Rlbox.C04
open Rlbox

/-- a sandbox whose guest pointer type can represent every offset of its region -/
def Sbx.wf (s : Sbx) : Prop :=
  s.region.wf ∧ s.region.k ≤ 8 * s.ptrBytes ∧ (s.ptrBytes = 2 ∨ s.ptrBytes = 4 ∨ s.ptrBytes = 8)

theorem baseOfExample_eq (r : Region) (hr : r.wf) (ex : Nat) (h : r.contains ex) : baseOfExample r.k ex = r.base := by
  obtain ⟨k, base⟩ := r
  obtain ⟨hal, _, _⟩ := hr
  unfold Region.contains at h
  unfold baseOfExample
  simp only at *
  have hM := two_pow_pos k
  generalize 2 ^ k = M at *
  obtain ⟨q, hq⟩ : ∃ q, base = q * M := ⟨base / M, by
    have := Nat.div_add_mod base M; rw [hal] at this; rw [Nat.mul_comm]; omega⟩
  subst hq
  have : ex / M = q := by rw [Nat.div_eq_iff hM]; omega
  rw [this]

theorem pow_le_of_wf (s : Sbx) (h : Sbx.wf s) : 2 ^ s.region.k ≤ 2 ^ (8 * s.ptrBytes) :=
  Nat.pow_le_pow_right (by decide) h.2.1

/-- address → representation → address is the identity for every in-region address except the
first byte (whose representation is 0, i.e. null inside the sandbox). -/
theorem C04_rt_addr (s : Sbx) (hs : Sbx.wf s) (a : Nat) (ha : s.region.contains a) (hne : a ≠ s.region.base) :
    toApp s (toGuest s a) = a := by
  have hp := pow_le_of_wf s hs
  obtain ⟨⟨_, hb0, hb1⟩, _, _⟩ := hs
  unfold Region.contains at ha
  have hM := two_pow_pos s.region.k
  have ha0 : a ≠ 0 := by omega
  have h1 : (a + W64 - s.region.base) % W64 = a - s.region.base := by unfold W64 at *; omega
  unfold toGuest toApp
  simp only [ha0, if_false, h1]
  generalize 2 ^ s.region.k = M at *
  generalize 2 ^ (8 * s.ptrBytes) = P at *
  have h2 : (a - s.region.base) % P = a - s.region.base := Nat.mod_eq_of_lt (by omega)
  rw [h2]
  have h3 : a - s.region.base ≠ 0 := by omega
  simp only [h3, if_false]
  rw [Nat.mod_eq_of_lt (by omega)]
  omega

/-- representation → address → representation is the identity for every non-null canonical
representation (offsets 1 .. 2^k - 1). -/
theorem C04_rt_rep (s : Sbx) (hs : Sbx.wf s) (r : Nat) (h0 : r ≠ 0) (hr : r < 2 ^ s.region.k) :
    toGuest s (toApp s r) = r := by
  have hp := pow_le_of_wf s hs
  obtain ⟨⟨_, hb0, hb1⟩, _, _⟩ := hs
  unfold toGuest toApp
  simp only [h0, if_false]
  have hmod : r % 2 ^ s.region.k = r := Nat.mod_eq_of_lt hr
  rw [hmod]
  have hne : s.region.base + r ≠ 0 := by omega
  simp only [hne, if_false]
  have h1 : (s.region.base + r + W64 - s.region.base) % W64 = r := by unfold W64 at *; omega
  rw [h1]
  exact Nat.mod_eq_of_lt (by omega)

/-- null ↔ 0 on all four entry points (the core short-circuits before the backend is asked) -/
theorem C04_null (s : Sbx) (k pb ex : Nat) :
    toApp s 0 = 0 ∧ toGuest s 0 = 0 ∧ toAppNoCtx k ex 0 = 0 ∧ toGuestNoCtx k pb ex 0 = 0 := by
  simp [toApp, toGuest, toAppNoCtx, toGuestNoCtx]

/-- a non-null representation never becomes null and a non-null in-region address (other than the
first byte) never becomes 0 -/
theorem C04_nonnull (s : Sbx) (hs : Sbx.wf s) (r : Nat) (h0 : r ≠ 0) : toApp s r ≠ 0 := by
  obtain ⟨⟨_, hb0, _⟩, _, _⟩ := hs
  unfold toApp; simp only [h0, if_false]; omega

/-- The context-free entry points, given an example address inside sandbox `s`, translate exactly
like the entry points with context on `s` -- whatever other sandboxes are alive. -/
theorem C04_noctx_agrees (s : Sbx) (hs : Sbx.wf s) (ex : Nat) (hex : s.region.contains ex) (r a : Nat) :
    toAppNoCtx s.region.k ex r = toApp s r ∧ toGuestNoCtx s.region.k s.ptrBytes ex a = toGuest s a := by
  have hb := baseOfExample_eq s.region hs.1 ex hex
  simp [toAppNoCtx, toGuestNoCtx, toApp, toGuest, hb]

/-- loads and stores of pointer cells use the cell's own address as example, hence translate
relative to the sandbox that owns the cell -/
theorem C04_cell_relative (s : Sbx) (hs : Sbx.wf s) (cell : Nat) (hc : s.region.contains cell) (r a : Nat) :
    ptrLoad s.region.k cell r = toApp s r ∧ ptrStore s.region.k s.ptrBytes cell a = toGuest s a :=
  C04_noctx_agrees s hs cell hc r a

/-- regions of the live sandboxes are pairwise disjoint -/
def Disjoint (reg : List Sbx) : Prop :=
  reg.Pairwise fun s1 s2 => ∀ x, ¬ (s1.region.contains x ∧ s2.region.contains x)

/-- With any number of live sandboxes with pairwise disjoint regions, in any registry order, the
sandbox found from an example address is the one whose region contains it. -/
theorem C04_find_own (reg : List Sbx) (hd : Disjoint reg) (s : Sbx) (hs : s ∈ reg) (ex : Nat)
    (hex : s.region.contains ex) : findSandbox reg ex = some s := by
  unfold findSandbox
  induction reg with
  | nil => cases hs
  | cons s0 rest ih =>
    unfold Disjoint at hd
    rw [List.pairwise_cons] at hd
    rw [List.find?_cons]
    by_cases h0 : s0.region.contains ex
    · simp only [h0, decide_true]
      rcases List.mem_cons.1 hs with rfl | hm
      · rfl
      · exact absurd ⟨h0, hex⟩ (hd.1 s hm ex)
    · simp only [h0, decide_false]
      rcases List.mem_cons.1 hs with rfl | hm
      · exact absurd hex h0
      · exact ih hd.2 hm

theorem C04_find_none (reg : List Sbx) (ex : Nat) (h : ∀ s ∈ reg, ¬ s.region.contains ex) : findSandbox reg ex = none := by
  unfold findSandbox
  rw [List.find?_eq_none]
  intro s hs; simpa using h s hs

/-- non-vacuity on the verification backend's geometry (K = 16, 32-bit guest pointers, two slots) -/
example :
    let s0 : Sbx := ⟨⟨16, 0x6a0000000000⟩, 4⟩
    let s1 : Sbx := ⟨⟨16, 0x6a0400000000⟩, 4⟩
    Sbx.wf s0 ∧ toGuest s0 0x6a000000ffff = 0xffff ∧ toApp s1 0x12345 = 0x6a0400002345 ∧
    findSandbox [s0, s1] 0x6a0400000010 = some s1 ∧ ptrStore 16 4 0x6a0400000010 0x6a0400000abc = 0xabc := by
  refine ⟨⟨⟨by decide, by decide, by decide⟩, by decide, by decide⟩, by decide, by decide, by decide, by decide⟩

/-- Function pointers: null and only null is represented by 0, in both directions, with and without
the sandbox context; a representation that designates a library function or a callback entry point
round-trips. (`nlib < cbBase`: the two index ranges of the backend's table are disjoint.) -/
theorem C04_fn_null (nlib cbBase ncb : Nat) :
    fnToApp nlib cbBase ncb 0 = .null ∧ fnToGuest cbBase .null = some 0 := ⟨rfl, rfl⟩

theorem C04_fn_nonnull (nlib cbBase ncb rep : Nat) (h : rep ≠ 0) : fnToApp nlib cbBase ncb rep ≠ .null := by
  unfold fnToApp backendFn
  simp only [h, if_false]
  split
  · intro e; cases e
  · split <;> intro e <;> cases e

theorem C04_fn_roundtrip (nlib cbBase ncb rep : Nat) (hd : nlib < cbBase)
    (hv : rep = 0 ∨ (1 ≤ rep ∧ rep ≤ nlib) ∨ (cbBase ≤ rep ∧ rep < cbBase + ncb)) :
    fnToGuest cbBase (fnToApp nlib cbBase ncb rep) = some rep := by
  unfold fnToApp backendFn
  rcases hv with h | h | h
  · simp [h, fnToGuest]
  · have h0 : rep ≠ 0 := by omega
    have hc : ¬ (cbBase ≤ rep ∧ rep < cbBase + ncb) := by omega
    simp only [h0, if_false, hc, h, and_self, if_true, fnToGuest]
    congr 1; omega
  · have h0 : rep ≠ 0 := by omega
    simp only [h0, if_false, h, and_self, if_true, fnToGuest]
    congr 1; omega

example : fnToApp 3 0x4000 8 2 = .lib 1 ∧ fnToApp 3 0x4000 8 0x4001 = .cb 1 ∧ fnToApp 3 0x4000 8 77 = .other := by decide

end Rlbox.C04
