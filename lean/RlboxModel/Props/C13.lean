import RlboxModel.Lemmas.LifeLemmas
/-!
# C13 — Callback registrations have exactly one owner and end when that owner does
Property theorems only.
-/
namespace Rlbox.C13
open Rlbox

/-- the ownership invariant: for every sandbox object the registered keys, the functions reachable
through the backend's entry-point table and the functions held by owner objects *whose registration
was made in the current incarnation of the sandbox* are the same set; table entries and owners are
unique; an owner never carries an incarnation number from the future; only a created sandbox has
registrations. -/
structure Inv (w : World) : Prop where
  keysOwned : ∀ i f, (w.sbx i).keys f = true ↔ ∃ o, w.owners o = some (i, f, (w.sbx i).inc)
  keysSlots : ∀ i f, (w.sbx i).keys f = true ↔ ∃ k, k < w.max ∧ (w.sbx i).slots k = some f
  slotsUniq : ∀ i k1 k2 f, k1 < w.max → k2 < w.max → (w.sbx i).slots k1 = some f → (w.sbx i).slots k2 = some f → k1 = k2
  ownersUniq : ∀ o1 o2 x, w.owners o1 = some x → w.owners o2 = some x → o1 = o2
  ownersLe : ∀ o i f n, w.owners o = some (i, f, n) → n ≤ (w.sbx i).inc
  keysCreated : ∀ i f, (w.sbx i).keys f = true → (w.sbx i).status = .created

theorem inv_init (m : Nat) : Inv (World.init m) := by
  constructor <;> simp [World.init]

/-- the owner holds a live registration of function `f` with sandbox `i`: made in the current
incarnation of a sandbox that is created -/
def holdsLive (w : World) (o i f : Nat) : Prop :=
  w.owners o = some (i, f, (w.sbx i).inc) ∧ (w.sbx i).status = .created

/-- Registering a function that is already registered aborts. -/
theorem C13_no_dup (w : World) (i o f : Nat) (h : (w.sbx i).keys f = true) : w.register i o f = none := by
  simp [World.register, World.registerNew, h]

/-- A registration for which the backend has no free entry point is refused. -/
theorem C13_full_refused (w : World) (i o f : Nat) (h : ∀ k, k < w.max → (w.sbx i).slots k ≠ none) :
    w.register i o f = none := by
  have : firstFree w (w.sbx i) = none := by
    unfold firstFree
    rw [scanIdx_none]
    intro j _ hj
    have := h j (by omega)
    cases hs : (w.sbx i).slots j <;> simp_all
  unfold World.register World.registerNew
  by_cases h1 : (w.sbx i).status ≠ .created
  · simp [h1]
  · by_cases h2 : (w.sbx i).keys f = true
    · simp [h1, h2]
    · simp [h1, h2, this]

theorem slotOf_spec (w : World) (hi : Inv w) (i f : Nat) (hk : (w.sbx i).keys f = true) :
    ∃ k, slotOf w (w.sbx i) f = some k ∧ k < w.max ∧ (w.sbx i).slots k = some f := by
  obtain ⟨k, hk1, hk2⟩ := (hi.keysSlots i f).1 hk
  cases hs : slotOf w (w.sbx i) f with
  | none =>
    unfold slotOf at hs
    rw [scanIdx_none] at hs
    have := hs k (by omega) (by omega)
    simp [hk2] at this
  | some k' =>
    obtain ⟨_, b, c⟩ := scanIdx_some _ _ _ _ hs
    exact ⟨k', rfl, by omega, by simpa using c⟩

/-- Releasing an owner (unregister / destructor / being overwritten) never aborts in a state that
satisfies the invariant, keeps the invariant, empties the owner, and removes exactly its function
from the registered set if the registration was live; a stale owner (its sandbox was destroyed, and
possibly created again, since) changes nothing but itself. -/
theorem release_total (w : World) (o : Nat) (hi : Inv w) : ∃ w', w.release o = some w' := by
  unfold World.release
  cases ho : w.owners o with
  | none => exact ⟨w, rfl⟩
  | some p =>
    obtain ⟨i, f, n⟩ := p
    simp only
    by_cases h1 : (w.sbx i).status ≠ .created ∨ (w.sbx i).inc ≠ n
    · simp [h1]
    · have hn : (w.sbx i).inc = n := by
        by_cases e : (w.sbx i).inc = n
        · exact e
        · exact absurd (Or.inr e) h1
      have hk : (w.sbx i).keys f = true := (hi.keysOwned i f).2 ⟨o, by rw [ho, hn]⟩
      simp [h1, hk]

theorem release_inv (w w' : World) (o : Nat) (hi : Inv w) (h : w.release o = some w') :
    Inv w' ∧ w'.owners o = none ∧ (∀ p, p ≠ o → w'.owners p = w.owners p) ∧ w'.max = w.max ∧
    (∀ i f, w.owners o = some (i, f, (w.sbx i).inc) → (w'.sbx i).keys f = false) ∧
    (∀ i g, w.owners o ≠ some (i, g, (w.sbx i).inc) → (w'.sbx i).keys g = (w.sbx i).keys g) ∧
    (∀ j, (w'.sbx j).status = (w.sbx j).status ∧ (w'.sbx j).inc = (w.sbx j).inc) := by
  rcases release_cases w w' o h with ⟨hn, rfl⟩ | ⟨i, f, n, ho, hst, rfl⟩ | ⟨i, f, n, ho, hc, hinc, hk, rfl⟩
  · refine ⟨hi, hn, ?_, rfl, ?_, ?_, ?_⟩
    · intro _ _; rfl
    · intro i f e; rw [hn] at e; cases e
    · intro _ _ _; rfl
    · intro _; exact ⟨rfl, rfl⟩
  · -- stale owner, or sandbox not created: only the owner changes
    have hnot : ∀ i' f', w.owners o = some (i', f', (w.sbx i').inc) → (w.sbx i').keys f' = false := by
      intro i' f' e
      rw [ho] at e
      have e := Option.some.inj e
      simp only [Prod.mk.injEq] at e
      obtain ⟨rfl, rfl, rfl⟩ := e
      cases hkk : (w.sbx i).keys f with
      | false => rfl
      | true =>
        have := hi.keysCreated i f hkk
        rcases hst with a | a
        · exact absurd this a
        · exact absurd rfl a
    refine ⟨⟨?_, ?_, ?_, ?_, ?_, ?_⟩, by simp [World.setO], ?_, rfl, ?_, ?_, ?_⟩
    · intro i' f'
      simp only [setO_sbx]
      rw [hi.keysOwned i' f']
      constructor
      · rintro ⟨p, hp⟩
        have : p ≠ o := by
          intro e; subst e
          have := hnot i' f' hp
          have h2 := (hi.keysOwned i' f').2 ⟨p, hp⟩
          rw [this] at h2; cases h2
        exact ⟨p, by rw [setO_other _ _ _ _ this]; exact hp⟩
      · rintro ⟨p, hp⟩
        by_cases hpo : p = o
        · subst hpo; simp [World.setO] at hp
        · rw [setO_other _ _ _ _ hpo] at hp; exact ⟨p, hp⟩
    · intro i' f'; simp only [setO_sbx, setO_max]; exact hi.keysSlots i' f'
    · intro i' k1 k2 f'; simp only [setO_sbx, setO_max]; exact hi.slotsUniq i' k1 k2 f'
    · intro o1 o2 x e1 e2
      by_cases a1 : o1 = o
      · subst a1; simp [World.setO] at e1
      · by_cases a2 : o2 = o
        · subst a2; simp [World.setO] at e2
        · rw [setO_other _ _ _ _ a1] at e1; rw [setO_other _ _ _ _ a2] at e2
          exact hi.ownersUniq o1 o2 x e1 e2
    · intro p i' f' n' e
      by_cases a : p = o
      · subst a; simp [World.setO] at e
      · rw [setO_other _ _ _ _ a] at e; simp only [setO_sbx]; exact hi.ownersLe p i' f' n' e
    · intro i' f'; simp only [setO_sbx]; exact hi.keysCreated i' f'
    · intro p hp; exact setO_other _ _ _ _ hp
    · intro i' f' e; simp only [setO_sbx]; exact hnot i' f' e
    · intro _ _ _; rfl
    · intro _; exact ⟨rfl, rfl⟩
  · subst hinc
    obtain ⟨k, hs, hkm, hsk⟩ := slotOf_spec w hi i f hk
    have hkeys := releasedObj_keys w i f
    have hslots := releasedObj_slots w i f k hs
    have hstat : (releasedObj w i f).status = (w.sbx i).status := rfl
    have hincr : (releasedObj w i f).inc = (w.sbx i).inc := rfl
    refine ⟨⟨?_, ?_, ?_, ?_, ?_, ?_⟩, by simp [World.setO], ?_, rfl, ?_, ?_, ?_⟩
    · -- keysOwned
      intro i' f'
      by_cases hii : i' = i
      · subst hii
        simp only [setS_sbx_same, hkeys, setS_owners, hincr]
        by_cases hff : f' = f
        · subst hff
          simp only [if_true, Bool.false_eq_true, false_iff, not_exists]
          intro p hp
          by_cases hpo : p = o
          · subst hpo; simp [World.setO] at hp
          · rw [setO_other _ _ _ _ hpo] at hp
            exact hpo (hi.ownersUniq p o _ hp ho)
        · simp only [hff, if_false]
          rw [hi.keysOwned i' f']
          constructor
          · rintro ⟨p, hp⟩
            refine ⟨p, ?_⟩
            have : p ≠ o := by
              intro e; subst e; rw [ho] at hp
              have := Option.some.inj hp
              simp only [Prod.mk.injEq] at this
              exact hff this.2.1.symm
            rw [setO_other _ _ _ _ this]; exact hp
          · rintro ⟨p, hp⟩
            by_cases hpo : p = o
            · subst hpo; simp [World.setO] at hp
            · rw [setO_other _ _ _ _ hpo] at hp; exact ⟨p, hp⟩
      · rw [setS_sbx_other _ _ _ _ hii, setO_sbx, setS_owners, hi.keysOwned i' f']
        constructor
        · rintro ⟨p, hp⟩
          have : p ≠ o := by
            intro e; subst e; rw [ho] at hp
            have := Option.some.inj hp
            simp only [Prod.mk.injEq] at this
            exact hii this.1.symm
          exact ⟨p, by rw [setO_other _ _ _ _ this]; exact hp⟩
        · rintro ⟨p, hp⟩
          by_cases hpo : p = o
          · subst hpo; simp [World.setO] at hp
          · rw [setO_other _ _ _ _ hpo] at hp; exact ⟨p, hp⟩
    · -- keysSlots
      intro i' f'
      by_cases hii : i' = i
      · subst hii
        simp only [setS_sbx_same, hkeys, hslots, setS_max, setO_max]
        by_cases hff : f' = f
        · subst hff
          simp only [if_true, Bool.false_eq_true, false_iff, not_exists, not_and]
          intro k' hk' hsl
          by_cases hkk : k' = k
          · subst hkk; simp at hsl
          · simp only [hkk, if_false] at hsl
            exact hkk (hi.slotsUniq i' k' k f' hk' hkm hsl hsk)
        · simp only [hff, if_false]
          rw [hi.keysSlots i' f']
          constructor
          · rintro ⟨k', hk', hsl⟩
            have : k' ≠ k := by intro e; subst e; rw [hsk] at hsl; cases hsl; exact hff rfl
            exact ⟨k', hk', by simp [this, hsl]⟩
          · rintro ⟨k', hk', hsl⟩
            by_cases hkk : k' = k
            · subst hkk; simp at hsl
            · simp only [hkk, if_false] at hsl; exact ⟨k', hk', hsl⟩
      · rw [setS_sbx_other _ _ _ _ hii, setO_sbx]; exact hi.keysSlots i' f'
    · -- slotsUniq
      intro i' k1 k2 f' h1 h2 e1 e2
      by_cases hii : i' = i
      · subst hii
        simp only [setS_sbx_same, hslots] at e1 e2
        by_cases a1 : k1 = k
        · subst a1; simp at e1
        · by_cases a2 : k2 = k
          · subst a2; simp at e2
          · simp only [a1, a2, if_false] at e1 e2
            exact hi.slotsUniq i' k1 k2 f' h1 h2 e1 e2
      · rw [setS_sbx_other _ _ _ _ hii, setO_sbx] at e1 e2
        exact hi.slotsUniq i' k1 k2 f' h1 h2 e1 e2
    · -- ownersUniq
      intro o1 o2 x e1 e2
      simp only [setS_owners] at e1 e2
      by_cases a1 : o1 = o
      · subst a1; simp [World.setO] at e1
      · by_cases a2 : o2 = o
        · subst a2; simp [World.setO] at e2
        · rw [setO_other _ _ _ _ a1] at e1; rw [setO_other _ _ _ _ a2] at e2
          exact hi.ownersUniq o1 o2 x e1 e2
    · -- ownersLe
      intro p i' f' n' e
      simp only [setS_owners] at e
      by_cases a : p = o
      · subst a; simp [World.setO] at e
      · rw [setO_other _ _ _ _ a] at e
        by_cases hii : i' = i
        · subst hii; simp only [setS_sbx_same, hincr]; exact hi.ownersLe p i' f' n' e
        · rw [setS_sbx_other _ _ _ _ hii, setO_sbx]; exact hi.ownersLe p i' f' n' e
    · -- keysCreated
      intro i' f' e
      by_cases hii : i' = i
      · subst hii
        simp only [setS_sbx_same, hstat]
        exact hc
      · rw [setS_sbx_other _ _ _ _ hii, setO_sbx] at e ⊢; exact hi.keysCreated i' f' e
    · intro p hp; simp only [setS_owners]; exact setO_other _ _ _ _ hp
    · intro i' f' e
      rw [ho] at e
      have e := Option.some.inj e
      simp only [Prod.mk.injEq] at e
      obtain ⟨rfl, rfl, _⟩ := e
      simp [hkeys]
    · intro i' g hne
      by_cases hii : i' = i
      · subst hii
        simp only [setS_sbx_same, hkeys]
        have : g ≠ f := by intro e; subst e; exact hne ho
        simp [this]
      · rw [setS_sbx_other _ _ _ _ hii, setO_sbx]
    · intro j
      by_cases hj : j = i
      · subst hj; simp only [setS_sbx_same, hstat, hincr, setO_sbx]; exact ⟨trivial, trivial⟩
      · rw [setS_sbx_other _ _ _ _ hj, setO_sbx]; exact ⟨rfl, rfl⟩

/-- Unregistering / destroying / overwriting the owner of a live registration makes the function
registrable again: afterwards it is in nobody's key set. -/
theorem C13_release_reenables (w w' : World) (o i f : Nat) (hi : Inv w)
    (ho : w.owners o = some (i, f, (w.sbx i).inc)) (h : w.release o = some w') :
    (w'.sbx i).keys f = false ∧ w'.owners o = none ∧ Inv w' := by
  obtain ⟨a, b, _, _, e, _⟩ := release_inv w w' o hi h
  exact ⟨e i f ho, b, a⟩

/-- Recording a new registration in an empty owner `t` keeps the invariant. -/
theorem registerNew_inv (w w' : World) (i t f k : Nat) (hi : Inv w) (ht : w.owners t = none)
    (h : w.registerNew i t f = some (w', k)) :
    Inv w' ∧ w'.owners t = some (i, f, (w.sbx i).inc) ∧ (∀ p, p ≠ t → w'.owners p = w.owners p) ∧
    (w'.sbx i).keys f = true ∧ (w'.sbx i).slots k = some f ∧ k < w.max ∧ w'.max = w.max ∧
    (∀ j, (w'.sbx j).status = (w.sbx j).status ∧ (w'.sbx j).inc = (w.sbx j).inc) := by
  obtain ⟨hc, hkf, hff, rfl⟩ := registerNew_cases w w' i t f k h
  obtain ⟨_, hk2, hk3⟩ := scanIdx_some _ _ _ _ hff
  have hkm : k < w.max := by omega
  have hfree : (w.sbx i).slots k = none := by
    cases hs : (w.sbx i).slots k <;> simp_all
  have hno : ∀ p, w.owners p ≠ some (i, f, (w.sbx i).inc) := by
    intro p hp; have := (hi.keysOwned i f).2 ⟨p, hp⟩; rw [hkf] at this; cases this
  have hnslot : ∀ k', k' < w.max → (w.sbx i).slots k' ≠ some f := by
    intro k' hk' hs; have := (hi.keysSlots i f).2 ⟨k', hk', hs⟩; rw [hkf] at this; cases this
  have hincr : (registeredObj w i f k).inc = (w.sbx i).inc := rfl
  have hstat : (registeredObj w i f k).status = (w.sbx i).status := rfl
  refine ⟨⟨?_, ?_, ?_, ?_, ?_, ?_⟩, by simp [World.setO], ?_, by simp [World.setS, registeredObj],
    by simp [World.setS, registeredObj], hkm, rfl, ?_⟩
  · intro i' f'
    by_cases hii : i' = i
    · subst hii
      simp only [setO_sbx, setS_sbx_same, hincr]
      simp only [registeredObj]
      by_cases hf' : f' = f
      · subst hf'; simp only [if_true, true_iff]; exact ⟨t, by simp [World.setO]⟩
      · simp only [hf', if_false]; rw [hi.keysOwned i' f']
        constructor
        · rintro ⟨p, hp⟩
          have : p ≠ t := by intro e; subst e; rw [ht] at hp; cases hp
          exact ⟨p, by rw [setO_other _ _ _ _ this]; exact hp⟩
        · rintro ⟨p, hp⟩
          by_cases hpo : p = t
          · subst hpo; simp [World.setO] at hp; exact absurd hp.symm hf'
          · rw [setO_other _ _ _ _ hpo] at hp; exact ⟨p, hp⟩
    · simp only [setO_sbx]; rw [setS_sbx_other _ _ _ _ hii, hi.keysOwned i' f']
      constructor
      · rintro ⟨p, hp⟩
        have : p ≠ t := by intro e; subst e; rw [ht] at hp; cases hp
        exact ⟨p, by rw [setO_other _ _ _ _ this]; exact hp⟩
      · rintro ⟨p, hp⟩
        by_cases hpo : p = t
        · subst hpo; simp [World.setO] at hp; exact absurd hp.1.symm hii
        · rw [setO_other _ _ _ _ hpo] at hp; exact ⟨p, hp⟩
  · intro i' f'
    by_cases hii : i' = i
    · subst hii
      simp only [setO_sbx, setO_max, setS_sbx_same, setS_max, registeredObj]
      by_cases hf' : f' = f
      · subst hf'; simp only [if_true, true_iff]; exact ⟨k, hkm, by simp⟩
      · simp only [hf', if_false]; rw [hi.keysSlots i' f']
        constructor
        · rintro ⟨k', hk', hs⟩
          have : k' ≠ k := by intro e; subst e; rw [hfree] at hs; cases hs
          exact ⟨k', hk', by simp [this, hs]⟩
        · rintro ⟨k', hk', hs⟩
          by_cases hkk : k' = k
          · subst hkk; simp at hs; exact absurd hs.symm hf'
          · simp only [hkk, if_false] at hs; exact ⟨k', hk', hs⟩
    · simp only [setO_sbx, setO_max, setS_max]; rw [setS_sbx_other _ _ _ _ hii]; exact hi.keysSlots i' f'
  · intro i' k1 k2 f' h1 h2 e1 e2
    simp only [setO_max, setS_max] at h1 h2
    by_cases hii : i' = i
    · subst hii
      simp only [setO_sbx, setS_sbx_same, registeredObj] at e1 e2
      by_cases a1 : k1 = k <;> by_cases a2 : k2 = k
      · rw [a1, a2]
      · subst a1; simp only [if_true, a2, if_false, Option.some.injEq] at e1 e2; subst e1; exact absurd e2 (hnslot k2 h2)
      · subst a2; simp only [if_true, a1, if_false, Option.some.injEq] at e1 e2; subst e2; exact absurd e1 (hnslot k1 h1)
      · simp only [a1, a2, if_false] at e1 e2; exact hi.slotsUniq i' k1 k2 f' h1 h2 e1 e2
    · simp only [setO_sbx] at e1 e2; rw [setS_sbx_other _ _ _ _ hii] at e1 e2
      exact hi.slotsUniq i' k1 k2 f' h1 h2 e1 e2
  · intro o1 o2 x e1 e2
    by_cases a1 : o1 = t <;> by_cases a2 : o2 = t
    · rw [a1, a2]
    · subst a1; simp only [setO_same] at e1; rw [setO_other _ _ _ _ a2] at e2
      have := Option.some.inj e1; subst this; exact absurd e2 (hno o2)
    · subst a2; simp only [setO_same] at e2; rw [setO_other _ _ _ _ a1] at e1
      have := Option.some.inj e2; subst this; exact absurd e1 (hno o1)
    · rw [setO_other _ _ _ _ a1] at e1; rw [setO_other _ _ _ _ a2] at e2
      exact hi.ownersUniq o1 o2 x e1 e2
  · -- ownersLe
    intro p i' f' n' e
    simp only [setO_sbx]
    have hinc' : ((w.setS i (registeredObj w i f k)).sbx i').inc = (w.sbx i').inc := by
      by_cases hii : i' = i
      · subst hii; simp only [setS_sbx_same, hincr]
      · rw [setS_sbx_other _ _ _ _ hii]
    rw [hinc']
    by_cases a : p = t
    · subst a
      simp only [setO_same, Option.some.injEq, Prod.mk.injEq] at e
      obtain ⟨rfl, _, rfl⟩ := e
      exact Nat.le_refl _
    · rw [setO_other _ _ _ _ a] at e; exact hi.ownersLe p i' f' n' e
  · -- keysCreated
    intro i' f' e
    simp only [setO_sbx] at e ⊢
    by_cases hii : i' = i
    · subst hii; simp only [setS_sbx_same, hstat]; exact hc
    · rw [setS_sbx_other _ _ _ _ hii] at e ⊢; exact hi.keysCreated i' f' e
  · intro p hp; rw [setO_other _ _ _ _ hp]; rfl
  · intro j
    by_cases hj : j = i
    · subst hj; simp [World.setS, registeredObj]
    · simp [World.setS, hj]

/-- Moving transfers ownership and leaves the source inert; what the destination held is released. -/
theorem C13_move_transfers (w w' : World) (dst src : Nat) (hne : dst ≠ src) (hi : Inv w)
    (h : w.moveOwner dst src = some w') :
    Inv w' ∧ w'.owners dst = w.owners src ∧ w'.owners src = none ∧
    (∀ p, p ≠ dst → p ≠ src → w'.owners p = w.owners p) ∧
    (∀ i f, w.owners dst = some (i, f, (w.sbx i).inc) → (w'.sbx i).keys f = false) ∧
    (∀ j, (w'.sbx j).status = (w.sbx j).status ∧ (w'.sbx j).inc = (w.sbx j).inc) := by
  simp only [World.moveOwner, hne, if_false] at h
  cases hr : w.release dst with
  | none => simp [hr] at h
  | some w1 =>
    simp only [hr, Option.some.injEq] at h; subst h
    obtain ⟨i1, o1, oth1, _, gone1, _, st1⟩ := release_inv w w1 dst hi hr
    have hsrc : w1.owners src = w.owners src := oth1 src (fun e => hne e.symm)
    have val : ∀ p, ((w1.setO dst (w1.owners src)).setO src none).owners p =
        if p = src then none else if p = dst then w1.owners src else w1.owners p := by
      intro p; simp [World.setO]
    refine ⟨⟨?_, ?_, ?_, ?_, ?_, ?_⟩, ?_, by simp [World.setO], ?_, ?_, ?_⟩
    · intro i f
      simp only [setO_sbx]
      rw [i1.keysOwned i f]
      constructor
      · rintro ⟨p, hp⟩
        by_cases hps : p = src
        · subst hps; exact ⟨dst, by rw [setO_other _ _ _ _ hne, setO_same]; exact hp⟩
        · have hpd : p ≠ dst := by intro e; subst e; rw [o1] at hp; cases hp
          exact ⟨p, by rw [setO_other _ _ _ _ hps, setO_other _ _ _ _ hpd]; exact hp⟩
      · rintro ⟨p, hp⟩
        by_cases hps : p = src
        · subst hps; simp [World.setO] at hp
        · rw [setO_other _ _ _ _ hps] at hp
          by_cases hpd : p = dst
          · subst hpd; rw [setO_same] at hp; exact ⟨src, hp⟩
          · rw [setO_other _ _ _ _ hpd] at hp; exact ⟨p, hp⟩
    · intro i f; simp only [setO_sbx, setO_max]; exact i1.keysSlots i f
    · intro i k1 k2 f; simp only [setO_sbx, setO_max]; exact i1.slotsUniq i k1 k2 f
    · intro p1 p2 x e1 e2
      rw [val] at e1 e2
      by_cases a1 : p1 = src
      · simp [a1] at e1
      · by_cases a2 : p2 = src
        · simp [a2] at e2
        · simp only [a1, a2, if_false] at e1 e2
          by_cases b1 : p1 = dst <;> by_cases b2 : p2 = dst
          · rw [b1, b2]
          · simp only [b1, b2, if_true, if_false] at e1 e2
            exact absurd (i1.ownersUniq src p2 x e1 e2) (fun e => a2 e.symm)
          · simp only [b1, b2, if_true, if_false] at e1 e2
            exact absurd (i1.ownersUniq p1 src x e1 e2) a1
          · simp only [b1, b2, if_false] at e1 e2
            exact i1.ownersUniq p1 p2 x e1 e2
    · intro p i f n e
      rw [val] at e
      simp only [setO_sbx]
      by_cases a1 : p = src
      · simp [a1] at e
      · simp only [a1, if_false] at e
        by_cases b1 : p = dst
        · simp only [b1, if_true] at e; exact i1.ownersLe src i f n e
        · simp only [b1, if_false] at e; exact i1.ownersLe p i f n e
    · intro i f; simp only [setO_sbx]; exact i1.keysCreated i f
    · rw [setO_other _ _ _ _ hne, setO_same]; exact hsrc
    · intro p hpd hps; rw [setO_other _ _ _ _ hps, setO_other _ _ _ _ hpd]; exact oth1 p hpd
    · intro i f ho; simp only [setO_sbx]; exact gone1 i f ho
    · intro j; simp only [setO_sbx]; exact st1 j

/-- moving never aborts in a state that satisfies the invariant -/
theorem move_total (w : World) (d s : Nat) (hi : Inv w) : ∃ w', w.moveOwner d s = some w' := by
  unfold World.moveOwner
  by_cases e : d = s
  · simp [e]
  · obtain ⟨w1, h1⟩ := release_total w d hi
    simp [e, h1]

/-- the temporary returned by `register_callback` is empty between operations -/
def TmpFree (w : World) : Prop := w.owners tmpOwner = none

/-- A successful registration through `o = sandbox.register_callback(f)`: the invariant is kept,
owner `o` now holds a live registration of `f`, what `o` held before has been released, the entry
point designates `f`. -/
theorem C13_register (w w' : World) (i o f k : Nat) (hi : Inv w) (ht : TmpFree w) (ho : o ≠ tmpOwner)
    (h : w.register i o f = some (w', k)) :
    Inv w' ∧ TmpFree w' ∧ holdsLive w' o i f ∧ (w'.sbx i).slots k = some f ∧ k < w.max ∧
    (∀ i0 f0, w.owners o = some (i0, f0, (w.sbx i0).inc) → (i0, f0) ≠ (i, f) → (w'.sbx i0).keys f0 = false) := by
  unfold World.register at h
  cases hn : w.registerNew i tmpOwner f with
  | none => simp [hn] at h
  | some r =>
    obtain ⟨w1, k1⟩ := r
    simp only [hn, Option.map_eq_some_iff, Prod.mk.injEq] at h
    obtain ⟨w2, hm, rfl, rfl⟩ := h
    obtain ⟨hc, _, _, _⟩ := registerNew_cases w w1 i tmpOwner f k1 hn
    obtain ⟨i1, t1, oth1, _, s1, km, _, st1⟩ := registerNew_inv w w1 i tmpOwner f k1 hi ht hn
    obtain ⟨i2, d2, s2, _, g2, st2⟩ := C13_move_transfers w1 w2 o tmpOwner ho i1 hm
    have hinc2 : (w2.sbx i).inc = (w.sbx i).inc := by rw [(st2 i).2, (st1 i).2]
    have hst2 : (w2.sbx i).status = .created := by rw [(st2 i).1, (st1 i).1]; exact hc
    refine ⟨i2, s2, ⟨by rw [d2, hinc2]; exact t1, hst2⟩, ?_, km, ?_⟩
    · -- the slot still designates f after the move (the release of what o held cannot touch it)
      simp only [World.moveOwner, ho, if_false] at hm
      cases hr : w1.release o with
      | none => simp [hr] at hm
      | some w1r =>
        simp only [hr, Option.some.injEq] at hm; subst hm
        simp only [setO_sbx]
        rcases release_cases w1 w1r o hr with ⟨_, rfl⟩ | ⟨_, _, _, _, _, rfl⟩ | ⟨i3, f3, n3, ho3, _, hn3, hk3, rfl⟩
        · exact s1
        · exact s1
        · by_cases hii : i = i3
          · subst hii
            have hne : f3 ≠ f := by
              intro e; subst e
              have t1' : w1.owners tmpOwner = some (i, f3, n3) := by rw [t1, ← (st1 i).2, hn3]
              exact absurd (i1.ownersUniq o tmpOwner _ ho3 t1') ho
            obtain ⟨kk, hs, hkm, hsk⟩ := slotOf_spec w1 i1 i f3 hk3
            simp only [setS_sbx_same, releasedObj, hs]
            have : k1 ≠ kk := by intro e; subst e; rw [s1] at hsk; cases hsk; exact hne rfl
            simp [this, s1]
          · rw [setS_sbx_other _ _ _ _ hii, setO_sbx]; exact s1
    · intro i0 f0 h0 hne
      have h1 : w1.owners o = some (i0, f0, (w1.sbx i0).inc) := by rw [oth1 o ho, (st1 i0).2]; exact h0
      exact g2 i0 f0 h1

/-- a step that leaves owners, table size, keys, entry points and incarnation numbers alone keeps the invariant -/
theorem inv_congr (w w' : World) (hi : Inv w) (ho : w'.owners = w.owners) (hm : w'.max = w.max)
    (hk : ∀ j, (w'.sbx j).keys = (w.sbx j).keys) (hs : ∀ j, (w'.sbx j).slots = (w.sbx j).slots)
    (hn : ∀ j, (w'.sbx j).inc = (w.sbx j).inc)
    (hc : ∀ j f, (w'.sbx j).keys f = true → (w'.sbx j).status = .created) : Inv w' := by
  refine ⟨?_, ?_, ?_, ?_, ?_, hc⟩
  · intro i f; rw [hk, hn, ho]; exact hi.keysOwned i f
  · intro i f; rw [hk, hs, hm]; exact hi.keysSlots i f
  · intro i k1 k2 f; rw [hs, hm]; exact hi.slotsUniq i k1 k2 f
  · intro o1 o2 x; rw [ho]; exact hi.ownersUniq o1 o2 x
  · intro o i f n; rw [ho, hn]; exact hi.ownersLe o i f n

/-- `destroy_sandbox` ends every registration of the sandbox: the invariant holds afterwards whatever
owner objects are still alive (they are stale from now on). -/
theorem destroy_inv (w w' : World) (i : Nat) (hi : Inv w) (h : w.destroy i = some w') :
    Inv w' ∧ w'.owners = w.owners ∧ (∀ f, (w'.sbx i).keys f = false) ∧ (∀ k, (w'.sbx i).slots k = none) ∧
    (w'.sbx i).inc = (w.sbx i).inc + 1 := by
  unfold World.destroy at h
  by_cases h1 : (w.sbx i).status ≠ .created
  · simp [h1] at h
  · by_cases h2 : i ∉ w.reg
    · simp [h1, h2] at h
    · simp only [h1, h2, if_false, Option.some.injEq] at h
      subst h
      have same : ∀ j, j ≠ i → ({ w.setS i (destroyedObj (w.sbx i)) with reg := w.reg.erase i } : World).sbx j = w.sbx j := by
        intro j hj; simp [World.setS, hj]
      have atI : ({ w.setS i (destroyedObj (w.sbx i)) with reg := w.reg.erase i } : World).sbx i = destroyedObj (w.sbx i) := by
        simp [World.setS]
      refine ⟨⟨?_, ?_, ?_, hi.ownersUniq, ?_, ?_⟩, rfl, ?_, ?_, ?_⟩
      · intro j f
        by_cases hj : j = i
        · subst hj
          rw [atI]
          simp only [destroyedObj, Bool.false_eq_true, false_iff, not_exists]
          intro o ho
          have := hi.ownersLe o j f _ ho
          omega
        · rw [same j hj]; exact hi.keysOwned j f
      · intro j f
        by_cases hj : j = i
        · subst hj; rw [atI]; simp [destroyedObj]
        · rw [same j hj]; exact hi.keysSlots j f
      · intro j k1 k2 f
        by_cases hj : j = i
        · subst hj; rw [atI]; simp [destroyedObj]
        · rw [same j hj]; exact hi.slotsUniq j k1 k2 f
      · intro o j f n ho
        by_cases hj : j = i
        · subst hj; rw [atI]; have := hi.ownersLe o j f n ho; simp only [destroyedObj]; omega
        · rw [same j hj]; exact hi.ownersLe o j f n ho
      · intro j f
        by_cases hj : j = i
        · subst hj; rw [atI]; simp [destroyedObj]
        · rw [same j hj]; exact hi.keysCreated j f
      · intro f; rw [atI]; rfl
      · intro k; rw [atI]; rfl
      · rw [atI]; rfl

/-- Application owner objects are not the temporary inside `register_callback` (a naming convention
of the model, not a restriction on histories). -/
def stepOk : LOp → Prop
  | .register _ o _ => o ≠ tmpOwner
  | .release o => o ≠ tmpOwner
  | .move d s => d ≠ tmpOwner ∧ s ≠ tmpOwner
  | _ => True

def histOk (ops : List LOp) : Prop := ∀ op ∈ ops, stepOk op

theorem step_inv (w : World) (op : LOp) (hi : Inv w) (ht : TmpFree w) (hok : stepOk op) :
    Inv (w.step op) ∧ TmpFree (w.step op) := by
  cases op with
  | create i ok lib r =>
    simp only [World.step]
    cases hc : w.create i ok lib r with
    | none => exact ⟨hi, ht⟩
    | some res =>
      obtain ⟨w', b⟩ := res
      simp only
      obtain ⟨h1', _, _, rfl⟩ := create_cases w w' i ok lib r b hc
      have nokeys : ∀ f, (w.sbx i).keys f = true → False := by
        intro f hf; have := hi.keysCreated i f hf; rw [h1'] at this; cases this
      cases ok
      · simp only [Bool.false_eq_true, if_false]
        refine ⟨inv_congr w _ hi rfl rfl ?_ ?_ ?_ ?_, ht⟩
        · intro j; by_cases hj : j = i
          · subst hj; simp [World.setS]
          · simp [World.setS, hj]
        · intro j; by_cases hj : j = i
          · subst hj; simp [World.setS]
          · simp [World.setS, hj]
        · intro j; by_cases hj : j = i
          · subst hj; simp [World.setS]
          · simp [World.setS, hj]
        · intro j f; by_cases hj : j = i
          · subst hj; simp only [World.setS, if_true]; intro hf; exact absurd hf (fun e => nokeys f e)
          · simp only [World.setS, hj, if_false]; exact hi.keysCreated j f
      · simp only [if_true]
        refine ⟨inv_congr w _ hi rfl rfl ?_ ?_ ?_ ?_, ht⟩
        · intro j; by_cases hj : j = i
          · subst hj; simp [World.setS]
          · simp [World.setS, hj]
        · intro j; by_cases hj : j = i
          · subst hj; simp [World.setS]
          · simp [World.setS, hj]
        · intro j; by_cases hj : j = i
          · subst hj; simp [World.setS]
          · simp [World.setS, hj]
        · intro j f; by_cases hj : j = i
          · subst hj; simp [World.setS]
          · simp only [World.setS, hj, if_false]; exact hi.keysCreated j f
  | destroy i =>
    simp only [World.step]
    cases hd : w.destroy i with
    | none => exact ⟨hi, ht⟩
    | some w' =>
      simp only [Option.getD_some]
      obtain ⟨a, b, _⟩ := destroy_inv w w' i hi hd
      exact ⟨a, by unfold TmpFree; rw [b]; exact ht⟩
  | register i o f =>
    simp only [World.step]
    cases hr : w.register i o f with
    | none => exact ⟨hi, ht⟩
    | some r =>
      obtain ⟨w', k⟩ := r
      obtain ⟨a, b, _⟩ := C13_register w w' i o f k hi ht hok hr
      exact ⟨a, b⟩
  | release o =>
    simp only [World.step]
    cases hr : w.release o with
    | none => exact ⟨hi, ht⟩
    | some w' =>
      simp only [Option.getD_some]
      obtain ⟨a, _, oth, _⟩ := release_inv w w' o hi hr
      refine ⟨a, ?_⟩
      unfold TmpFree
      rw [oth tmpOwner (fun e => hok e.symm)]; exact ht
  | move d s =>
    simp only [World.step]
    cases hr : w.moveOwner d s with
    | none => exact ⟨hi, ht⟩
    | some w' =>
      simp only [Option.getD_some]
      by_cases hds : d = s
      · simp [World.moveOwner, hds] at hr; subst hr; exact ⟨hi, ht⟩
      · obtain ⟨a, _, _, oth, _⟩ := C13_move_transfers w w' d s hds hi hr
        refine ⟨a, ?_⟩
        unfold TmpFree
        rw [oth tmpOwner (fun e => hok.1 e.symm) (fun e => hok.2 e.symm)]; exact ht
  | lookup i n =>
    simp only [World.step, World.lookup]
    split
    · exact ⟨hi, ht⟩
    · refine ⟨inv_congr w _ hi rfl rfl ?_ ?_ ?_ ?_, ht⟩
      · intro j; by_cases hj : j = i
        · subst hj; simp [World.setS]
        · simp [World.setS, hj]
      · intro j; by_cases hj : j = i
        · subst hj; simp [World.setS]
        · simp [World.setS, hj]
      · intro j; by_cases hj : j = i
        · subst hj; simp [World.setS]
        · simp [World.setS, hj]
      · intro j f; by_cases hj : j = i
        · subst hj; simp only [World.setS, if_true]; exact hi.keysCreated j f
        · simp only [World.setS, hj, if_false]; exact hi.keysCreated j f

theorem inv_fold (ops : List LOp) : ∀ w, Inv w → TmpFree w → histOk ops →
    Inv (ops.foldl World.step w) ∧ TmpFree (ops.foldl World.step w) := by
  induction ops with
  | nil => intro w hw ht _; exact ⟨hw, ht⟩
  | cons op ops ih =>
    intro w hw ht hk
    obtain ⟨a, b⟩ := step_inv w op hw ht (hk op (by simp))
    exact ih _ a b (fun o ho => hk o (by simp [ho]))

/-- **C13, every history.** After any sequence of register / unregister / destroy-owner / move /
destroy_sandbox / create_sandbox / lookup operations, of any length, on any number of sandbox
objects and owner objects and any backend table size, the ownership invariant holds -- including
histories in which owner objects outlive `destroy_sandbox` and the sandbox is created again
(before the repair of F6b this was false, see `known_findings.json`). -/
theorem C13_inv (m : Nat) (ops : List LOp) (hok : histOk ops) :
    Inv (ops.foldl World.step (World.init m)) :=
  (inv_fold ops _ (inv_init m) rfl hok).1

/-- The set of functions reachable from sandbox `i` through the entry-point table equals the set of
functions held by live owners, in every reachable state. -/
theorem C13_reachable_eq_owned (m : Nat) (ops : List LOp) (hok : histOk ops) (i f : Nat) :
    let w := ops.foldl World.step (World.init m)
    (∃ k, k < w.max ∧ (w.sbx i).slots k = some f) ↔ ∃ o, holdsLive w o i f := by
  intro w
  have hi := C13_inv m ops hok
  rw [← hi.keysSlots i f]
  constructor
  · intro hk
    obtain ⟨o, ho⟩ := (hi.keysOwned i f).1 hk
    exact ⟨o, ho, hi.keysCreated i f hk⟩
  · rintro ⟨o, ho, _⟩
    exact (hi.keysOwned i f).2 ⟨o, ho⟩

/-- In every reachable state no owner operation aborts: releasing, destroying or moving an owner is
harmless at any time -- in particular after `destroy_sandbox` of its sandbox, and after that sandbox
object has been created again. -/
theorem C13_owner_ops_never_abort (m : Nat) (ops : List LOp) (hok : histOk ops) (o d s : Nat) :
    let w := ops.foldl World.step (World.init m)
    (∃ w', w.release o = some w') ∧ (∃ w', w.moveOwner d s = some w') := by
  intro w
  have hi := C13_inv m ops hok
  exact ⟨release_total w o hi, move_total w d s hi⟩

/-- A stale owner (its sandbox has been destroyed since it registered, and perhaps created again)
cannot take away anything: releasing it changes no key set and no entry-point table. -/
theorem C13_stale_release_inert (w w' : World) (o i f n : Nat) (ho : w.owners o = some (i, f, n))
    (hst : (w.sbx i).status ≠ .created ∨ (w.sbx i).inc ≠ n) (h : w.release o = some w') :
    w'.sbx = w.sbx ∧ w'.owners o = none := by
  rcases release_cases w w' o h with ⟨hn, _⟩ | ⟨_, _, _, _, _, rfl⟩ | ⟨i', f', n', ho', hc, hinc, _, _⟩
  · rw [ho] at hn; cases hn
  · exact ⟨rfl, by simp [World.setO]⟩
  · rw [ho] at ho'
    have := Option.some.inj ho'
    simp only [Prod.mk.injEq] at this
    obtain ⟨rfl, rfl, rfl⟩ := this
    rcases hst with a | a
    · exact absurd hc a
    · exact absurd hinc a

/-- non-vacuity: the history that was the witness of finding F6b (owner outlives destroy_sandbox,
sandbox created again, same function registered again, stale owner destroyed) is well formed, and
at its end the new registration is still there. -/
example : histOk [.create 0 true 0 0, .register 0 0 7, .destroy 0, .create 0 true 0 0, .register 0 1 7, .release 0] := by
  intro op h
  simp only [List.mem_cons, List.mem_nil_iff, or_false] at h
  rcases h with rfl | rfl | rfl | rfl | rfl | rfl <;> simp [stepOk, tmpOwner]

example :
    let w := [LOp.create 0 true 0 0, .register 0 0 7, .destroy 0, .create 0 true 0 0, .register 0 1 7, .release 0].foldl World.step (World.init 2)
    (w.sbx 0).keys 7 = true ∧ w.owners 1 = some (0, 7, 1) ∧ w.owners 0 = none := by
  simp [World.step, World.create, World.register, World.registerNew, World.moveOwner, World.release, World.destroy,
    World.init, World.setS, World.setO, firstFree, scanIdx, registeredObj, releasedObj, destroyedObj, slotOf, tmpOwner]

end Rlbox.C13
