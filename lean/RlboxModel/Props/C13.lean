import RlboxModel.Lemmas.LifeLemmas
/-!
# C13 — Callback registrations have exactly one owner and end when that owner does
Property theorems only.
-/
namespace Rlbox.C13
open Rlbox

/-- the ownership invariant: for every sandbox object the registered keys, the functions reachable
through the backend's entry-point table and the functions held by owner objects are the same set;
table entries and owners are unique. -/
structure Inv (w : World) : Prop where
  keysOwned : ∀ i f, (w.sbx i).keys f = true ↔ ∃ o, w.owners o = some (i, f)
  keysSlots : ∀ i f, (w.sbx i).keys f = true ↔ ∃ k, k < w.max ∧ (w.sbx i).slots k = some f
  slotsUniq : ∀ i k1 k2 f, k1 < w.max → k2 < w.max → (w.sbx i).slots k1 = some f → (w.sbx i).slots k2 = some f → k1 = k2
  ownersUniq : ∀ o1 o2 x, w.owners o1 = some x → w.owners o2 = some x → o1 = o2

theorem inv_init (m : Nat) : Inv (World.init m) := by
  constructor <;> simp [World.init]

/-- the owner (if it holds anything) holds a registration of a sandbox that is currently created -/
def ownerLive (w : World) (o : Nat) : Prop :=
  ∀ i f, w.owners o = some (i, f) → (w.sbx i).status = .created

/-- Registering a function that is already registered aborts. -/
theorem C13_no_dup (w : World) (i o f : Nat) (h : (w.sbx i).keys f = true) : w.register i o f = none := by
  simp [World.register, World.registerNew, h]

/-- A registration for which the backend has no free entry point is refused. -/
theorem C13_full_refused (w : World) (i o f : Nat) (h : ∀ k, k < w.max → (w.sbx i).slots k ≠ none) :
    w.register i o f = none := by
  have : firstFree w (w.sbx i) = none := by
    unfold firstFree
    rw [scanIdx_none]
    intro j _ hj
    have := h j (by omega)
    cases hs : (w.sbx i).slots j <;> simp_all
  unfold World.register World.registerNew
  by_cases h1 : (w.sbx i).status ≠ .created
  · simp [h1]
  · by_cases h2 : (w.sbx i).keys f = true
    · simp [h1, h2]
    · simp [h1, h2, this]

theorem slotOf_spec (w : World) (hi : Inv w) (i f : Nat) (hk : (w.sbx i).keys f = true) :
    ∃ k, slotOf w (w.sbx i) f = some k ∧ k < w.max ∧ (w.sbx i).slots k = some f := by
  obtain ⟨k, hk1, hk2⟩ := (hi.keysSlots i f).1 hk
  cases hs : slotOf w (w.sbx i) f with
  | none =>
    unfold slotOf at hs
    rw [scanIdx_none] at hs
    have := hs k (by omega) (by omega)
    simp [hk2] at this
  | some k' =>
    obtain ⟨_, b, c⟩ := scanIdx_some _ _ _ _ hs
    exact ⟨k', rfl, by omega, by simpa using c⟩

/-- Releasing an owner (unregister / destructor / being overwritten) whose sandbox is created keeps
the invariant, empties the owner, and removes exactly its function from the registered set. -/
theorem release_inv (w w' : World) (o : Nat) (hi : Inv w) (hl : ownerLive w o) (h : w.release o = some w') :
    Inv w' ∧ w'.owners o = none ∧ (∀ p, p ≠ o → w'.owners p = w.owners p) ∧ w'.max = w.max ∧
    (∀ i f, w.owners o = some (i, f) → (w'.sbx i).keys f = false) ∧
    (∀ i g, w.owners o ≠ some (i, g) → (w'.sbx i).keys g = (w.sbx i).keys g) := by
  rcases release_cases w w' o h with ⟨hn, rfl⟩ | ⟨i, f, ho, hnc, rfl⟩ | ⟨i, f, ho, hc, hk, rfl⟩
  · refine ⟨hi, hn, ?_, rfl, ?_, ?_⟩
    · intro _ _; rfl
    · intro i f e; rw [hn] at e; cases e
    · intro _ _ _; rfl
  · exact absurd (hl i f ho) hnc
  · obtain ⟨k, hs, hkm, hsk⟩ := slotOf_spec w hi i f hk
    have hkeys := releasedObj_keys w i f
    have hslots := releasedObj_slots w i f k hs
    refine ⟨⟨?_, ?_, ?_, ?_⟩, by simp [World.setO], ?_, rfl, ?_, ?_⟩
    · -- keysOwned
      intro i' f'
      by_cases hii : i' = i
      · subst hii
        simp only [setS_sbx_same, hkeys, setS_owners]
        by_cases hff : f' = f
        · subst hff
          simp only [if_true, Bool.false_eq_true, false_iff, not_exists]
          intro p hp
          by_cases hpo : p = o
          · subst hpo; simp [World.setO] at hp
          · rw [setO_other _ _ _ _ hpo] at hp
            exact hpo (hi.ownersUniq p o _ hp ho)
        · simp only [hff, if_false]
          rw [hi.keysOwned i' f']
          constructor
          · rintro ⟨p, hp⟩
            refine ⟨p, ?_⟩
            have : p ≠ o := by intro e; subst e; rw [ho] at hp; cases hp; exact hff rfl
            rw [setO_other _ _ _ _ this]; exact hp
          · rintro ⟨p, hp⟩
            by_cases hpo : p = o
            · subst hpo; simp [World.setO] at hp
            · rw [setO_other _ _ _ _ hpo] at hp; exact ⟨p, hp⟩
      · rw [setS_sbx_other _ _ _ _ hii, setO_sbx, setS_owners, hi.keysOwned i' f']
        constructor
        · rintro ⟨p, hp⟩
          have : p ≠ o := by intro e; subst e; rw [ho] at hp; cases hp; exact hii rfl
          exact ⟨p, by rw [setO_other _ _ _ _ this]; exact hp⟩
        · rintro ⟨p, hp⟩
          by_cases hpo : p = o
          · subst hpo; simp [World.setO] at hp
          · rw [setO_other _ _ _ _ hpo] at hp; exact ⟨p, hp⟩
    · -- keysSlots
      intro i' f'
      by_cases hii : i' = i
      · subst hii
        simp only [setS_sbx_same, hkeys, hslots, setS_max, setO_max]
        by_cases hff : f' = f
        · subst hff
          simp only [if_true, Bool.false_eq_true, false_iff, not_exists, not_and]
          intro k' hk' hsl
          by_cases hkk : k' = k
          · subst hkk; simp at hsl
          · simp only [hkk, if_false] at hsl
            exact hkk (hi.slotsUniq i' k' k f' hk' hkm hsl hsk)
        · simp only [hff, if_false]
          rw [hi.keysSlots i' f']
          constructor
          · rintro ⟨k', hk', hsl⟩
            have : k' ≠ k := by intro e; subst e; rw [hsk] at hsl; cases hsl; exact hff rfl
            exact ⟨k', hk', by simp [this, hsl]⟩
          · rintro ⟨k', hk', hsl⟩
            by_cases hkk : k' = k
            · subst hkk; simp at hsl
            · simp only [hkk, if_false] at hsl; exact ⟨k', hk', hsl⟩
      · rw [setS_sbx_other _ _ _ _ hii, setO_sbx]; exact hi.keysSlots i' f'
    · -- slotsUniq
      intro i' k1 k2 f' h1 h2 e1 e2
      by_cases hii : i' = i
      · subst hii
        simp only [setS_sbx_same, hslots] at e1 e2
        by_cases a1 : k1 = k
        · subst a1; simp at e1
        · by_cases a2 : k2 = k
          · subst a2; simp at e2
          · simp only [a1, a2, if_false] at e1 e2
            exact hi.slotsUniq i' k1 k2 f' h1 h2 e1 e2
      · rw [setS_sbx_other _ _ _ _ hii, setO_sbx] at e1 e2
        exact hi.slotsUniq i' k1 k2 f' h1 h2 e1 e2
    · -- ownersUniq
      intro o1 o2 x e1 e2
      simp only [setS_owners] at e1 e2
      by_cases a1 : o1 = o
      · subst a1; simp [World.setO] at e1
      · by_cases a2 : o2 = o
        · subst a2; simp [World.setO] at e2
        · rw [setO_other _ _ _ _ a1] at e1; rw [setO_other _ _ _ _ a2] at e2
          exact hi.ownersUniq o1 o2 x e1 e2
    · intro p hp; simp only [setS_owners]; exact setO_other _ _ _ _ hp
    · intro i' f' e
      rw [ho] at e; cases e
      simp [hkeys]
    · intro i' g hne
      by_cases hii : i' = i
      · subst hii
        simp only [setS_sbx_same, hkeys]
        have : g ≠ f := by intro e; subst e; exact hne ho
        simp [this]
      · rw [setS_sbx_other _ _ _ _ hii, setO_sbx]

/-- Unregistering / destroying / overwriting the owner makes the function registrable again:
afterwards it is in nobody's key set. (`C13_release_reenables`) -/
theorem C13_release_reenables (w w' : World) (o i f : Nat) (hi : Inv w) (hl : ownerLive w o)
    (ho : w.owners o = some (i, f)) (h : w.release o = some w') :
    (w'.sbx i).keys f = false ∧ w'.owners o = none ∧ Inv w' := by
  obtain ⟨a, b, _, _, e, _⟩ := release_inv w w' o hi hl h
  exact ⟨e i f ho, b, a⟩

/-- Recording a new registration in an empty owner `t` keeps the invariant. -/
theorem registerNew_inv (w w' : World) (i t f k : Nat) (hi : Inv w) (ht : w.owners t = none)
    (h : w.registerNew i t f = some (w', k)) :
    Inv w' ∧ w'.owners t = some (i, f) ∧ (∀ p, p ≠ t → w'.owners p = w.owners p) ∧
    (w'.sbx i).keys f = true ∧ (w'.sbx i).slots k = some f ∧ k < w.max ∧ w'.max = w.max ∧
    (∀ j, (w'.sbx j).status = (w.sbx j).status) := by
  obtain ⟨hc, hkf, hff, rfl⟩ := registerNew_cases w w' i t f k h
  obtain ⟨_, hk2, hk3⟩ := scanIdx_some _ _ _ _ hff
  have hkm : k < w.max := by omega
  have hfree : (w.sbx i).slots k = none := by
    cases hs : (w.sbx i).slots k <;> simp_all
  have hno : ∀ p, w.owners p ≠ some (i, f) := by
    intro p hp; have := (hi.keysOwned i f).2 ⟨p, hp⟩; rw [hkf] at this; cases this
  have hnslot : ∀ k', k' < w.max → (w.sbx i).slots k' ≠ some f := by
    intro k' hk' hs; have := (hi.keysSlots i f).2 ⟨k', hk', hs⟩; rw [hkf] at this; cases this
  refine ⟨⟨?_, ?_, ?_, ?_⟩, by simp [World.setO], ?_, by simp [World.setS, registeredObj],
    by simp [World.setS, registeredObj], hkm, rfl, ?_⟩
  · intro i' f'
    by_cases hii : i' = i
    · subst hii
      simp only [setO_sbx, setS_sbx_same, registeredObj]
      by_cases hf' : f' = f
      · subst hf'; simp only [if_true, true_iff]; exact ⟨t, by simp [World.setO]⟩
      · simp only [hf', if_false]; rw [hi.keysOwned i' f']
        constructor
        · rintro ⟨p, hp⟩
          have : p ≠ t := by intro e; subst e; rw [ht] at hp; cases hp
          exact ⟨p, by rw [setO_other _ _ _ _ this]; exact hp⟩
        · rintro ⟨p, hp⟩
          by_cases hpo : p = t
          · subst hpo; simp [World.setO] at hp; exact absurd hp.symm hf'
          · rw [setO_other _ _ _ _ hpo] at hp; exact ⟨p, hp⟩
    · simp only [setO_sbx]; rw [setS_sbx_other _ _ _ _ hii, hi.keysOwned i' f']
      constructor
      · rintro ⟨p, hp⟩
        have : p ≠ t := by intro e; subst e; rw [ht] at hp; cases hp
        exact ⟨p, by rw [setO_other _ _ _ _ this]; exact hp⟩
      · rintro ⟨p, hp⟩
        by_cases hpo : p = t
        · subst hpo; simp [World.setO] at hp; exact absurd hp.1.symm hii
        · rw [setO_other _ _ _ _ hpo] at hp; exact ⟨p, hp⟩
  · intro i' f'
    by_cases hii : i' = i
    · subst hii
      simp only [setO_sbx, setO_max, setS_sbx_same, setS_max, registeredObj]
      by_cases hf' : f' = f
      · subst hf'; simp only [if_true, true_iff]; exact ⟨k, hkm, by simp⟩
      · simp only [hf', if_false]; rw [hi.keysSlots i' f']
        constructor
        · rintro ⟨k', hk', hs⟩
          have : k' ≠ k := by intro e; subst e; rw [hfree] at hs; cases hs
          exact ⟨k', hk', by simp [this, hs]⟩
        · rintro ⟨k', hk', hs⟩
          by_cases hkk : k' = k
          · subst hkk; simp at hs; exact absurd hs.symm hf'
          · simp only [hkk, if_false] at hs; exact ⟨k', hk', hs⟩
    · simp only [setO_sbx, setO_max, setS_max]; rw [setS_sbx_other _ _ _ _ hii]; exact hi.keysSlots i' f'
  · intro i' k1 k2 f' h1 h2 e1 e2
    simp only [setO_max, setS_max] at h1 h2
    by_cases hii : i' = i
    · subst hii
      simp only [setO_sbx, setS_sbx_same, registeredObj] at e1 e2
      by_cases a1 : k1 = k <;> by_cases a2 : k2 = k
      · rw [a1, a2]
      · subst a1; simp only [if_true, a2, if_false, Option.some.injEq] at e1 e2; subst e1; exact absurd e2 (hnslot k2 h2)
      · subst a2; simp only [if_true, a1, if_false, Option.some.injEq] at e1 e2; subst e2; exact absurd e1 (hnslot k1 h1)
      · simp only [a1, a2, if_false] at e1 e2; exact hi.slotsUniq i' k1 k2 f' h1 h2 e1 e2
    · simp only [setO_sbx] at e1 e2; rw [setS_sbx_other _ _ _ _ hii] at e1 e2
      exact hi.slotsUniq i' k1 k2 f' h1 h2 e1 e2
  · intro o1 o2 x e1 e2
    by_cases a1 : o1 = t <;> by_cases a2 : o2 = t
    · rw [a1, a2]
    · subst a1; simp only [setO_same] at e1; rw [setO_other _ _ _ _ a2] at e2
      have := Option.some.inj e1; subst this; exact absurd e2 (hno o2)
    · subst a2; simp only [setO_same] at e2; rw [setO_other _ _ _ _ a1] at e1
      have := Option.some.inj e2; subst this; exact absurd e1 (hno o1)
    · rw [setO_other _ _ _ _ a1] at e1; rw [setO_other _ _ _ _ a2] at e2
      exact hi.ownersUniq o1 o2 x e1 e2
  · intro p hp; rw [setO_other _ _ _ _ hp]; rfl
  · intro j
    by_cases hj : j = i
    · subst hj; simp [World.setS, registeredObj]
    · simp [World.setS, hj]

/-- Moving transfers ownership and leaves the source inert; what the destination held is released. -/
theorem C13_move_transfers (w w' : World) (dst src : Nat) (hne : dst ≠ src) (hi : Inv w) (hl : ownerLive w dst)
    (h : w.moveOwner dst src = some w') :
    Inv w' ∧ w'.owners dst = w.owners src ∧ w'.owners src = none ∧
    (∀ p, p ≠ dst → p ≠ src → w'.owners p = w.owners p) ∧
    (∀ i f, w.owners dst = some (i, f) → (w'.sbx i).keys f = false) := by
  simp only [World.moveOwner, hne, if_false] at h
  cases hr : w.release dst with
  | none => simp [hr] at h
  | some w1 =>
    simp only [hr, Option.some.injEq] at h; subst h
    obtain ⟨i1, o1, oth1, _, gone1, _⟩ := release_inv w w1 dst hi hl hr
    have hsrc : w1.owners src = w.owners src := oth1 src (fun e => hne e.symm)
    refine ⟨⟨?_, ?_, ?_, ?_⟩, ?_, by simp [World.setO], ?_, ?_⟩
    · intro i f
      simp only [setO_sbx]
      rw [i1.keysOwned i f]
      constructor
      · rintro ⟨p, hp⟩
        by_cases hps : p = src
        · subst hps; exact ⟨dst, by rw [setO_other _ _ _ _ hne, setO_same]; exact hp⟩
        · have hpd : p ≠ dst := by intro e; subst e; rw [o1] at hp; cases hp
          exact ⟨p, by rw [setO_other _ _ _ _ hps, setO_other _ _ _ _ hpd]; exact hp⟩
      · rintro ⟨p, hp⟩
        by_cases hps : p = src
        · subst hps; simp [World.setO] at hp
        · rw [setO_other _ _ _ _ hps] at hp
          by_cases hpd : p = dst
          · subst hpd; rw [setO_same] at hp; exact ⟨src, hp⟩
          · rw [setO_other _ _ _ _ hpd] at hp; exact ⟨p, hp⟩
    · intro i f; simp only [setO_sbx, setO_max]; exact i1.keysSlots i f
    · intro i k1 k2 f; simp only [setO_sbx, setO_max]; exact i1.slotsUniq i k1 k2 f
    · intro p1 p2 x e1 e2
      have val : ∀ p, ((w1.setO dst (w1.owners src)).setO src none).owners p =
          if p = src then none else if p = dst then w1.owners src else w1.owners p := by
        intro p; simp [World.setO]
      rw [val] at e1 e2
      by_cases a1 : p1 = src
      · simp [a1] at e1
      · by_cases a2 : p2 = src
        · simp [a2] at e2
        · simp only [a1, a2, if_false] at e1 e2
          by_cases b1 : p1 = dst <;> by_cases b2 : p2 = dst
          · rw [b1, b2]
          · simp only [b1, b2, if_true, if_false] at e1 e2
            exact absurd (i1.ownersUniq src p2 x e1 e2) (fun e => a2 e.symm)
          · simp only [b1, b2, if_true, if_false] at e1 e2
            exact absurd (i1.ownersUniq p1 src x e1 e2) a1
          · simp only [b1, b2, if_false] at e1 e2
            exact i1.ownersUniq p1 p2 x e1 e2
    · rw [setO_other _ _ _ _ hne, setO_same]; exact hsrc
    · intro p hpd hps; rw [setO_other _ _ _ _ hps, setO_other _ _ _ _ hpd]; exact oth1 p hpd
    · intro i f ho; simp only [setO_sbx]; exact gone1 i f ho

/-- the temporary returned by `register_callback` is empty between operations -/
def TmpFree (w : World) : Prop := w.owners tmpOwner = none

/-- A successful registration through `o = sandbox.register_callback(f)`: the invariant is kept,
owner `o` now holds `(i, f)`, what `o` held before has been released, the entry point designates `f`. -/
theorem C13_register (w w' : World) (i o f k : Nat) (hi : Inv w) (ht : TmpFree w) (ho : o ≠ tmpOwner)
    (hl : ownerLive w o) (h : w.register i o f = some (w', k)) :
    Inv w' ∧ TmpFree w' ∧ w'.owners o = some (i, f) ∧ (w'.sbx i).slots k = some f ∧ k < w.max ∧
    (∀ i0 f0, w.owners o = some (i0, f0) → (i0, f0) ≠ (i, f) → (w'.sbx i0).keys f0 = false) := by
  unfold World.register at h
  cases hn : w.registerNew i tmpOwner f with
  | none => simp [hn] at h
  | some r =>
    obtain ⟨w1, k1⟩ := r
    simp only [hn, Option.map_eq_some_iff, Prod.mk.injEq] at h
    obtain ⟨w2, hm, rfl, rfl⟩ := h
    obtain ⟨i1, t1, oth1, _, s1, km, _, st1⟩ := registerNew_inv w w1 i tmpOwner f k1 hi ht hn
    have hl1 : ownerLive w1 o := by
      intro i0 f0 h0; rw [oth1 o ho] at h0; rw [st1 i0]; exact hl i0 f0 h0
    obtain ⟨i2, d2, s2, _, g2⟩ := C13_move_transfers w1 w2 o tmpOwner ho i1 hl1 hm
    refine ⟨i2, s2, by rw [d2]; exact t1, ?_, km, ?_⟩
    · -- the slot still designates f after the move (the release of what o held cannot touch it)
      have hk : (w2.sbx i).keys f = true := (i2.keysOwned i f).2 ⟨o, by rw [d2]; exact t1⟩
      -- slots are only changed by release; if o held nothing or something else, slot k is untouched
      simp only [World.moveOwner, ho, if_false] at hm
      cases hr : w1.release o with
      | none => simp [hr] at hm
      | some w1r =>
        simp only [hr, Option.some.injEq] at hm; subst hm
        simp only [setO_sbx]
        rcases release_cases w1 w1r o hr with ⟨_, rfl⟩ | ⟨_, _, _, _, rfl⟩ | ⟨i3, f3, ho3, _, hk3, rfl⟩
        · exact s1
        · exact s1
        · by_cases hii : i = i3
          · subst hii
            have hne : f3 ≠ f := by
              intro e; subst e
              exact absurd (i1.ownersUniq o tmpOwner _ ho3 t1) ho
            obtain ⟨kk, hs, hkm, hsk⟩ := slotOf_spec w1 i1 i f3 hk3
            simp only [setS_sbx_same, releasedObj, hs]
            have : k1 ≠ kk := by intro e; subst e; rw [s1] at hsk; cases hsk; exact hne rfl
            simp [this, s1]
          · rw [setS_sbx_other _ _ _ _ hii, setO_sbx]; exact s1
    · intro i0 f0 h0 _
      have : w1.owners o = some (i0, f0) := by rw [oth1 o ho]; exact h0
      exact g2 i0 f0 this

/-- The invariant holds in every state reachable by histories in which no owner outlives
`destroy_sandbox` of its sandbox (the excluded case is the known finding F6b): any operations,
any length, any backend table size. `ok` states the side condition step by step. -/
def stepOk (w : World) : LOp → Prop
  | .register _ o _ => o ≠ tmpOwner ∧ ownerLive w o
  | .release o => ownerLive w o
  | .move d s => d ≠ tmpOwner ∧ s ≠ tmpOwner ∧ ownerLive w d
  | _ => True

def histOk : World → List LOp → Prop
  | _, [] => True
  | w, op :: ops => stepOk w op ∧ histOk (w.step op) ops

theorem step_inv (w : World) (op : LOp) (hi : Inv w) (ht : TmpFree w) (hok : stepOk w op) :
    Inv (w.step op) ∧ TmpFree (w.step op) := by
  cases op with
  | create i ok lib =>
    simp only [World.step]
    cases hc : w.create i ok lib with
    | none => exact ⟨hi, ht⟩
    | some r =>
      obtain ⟨w', b⟩ := r
      simp only
      unfold World.create at hc
      by_cases h1 : (w.sbx i).status ≠ .notCreated
      · simp [h1] at hc
      · cases ok <;> simp only [h1, if_false, if_true, Bool.false_eq_true, Option.some.injEq, Prod.mk.injEq] at hc <;>
          obtain ⟨rfl, _⟩ := hc
        · refine ⟨⟨?_, ?_, ?_, hi.ownersUniq⟩, ht⟩
          · intro j f; by_cases hj : j = i
            · subst hj; simp only [setS_sbx_same, setS_owners]; exact hi.keysOwned j f
            · rw [setS_sbx_other _ _ _ _ hj]; exact hi.keysOwned j f
          · intro j f; by_cases hj : j = i
            · subst hj; simp only [setS_sbx_same, setS_max]; exact hi.keysSlots j f
            · rw [setS_sbx_other _ _ _ _ hj]; exact hi.keysSlots j f
          · intro j k1 k2 f; by_cases hj : j = i
            · subst hj; simp only [setS_sbx_same, setS_max]; exact hi.slotsUniq j k1 k2 f
            · rw [setS_sbx_other _ _ _ _ hj]; exact hi.slotsUniq j k1 k2 f
        · refine ⟨⟨?_, ?_, ?_, hi.ownersUniq⟩, ht⟩
          · intro j f; by_cases hj : j = i
            · subst hj; simp only [World.setS, if_true]; exact hi.keysOwned j f
            · simp only [World.setS, hj, if_false]; exact hi.keysOwned j f
          · intro j f; by_cases hj : j = i
            · subst hj; simp only [World.setS, if_true]; exact hi.keysSlots j f
            · simp only [World.setS, hj, if_false]; exact hi.keysSlots j f
          · intro j k1 k2 f; by_cases hj : j = i
            · subst hj; simp only [World.setS, if_true]; exact hi.slotsUniq j k1 k2 f
            · simp only [World.setS, hj, if_false]; exact hi.slotsUniq j k1 k2 f
  | destroy i =>
    simp only [World.step]
    cases hd : w.destroy i with
    | none => exact ⟨hi, ht⟩
    | some w' =>
      simp only [Option.getD_some]
      unfold World.destroy at hd
      by_cases h1 : (w.sbx i).status ≠ .created
      · simp [h1] at hd
      · by_cases h2 : i ∉ w.reg
        · simp [h1, h2] at hd
        · simp only [h1, h2, if_false, Option.some.injEq] at hd
          subst hd
          refine ⟨⟨?_, ?_, ?_, hi.ownersUniq⟩, ht⟩
          · intro j f; by_cases hj : j = i
            · subst hj; simp only [World.setS, if_true]; exact hi.keysOwned j f
            · simp only [World.setS, hj, if_false]; exact hi.keysOwned j f
          · intro j f; by_cases hj : j = i
            · subst hj; simp only [World.setS, if_true]; exact hi.keysSlots j f
            · simp only [World.setS, hj, if_false]; exact hi.keysSlots j f
          · intro j k1 k2 f; by_cases hj : j = i
            · subst hj; simp only [World.setS, if_true]; exact hi.slotsUniq j k1 k2 f
            · simp only [World.setS, hj, if_false]; exact hi.slotsUniq j k1 k2 f
  | register i o f =>
    simp only [World.step]
    cases hr : w.register i o f with
    | none => exact ⟨hi, ht⟩
    | some r =>
      obtain ⟨w', k⟩ := r
      obtain ⟨a, b, _⟩ := C13_register w w' i o f k hi ht hok.1 hok.2 hr
      exact ⟨a, b⟩
  | release o =>
    simp only [World.step]
    cases hr : w.release o with
    | none => exact ⟨hi, ht⟩
    | some w' =>
      simp only [Option.getD_some]
      obtain ⟨a, b, oth, _⟩ := release_inv w w' o hi hok hr
      refine ⟨a, ?_⟩
      unfold TmpFree
      by_cases e : tmpOwner = o
      · rw [e]; exact b
      · rw [oth tmpOwner e]; exact ht
  | move d s =>
    simp only [World.step]
    cases hr : w.moveOwner d s with
    | none => exact ⟨hi, ht⟩
    | some w' =>
      simp only [Option.getD_some]
      by_cases hds : d = s
      · simp [World.moveOwner, hds] at hr; subst hr; exact ⟨hi, ht⟩
      · obtain ⟨a, _, _, oth, _⟩ := C13_move_transfers w w' d s hds hi hok.2.2 hr
        refine ⟨a, ?_⟩
        unfold TmpFree
        rw [oth tmpOwner (fun e => hok.1 e.symm) (fun e => hok.2.1 e.symm)]; exact ht
  | lookup i n =>
    simp only [World.step, World.lookup]
    split
    · exact ⟨hi, ht⟩
    · refine ⟨⟨?_, ?_, ?_, hi.ownersUniq⟩, ht⟩
      · intro j f; by_cases hj : j = i
        · subst hj; simp only [World.setS, if_true]; exact hi.keysOwned j f
        · simp only [World.setS, hj, if_false]; exact hi.keysOwned j f
      · intro j f; by_cases hj : j = i
        · subst hj; simp only [World.setS, if_true]; exact hi.keysSlots j f
        · simp only [World.setS, hj, if_false]; exact hi.keysSlots j f
      · intro j k1 k2 f; by_cases hj : j = i
        · subst hj; simp only [World.setS, if_true]; exact hi.slotsUniq j k1 k2 f
        · simp only [World.setS, hj, if_false]; exact hi.slotsUniq j k1 k2 f

theorem inv_fold (ops : List LOp) : ∀ w, Inv w → TmpFree w → histOk w ops → Inv (ops.foldl World.step w) := by
  induction ops with
  | nil => intro w hw _ _; exact hw
  | cons op ops ih =>
    intro w hw ht hk
    obtain ⟨a, b⟩ := step_inv w op hw ht hk.1
    exact ih _ a b hk.2

theorem C13_inv (m : Nat) (ops : List LOp) (hok : histOk (World.init m) ops) :
    Inv (ops.foldl World.step (World.init m)) :=
  inv_fold ops _ (inv_init m) rfl hok

/-- Full statement without the side condition. -/
def C13_full : Prop := ∀ (m : Nat) (ops : List LOp), Inv (ops.foldl World.step (World.init m))

/-- False of the code as it is (finding F6b): an owner destroyed after `destroy_sandbox` of its
sandbox cannot unregister (the call is swallowed), its key and entry point stay behind. -/
theorem C13_outlive_witness : ¬ C13_full := by
  intro h
  have := (h 2 [.create 0 true 0, .register 0 0 7, .destroy 0, .release 0]).keysOwned 0 7
  revert this
  simp [World.step, World.create, World.register, World.registerNew, World.moveOwner, World.release, World.destroy,
    World.init, World.setS, World.setO, firstFree, scanIdx, registeredObj, releasedObj, tmpOwner]

end Rlbox.C13
