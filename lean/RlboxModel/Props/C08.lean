import RlboxModel.Lemmas.StructLemmas
import RlboxModel.Props.C04
import RlboxModel.Props.C06Core
/-!
# C08 — Struct marshalling follows the sandbox ABI layout and round-trips every field
Property theorems only.
-/
namespace Rlbox.C08
open Rlbox

/-! ## Layout: for EVERY field list and every ABI with widths in {1,2,4,8} -/

/-- every field is placed at a multiple of its own (guest) alignment, at or after the running
offset, and ends before the fields that follow begin / before the end of the struct -/
theorem C08_field_placed (abi : Abi) (h : abi.ok) (fs : List CTy) :
    ∀ (off i o : Nat) (f : CTy), (fieldOffsets abi fs off)[i]? = some o → fs[i]? = some f →
      o % f.align abi = 0 ∧ off ≤ o ∧ o + f.size abi ≤ endOff abi fs off := by
  induction fs with
  | nil => intro off i o f ho; simp [fieldOffsets] at ho
  | cons g gs ih =>
    intro off i o f ho hf
    have hpos := align_pos abi h g
    have hge := roundUp_ge off (g.align abi) hpos
    cases i with
    | zero =>
      simp only [fieldOffsets, List.getElem?_cons_zero, Option.some.injEq] at ho hf
      subst ho; subst hf
      refine ⟨roundUp_mod _ _ hpos, hge, ?_⟩
      rw [endOff_cons]
      exact endOff_ge abi h gs _
    | succ i =>
      simp only [fieldOffsets, List.getElem?_cons_succ] at ho hf
      obtain ⟨a1, a2, a3⟩ := ih _ i o f ho hf
      rw [endOff_cons]
      exact ⟨a1, by omega, a3⟩

/-- no two fields overlap: field i ends before field j begins, for every i < j -/
theorem C08_fields_disjoint (abi : Abi) (h : abi.ok) (fs : List CTy) :
    ∀ (off i j oi oj : Nat) (fi : CTy), i < j → (fieldOffsets abi fs off)[i]? = some oi →
      (fieldOffsets abi fs off)[j]? = some oj → fs[i]? = some fi → oi + fi.size abi ≤ oj := by
  induction fs with
  | nil => intro off i j oi oj fi _ ho; simp [fieldOffsets] at ho
  | cons g gs ih =>
    intro off i j oi oj fi hij hoi hoj hfi
    cases j with
    | zero => omega
    | succ j =>
      simp only [fieldOffsets, List.getElem?_cons_succ] at hoj
      cases i with
      | zero =>
        simp only [fieldOffsets, List.getElem?_cons_zero, Option.some.injEq] at hoi hfi
        subst hoi; subst hfi
        -- every later offset is at or after the running offset
        cases hfj : gs[j]? with
        | none =>
          have : (fieldOffsets abi gs (roundUp off (g.align abi) + g.size abi))[j]? = none := by
            have hlen : ∀ (l : List CTy) o, (fieldOffsets abi l o).length = l.length := by
              intro l; induction l with
              | nil => intro o; rfl
              | cons x xs ihx => intro o; simp [fieldOffsets, ihx]
            rw [List.getElem?_eq_none_iff] at hfj ⊢
            rw [hlen]; exact hfj
          rw [this] at hoj; cases hoj
        | some fj => exact (C08_field_placed abi h gs _ j oj fj hoj hfj).2.1
      | succ i =>
        simp only [fieldOffsets, List.getElem?_cons_succ] at hoi hfi
        exact ih _ i j oi oj fi (by omega) hoi hoj hfi

/-- `sizeof` is the padded end: a multiple of the struct's alignment, which every field's
alignment divides; every field lies inside `[0, sizeof)` -/
theorem C08_sizeof (abi : Abi) (h : abi.ok) (fs : List CTy) :
    (CTy.struct fs).size abi % (CTy.struct fs).align abi = 0 ∧
    (∀ f ∈ fs, (CTy.struct fs).align abi % f.align abi = 0) ∧
    (∀ (i o : Nat) (f : CTy), (fieldOffsets abi fs 0)[i]? = some o → fs[i]? = some f → o + f.size abi ≤ (CTy.struct fs).size abi) := by
  have hal := layoutGo_snd_pow2 abi fs (aligns_pow2 abi h fs) 0 1 (Or.inl rfl)
  have hpos : 0 < (CTy.layoutGo abi fs 0 1).2 := by unfold Pow2le8 at hal; omega
  refine ⟨?_, ?_, ?_⟩
  · simp only [CTy.size, CTy.align, CTy.sizeAlign]
    exact roundUp_mod _ _ hpos
  · intro f hf
    simp only [CTy.align, CTy.sizeAlign]
    exact (layoutGo_snd_dvd abi h fs 0 1 (Or.inl rfl)).2 f hf
  · intro i o f ho hf
    have := (C08_field_placed abi h fs 0 i o f ho hf).2.2
    have hs : (CTy.struct fs).size abi = roundUp (CTy.layoutGo abi fs 0 1).1 (CTy.layoutGo abi fs 0 1).2 := by
      simp [CTy.size, CTy.sizeAlign]
    rw [hs]
    have hr := roundUp_ge (CTy.layoutGo abi fs 0 1).1 _ hpos
    unfold endOff at this
    omega

/-- the guest layout is a function of the ABI alone -- and it differs from the application's:
`struct { char c; long l; int* p; }` is 12 bytes with offsets 0,4,8 under ABI A and 24 bytes with
offsets 0,8,16 for the application -/
example : fieldOffsets abiA [.base .char, .base .long, .ptr] 0 = [0, 4, 8] ∧ (CTy.struct [.base .char, .base .long, .ptr]).size abiA = 12 ∧
    fieldOffsets abiHost [.base .char, .base .long, .ptr] 0 = [0, 8, 16] ∧ (CTy.struct [.base .char, .base .long, .ptr]).size abiHost = 24 := by
  decide
example : abiA.ok ∧ abiB.ok ∧ abiC.ok ∧ abiHost.ok := by simp [Abi.ok, Abi.wf, abiA, abiB, abiC, abiHost]

end Rlbox.C08

namespace Rlbox.C08
open Rlbox

/-! ## Field-by-field conversion: round trip, abort exactly when a field is not representable,
      every image field determined by the corresponding source field -/

theorem int_rt (abi : Abi) (habi : abi.wf) (b : BaseTy) (v g : Int) (hv : b.app.inRange v)
    (h : toSandbox abi b v = some g) : g = v ∧ (b.guest abi).inRange v ∧ toApplication abi b g = some v := by
  have hp := C06.C06_abi_pairs abi habi b v
  have hf := hp.1 hv
  unfold C06.Faithful at hf
  unfold toSandbox at h
  rw [h] at hf
  rcases hf with ⟨he, hin⟩ | ⟨he, _⟩
  · have hgv : g = v := by simpa using he
    subst hgv
    refine ⟨rfl, hin, ?_⟩
    have hb := hp.2 hin
    unfold C06.Faithful at hb
    rcases hb with ⟨hb1, _⟩ | ⟨_, hb2⟩
    · exact hb1
    · exact absurd hv hb2
  · cases he

theorem ptr_rt (s : Sbx) (hs : C04.Sbx.wf s) (a : Nat) (h : a = 0 ∨ (s.region.contains a ∧ a ≠ s.region.base)) :
    toApp s (toGuest s a) = a := by
  rcases h with h | ⟨h1, h2⟩
  · subst h; simp [toApp, toGuest]
  · exact C04.C04_rt_addr s hs a h1 h2

mutual
  /-- **Round trip**: copying a well-typed struct value into the sandbox and back returns every field
  (integers per C06, pointers per C04, arrays element-wise, nested structs recursively) whenever the
  copy-in did not abort. -/
  theorem C08_roundtrip (abi : Abi) (habi : abi.wf) (s : Sbx) (hs : C04.Sbx.wf s) :
      ∀ (v : SVal) (t : CTy) (g : SVal), WT s v t → toGuestV abi s v t = some g → toAppV abi s g t = some v
    | .int v, .base b, g, hw, h => by
        simp only [toGuestV, Option.map_eq_some_iff] at h
        obtain ⟨x, hx, rfl⟩ := h
        simp only [WT] at hw
        obtain ⟨rfl, _, h3⟩ := int_rt abi habi b v x hw hx
        simp [toAppV, h3]
    | .int v, .float, g, _, h => by simp only [toGuestV, Option.some.injEq] at h; subst h; simp [toAppV]
    | .int v, .double, g, _, h => by simp only [toGuestV, Option.some.injEq] at h; subst h; simp [toAppV]
    | .int v, .enum, g, _, h => by simp only [toGuestV, Option.some.injEq] at h; subst h; simp [toAppV]
    | .ptr a, .ptr, g, hw, h => by
        simp only [toGuestV, Option.some.injEq] at h; subst h
        simp only [WT] at hw
        simp [toAppV, ptr_rt s hs a hw]
    | .fn i, .ptr, g, _, h => by simp only [toGuestV, Option.some.injEq] at h; subst h; simp [toAppV]
    | .arr vs, .arr n el, g, hw, h => by
        simp only [WT] at hw
        obtain ⟨hlen, hwa⟩ := hw
        simp only [toGuestV, hlen, if_true, Option.map_eq_some_iff] at h
        obtain ⟨gs, hgs, rfl⟩ := h
        obtain ⟨h1, h2⟩ := C08_roundtrip_arr abi habi s hs vs el gs hwa hgs
        simp [toAppV, h2, hlen, h1]
    | .struct vs, .struct fs, g, hw, h => by
        simp only [WT] at hw
        simp only [toGuestV, Option.map_eq_some_iff] at h
        obtain ⟨gs, hgs, rfl⟩ := h
        simp [toAppV, C08_roundtrip_fields abi habi s hs vs fs gs hw hgs]
    | .int _, .ptr, _, hw, _ => by simp [WT] at hw
    | .int _, .arr _ _, _, hw, _ => by simp [WT] at hw
    | .int _, .struct _, _, hw, _ => by simp [WT] at hw
    | .ptr _, .base _, _, hw, _ => by simp [WT] at hw
    | .ptr _, .float, _, hw, _ => by simp [WT] at hw
    | .ptr _, .double, _, hw, _ => by simp [WT] at hw
    | .ptr _, .enum, _, hw, _ => by simp [WT] at hw
    | .ptr _, .arr _ _, _, hw, _ => by simp [WT] at hw
    | .ptr _, .struct _, _, hw, _ => by simp [WT] at hw
    | .fn _, .base _, _, hw, _ => by simp [WT] at hw
    | .fn _, .float, _, hw, _ => by simp [WT] at hw
    | .fn _, .double, _, hw, _ => by simp [WT] at hw
    | .fn _, .enum, _, hw, _ => by simp [WT] at hw
    | .fn _, .arr _ _, _, hw, _ => by simp [WT] at hw
    | .fn _, .struct _, _, hw, _ => by simp [WT] at hw
    | .arr _, .base _, _, hw, _ => by simp [WT] at hw
    | .arr _, .float, _, hw, _ => by simp [WT] at hw
    | .arr _, .double, _, hw, _ => by simp [WT] at hw
    | .arr _, .enum, _, hw, _ => by simp [WT] at hw
    | .arr _, .ptr, _, hw, _ => by simp [WT] at hw
    | .arr _, .struct _, _, hw, _ => by simp [WT] at hw
    | .struct _, .base _, _, hw, _ => by simp [WT] at hw
    | .struct _, .float, _, hw, _ => by simp [WT] at hw
    | .struct _, .double, _, hw, _ => by simp [WT] at hw
    | .struct _, .enum, _, hw, _ => by simp [WT] at hw
    | .struct _, .ptr, _, hw, _ => by simp [WT] at hw
    | .struct _, .arr _ _, _, hw, _ => by simp [WT] at hw
  theorem C08_roundtrip_arr (abi : Abi) (habi : abi.wf) (s : Sbx) (hs : C04.Sbx.wf s) :
      ∀ (vs : List SVal) (el : CTy) (gs : List SVal), WTArr s vs el → toGuestArr abi s vs el = some gs →
        gs.length = vs.length ∧ toAppArr abi s gs el = some vs
    | [], el, gs, _, h => by simp only [toGuestArr, Option.some.injEq] at h; subst h; simp [toAppArr]
    | v :: vs, el, gs, hw, h => by
        simp only [WTArr] at hw
        simp only [toGuestArr] at h
        cases h1 : toGuestV abi s v el with
        | none => simp [h1] at h
        | some g =>
          cases h2 : toGuestArr abi s vs el with
          | none => simp [h1, h2] at h
          | some gs' =>
            simp only [h1, h2, Option.some.injEq] at h; subst h
            have r1 := C08_roundtrip abi habi s hs v el g hw.1 h1
            obtain ⟨r2, r3⟩ := C08_roundtrip_arr abi habi s hs vs el gs' hw.2 h2
            simp [toAppArr, r1, r2, r3]
  theorem C08_roundtrip_fields (abi : Abi) (habi : abi.wf) (s : Sbx) (hs : C04.Sbx.wf s) :
      ∀ (vs : List SVal) (fs : List CTy) (gs : List SVal), WTFields s vs fs → toGuestFields abi s vs fs = some gs →
        toAppFields abi s gs fs = some vs
    | [], [], gs, _, h => by simp only [toGuestFields, Option.some.injEq] at h; subst h; simp [toAppFields]
    | v :: vs, f :: fs, gs, hw, h => by
        simp only [WTFields] at hw
        simp only [toGuestFields] at h
        cases h1 : toGuestV abi s v f with
        | none => simp [h1] at h
        | some g =>
          cases h2 : toGuestFields abi s vs fs with
          | none => simp [h1, h2] at h
          | some gs' =>
            simp only [h1, h2, Option.some.injEq] at h; subst h
            have r1 := C08_roundtrip abi habi s hs v f g hw.1 h1
            have r3 := C08_roundtrip_fields abi habi s hs vs fs gs' hw.2 h2
            simp [toAppFields, r1, r3]
    | [], _ :: _, _, hw, _ => by simp [WTFields] at hw
    | _ :: _, [], _, hw, _ => by simp [WTFields] at hw
end

end Rlbox.C08

namespace Rlbox.C08
open Rlbox

theorem int_total (abi : Abi) (habi : abi.wf) (b : BaseTy) (v : Int) (hv : b.app.inRange v) (hf : (b.guest abi).inRange v) :
    toSandbox abi b v = some v := by
  have hp := (C06.C06_abi_pairs abi habi b v).1 hv
  unfold C06.Faithful at hp
  rcases hp with ⟨he, _⟩ | ⟨_, hn⟩
  · exact he
  · exact absurd hf hn

mutual
  /-- **No spurious abort**: a well-typed value all of whose integer leaves fit their guest types is
  converted (no abort). -/
  theorem C08_total (abi : Abi) (habi : abi.wf) (s : Sbx) :
      ∀ (v : SVal) (t : CTy), WT s v t → Fits abi v t → ∃ g, toGuestV abi s v t = some g
    | .int v, .base b, hw, hf => by
        simp only [WT] at hw; simp only [Fits] at hf
        exact ⟨.int v, by simp [toGuestV, int_total abi habi b v hw hf]⟩
    | .int v, .float, _, _ => ⟨_, rfl⟩
    | .int v, .double, _, _ => ⟨_, rfl⟩
    | .int v, .enum, _, _ => ⟨_, rfl⟩
    | .ptr a, .ptr, _, _ => ⟨_, rfl⟩
    | .fn i, .ptr, _, _ => ⟨_, rfl⟩
    | .arr vs, .arr n el, hw, hf => by
        simp only [WT] at hw; simp only [Fits] at hf
        obtain ⟨gs, hgs⟩ := C08_total_arr abi habi s vs el hw.2 hf
        exact ⟨.arr gs, by simp [toGuestV, hw.1, hgs]⟩
    | .struct vs, .struct fs, hw, hf => by
        simp only [WT] at hw; simp only [Fits] at hf
        obtain ⟨gs, hgs⟩ := C08_total_fields abi habi s vs fs hw hf
        exact ⟨.struct gs, by simp [toGuestV, hgs]⟩
    | .int _, .ptr, hw, _ => by simp [WT] at hw
    | .int _, .arr _ _, hw, _ => by simp [WT] at hw
    | .int _, .struct _, hw, _ => by simp [WT] at hw
    | .ptr _, .base _, hw, _ => by simp [WT] at hw
    | .ptr _, .float, hw, _ => by simp [WT] at hw
    | .ptr _, .double, hw, _ => by simp [WT] at hw
    | .ptr _, .enum, hw, _ => by simp [WT] at hw
    | .ptr _, .arr _ _, hw, _ => by simp [WT] at hw
    | .ptr _, .struct _, hw, _ => by simp [WT] at hw
    | .fn _, .base _, hw, _ => by simp [WT] at hw
    | .fn _, .float, hw, _ => by simp [WT] at hw
    | .fn _, .double, hw, _ => by simp [WT] at hw
    | .fn _, .enum, hw, _ => by simp [WT] at hw
    | .fn _, .arr _ _, hw, _ => by simp [WT] at hw
    | .fn _, .struct _, hw, _ => by simp [WT] at hw
    | .arr _, .base _, hw, _ => by simp [WT] at hw
    | .arr _, .float, hw, _ => by simp [WT] at hw
    | .arr _, .double, hw, _ => by simp [WT] at hw
    | .arr _, .enum, hw, _ => by simp [WT] at hw
    | .arr _, .ptr, hw, _ => by simp [WT] at hw
    | .arr _, .struct _, hw, _ => by simp [WT] at hw
    | .struct _, .base _, hw, _ => by simp [WT] at hw
    | .struct _, .float, hw, _ => by simp [WT] at hw
    | .struct _, .double, hw, _ => by simp [WT] at hw
    | .struct _, .enum, hw, _ => by simp [WT] at hw
    | .struct _, .ptr, hw, _ => by simp [WT] at hw
    | .struct _, .arr _ _, hw, _ => by simp [WT] at hw
  theorem C08_total_arr (abi : Abi) (habi : abi.wf) (s : Sbx) :
      ∀ (vs : List SVal) (el : CTy), WTArr s vs el → FitsArr abi vs el → ∃ gs, toGuestArr abi s vs el = some gs
    | [], _, _, _ => ⟨[], rfl⟩
    | v :: vs, el, hw, hf => by
        simp only [WTArr] at hw; simp only [FitsArr] at hf
        obtain ⟨g, hg⟩ := C08_total abi habi s v el hw.1 hf.1
        obtain ⟨gs, hgs⟩ := C08_total_arr abi habi s vs el hw.2 hf.2
        exact ⟨g :: gs, by simp [toGuestArr, hg, hgs]⟩
  theorem C08_total_fields (abi : Abi) (habi : abi.wf) (s : Sbx) :
      ∀ (vs : List SVal) (fs : List CTy), WTFields s vs fs → FitsFields abi vs fs → ∃ gs, toGuestFields abi s vs fs = some gs
    | [], [], _, _ => ⟨[], rfl⟩
    | v :: vs, f :: fs, hw, hf => by
        simp only [WTFields] at hw; simp only [FitsFields] at hf
        obtain ⟨g, hg⟩ := C08_total abi habi s v f hw.1 hf.1
        obtain ⟨gs, hgs⟩ := C08_total_fields abi habi s vs fs hw.2 hf.2
        exact ⟨g :: gs, by simp [toGuestFields, hg, hgs]⟩
    | [], _ :: _, hw, _ => by simp [WTFields] at hw
    | _ :: _, [], hw, _ => by simp [WTFields] at hw
end

mutual
  /-- **Abort when not representable**: if the copy-in went through, every integer leaf fits its
  guest type (so an unrepresentable field ALWAYS aborts the whole copy). -/
  theorem C08_done_fits (abi : Abi) (habi : abi.wf) (s : Sbx) :
      ∀ (v : SVal) (t : CTy) (g : SVal), WT s v t → toGuestV abi s v t = some g → Fits abi v t
    | .int v, .base b, g, hw, h => by
        simp only [toGuestV, Option.map_eq_some_iff] at h
        obtain ⟨x, hx, _⟩ := h
        simp only [WT] at hw
        simpa [Fits] using (int_rt abi habi b v x hw hx).2.1
    | .int v, .float, _, _, _ => by simp [Fits]
    | .int v, .double, _, _, _ => by simp [Fits]
    | .int v, .enum, _, _, _ => by simp [Fits]
    | .ptr a, .ptr, _, _, _ => by simp [Fits]
    | .fn i, .ptr, _, _, _ => by simp [Fits]
    | .arr vs, .arr n el, g, hw, h => by
        simp only [WT] at hw
        simp only [toGuestV, hw.1, if_true, Option.map_eq_some_iff] at h
        obtain ⟨gs, hgs, _⟩ := h
        simpa [Fits] using C08_done_fits_arr abi habi s vs el gs hw.2 hgs
    | .struct vs, .struct fs, g, hw, h => by
        simp only [WT] at hw
        simp only [toGuestV, Option.map_eq_some_iff] at h
        obtain ⟨gs, hgs, _⟩ := h
        simpa [Fits] using C08_done_fits_fields abi habi s vs fs gs hw hgs
    | .int _, .ptr, _, hw, _ => by simp [WT] at hw
    | .int _, .arr _ _, _, hw, _ => by simp [WT] at hw
    | .int _, .struct _, _, hw, _ => by simp [WT] at hw
    | .ptr _, .base _, _, hw, _ => by simp [WT] at hw
    | .ptr _, .float, _, hw, _ => by simp [WT] at hw
    | .ptr _, .double, _, hw, _ => by simp [WT] at hw
    | .ptr _, .enum, _, hw, _ => by simp [WT] at hw
    | .ptr _, .arr _ _, _, hw, _ => by simp [WT] at hw
    | .ptr _, .struct _, _, hw, _ => by simp [WT] at hw
    | .fn _, .base _, _, hw, _ => by simp [WT] at hw
    | .fn _, .float, _, hw, _ => by simp [WT] at hw
    | .fn _, .double, _, hw, _ => by simp [WT] at hw
    | .fn _, .enum, _, hw, _ => by simp [WT] at hw
    | .fn _, .arr _ _, _, hw, _ => by simp [WT] at hw
    | .fn _, .struct _, _, hw, _ => by simp [WT] at hw
    | .arr _, .base _, _, hw, _ => by simp [WT] at hw
    | .arr _, .float, _, hw, _ => by simp [WT] at hw
    | .arr _, .double, _, hw, _ => by simp [WT] at hw
    | .arr _, .enum, _, hw, _ => by simp [WT] at hw
    | .arr _, .ptr, _, hw, _ => by simp [WT] at hw
    | .arr _, .struct _, _, hw, _ => by simp [WT] at hw
    | .struct _, .base _, _, hw, _ => by simp [WT] at hw
    | .struct _, .float, _, hw, _ => by simp [WT] at hw
    | .struct _, .double, _, hw, _ => by simp [WT] at hw
    | .struct _, .enum, _, hw, _ => by simp [WT] at hw
    | .struct _, .ptr, _, hw, _ => by simp [WT] at hw
    | .struct _, .arr _ _, _, hw, _ => by simp [WT] at hw
  theorem C08_done_fits_arr (abi : Abi) (habi : abi.wf) (s : Sbx) :
      ∀ (vs : List SVal) (el : CTy) (gs : List SVal), WTArr s vs el → toGuestArr abi s vs el = some gs → FitsArr abi vs el
    | [], _, _, _, _ => by simp [FitsArr]
    | v :: vs, el, gs, hw, h => by
        simp only [WTArr] at hw
        simp only [toGuestArr] at h
        cases h1 : toGuestV abi s v el with
        | none => simp [h1] at h
        | some g =>
          cases h2 : toGuestArr abi s vs el with
          | none => simp [h1, h2] at h
          | some gs' =>
            exact ⟨C08_done_fits abi habi s v el g hw.1 h1, C08_done_fits_arr abi habi s vs el gs' hw.2 h2⟩
  theorem C08_done_fits_fields (abi : Abi) (habi : abi.wf) (s : Sbx) :
      ∀ (vs : List SVal) (fs : List CTy) (gs : List SVal), WTFields s vs fs → toGuestFields abi s vs fs = some gs → FitsFields abi vs fs
    | [], [], _, _, _ => by simp [FitsFields]
    | v :: vs, f :: fs, gs, hw, h => by
        simp only [WTFields] at hw
        simp only [toGuestFields] at h
        cases h1 : toGuestV abi s v f with
        | none => simp [h1] at h
        | some g =>
          cases h2 : toGuestFields abi s vs fs with
          | none => simp [h1, h2] at h
          | some gs' =>
            exact ⟨C08_done_fits abi habi s v f g hw.1 h1, C08_done_fits_fields abi habi s vs fs gs' hw.2 h2⟩
    | [], _ :: _, _, hw, _ => by simp [WTFields] at hw
    | _ :: _, [], _, hw, _ => by simp [WTFields] at hw
end

/-- **Pointwise**: field i of the image is the conversion of field i of the source and of nothing
else -- no field is skipped, duplicated or taken from a neighbouring field; the image has exactly
as many fields as the source. -/
theorem C08_pointwise (abi : Abi) (s : Sbx) :
    ∀ (vs : List SVal) (fs : List CTy) (gs : List SVal), toGuestFields abi s vs fs = some gs →
      gs.length = vs.length ∧ vs.length = fs.length ∧
      ∀ (i : Nat) (v : SVal) (f : CTy), vs[i]? = some v → fs[i]? = some f → ∃ g, gs[i]? = some g ∧ toGuestV abi s v f = some g
  | [], [], gs, h => by simp only [toGuestFields, Option.some.injEq] at h; subst h; simp
  | v :: vs, f :: fs, gs, h => by
      simp only [toGuestFields] at h
      cases h1 : toGuestV abi s v f with
      | none => simp [h1] at h
      | some g =>
        cases h2 : toGuestFields abi s vs fs with
        | none => simp [h1, h2] at h
        | some gs' =>
          simp only [h1, h2, Option.some.injEq] at h; subst h
          obtain ⟨a1, a2, a3⟩ := C08_pointwise abi s vs fs gs' h2
          refine ⟨by simp [a1], by simp [a2], ?_⟩
          intro i v' f' hv hf
          cases i with
          | zero =>
            simp only [List.getElem?_cons_zero, Option.some.injEq] at hv hf
            subst hv; subst hf
            exact ⟨g, by simp, h1⟩
          | succ i =>
            simp only [List.getElem?_cons_succ] at hv hf ⊢
            exact a3 i v' f' hv hf
  | [], _ :: _, _, h => by simp [toGuestFields] at h
  | _ :: _, [], _, h => by simp [toGuestFields] at h

/-- the same in the other direction (copy out / by-value result) -/
theorem C08_pointwise_out (abi : Abi) (s : Sbx) :
    ∀ (gs : List SVal) (fs : List CTy) (vs : List SVal), toAppFields abi s gs fs = some vs →
      vs.length = gs.length ∧ gs.length = fs.length ∧
      ∀ (i : Nat) (g : SVal) (f : CTy), gs[i]? = some g → fs[i]? = some f → ∃ v, vs[i]? = some v ∧ toAppV abi s g f = some v
  | [], [], vs, h => by simp only [toAppFields, Option.some.injEq] at h; subst h; simp
  | g :: gs, f :: fs, vs, h => by
      simp only [toAppFields] at h
      cases h1 : toAppV abi s g f with
      | none => simp [h1] at h
      | some v =>
        cases h2 : toAppFields abi s gs fs with
        | none => simp [h1, h2] at h
        | some vs' =>
          simp only [h1, h2, Option.some.injEq] at h; subst h
          obtain ⟨a1, a2, a3⟩ := C08_pointwise_out abi s gs fs vs' h2
          refine ⟨by simp [a1], by simp [a2], ?_⟩
          intro i g' f' hg hf
          cases i with
          | zero =>
            simp only [List.getElem?_cons_zero, Option.some.injEq] at hg hf
            subst hg; subst hf
            exact ⟨v, by simp, h1⟩
          | succ i =>
            simp only [List.getElem?_cons_succ] at hg hf ⊢
            exact a3 i g' f' hg hf
  | [], _ :: _, _, h => by simp [toAppFields] at h
  | _ :: _, [], _, h => by simp [toAppFields] at h

/-- non-vacuity: a struct with a long, a pointer and a nested struct; one value round-trips, one aborts -/
def exTy : CTy := .struct [.base .char, .base .long, .ptr, .struct [.base .short, .arr 2 (.base .long)]]
def exSbx : Sbx := ⟨⟨16, 0x6a0000000000⟩, 4⟩
def exVal (l : Int) : SVal := .struct [.int 120, .int l, .ptr (0x6a0000000000 + 4096), .struct [.int (-3), .arr [.int 7, .int (-9)]]]
example : toGuestV abiA exSbx (exVal 5) exTy = some (.struct [.int 120, .int 5, .ptr 4096, .struct [.int (-3), .arr [.int 7, .int (-9)]]]) := by rfl
example : toGuestV abiA exSbx (exVal 2147483648) exTy = none := by rfl
example : leafRel abiA exTy = [0, 4, 8, 12, 16, 20] ∧ exTy.size abiA = 24 := by decide

end Rlbox.C08

namespace Rlbox.C08
open Rlbox

/-! ## The image at byte level: nothing outside the leaves' footprints is written -/

theorem leafBytes_length (size : Nat) (v : SVal) : (leafBytes size v).length = size := by
  cases v <;> simp [leafBytes]

/-- a sequence of writes changes no byte outside the written extents -/
theorem writeMany_frame (ws : List (Nat × List Nat)) : ∀ (m : Mem) (x : Nat),
    (∀ w ∈ ws, x < w.1 ∨ w.1 + w.2.length ≤ x) → writeMany m ws x = m x := by
  induction ws with
  | nil => intro m x _; rfl
  | cons w rest ih =>
    intro m x h
    obtain ⟨a, bs⟩ := w
    simp only [writeMany]
    rw [ih (m.write a bs) x (fun w' hw' => h w' (List.mem_cons_of_mem _ hw'))]
    have := h (a, bs) List.mem_cons_self
    simp only at this
    exact write_frame m a bs x this

/-- **Frame of a whole-struct store**: copying a struct image into sandbox memory writes exactly the
footprints of its scalar leaves: every other byte -- padding inside the struct, and everything
before and after it -- keeps its value, for every struct type, nesting and ABI. -/
theorem C08_store_frame (abi : Abi) (t : CTy) (g : SVal) (base : Nat) (m : Mem) (x : Nat)
    (hx : ∀ p ∈ (leafRel abi t).zip (leafSizes abi t), x < base + p.1 ∨ base + p.1 + p.2 ≤ x) :
    writeMany m (imageWrites abi t g base) x = m x := by
  apply writeMany_frame
  intro w hw
  simp only [imageWrites, List.mem_map] at hw
  obtain ⟨⟨off, sz, v⟩, hmem, rfl⟩ := hw
  have hin : (off, sz) ∈ (leafRel abi t).zip (leafSizes abi t) := by
    -- (off, (sz, v)) ∈ zip A (zip B C)  →  (off, sz) ∈ zip A B
    have key : ∀ (A B : List Nat) (C : List SVal) (o s : Nat) (c : SVal), (o, s, c) ∈ A.zip (B.zip C) → (o, s) ∈ A.zip B := by
      intro A
      induction A with
      | nil => intro B C o s c h; simp at h
      | cons a A ih =>
        intro B C o s c h
        cases B with
        | nil => simp at h
        | cons b B =>
          cases C with
          | nil => simp at h
          | cons c' C =>
            simp only [List.zip_cons_cons, List.mem_cons, Prod.mk.injEq] at h ⊢
            rcases h with ⟨h1, h2, _⟩ | h
            · exact Or.inl ⟨h1, h2⟩
            · exact Or.inr (ih B C o s c h)
    exact key _ _ _ off sz v hmem
  have := hx (off, sz) hin
  simp only [leafBytes_length]
  exact this

/-- non-vacuity: `struct { char c; long l; int* p; }` under ABI A at 0x100: bytes 0x101..0x103 are
padding and keep their value; the leaves are written -/
def exImg : Mem := writeMany (fun _ => 0xEE) (imageWrites abiA (.struct [.base .char, .base .long, .ptr]) (.struct [.int 120, .int 5, .ptr 4096]) 0x100)
example : exImg 0x100 = 120 ∧ exImg 0x101 = 0xEE ∧ exImg 0x103 = 0xEE ∧ exImg 0x104 = 5 ∧ exImg 0x108 = 0 ∧ exImg 0x109 = 16 ∧
    exImg 0x10c = 0xEE ∧ exImg 0xff = 0xEE := by decide

end Rlbox.C08
