import RlboxModel.Ops
import RlboxModel.FloatOps
import RlboxModel.Lemmas.CastLemmas
/-!
# C16 — Operators on tainted numbers compute exactly what the plain operators compute
Property theorems only.  Every statement is for an arbitrary `PlainSem` (so nothing depends on our
rendering of C++ arithmetic) and for every combination of operand wrappers.
-/
namespace Rlbox.C16
open Rlbox

/-- the plain values the operands denote -/
def plainOf (x : Operand) : Option TV := unwrap x

/-- Binary arithmetic/bitwise/shift operators: whenever the operation does not abort while loading
an operand from sandbox memory, the wrapped result has exactly the type and value of the plain
expression on the underlying values (and is undefined exactly when the plain expression is). -/
theorem C16_value (sem : PlainSem) (op : BinSym) (a b : Operand) (x y : TV)
    (ha : plainOf a = some x) (hb : plainOf b = some y) :
    binOp sem op a b = (match sem.bin op x y with | some r => Res.ok r | none => Res.undef) := by
  unfold plainOf at ha hb
  simp only [binOp, ha, hb]
  cases sem.bin op x y <;> rfl

/-- plain and tainted operands never abort on unwrapping and denote themselves -/
theorem C16_unwrap_plain_tainted (x : Operand) (h : x.wrap ≠ .tvol) : plainOf x = some x.tv := by
  unfold plainOf unwrap
  cases hw : x.wrap <;> simp_all

/-- Comparisons: the value is the plain comparison; the wrapper is a hint as soon as data still in
sandbox memory is involved, a tainted bool otherwise -- never a plain bool. -/
theorem C16_compare (sem : PlainSem) (op : CmpSym) (a b : Operand) (x y : TV) (r : Bool) (w : CmpWrap)
    (ha : plainOf a = some x) (hb : plainOf b = some y) (h : compareOp sem op a b = Res.ok (r, w)) :
    sem.cmp op x y = some r ∧ w ≠ .plainBool ∧ (w = .hint ↔ (a.wrap = .tvol ∨ b.wrap = .tvol)) := by
  unfold plainOf at ha hb
  simp only [compareOp, ha, hb] at h
  cases hc : sem.cmp op x y with
  | none => simp [hc] at h
  | some v =>
    simp only [hc, Res.ok.injEq, Prod.mk.injEq] at h
    obtain ⟨rfl, rfl⟩ := h
    refine ⟨rfl, ?_, ?_⟩
    · split <;> simp
    · by_cases hh : a.wrap = .tvol ∨ b.wrap = .tvol <;> simp [hh]

/-- Logical operators `&&`, `||` (for EVERY interpretation `log` of the plain operators): the value is
the plain expression's on the underlying values and the result is a `tainted<bool>` -- the model has no
other wrapper for it; both operands are unwrapped. -/
theorem C16_logical (log : LogSym → TV → TV → Bool) (op : LogSym) (a b : Operand) (x y : TV)
    (ha : plainOf a = some x) (hb : plainOf b = some y) : logicalOp log op a b = Res.ok (log op x y) := by
  unfold plainOf at ha hb
  simp only [logicalOp, ha, hb]

/-- the executable rendering used by the correspondence check is the plain C++ meaning: each operand
counts as true iff it is non-zero (so `2 && 1` is true although `2 & 1` is 0) -/
theorem C16_cppLog (x y : TV) :
    (cppLog .land x y = true ↔ (x.val ≠ 0 ∧ y.val ≠ 0)) ∧ (cppLog .lor x y = true ↔ (x.val ≠ 0 ∨ y.val ≠ 0)) := by
  simp [cppLog]

/-- Unary operators. -/
theorem C16_unary (sem : PlainSem) (op : UnSym) (a : Operand) (x : TV) (ha : plainOf a = some x) :
    unaryOp sem op a = (match sem.un op x with | some r => Res.ok r | none => Res.undef) := by
  unfold plainOf at ha
  simp only [unaryOp, ha]
  cases sem.un op x <;> rfl

/-- Compound assignment on a `tainted<T>` (application memory): the operand becomes, and the
expression yields, exactly the plain result. -/
theorem C16_update_tainted (sem : PlainSem) (op : BinSym) (a b : Operand) (x y r : TV) (hw : a.wrap ≠ .tvol)
    (ha : plainOf a = some x) (hb : plainOf b = some y) (hr : sem.bin op x y = some r) :
    compound sem op a b = Res.ok (r, r) := by
  have hv := C16_value sem op a b x y ha hb
  simp only [hr] at hv
  unfold compound
  rw [hv]
  unfold writeBack
  cases h : a.wrap
  · rfl
  · rfl
  · exact absurd h hw

/-- Compound assignment on a `tainted_volatile<T>` (sandbox memory): the stored value is the plain
result when it fits the stored sandbox type, otherwise the operation aborts -- never a silently
different value. -/
theorem C16_update_tvol (sem : PlainSem) (op : BinSym) (a b : Operand) (x y r : TV) (hw : a.wrap = .tvol)
    (ha : plainOf a = some x) (hb : plainOf b = some y) (hr : sem.bin op x y = some r) :
    (∃ g, convertFund a.guest r.ty r.val = some g ∧ compound sem op a b = Res.ok (⟨a.tv.ty, g⟩, ⟨a.tv.ty, g⟩)) ∨
    (convertFund a.guest r.ty r.val = none ∧ compound sem op a b = Res.abort) := by
  have hv := C16_value sem op a b x y ha hb
  simp only [hr] at hv
  simp only [compound, hv, writeBack, hw]
  cases hc : convertFund a.guest r.ty r.val with
  | none => right; simp
  | some g => left; exact ⟨g, rfl, by simp⟩

/-- Pre/post increment and decrement: the operand is updated through `+ 1` / `- 1`; the pre forms
yield the new value, the post forms the old one. -/
theorem C16_incdec_return (sem : PlainSem) (dec post : Bool) (a : Operand) (old : TV) (e n : TV)
    (ha : plainOf a = some old) (h : incDec sem dec post a = Res.ok (e, n)) :
    (∃ v, compound sem (if dec then .sub else .add) a (one a.guest) = Res.ok (v, n)) ∧
    e = (if post then old else n) := by
  unfold plainOf at ha
  simp only [incDec, ha] at h
  cases hc : compound sem (if dec then BinSym.sub else BinSym.add) a (one a.guest) with
  | abort => simp [hc] at h
  | undef => simp [hc] at h
  | ok p =>
    obtain ⟨v, n'⟩ := p
    simp only [hc, Res.ok.injEq, Prod.mk.injEq] at h
    obtain ⟨rfl, rfl⟩ := h
    exact ⟨⟨v, rfl⟩, rfl⟩

/-- same elements, any order (the order in which the macros are instantiated is irrelevant) -/
def sameElems {α : Type} [DecidableEq α] (a b : List α) : Bool :=
  a.length == b.length && a.all (· ∈ b) && b.all (· ∈ a)

/-- The operator tables of the source (regenerated from rlbox.hpp on every run): each macro is
instantiated with exactly these symbols, `PostIncDecOps` calls the pre-form of its own symbol,
`PreIncDecOps` steps by 1 through its own symbol, compound assignment goes through its own symbol. -/
theorem ops_tables_match :
    sameElems Generated.binaryOpValAndPtr [BinSym.add.sym, BinSym.sub.sym] = true ∧
    sameElems Generated.binaryOp ([BinSym.mul, .div, .mod, .xor, .band, .bor, .shl, .shr].map BinSym.sym) = true ∧
    sameElems Generated.compoundAssignmentOp ([BinSym.add, .sub, .mul, .div, .mod, .xor, .band, .bor, .shl, .shr].map BinSym.sym) = true ∧
    sameElems Generated.compareOp (([CmpSym.eq, .ne].map fun c => (c.sym, true)) ++ ([CmpSym.lt, .le, .gt, .ge].map fun c => (c.sym, false))) = true ∧
    sameElems Generated.unaryOp ["-", "~"] = true ∧
    sameElems Generated.preIncDecOps ["+", "-"] = true ∧ sameElems Generated.postIncDecOps ["+", "-"] = true ∧
    sameElems Generated.binaryOpWrappedRhs (([BinSym.add, .sub, .mul, .div, .mod, .xor, .band, .bor, .shl, .shr].map BinSym.sym) ++
                                   ([CmpSym.eq, .ne, .lt, .le, .gt, .ge].map CmpSym.sym)) = true ∧
    Generated.postIncDecUsesOwnSymbol = true ∧ Generated.preIncDecStep = ("opSymbol", 1) ∧
    Generated.compoundBody = "opSymbol" ∧
    sameElems Generated.booleanBinaryOp ["&&", "||"] = true ∧ sameElems Generated.booleanBinaryOpWrappedRhs ["&&", "||"] = true := by decide

/-! ## Floating-point operands (`FloatOps.lean`) -/

/-- `x++` / `x--` on a tainted floating-point value return the value the object held BEFORE the update --
not a value re-derived from the new one -- and store `x ± 1` rounded once; the pre forms return what they
store. -/
theorem C16_float_incdec (f : FloatTy) (dec : Bool) (x : Dy) :
    (fIncDec f true dec x).1 = x ∧
    (fIncDec f true dec x).2 = fbin f (if dec then .sub else .add) x Dy.one ∧
    (fIncDec f false dec x).1 = (fIncDec f false dec x).2 ∧
    (fIncDec f false dec x).2 = (fIncDec f true dec x).2 :=
  ⟨rfl, rfl, rfl, rfl⟩

/-- re-deriving the old value as `(x + 1) - 1` is NOT the same function: it differs for 0.1f, for 2^24, and
for anything tiny -/
theorem C16_float_rederive_differs :
    ¬ (fbin .float .sub (fbin .float .add ⟨13421773, 27⟩ Dy.one) Dy.one).same ⟨13421773, 27⟩ ∧
    ¬ (fbin .float .sub (fbin .float .add ⟨16777216, 0⟩ Dy.one) Dy.one).same ⟨16777216, 0⟩ ∧
    ¬ (fbin .double .sub (fbin .double .add ⟨1, 60⟩ Dy.one) Dy.one).same ⟨1, 60⟩ := by decide

/-- when operands are values of the result type and the exact result fits its significand, the wrapped
operator yields the exact result (no rounding anywhere) -/
theorem C16_float_exact (f : FloatTy) (op : FOp) (a b : Dy) (ha : a.num.natAbs < 2 ^ f.prec) (hb : b.num.natAbs < 2 ^ f.prec)
    (hr : (op.exact a b).num.natAbs < 2 ^ f.prec) : fbin f op a b = op.exact a b := by
  have ea : a.round f = a := by unfold Dy.round; rw [CastLemmas.intToFloat_exact f _ ha]
  have eb : b.round f = b := by unfold Dy.round; rw [CastLemmas.intToFloat_exact f _ hb]
  unfold fbin
  rw [ea, eb]
  unfold Dy.round
  rw [CastLemmas.intToFloat_exact f _ hr]

/-- `+` and `*` do not depend on the order of the operands (so neither on which side carries which wrapper) -/
theorem C16_float_comm (f : FloatTy) (a b : Dy) :
    fbin f .add a b = fbin f .add b a ∧ fbin f .mul a b = fbin f .mul b a := by
  simp [fbin, FOp.exact, Dy.add, Dy.mul, Dy.round, Int.add_comm, Int.mul_comm, Nat.add_comm]

/-- result type by the usual arithmetic conversions: the wider floating-point type; an integer operand is
converted to the floating-point type of the other side -/
theorem C16_float_result_type :
    fResTy (.flt .float) (.flt .double) = some .double ∧ fResTy (.flt .double) (.flt .float) = some .double ∧
    fResTy (.flt .float) .int = some .float ∧ fResTy .int (.flt .double) = some .double ∧ fResTy .int .int = none := by decide

/-- comparisons with a NaN operand: `==` (and `<`, `<=`, `>`, `>=`) false, `!=` true -- in particular `==` is NOT
"neither less nor greater" -/
theorem C16_float_nan_compare (op : FCmp) (x : FV) :
    fcmp op .nan x = (op == .ne) ∧ fcmp op x .nan = (op == .ne) := by
  constructor
  · simp [fcmp, FV.isNan]
  · cases x <;> simp [fcmp, FV.isNan]

/-- unary minus flips the sign of a zero and is an involution; the two zeros compare equal -/
theorem C16_float_neg_zero :
    FV.neg (.zero false) = .zero true ∧ (∀ a : FV, a.neg.neg = a) ∧ fcmp .eq (.zero false) (.zero true) = true := by
  refine ⟨rfl, fun a => ?_, by decide⟩
  cases a with
  | nan => rfl
  | inf n => simp [FV.neg]
  | zero n => simp [FV.neg]
  | fin d => simp [FV.neg, Dy.neg]

example : fcmp .lt (.fin ⟨-1, 1⟩) (.zero true) = true ∧ fcmp .ge (.inf false) (.fin ⟨7, 0⟩) = true ∧ fcmp .eq .nan .nan = false ∧
    fcmp .ne .nan (.fin ⟨1, 0⟩) = true := by decide

example : (fbin .float .add ⟨16777216, 0⟩ ⟨1, 0⟩).same ⟨16777216, 0⟩ ∧ (fbin .double .add ⟨16777216, 0⟩ ⟨1, 0⟩).same ⟨16777217, 0⟩ ∧
    (fbin .float .mul ⟨3, 1⟩ ⟨-5, 2⟩).same ⟨-15, 3⟩ ∧ (fIncDec .double true false ⟨1, 1⟩).2.same ⟨3, 1⟩ := by decide

/-- non-vacuity (with the executable C++ rendering): mixed wrappers and types -/
example : (match logicalOp cppLog .land ⟨.tainted, ⟨tInt, 2⟩, tInt⟩ ⟨.tvol, ⟨tInt, 1⟩, tInt⟩ with | .ok r => r | _ => false) = true := by decide
example : (match binOp cppSem .add ⟨.tvol, ⟨⟨false, 1, false⟩, 200⟩, ⟨false, 1, false⟩⟩ ⟨.plain, ⟨⟨true, 4, false⟩, 100⟩, tInt⟩ with
    | .ok r => r.val | _ => 0) = 300 := by decide
example : (match incDec cppSem true true ⟨.tainted, ⟨tInt, 10⟩, tInt⟩ with | .ok (e, n) => (e.val, n.val) | _ => (0, 0)) = (10, 9) := by decide
example : (match compound cppSem .add ⟨.tvol, ⟨⟨true, 8, false⟩, 2147483647⟩, ⟨true, 4, false⟩⟩ ⟨.plain, ⟨tInt, 1⟩, tInt⟩ with
    | .abort => true | _ => false) = true := by decide

end Rlbox.C16
