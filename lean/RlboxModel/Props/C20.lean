import RlboxModel.Casts
import RlboxModel.Props.C04
import RlboxModel.Props.C06Core
/-!
# C20 — Opaque wrappers and sandbox casts preserve bits, designation and taint
Property theorems only.
-/
namespace Rlbox.C20
open Rlbox

/-- tainted → opaque → tainted yields an identical bit image, for every type (any image) -/
theorem C20_opaque_rt (img : List Nat) : fromOpaque (toOpaque img) = img := rfl

/-- `sandbox_static_cast` of a tainted value holds exactly what the C++ cast yields on the
underlying value -/
theorem C20_cast_value (abi : Abi) (to fr : BaseTy) (v : Int) :
    sandboxStaticCast abi to fr (.tainted v) = some (to.app.cast v) := rfl

/-- ... and of a value still in sandbox memory: the value the sandbox ABI stores (converted without
loss by C06, or the load aborts), then the same cast -/
theorem C20_cast_value_tvol (abi : Abi) (habi : abi.wf) (to fr : BaseTy) (g : Int) (hg : (fr.guest abi).inRange g) :
    (sandboxStaticCast abi to fr (.tvol g) = some (to.app.cast g) ∧ fr.app.inRange g) ∨
    (sandboxStaticCast abi to fr (.tvol g) = none ∧ ¬ fr.app.inRange g) := by
  have hf := (C06.C06_abi_pairs abi habi fr g).2 hg
  unfold C06.Faithful at hf
  unfold sandboxStaticCast srcToTainted toApplication
  rcases hf with ⟨he, hr⟩ | ⟨he, hr⟩
  · left; exact ⟨by simp [he], hr⟩
  · right; exact ⟨by simp [he], hr⟩

/-- a value in range of the target is unchanged by the cast (the cast only changes what the C++
cast changes) -/
theorem C20_cast_identity_in_range (to : BaseTy) (v : Int) (h : to.app.inRange v) (hb : to ≠ .bool) : to.app.cast v = v := by
  cases to <;> simp_all [BaseTy.app, IntTy.cast, IntTy.inRange, IntTy.min, IntTy.max, IntTy.bits] <;> omega

/-- pointer casts never change the designated sandbox address: a tainted source keeps its address;
a source stored in sandbox memory of sandbox `s` is translated relative to `s` (the cell's own
sandbox), exactly like an ordinary load of that cell -/
theorem C20_cast_addr (s : Sbx) (hs : C04.Sbx.wf s) :
    (∀ a, sandboxPtrCast s.region.k (.tainted a) = a) ∧
    (∀ cell rep, s.region.contains cell → sandboxPtrCast s.region.k (.tvol cell rep) = toApp s rep) := by
  refine ⟨fun _ => rfl, fun cell rep hc => ?_⟩
  exact (C04.C04_cell_relative s hs cell hc rep 0).1

example : sandboxStaticCast abiA .uchar .int (.tainted 300) = some 44 := by decide
example : sandboxStaticCast abiA .schar .ulong (.tvol 4294967295) = some (-1) := by decide
example : sandboxPtrCast 16 (.tvol 0x6a0000000010 0x100) = 0x6a0000000100 := by decide

end Rlbox.C20
