import RlboxModel.Casts
import RlboxModel.Props.C04
import RlboxModel.Props.C06Core
import RlboxModel.Lemmas.CastLemmas
/-!
# C20 — Opaque wrappers and sandbox casts preserve bits, designation and taint
Property theorems only.
-/
namespace Rlbox.C20
open Rlbox

/-- tainted → opaque → tainted yields an identical bit image, for every type (any image) -/
theorem C20_opaque_rt (img : List Nat) : fromOpaque (toOpaque img) = img := rfl

/-- `sandbox_static_cast` of a tainted value holds exactly what the C++ cast yields on the
underlying value -/
theorem C20_cast_value (abi : Abi) (to fr : BaseTy) (v : Int) :
    sandboxStaticCast abi to fr (.tainted v) = some (to.app.cast v) := rfl

/-- ... and of a value still in sandbox memory: the value the sandbox ABI stores (converted without
loss by C06, or the load aborts), then the same cast -/
theorem C20_cast_value_tvol (abi : Abi) (habi : abi.wf) (to fr : BaseTy) (g : Int) (hg : (fr.guest abi).inRange g) :
    (sandboxStaticCast abi to fr (.tvol g) = some (to.app.cast g) ∧ fr.app.inRange g) ∨
    (sandboxStaticCast abi to fr (.tvol g) = none ∧ ¬ fr.app.inRange g) := by
  have hf := (C06.C06_abi_pairs abi habi fr g).2 hg
  unfold C06.Faithful at hf
  unfold sandboxStaticCast srcToTainted toApplication
  rcases hf with ⟨he, hr⟩ | ⟨he, hr⟩
  · left; exact ⟨by simp [he], hr⟩
  · right; exact ⟨by simp [he], hr⟩

/-- a value in range of the target is unchanged by the cast (the cast only changes what the C++
cast changes) -/
theorem C20_cast_identity_in_range (to : BaseTy) (v : Int) (h : to.app.inRange v) (hb : to ≠ .bool) : to.app.cast v = v := by
  cases to <;> simp_all [BaseTy.app, IntTy.cast, IntTy.inRange, IntTy.min, IntTy.max, IntTy.bits] <;> omega

/-- pointer casts never change the designated sandbox address: a tainted source keeps its address;
a source stored in sandbox memory of sandbox `s` is translated relative to `s` (the cell's own
sandbox), exactly like an ordinary load of that cell -/
theorem C20_cast_addr (s : Sbx) (hs : C04.Sbx.wf s) :
    (∀ a, sandboxPtrCast s.region.k (.tainted a) = a) ∧
    (∀ cell rep, s.region.contains cell → sandboxPtrCast s.region.k (.tvol cell rep) = toApp s rep) := by
  refine ⟨fun _ => rfl, fun cell rep hc => ?_⟩
  exact (C04.C04_cell_relative s hs cell hc rep 0).1

/-- `sandbox_static_cast<F>` of an integer to a floating-point type holds what the C++ cast yields: the
source value (loaded and ABI-converted first when it lives in sandbox memory), rounded ONCE to the target's
precision -/
theorem C20_castf_value (abi : Abi) (to : FloatTy) (fr : BaseTy) (v : Int) :
    sandboxStaticCastIF abi to fr (.tainted v) = some (intToFloat to v) ∧
    ∀ g, sandboxStaticCastIF abi to fr (.tvol g) = (toApplication abi fr g).map (intToFloat to) :=
  ⟨rfl, fun _ => rfl⟩

/-- what "the C++ cast" is: integers that fit the significand are unchanged ... -/
theorem C20_castf_exact (f : FloatTy) (v : Int) (h : v.natAbs < 2 ^ f.prec) : intToFloat f v = v :=
  CastLemmas.intToFloat_exact f v h

/-- ... and any other integer becomes a neighbouring multiple of the unit in the last place `2^sh`, at most
half a unit away (round to nearest; `roundSig` resolves ties to the even significand) -/
theorem C20_castf_nearest (f : FloatTy) (n : Nat) (h : ¬ n < 2 ^ f.prec) :
    2 ^ (bitLen n - f.prec) ∣ roundSig f.prec n ∧
    roundSig f.prec n ≤ n + 2 ^ (bitLen n - f.prec - 1) ∧ n ≤ roundSig f.prec n + 2 ^ (bitLen n - f.prec - 1) :=
  CastLemmas.roundSig_nearest f.prec n _ (fun hb => h ((CastLemmas.bitLen_le _ _).1 hb)) rfl

/-- one rounding, not two: going through `double` first gives a different `float` for some 64-bit integers -/
theorem C20_castf_single_rounding :
    intToFloat .float (intToFloat .double (2 ^ 60 + 2 ^ 36 + 1)) ≠ intToFloat .float (2 ^ 60 + 2 ^ 36 + 1) := by decide

/-- floating-point to integer: the fraction is discarded toward zero (the magnitude is the integer part of the
magnitude, the sign is kept), and the cast is defined exactly when that integer is in range of the target -/
theorem C20_float_to_int (to : BaseTy) (hb : to ≠ .bool) (x : Dy) :
    x.trunc.natAbs = x.num.natAbs / 2 ^ x.k ∧ (0 ≤ x.num → 0 ≤ x.trunc) ∧ (x.num ≤ 0 → x.trunc ≤ 0) ∧
    floatToInt to x = (if to.app.inRange x.trunc then some x.trunc else none) := by
  have h0 : x.num = 0 → x.num.natAbs / 2 ^ x.k = 0 := by intro h; simp [h]
  refine ⟨?_, ?_, ?_, by simp [floatToInt, hb]⟩ <;> unfold Dy.trunc <;>
    generalize x.num.natAbs / 2 ^ x.k = q at * <;> split <;> omega

example : intToFloat .float 16777217 = 16777216 ∧ intToFloat .float 16777219 = 16777220 ∧ intToFloat .double (2^63 - 1) = 2^63 := by decide
example : floatToInt .int ⟨-7, 1⟩ = some (-3) ∧ floatToInt .uchar ⟨1025, 2⟩ = none ∧ floatToInt .bool ⟨1, 5⟩ = some 1 := by decide

/-- class pointers: a static cast to a non-first base moves the designated address by exactly the base's offset and back
again on the way down; null stays null; the first base and a reinterpret cast do not move it -/
theorem C20_static_cast_class_ptr (d : Nat) (a : Nat) (ha : a ≠ 0) :
    staticCastClassPtr d a = a + d ∧ staticCastClassPtr (-(d : Int)) (staticCastClassPtr d a) = a ∧
    staticCastClassPtr d 0 = 0 ∧ staticCastClassPtr 0 a = a := by
  have h1 : staticCastClassPtr d a = a + d := by unfold staticCastClassPtr; simp [ha]; omega
  refine ⟨h1, ?_, by simp [staticCastClassPtr], by unfold staticCastClassPtr; simp [ha]⟩
  rw [h1]; unfold staticCastClassPtr
  have : a + d ≠ 0 := by omega
  rw [if_neg this]
  omega

example : sandboxStaticCast abiA .uchar .int (.tainted 300) = some 44 := by decide
example : sandboxStaticCast abiA .schar .ulong (.tvol 4294967295) = some (-1) := by decide
example : sandboxPtrCast 16 (.tvol 0x6a0000000010 0x100) = 0x6a0000000100 := by decide

end Rlbox.C20
