import RlboxModel.Mem
import RlboxModel.GeneratedTyping
/-!
# C02 — Application pointers and foreign-sandbox data cannot enter a sandbox unchecked
Property theorems only.  Compile-time half: the verdict table regenerated from the compiler on
every run.  Run-time half: the two checked entry points.
-/
namespace Rlbox.C02
open Rlbox

def sinks : List (String × Bool × Bool) := GeneratedTyping.c02

/-- the shapes the property forbids (fixed here, so the generator cannot silently drop one) -/
def forbiddenShapes : List String :=
  ["tainted_ptr_init_from_raw", "tainted_ptr_ctor_from_raw", "tainted_ptr_assign_from_raw",
   "tainted_fn_init_from_raw", "tainted_vp_init_from_raw", "tvol_ptr_assign_from_raw", "tvol_fn_assign_from_raw",
   "tvol_ptrarr_assign_from_raw_carr", "tvol_ptrarr_assign_from_raw_stdarr", "tvol_int_assign_from_raw_ptr",
   "tainted_int_init_from_raw_ptr", "tainted_from_other_sandbox", "tvol_assign_from_other_sandbox",
   "invoke_raw_ptr_arg", "invoke_raw_fn_arg", "invoke_raw_struct_arg", "invoke_other_sandbox_arg",
   "invoke_other_sandbox_int_arg", "invoke_callback_wrong_sig", "register_cb_no_sandbox_param",
   "register_cb_no_params", "register_cb_plain_param", "register_cb_raw_ptr_param", "register_cb_plain_return",
   "register_cb_raw_ptr_return", "register_cb_array_param", "register_cb_other_sandbox_ref",
   "register_cb_other_sandbox_param", "register_cb_hint_param", "callback_into_tainted",
   "callback_into_tvol_wrong_type", "fn_address_into_tvol_wrong_type", "assign_raw_pointer_non_pointer",
   "accept_pointer_non_pointer", "free_raw_pointer", "tainted_from_other_sandbox_tvol",
   "tainted_int_from_other_sandbox", "tainted_assign_from_other_sandbox", "tvol_assign_from_other_sandbox_tvol",
   "tvol_int_assign_from_other_sandbox", "tvol_int_assign_from_other_sandbox_tvol",
   "tvol_arr_assign_from_other_sandbox", "tvol_struct_assign_from_other_sandbox",
   "tvol_structfield_assign_from_other_sandbox", "callback_other_sandbox_into_tvol",
   "invoke_other_sandbox_callback_arg", "invoke_other_sandbox_opaque_arg", "invoke_other_sandbox_tvol_arg",
   "invoke_other_sandbox_struct_arg", "invoke_fn_address_wrong_sig", "fn_address_into_tainted_wrong_type",
   "fn_address_tvol_into_tvol_wrong_type", "register_cb_tvol_param", "register_cb_other_sandbox_return",
   "register_cb_raw_fn_param", "register_cb_sandbox_by_value", "callback_return_raw_ptr_via_tainted",
   "tainted_struct_field_from_raw", "tvol_struct_field_from_raw", "tainted_ptrarr_elem_from_raw",
   "tvol_ptrarr_elem_from_raw", "tvol_deref_store_raw", "tvol_index_store_raw", "invoke_raw_array_arg",
   "invoke_raw_string_arg", "invoke_app_pointer_wrong_sandbox", "internal_factory_raw_ptr",
   "internal_factory_raw_fn", "tagged_ctor_raw_ptr", "tainted_raw_value_ref_write", "tvol_sandbox_value_ref_write",
   "tvol_default_ctor", "tvol_copy_ctor", "tainted_reinterpret_from_raw",
   "reinterpret_cast_int_to_ptr", "reinterpret_cast_tvol_int_to_ptr", "static_cast_int_to_ptr", "const_cast_int_to_ptr",
   "tainted_ptr_init_from_tainted_int",
   "tainted_int_plus_plain_ptr", "tvol_int_plus_plain_ptr", "plain_ptr_plus_tainted_int", "plain_ptr_minus_tainted_int"]

def accepts (name : String) : Option Bool := (sinks.find? fun r => r.1 == name).map fun r => r.2.2

/-- **C02, compile-time half**: every forbidden shape is present in the regenerated table and the
compiler rejects it. -/
theorem C02_forbidden_rejected : forbiddenShapes.all (fun n => accepts n == some false) = true := by decide +kernel

/-- the same shapes with the two sandbox types exchanged (target sandbox with guest pointers as wide
as the application's, where a bit copy of a pointer would "fit") -/
theorem C02_forbidden_rejected_wide_ptr : forbiddenShapes.all (fun n => accepts (n ++ "@B") == some false) = true := by
  decide +kernel

/-- every row the generator marks forbidden is rejected (covers rows added to the generator later) -/
theorem C02_table_forbidden_rejected : sinks.all (fun r => !r.2.1 || !r.2.2) = true := by decide +kernel

/-- positive controls: the permitted neighbours of each forbidden shape do compile, so the rejections
above are not an artefact of a broken prelude -/
theorem C02_controls_accepted : sinks.all (fun r => r.2.1 || r.2.2) = true ∧ (sinks.filter fun r => !r.2.1).length ≥ 40 := by
  decide +kernel

/-- **C02, run-time half**: the checked entry points accept an address only if it lies inside THAT
sandbox's memory, and then keep exactly that address. -/
theorem C02_checked_entry (s : Sbx) (a v : Nat) (h : acceptPointer s a = some v) : s.region.contains a ∧ v = a := by
  unfold acceptPointer at h
  split at h
  · next hc => exact ⟨hc, by injection h with h; exact h.symm⟩
  · cases h

theorem C02_checked_entry_aborts (s : Sbx) (a : Nat) (h : ¬ s.region.contains a) :
    acceptPointer s a = none ∧ acceptPointerVol s a = none := by
  unfold acceptPointer acceptPointerVol
  simp [h]

/-- null is never inside (regions start above address 0), so both entry points refuse it -/
theorem C02_null_refused (s : Sbx) (hs : s.region.wf) : acceptPointer s 0 = none := by
  have : ¬ s.region.contains 0 := by
    obtain ⟨_, hb0, _⟩ := hs
    unfold Region.contains; omega
  exact (C02_checked_entry_aborts s 0 this).1

/-- an address inside ANOTHER live sandbox (disjoint region) is refused -/
theorem C02_other_sandbox_refused (s t : Sbx) (a : Nat) (ht : t.region.contains a)
    (hd : s.region.base + 2 ^ s.region.k ≤ t.region.base ∨ t.region.base + 2 ^ t.region.k ≤ s.region.base) :
    acceptPointer s a = none := by
  have : ¬ s.region.contains a := by
    unfold Region.contains at *; omega
  exact (C02_checked_entry_aborts s a this).1

/-- the `tainted_volatile` flavour stores the offset of that address within the sandbox -/
theorem C02_checked_entry_vol (s : Sbx) (hk : s.region.k ≤ 8 * s.ptrBytes) (hw : s.region.wf) (a v : Nat)
    (h : acceptPointerVol s a = some v) : s.region.contains a ∧ v = a - s.region.base ∧ v < 2 ^ s.region.k := by
  unfold acceptPointerVol at h
  split at h
  · next hc =>
    injection h with h
    refine ⟨hc, ?_⟩
    obtain ⟨_, hb0, hb1⟩ := hw
    have hp : 2 ^ s.region.k ≤ 2 ^ (8 * s.ptrBytes) := Nat.pow_le_pow_right (by decide) hk
    unfold Region.contains at hc
    have ha0 : a ≠ 0 := by omega
    have h1 : (a + W64 - s.region.base) % W64 = a - s.region.base := by unfold W64 at *; omega
    unfold toGuest at h
    simp only [ha0, if_false, h1] at h
    generalize 2 ^ s.region.k = M at *
    generalize 2 ^ (8 * s.ptrBytes) = P at *
    rw [Nat.mod_eq_of_lt (by omega)] at h
    omega
  · cases h

/-- non-vacuity -/
example : acceptPointer ⟨⟨16, 0x6a0000000000⟩, 4⟩ (0x6a0000000000 + 4096) = some (0x6a0000000000 + 4096) := by decide
example : acceptPointer ⟨⟨16, 0x6a0000000000⟩, 4⟩ (0x6a0000000000 + 65536) = none := by decide

end Rlbox.C02
