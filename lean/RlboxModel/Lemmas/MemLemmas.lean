import RlboxModel.Mem
import RlboxModel.Lemmas.Arith
/-! Helper lemmas about little-endian encoding and memory reads/writes. -/
namespace Rlbox

@[simp] theorem encodeLE_length (n v : Nat) : (encodeLE n v).length = n := by
  induction n generalizing v with
  | zero => rfl
  | succ n ih => simp [encodeLE, ih]

theorem decode_encode (n v : Nat) : decodeLE (encodeLE n v) = v % 256 ^ n := by
  induction n generalizing v with
  | zero => simp [encodeLE, decodeLE, Nat.mod_one]
  | succ n ih =>
    simp only [encodeLE, decodeLE, ih]
    rw [Nat.pow_succ, Nat.mul_comm (256 ^ n) 256, Nat.mod_mul]

theorem read_write_same (m : Mem) (a : Nat) (bs : List Nat) : (m.write a bs).read a bs.length = bs := by
  apply List.ext_getElem
  · simp [Mem.read]
  · intro i h1 h2
    simp only [Mem.read, List.getElem_map, List.getElem_range, Mem.write]
    have : a ≤ a + i ∧ a + i < a + bs.length := ⟨by omega, by omega⟩
    rw [if_pos this]
    have h3 : a + i - a = i := by omega
    rw [h3]
    simp [List.getD, List.getElem?_eq_getElem h2]

theorem write_frame (m : Mem) (a : Nat) (bs : List Nat) (x : Nat) (h : x < a ∨ a + bs.length ≤ x) :
    (m.write a bs) x = m x := by
  simp only [Mem.write]
  rw [if_neg (by omega)]

theorem read_congr (m1 m2 : Mem) (a n : Nat) (h : ∀ x, a ≤ x → x < a + n → m1 x = m2 x) :
    m1.read a n = m2.read a n := by
  simp only [Mem.read]
  apply List.map_congr_left
  intro i hi
  simp only [List.mem_range] at hi
  exact h (a + i) (by omega) (by omega)

/-- two's-complement round trip for every well-formed integer type -/
theorem ofBits_toBits (t : IntTy) (v : Int) (hw : t.wf) (hv : t.inRange v) :
    t.ofBits (t.toBits v % 256 ^ t.bytes) = v := by
  obtain ⟨sg, by_, isb⟩ := t
  obtain ⟨hb, hbool⟩ := hw
  simp only [IntTy.ofBits, IntTy.toBits, IntTy.inRange, IntTy.min, IntTy.max, IntTy.bits] at hv ⊢
  rcases hb with h | h | h | h <;> subst h <;> cases sg <;> cases isb <;> simp at hv hbool ⊢ <;> omega

end Rlbox
