import RlboxModel.Struct
/-! Helper lemmas about `roundUp`, alignments and the running layout. -/
namespace Rlbox

theorem roundUp_ge (x a : Nat) (ha : 0 < a) : x ≤ roundUp x a := by
  unfold roundUp
  have hne : a ≠ 0 := by omega
  simp only [hne, if_false]
  have h1 := Nat.div_add_mod (x + a - 1) a
  have h2 := Nat.mod_lt (x + a - 1) ha
  rw [Nat.mul_comm] at h1
  generalize (x + a - 1) / a * a = q at *
  omega

theorem roundUp_mod (x a : Nat) (ha : 0 < a) : roundUp x a % a = 0 := by
  unfold roundUp
  have hne : a ≠ 0 := by omega
  simp only [hne, if_false]
  exact Nat.mul_mod_left _ _

/-- pointer width and integer widths are 1, 2, 4 or 8 bytes -/
def Abi.ok (abi : Abi) : Prop := abi.wf ∧ (abi.ptr = 1 ∨ abi.ptr = 2 ∨ abi.ptr = 4 ∨ abi.ptr = 8)

def Pow2le8 (a : Nat) : Prop := a = 1 ∨ a = 2 ∨ a = 4 ∨ a = 8

theorem pow2_max (a b : Nat) (ha : Pow2le8 a) (hb : Pow2le8 b) : Pow2le8 (Nat.max a b) := by
  unfold Pow2le8 at *
  rcases ha with h | h | h | h <;> rcases hb with h' | h' | h' | h' <;> subst h <;> subst h' <;> simp

theorem pow2_dvd_max (a b : Nat) (ha : Pow2le8 a) (hb : Pow2le8 b) : Nat.max a b % a = 0 ∧ Nat.max a b % b = 0 := by
  unfold Pow2le8 at *
  rcases ha with h | h | h | h <;> rcases hb with h' | h' | h' | h' <;> subst h <;> subst h' <;> simp

theorem layoutGo_snd_pow2 (abi : Abi) (fs : List CTy) (hfs : ∀ f ∈ fs, Pow2le8 (f.sizeAlign abi).2) :
    ∀ off al, Pow2le8 al → Pow2le8 (CTy.layoutGo abi fs off al).2 := by
  induction fs with
  | nil => intro off al h; simpa [CTy.layoutGo] using h
  | cons f fs ih =>
    intro off al h
    simp only [CTy.layoutGo]
    apply ih (fun g hg => hfs g (List.mem_cons_of_mem _ hg))
    exact pow2_max _ _ h (hfs f List.mem_cons_self)

mutual
  theorem align_pow2 (abi : Abi) (h : abi.ok) : ∀ t : CTy, Pow2le8 (t.sizeAlign abi).2
    | .base b => by
        obtain ⟨⟨h1, h2, h3, h4⟩, _⟩ := h
        cases b <;> simp [CTy.sizeAlign, BaseTy.guest, Pow2le8, *]
    | .float => by simp [CTy.sizeAlign, Pow2le8]
    | .double => by simp [CTy.sizeAlign, Pow2le8]
    | .enum => by simp [CTy.sizeAlign, Pow2le8]
    | .ptr => by simpa [CTy.sizeAlign, Pow2le8] using h.2
    | .arr n el => by
        have := align_pow2 abi h el
        simpa [CTy.sizeAlign] using this
    | .struct fs => by
        simp only [CTy.sizeAlign]
        exact layoutGo_snd_pow2 abi fs (aligns_pow2 abi h fs) 0 1 (Or.inl rfl)
  theorem aligns_pow2 (abi : Abi) (h : abi.ok) : ∀ fs : List CTy, ∀ f ∈ fs, Pow2le8 (f.sizeAlign abi).2
    | [] => by intro f hf; cases hf
    | g :: gs => by
        intro f hf
        cases hf with
        | head => exact align_pow2 abi h g
        | tail _ hm => exact aligns_pow2 abi h gs f hm
end

theorem align_pos (abi : Abi) (h : abi.ok) (t : CTy) : 0 < t.align abi := by
  have := align_pow2 abi h t
  unfold CTy.align Pow2le8 at *
  omega

end Rlbox

namespace Rlbox

theorem layoutGo_fst_indep (abi : Abi) (fs : List CTy) : ∀ off al al', (CTy.layoutGo abi fs off al).1 = (CTy.layoutGo abi fs off al').1 := by
  induction fs with
  | nil => intro off al al'; simp [CTy.layoutGo]
  | cons f fs ih => intro off al al'; simp only [CTy.layoutGo]; exact ih _ _ _

/-- end offset (before tail padding) of a field list laid out from `off` -/
def endOff (abi : Abi) (fs : List CTy) (off : Nat) : Nat := (CTy.layoutGo abi fs off 1).1

theorem endOff_cons (abi : Abi) (f : CTy) (fs : List CTy) (off : Nat) :
    endOff abi (f :: fs) off = endOff abi fs (roundUp off (f.align abi) + f.size abi) := by
  unfold endOff
  simp only [CTy.layoutGo, CTy.align, CTy.size]
  exact layoutGo_fst_indep _ _ _ _ _

theorem endOff_ge (abi : Abi) (h : abi.ok) (fs : List CTy) : ∀ off, off ≤ endOff abi fs off := by
  induction fs with
  | nil => intro off; simp [endOff, CTy.layoutGo]
  | cons f fs ih =>
    intro off
    rw [endOff_cons]
    have h1 := ih (roundUp off (f.align abi) + f.size abi)
    have h2 := roundUp_ge off (f.align abi) (align_pos abi h f)
    omega

/-- alignment of the struct = maximum over the fields: every field's alignment divides it -/
theorem layoutGo_snd_dvd (abi : Abi) (h : abi.ok) (fs : List CTy) :
    ∀ off al, Pow2le8 al → (CTy.layoutGo abi fs off al).2 % al = 0 ∧ ∀ f ∈ fs, (CTy.layoutGo abi fs off al).2 % f.align abi = 0 := by
  induction fs with
  | nil => intro off al hal; simp [CTy.layoutGo]
  | cons f fs ih =>
    intro off al hal
    simp only [CTy.layoutGo]
    have hf := align_pow2 abi h f
    have hm := pow2_max _ _ hal hf
    have hd := pow2_dvd_max _ _ hal hf
    obtain ⟨i1, i2⟩ := ih (roundUp off (f.sizeAlign abi).2 + (f.sizeAlign abi).1) _ hm
    have hfin := layoutGo_snd_pow2 abi fs (aligns_pow2 abi h fs) (roundUp off (f.sizeAlign abi).2 + (f.sizeAlign abi).1) _ hm
    -- divisibility is transitive on {1,2,4,8}
    have trans : ∀ x y z, Pow2le8 x → Pow2le8 y → Pow2le8 z → z % y = 0 → y % x = 0 → z % x = 0 := by
      intro x y z hx hy hz
      unfold Pow2le8 at *
      rcases hx with h | h | h | h <;> rcases hy with h' | h' | h' | h' <;> rcases hz with h'' | h'' | h'' | h'' <;>
        subst h <;> subst h' <;> subst h'' <;> simp
    refine ⟨trans _ _ _ hal hm hfin i1 hd.1, ?_⟩
    intro g hg
    cases hg with
    | head => exact trans _ _ _ hf hm hfin i1 hd.2
    | tail _ hmem => exact i2 g hmem

end Rlbox
