import RlboxModel.Ptr
/-! Helper lemmas about regions, masks and 64-bit wrap-around. -/
namespace Rlbox

theorem two_pow_pos (k : Nat) : 0 < 2 ^ k := Nat.pow_pos (by decide)

/-- inside an aligned region, "same high bits as an inside address" is exactly membership -/
theorem sameSbx_iff_contains (r : Region) (hr : r.wf) (p t : Nat) (hp : r.contains p) :
    sameSbx r.k p t = true ↔ r.contains t := by
  obtain ⟨k, base⟩ := r
  obtain ⟨hal, _, _⟩ := hr
  simp only at hal
  have hM := two_pow_pos k
  unfold Region.contains at *
  unfold sameSbx
  simp only at *
  generalize 2 ^ k = M at *
  obtain ⟨q, hq⟩ : ∃ q, base = q * M := ⟨base / M, by
    have := Nat.div_add_mod base M; rw [hal] at this; rw [Nat.mul_comm]; omega⟩
  have hpq : p / M = q := by
    rw [Nat.div_eq_iff hM]; subst hq; omega
  simp only [beq_iff_eq, hpq]
  constructor
  · intro h
    have := (Nat.div_eq_iff hM).1 h.symm
    subst hq; omega
  · intro h
    symm; rw [Nat.div_eq_iff hM]; subst hq; omega

/-- an address outside every aligned block that contains `p` is never "same sandbox" -/
theorem sameSbx_refl (k p : Nat) : sameSbx k p p = true := by simp [sameSbx]

theorem neg_mul_mod64 (a s : Nat) (ha : a ≤ W64) :
    ((W64 - a) * s) % W64 = (W64 - (a * s) % W64) % W64 := by
  have h1 : (W64 - a) * s + a * s = W64 * s := by
    rw [← Nat.add_mul]; congr 1; omega
  generalize (W64 - a) * s = x at *
  generalize a * s = D at *
  unfold W64 at *
  omega

end Rlbox
