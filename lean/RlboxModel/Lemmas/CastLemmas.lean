import RlboxModel.Casts
/-! Helper lemmas about rounding to `p` significant bits (`Casts.lean`). -/
namespace Rlbox.CastLemmas
open Rlbox
theorem bitLen_le (p n : Nat) : bitLen n ≤ p ↔ n < 2 ^ p := by
  unfold bitLen
  by_cases h : n = 0
  · simp [h]; exact Nat.pos_of_ne_zero (by simp)
  · simp only [h, if_false]
    rw [Nat.succ_le_iff, Nat.log2_lt h]

theorem roundSig_exact (p n : Nat) (h : n < 2 ^ p) : roundSig p n = n := by
  unfold roundSig; rw [if_pos ((bitLen_le p n).2 h)]

theorem roundSig_nearest (p n sh : Nat) (h : ¬ bitLen n ≤ p) (hs : sh = bitLen n - p) :
    2 ^ sh ∣ roundSig p n ∧ roundSig p n ≤ n + 2 ^ (sh - 1) ∧ n ≤ roundSig p n + 2 ^ (sh - 1) := by
  have hsh : 1 ≤ sh := by omega
  have hA : 2 ^ sh = 2 * 2 ^ (sh - 1) := by
    have : sh = (sh - 1) + 1 := by omega
    conv => lhs; rw [this, Nat.pow_succ]
    omega
  have hdm := Nat.div_add_mod n (2 ^ sh)
  have hr := Nat.mod_lt n (Nat.two_pow_pos sh)
  have hrs : roundSig p n = (if n % 2 ^ sh > 2 ^ (sh - 1) ∨ (n % 2 ^ sh = 2 ^ (sh - 1) ∧ (n / 2 ^ sh) % 2 = 1) then n / 2 ^ sh + 1 else n / 2 ^ sh) * 2 ^ sh := by
    unfold roundSig; rw [if_neg h, hs]
  rw [hrs]
  refine ⟨Nat.dvd_mul_left _ _, ?_⟩
  generalize n / 2 ^ sh = q at *
  generalize n % 2 ^ sh = r at *
  generalize 2 ^ (sh - 1) = H at *
  generalize 2 ^ sh = A at *
  rw [Nat.mul_comm] at hdm
  split
  · rw [Nat.succ_mul]; omega
  · omega
theorem intToFloat_exact (f : FloatTy) (v : Int) (h : v.natAbs < 2 ^ f.prec) : intToFloat f v = v := by
  unfold intToFloat
  rw [roundSig_exact _ _ h]
  split <;> omega

end Rlbox.CastLemmas
