import RlboxModel.Lifecycle
/-! Helper lemmas for the lifecycle / callback model. -/
namespace Rlbox

theorem scanIdx_some (p : Nat → Bool) (i f k : Nat) (h : scanIdx p i f = some k) :
    i ≤ k ∧ k < i + f ∧ p k = true := by
  induction f generalizing i with
  | zero => simp [scanIdx] at h
  | succ f ih =>
    unfold scanIdx at h
    split at h
    · cases h; rename_i hp; exact ⟨Nat.le_refl _, by omega, hp⟩
    · obtain ⟨a, b, c⟩ := ih (i + 1) h; exact ⟨by omega, by omega, c⟩

theorem scanIdx_none (p : Nat → Bool) (i f : Nat) :
    scanIdx p i f = none ↔ ∀ j, i ≤ j → j < i + f → p j = false := by
  induction f generalizing i with
  | zero => simp [scanIdx]; intro j h1 h2; omega
  | succ f ih =>
    unfold scanIdx
    split
    · rename_i hu
      simp only [reduceCtorEq, false_iff]
      intro h; have := h i (Nat.le_refl _) (by omega); simp [hu] at this
    · rename_i hu
      rw [ih (i + 1)]
      constructor
      · intro h j h1 h2
        by_cases hj : j = i
        · subst hj; simpa using hu
        · exact h j (by omega) (by omega)
      · intro h j h1 h2; exact h j (by omega) (by omega)

@[simp] theorem setS_sbx_same (w : World) (i : Nat) (s : SbxObj) : (w.setS i s).sbx i = s := by simp [World.setS]
theorem setS_sbx_other (w : World) (i j : Nat) (s : SbxObj) (h : j ≠ i) : (w.setS i s).sbx j = w.sbx j := by simp [World.setS, h]
@[simp] theorem setS_owners (w : World) (i : Nat) (s : SbxObj) : (w.setS i s).owners = w.owners := rfl
@[simp] theorem setS_reg (w : World) (i : Nat) (s : SbxObj) : (w.setS i s).reg = w.reg := rfl
@[simp] theorem setS_max (w : World) (i : Nat) (s : SbxObj) : (w.setS i s).max = w.max := rfl
@[simp] theorem setO_sbx (w : World) (o : Nat) (v : Option (Nat × Nat × Nat)) : (w.setO o v).sbx = w.sbx := rfl
@[simp] theorem setO_reg (w : World) (o : Nat) (v : Option (Nat × Nat × Nat)) : (w.setO o v).reg = w.reg := rfl
@[simp] theorem setO_max (w : World) (o : Nat) (v : Option (Nat × Nat × Nat)) : (w.setO o v).max = w.max := rfl
@[simp] theorem setO_same (w : World) (o : Nat) (v : Option (Nat × Nat × Nat)) : (w.setO o v).owners o = v := by simp [World.setO]
theorem setO_other (w : World) (o p : Nat) (v : Option (Nat × Nat × Nat)) (h : p ≠ o) : (w.setO o v).owners p = w.owners p := by
  simp [World.setO, h]


/-- how `create` succeeds -/
theorem create_cases (w w' : World) (i : Nat) (ok : Bool) (lib r : Nat) (b : Bool) (h : w.create i ok lib r = some (w', b)) :
    (w.sbx i).status = .notCreated ∧ r ∉ w.mapped ∧ b = ok ∧
    w' = (if ok then { w.setS i { w.sbx i with status := .created, lib := lib, rgn := r } with reg := w.reg ++ [i], mapped := r :: w.mapped }
          else { w.setS i { w.sbx i with status := .initializing, rgn := r } with mapped := r :: w.mapped }) := by
  unfold World.create at h
  by_cases h1 : (w.sbx i).status ≠ .notCreated
  · simp [h1] at h
  · have h1' : (w.sbx i).status = .notCreated := by simpa using h1
    by_cases h2 : r ∈ w.mapped
    · simp [h1, h2] at h
    · cases ok <;> simp only [h1, h2, if_false, if_true, Bool.false_eq_true, Option.some.injEq, Prod.mk.injEq] at h <;>
        obtain ⟨rfl, rfl⟩ := h <;> exact ⟨h1', h2, rfl, rfl⟩

theorem create_none_of_status (w : World) (i : Nat) (ok : Bool) (lib r : Nat) (h : (w.sbx i).status ≠ .notCreated) :
    w.create i ok lib r = none := by simp [World.create, h]

theorem create_some (w : World) (i : Nat) (ok : Bool) (lib r : Nat) (h : (w.sbx i).status = .notCreated) (hr : r ∉ w.mapped) :
    ∃ w', w.create i ok lib r = some (w', ok) := by
  cases ok <;> simp [World.create, h, hr]

/-- the three ways `release` can succeed -/
theorem release_cases (w w' : World) (o : Nat) (h : w.release o = some w') :
    (w.owners o = none ∧ w' = w) ∨
    (∃ i f n, w.owners o = some (i, f, n) ∧ ((w.sbx i).status ≠ .created ∨ (w.sbx i).inc ≠ n) ∧ w' = w.setO o none) ∨
    (∃ i f n, w.owners o = some (i, f, n) ∧ (w.sbx i).status = .created ∧ (w.sbx i).inc = n ∧ (w.sbx i).keys f = true ∧
      w' = (w.setO o none).setS i (releasedObj w i f)) := by
  unfold World.release at h
  cases ho : w.owners o with
  | none => rw [ho] at h; simp at h; exact Or.inl ⟨rfl, h.symm⟩
  | some p =>
    obtain ⟨i, f, n⟩ := p
    rw [ho] at h
    simp only at h
    by_cases h1 : (w.sbx i).status ≠ .created ∨ (w.sbx i).inc ≠ n
    · right; left
      refine ⟨i, f, n, rfl, h1, ?_⟩
      simp only [h1, if_true, Option.some.injEq] at h
      exact h.symm
    · have h1a : (w.sbx i).status = .created := by
        cases hs : (w.sbx i).status <;> simp_all
      have h1b : (w.sbx i).inc = n := by
        by_cases e : (w.sbx i).inc = n
        · exact e
        · exact absurd (Or.inr e) h1
      by_cases h2 : (w.sbx i).keys f = true
      · right; right
        refine ⟨i, f, n, rfl, h1a, h1b, h2, ?_⟩
        simp only [h1, if_false, h2, Bool.true_eq_false, Option.some.injEq] at h
        exact h.symm
      · have h2' : (w.sbx i).keys f = false := by simpa using h2
        simp [h1, h2'] at h

theorem releasedObj_keys (w : World) (i f : Nat) :
    (releasedObj w i f).keys = fun g => if g = f then false else (w.sbx i).keys g := rfl
theorem releasedObj_slots (w : World) (i f k : Nat) (hs : slotOf w (w.sbx i) f = some k) :
    (releasedObj w i f).slots = fun j => if j = k then none else (w.sbx i).slots j := by
  simp [releasedObj, hs]

/-- how `registerNew` succeeds -/
theorem registerNew_cases (w w' : World) (i t f k : Nat) (h : w.registerNew i t f = some (w', k)) :
    (w.sbx i).status = .created ∧ (w.sbx i).keys f = false ∧ firstFree w (w.sbx i) = some k ∧
    w' = (w.setS i (registeredObj w i f k)).setO t (some (i, f, (w.sbx i).inc)) := by
  unfold World.registerNew at h
  by_cases h1 : (w.sbx i).status = .created
  · by_cases h2 : (w.sbx i).keys f = true
    · simp [h1, h2] at h
    · have h2' : (w.sbx i).keys f = false := by simpa using h2
      simp only [h1, ne_eq, not_true_eq_false, if_false, h2', Bool.false_eq_true] at h
      cases hf : firstFree w (w.sbx i) with
      | none => rw [hf] at h; simp at h
      | some k0 =>
        rw [hf] at h
        simp only [Option.some.injEq, Prod.mk.injEq] at h
        obtain ⟨rfl, rfl⟩ := h
        exact ⟨h1, h2', rfl, rfl⟩
  · simp [h1] at h

end Rlbox
