import RlboxModel.Tls
/-! Helper lemmas: the per-thread-record machine (`Tls.lean`) computes, on every call tree, what the
parameter-passing semantics (`Calls.lean`) computes, and leaves `thread_data.sandbox` as it found it. -/
namespace Rlbox.TlsLemmas
open Rlbox

mutual
  theorem tls_inv (slots : SlotMap) : ∀ (i : Inv) (t : Tls),
      (lrunInv slots t i).1 = runInv slots i ∧ (lrunInv slots t i).2.cur = t.cur
    | .mk sb arg fault cbs, t => by
      unfold lrunInv runInv
      by_cases hf : fault = .argConv
      · simp [hf]
      · simp only [hf, if_false]
        have hb := tls_cbs slots sb cbs { t with cur := some sb } rfl
        rw [hb.1]
        split <;> simp
  theorem tls_cbs (slots : SlotMap) (sb : Nat) : ∀ (cs : List Cb) (t : Tls), t.cur = some sb →
      (lrunCbs slots t cs).1 = runCbs slots sb cs ∧ (lrunCbs slots t cs).2.cur = some sb
    | [], t, h => by unfold lrunCbs runCbs; exact ⟨rfl, h⟩
    | c :: cs, t, h => by
      unfold lrunCbs runCbs
      have h1 := tls_cb slots sb c t h
      simp only [h1.1]
      by_cases he : (runCb slots sb c).exc = true
      · simp only [he, if_true]; exact h1
      · simp only [he, Bool.false_eq_true, if_false]
        have h2 := tls_cbs slots sb cs (lrunCb slots t c).2 h1.2
        simp [h2.1, h2.2]
  theorem tls_cb (slots : SlotMap) (sb : Nat) : ∀ (c : Cb) (t : Tls), t.cur = some sb →
      (lrunCb slots t c).1 = runCb slots sb c ∧ (lrunCb slots t c).2.cur = some sb
    | .mk slot arg ret fault invs, t, h => by
      unfold lrunCb runCb
      simp only [h]
      cases hs : slots sb slot with
      | none => exact ⟨rfl, rfl⟩
      | some fn =>
        simp only
        have hb := tls_invs slots invs { cur := some sb, last := slot }
        rw [hb.1]
        split <;> exact ⟨rfl, hb.2⟩
  theorem tls_invs (slots : SlotMap) : ∀ (is : List Inv) (t : Tls),
      (lrunInvs slots t is).1 = runInvs slots is ∧ (lrunInvs slots t is).2.cur = t.cur
    | [], t => by unfold lrunInvs runInvs; exact ⟨rfl, rfl⟩
    | i :: is, t => by
      unfold lrunInvs runInvs
      have h1 := tls_inv slots i t
      simp only [h1.1]
      by_cases he : (runInv slots i).exc = true
      · simp only [he, if_true]; exact h1
      · simp only [he, Bool.false_eq_true, if_false]
        have h2 := tls_invs slots is (lrunInv slots t i).2
        simp [h2.1, h2.2, h1.2]
end
end Rlbox.TlsLemmas
