/-!
# Typing discipline of the wrapper API, over a table of single-step facts

The single-step facts -- which expression/statement forms over the wrapper types compile, and the
wrapper and type kind of their result -- are NOT written by hand: they are regenerated from the C++
front end's verdicts on /repo's current headers (gen/typing_table.py -> GeneratedTyping.lean).
This file defines expression trees over such a table, their type (`typeOf`), which trees carry
sandbox-originated data (`semTaint`), what it means for a table to be safe (`StepSafe`), and proves
once and for all that a safe table keeps taint through expression trees of ANY depth.
Core Lean only.
-/
namespace Rlbox.Typing

/-- wrapper codes (as emitted by the generator) -/
def wPlain : Nat := 0
def wTainted : Nat := 1
def wTvol : Nat := 2
def wOpaque : Nat := 3
def wCallback : Nat := 4
def wAppPtr : Nat := 5
def wBHint : Nat := 6
def wIHint : Nat := 7
def wVoid : Nat := 8
def wPtrToWrapper : Nat := 9

abbrev Ty := Nat × Nat          -- (wrapper code, type-kind code)
abbrev Row := Nat × List Ty × Ty -- (rule index, operand types, result type)
abbrev Table := List Row

/-- does this wrapper carry sandbox-originated (or sandbox-facing) data? everything but plain/void -/
def carries (t : Ty) : Bool := t.1 != wPlain && t.1 != wVoid

/-- expression trees: typed leaves, rule applications -/
inductive Expr
  | leaf (t : Ty)
  | app (rule : Nat) (args : List Expr)

def lookup (tab : Table) (rule : Nat) (ops : List Ty) : Option Ty :=
  (tab.find? fun r => r.1 == rule && r.2.1 == ops).map (·.2.2)

mutual
  /-- the type of an expression: `none` = some step does not compile -/
  def typeOf (tab : Table) : Expr → Option Ty
    | .leaf t => some t
    | .app rule args =>
      match typesOf tab args with
      | none => none
      | some ts => lookup tab rule ts
  def typesOf (tab : Table) : List Expr → Option (List Ty)
    | [] => some []
    | e :: es =>
      match typeOf tab e, typesOf tab es with
      | some t, some ts => some (t :: ts)
      | _, _ => none
end

/-- `declass rule ops`: this step is one of the explicitly named unwrapping calls, a null test of a
tainted pointer, or a query of an owner object's registration state -- the only steps allowed to
produce a plain value from a wrapped operand -/
abbrev Declass := Nat → List Ty → Bool

mutual
  /-- does the expression (still) carry sandbox-originated data?  A wrapped leaf does; a declassifying
  step does not; any other step does iff one of its operands does. -/
  def semTaint (d : Declass) (tab : Table) : Expr → Bool
    | .leaf t => carries t
    | .app rule args =>
      match typesOf tab args with
      | none => false
      | some ts => if d rule ts then false else semTaintAny d tab args
  def semTaintAny (d : Declass) (tab : Table) : List Expr → Bool
    | [] => false
    | e :: es => semTaint d tab e || semTaintAny d tab es
end

/-- a row is safe: if an operand carries sandbox data and the step is not a declassifier, the
result is not plain -/
def rowSafe (d : Declass) (r : Row) : Bool :=
  !(r.2.1.any carries) || d r.1 r.2.1 || r.2.2.1 != wPlain

def StepSafe (d : Declass) (tab : Table) : Prop := ∀ r ∈ tab, rowSafe d r = true

/-- no row has an operand of `void` type (a statement cannot be an operand) -/
def OpsNonVoid (tab : Table) : Prop := ∀ r ∈ tab, ∀ o ∈ r.2.1, o.1 ≠ wVoid

theorem lookup_mem (tab : Table) (rule : Nat) (ops : List Ty) (t : Ty) (h : lookup tab rule ops = some t) :
    (rule, ops, t) ∈ tab := by
  unfold lookup at h
  cases hf : tab.find? (fun r => r.1 == rule && r.2.1 == ops) with
  | none => simp [hf] at h
  | some r =>
    simp only [hf, Option.map_some, Option.some.injEq] at h
    have hm := List.mem_of_find?_eq_some hf
    have hp := List.find?_some hf
    simp only [Bool.and_eq_true, beq_iff_eq] at hp
    obtain ⟨r1, r2, r3⟩ := r
    simp only at hp h
    obtain ⟨rfl, rfl⟩ := hp
    subst h
    exact hm

mutual
  /-- **Taint is preserved through expression trees of any depth**: over a safe table, an expression
  that compiles and still carries sandbox-originated data never has a plain type. -/
  theorem taint_preserved (d : Declass) (tab : Table) (hs : StepSafe d tab) (hv : OpsNonVoid tab) :
      ∀ (e : Expr) (t : Ty), typeOf tab e = some t → semTaint d tab e = true → t.1 ≠ wPlain
    | .leaf t0, t, h, ht => by
      simp only [typeOf, Option.some.injEq] at h
      subst h
      simp only [semTaint, carries, Bool.and_eq_true, bne_iff_ne] at ht
      exact ht.1
    | .app rule args, t, h, ht => by
      simp only [typeOf] at h
      simp only [semTaint] at ht
      cases hts : typesOf tab args with
      | none => simp [hts] at h
      | some ts =>
        simp only [hts] at h ht
        have hmem := lookup_mem tab rule ts t h
        have hsafe := hs _ hmem
        by_cases hd : d rule ts = true
        · simp [hd] at ht
        · simp only [hd, Bool.false_eq_true, if_false] at ht
          have hany := taint_any d tab hs hv args ts hts ht
          simp only [rowSafe, Bool.or_eq_true, Bool.not_eq_true', bne_iff_ne, ne_eq] at hsafe
          rcases hsafe with (h1 | h2) | h3
          · -- some operand is non-plain, and it is not void either: it carries
            exfalso
            rw [List.any_eq_true] at hany
            obtain ⟨o, ho, hne⟩ := hany
            have hnv := hv _ hmem o ho
            have : carries o = true := by
              simp only [carries, Bool.and_eq_true, bne_iff_ne, ne_eq]
              exact ⟨by simpa using hne, hnv⟩
            have hc : List.any ts carries = true := List.any_eq_true.2 ⟨o, ho, this⟩
            simp [hc] at h1
          · exact absurd h2 hd
          · exact h3
  theorem taint_any (d : Declass) (tab : Table) (hs : StepSafe d tab) (hv : OpsNonVoid tab) :
      ∀ (es : List Expr) (ts : List Ty), typesOf tab es = some ts → semTaintAny d tab es = true →
        ts.any (fun t => t.1 != wPlain) = true
    | [], ts, h, ht => by simp [semTaintAny] at ht
    | e :: es, ts, h, ht => by
      simp only [typesOf] at h
      cases he : typeOf tab e with
      | none => simp [he] at h
      | some t =>
        cases hes : typesOf tab es with
        | none => simp [he, hes] at h
        | some ts' =>
          simp only [he, hes, Option.some.injEq] at h
          subst h
          simp only [semTaintAny, Bool.or_eq_true] at ht
          simp only [List.any_cons, Bool.or_eq_true, bne_iff_ne, ne_eq]
          rcases ht with h1 | h2
          · left; exact taint_preserved d tab hs hv e t he h1
          · right; exact taint_any d tab hs hv es ts' hes h2
end

end Rlbox.Typing
