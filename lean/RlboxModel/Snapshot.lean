import RlboxModel.Mem
/-!
# Verified copies as programs over adversarially changing sandbox memory (C09)

Sandbox memory may be rewritten by the sandbox at any moment.  A `copy_and_verify*` call is modelled
as an interaction tree whose only effect is *reading one byte of sandbox memory*; an adversary
(`Adv`) may rewrite the whole memory before each single read.  This is the finest schedule
granularity: a machine read of several bytes is the special case in which the adversary does
nothing between those byte reads, so every machine-level schedule is one of the schedules
quantified over here.  What the verifier receives is a *value* (`Out`): it does not refer to
sandbox memory any more.  Addresses are offsets inside the region; 0 is the null pointer.
Core Lean only.
-/
namespace Rlbox.Snap
open Rlbox

/-- the adversary: before read event number `n` it may replace sandbox memory by anything -/
abbrev Adv := Nat → Mem → Mem

/-- interaction trees over byte reads of sandbox memory -/
inductive Prog (α : Type) where
  | ret (a : α)
  | read (addr : Nat) (k : Nat → Prog α)

structure St where
  mem : Mem
  clock : Nat

/-- run a program: before each read the adversary acts, then the byte is read -/
def run {α : Type} (adv : Adv) : Prog α → St → α × St
  | .ret a, s => (a, s)
  | .read addr k, s =>
      let m := adv s.clock s.mem
      run adv (k (m addr)) ⟨m, s.clock + 1⟩

def Prog.bind {α β : Type} : Prog α → (α → Prog β) → Prog β
  | .ret a, f => f a
  | .read addr k, f => .read addr fun b => (k b).bind f

instance : Monad Prog where
  pure := .ret
  bind := Prog.bind

def readByte (a : Nat) : Prog Nat := .read a .ret

/-- `n` successive byte reads starting at `a` -/
def readBytes (a : Nat) : Nat → Prog (List Nat)
  | 0 => pure []
  | n + 1 => do
      let b ← readByte a
      let rest ← readBytes (a + 1) n
      pure (b :: rest)

/-- what the verifier (or the application) ends up with -/
inductive Out
  | null                      -- the verifier is called with nullptr / an empty std::string
  | abort                     -- a dynamic_check failed: the call aborts
  | fault                     -- the application touches an address outside the sandbox or beyond the region (crash)
  | val (bytes : List Nat)    -- an application-memory object with exactly these bytes
  | addr (a : Nat)            -- an address handed to the verifier as an integer
deriving Repr, DecidableEq, Inhabited

/-- region size (bytes) and guest pointer width of the scenario -/
def rsize : Nat := 65536
def pbytes : Nat := 4

/-- where the tainted pointer lives -/
inductive PSrc
  | app (p : Nat)     -- `tainted<T*>`: in application memory, the sandbox cannot change it
  | cell (c : Nat)    -- `tainted_volatile<T*>`: in sandbox memory at offset `c`
deriving Repr, DecidableEq

/-- `impl().get_raw_value()` of a pointer: the application-memory pointer itself, or a load of the cell
(representation → address: 0 ↦ null, otherwise reduced into the region) -/
def fetch : PSrc → Prog Nat
  | .app p => pure p
  | .cell c => do
      let bs ← readBytes c pbytes
      let r := decodeLE bs
      pure (if r = 0 then 0 else r % rsize)

/-- `check_range_doesnt_cross_app_sbx_boundary(start, n)` for a start inside the region -/
def rangeOk (start n : Nat) : Bool := start + n ≤ rsize

/-- `strlen(start)`: byte reads until a NUL; running past the end of the region is a fault -/
def strlenFrom (start : Nat) : Nat → Nat → Prog (Option Nat)
  | 0, _ => pure none
  | fuel + 1, i =>
      if start + i ≥ rsize then pure none else do
        let b ← readByte (start + i)
        if b = 0 then pure (some i) else strlenFrom start fuel (i + 1)

/-- the copy loop of `copy_and_verify_range_helper`: for each element the pointer is obtained again
from `impl()` (re-read if it lives in sandbox memory), indexed with a null check and a bounds
check, and the element is loaded -/
def copyLoop (src : PSrc) (elSize : Nat) : Nat → Nat → Prog (Option (List Nat))
  | 0, _ => pure (some [])
  | n + 1, i => do
      let p ← fetch src
      if p = 0 then pure none                                    -- operator[] on a null pointer aborts
      else if ¬ (p + i * elSize + elSize ≤ rsize) then pure none  -- element outside the sandbox: abort
      else do
        let bs ← readBytes (p + i * elSize) elSize
        let rest ← copyLoop src elSize n (i + 1)
        pure (rest.map (bs ++ ·))

/-- `verify_range_helper(count)` with elements of `elSize` bytes: `none` = abort, `some 0` = null -/
def verifyRange (src : PSrc) (count elSize : Nat) : Prog (Option Nat) := do
  if count = 0 then pure none else
  let p ← fetch src
  if p = 0 then pure (some 0) else
  if rangeOk p (count * elSize) then pure (some p) else pure none

/-- `copy_and_verify_range_helper(count)`: `Out.null` when the pointer is null -/
def rangeHelper (src : PSrc) (count elSize : Nat) : Prog Out := do
  match ← verifyRange src count elSize with
  | none => pure .abort
  | some 0 => pure .null
  | some _ =>
    match ← copyLoop src elSize count 0 with
    | none => pure .abort
    | some bs => pure (.val bs)

def setLast (bs : List Nat) (v : Nat) : List Nat := bs.dropLast ++ [v]

/-! ## The variants -/

/-- `tainted_volatile<T>::copy_and_verify` for a fundamental `T` of `n` bytes at `a` -/
def cavScalar (a n : Nat) : Prog Out := do pure (.val (← readBytes a n))

/-- `copy_and_verify` on a pointer to a fundamental type: ONE fetch of the pointer, null check, load
of the pointee through that same value -/
def cavPtr (src : PSrc) (n : Nat) : Prog Out := do
  let p ← fetch src
  if p = 0 then pure .null else
  if ¬ (p + n ≤ rsize) then pure .fault else
  pure (.val (← readBytes p n))

/-- `copy_and_verify` on a pointer to a registered struct: `*impl()` converted field by field
(no null check: a null pointer is dereferenced by the application) -/
def cavStruct (src : PSrc) (n : Nat) : Prog Out := do
  let p ← fetch src
  if p = 0 then pure .fault else
  if ¬ (p + n ≤ rsize) then pure .fault else
  pure (.val (← readBytes p n))

def cavRange (src : PSrc) (count elSize : Nat) : Prog Out := rangeHelper src count elSize

/-- `copy_and_verify_string` with a `unique_ptr<char[]>` verifier -/
def cavStrU (src : PSrc) : Prog Out := do
  let start ← fetch src
  if start = 0 then pure .null else
  match ← strlenFrom start rsize 0 with
  | none => pure .fault
  | some len =>
    match ← rangeHelper src (len + 1) 1 with
    | .val bs => pure (.val (setLast bs 0))     -- target[str_len - 1] = '\0'
    | o => pure o

/-- `copy_and_verify_string` with a `std::string` verifier -/
def cavStrS (src : PSrc) : Prog Out := do
  let start ← fetch src
  if start = 0 then pure (.val []) else
  match ← strlenFrom start rsize 0 with
  | none => pure .fault
  | some len =>
    match ← verifyRange src (len + 1) 1 with
    | none => pure .abort
    | some 0 => pure (.val [])
    | some q => pure (.val (← readBytes q len))  -- std::string(checked_start, str_len - 1)

def cavAddr (src : PSrc) : Prog Out := do pure (.addr (← fetch src))

def cavBuf (src : PSrc) (size : Nat) : Prog Out := do
  match ← verifyRange src size 1 with
  | none => pure .abort
  | some p => pure (.addr p)

/-- `copy_memory_or_deny_access` (copying flavour) of `n` bytes from an application-held pointer -/
def copyMem (p n : Nat) : Prog Out := do
  match ← verifyRange (.app p) n 1 with
  | none => pure .abort
  | some 0 => pure .null
  | some q => pure (.val (← readBytes q n))

/-- `arr[idx]` on a fixed-size array of `n` elements of `elSize` bytes whose index is an `int` that lives in sandbox
memory at offset `c` (a `tainted_volatile<int>`): the index is loaded ONCE; that one value is checked and, if
accepted, designates the element (result: byte offset from the array start). -/
def idxVol (c n elSize : Nat) : Prog Out := do
  let bs ← readBytes c 4
  let v := decodeLE bs
  if v ≥ 2147483648 ∨ v ≥ n then pure .abort else pure (.addr (v * elSize))   -- (≥ 2^31: a negative int)

end Rlbox.Snap
