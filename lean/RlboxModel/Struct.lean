import RlboxModel.Layout
import RlboxModel.Mem
/-!
# Struct marshalling: values, field-by-field conversion, leaf offsets of the guest image

`rlbox_struct_support.hpp` generates, from the field list of a struct, (1) the guest-layout struct
(`Sbx_<lib>_<T>`, every field replaced by its sandbox equivalent), (2) `tainted`/`tainted_volatile`
specialisations with one wrapper per field and (3) `convert_type_class`, which converts field by
field in declaration order through `convert_type` (integers: `convert_type_fundamental`, pointers:
`get_[un]sandboxed_pointer`, arrays: element by element, nested structs: recursively).
Core Lean only.
-/
namespace Rlbox

/-- values of a C type, on either side of the boundary -/
inductive SVal
  | int (v : Int)            -- integer / bool (0,1) / enum / floating value (never converted)
  | ptr (a : Nat)            -- application address (app side) or guest representation (guest side)
  | fn (i : Nat)             -- function designator: index into the sandbox's function table, 0 = null
  | arr (vs : List SVal)
  | struct (vs : List SVal)
deriving Repr, Inhabited, BEq

mutual
  /-- application → sandbox (`Direction = TO_SANDBOX`): copy into sandbox memory, by-value argument -/
  def toGuestV (abi : Abi) (s : Sbx) : SVal → CTy → Option SVal
    | .int v, .base b => (toSandbox abi b v).map .int
    | .int v, .float => some (.int v)
    | .int v, .double => some (.int v)
    | .int v, .enum => some (.int v)
    | .ptr a, .ptr => some (.ptr (toGuest s a))
    | .fn i, .ptr => some (.fn i)
    | .arr vs, .arr n el => if vs.length = n then (toGuestArr abi s vs el).map .arr else none
    | .struct vs, .struct fs => (toGuestFields abi s vs fs).map .struct
    | _, _ => none
  def toGuestArr (abi : Abi) (s : Sbx) : List SVal → CTy → Option (List SVal)
    | [], _ => some []
    | v :: vs, el =>
      match toGuestV abi s v el, toGuestArr abi s vs el with
      | some g, some gs => some (g :: gs)
      | _, _ => none
  def toGuestFields (abi : Abi) (s : Sbx) : List SVal → List CTy → Option (List SVal)
    | [], [] => some []
    | v :: vs, f :: fs =>
      match toGuestV abi s v f, toGuestFields abi s vs fs with
      | some g, some gs => some (g :: gs)
      | _, _ => none
    | _, _ => none
end

mutual
  /-- sandbox → application (`Direction = TO_APPLICATION`): copy out, by-value result -/
  def toAppV (abi : Abi) (s : Sbx) : SVal → CTy → Option SVal
    | .int v, .base b => (toApplication abi b v).map .int
    | .int v, .float => some (.int v)
    | .int v, .double => some (.int v)
    | .int v, .enum => some (.int v)
    | .ptr r, .ptr => some (.ptr (toApp s r))
    | .fn i, .ptr => some (.fn i)
    | .arr vs, .arr n el => if vs.length = n then (toAppArr abi s vs el).map .arr else none
    | .struct vs, .struct fs => (toAppFields abi s vs fs).map .struct
    | _, _ => none
  def toAppArr (abi : Abi) (s : Sbx) : List SVal → CTy → Option (List SVal)
    | [], _ => some []
    | v :: vs, el =>
      match toAppV abi s v el, toAppArr abi s vs el with
      | some g, some gs => some (g :: gs)
      | _, _ => none
  def toAppFields (abi : Abi) (s : Sbx) : List SVal → List CTy → Option (List SVal)
    | [], [] => some []
    | v :: vs, f :: fs =>
      match toAppV abi s v f, toAppFields abi s vs fs with
      | some g, some gs => some (g :: gs)
      | _, _ => none
    | _, _ => none
end

mutual
  /-- an application-side value of the given type: integers within the application type's range,
  pointers null or inside the sandbox (not its first byte, whose representation is the guest's null) -/
  def WT (s : Sbx) : SVal → CTy → Prop
    | .int v, .base b => b.app.inRange v
    | .int _, .float => True
    | .int _, .double => True
    | .int _, .enum => True
    | .ptr a, .ptr => a = 0 ∨ (s.region.contains a ∧ a ≠ s.region.base)
    | .fn _, .ptr => True
    | .arr vs, .arr n el => vs.length = n ∧ WTArr s vs el
    | .struct vs, .struct fs => WTFields s vs fs
    | _, _ => False
  def WTArr (s : Sbx) : List SVal → CTy → Prop
    | [], _ => True
    | v :: vs, el => WT s v el ∧ WTArr s vs el
  def WTFields (s : Sbx) : List SVal → List CTy → Prop
    | [], [] => True
    | v :: vs, f :: fs => WT s v f ∧ WTFields s vs fs
    | _, _ => False
end

mutual
  /-- every integer leaf fits the corresponding guest type -/
  def Fits (abi : Abi) : SVal → CTy → Prop
    | .int v, .base b => (b.guest abi).inRange v
    | .arr vs, .arr _ el => FitsArr abi vs el
    | .struct vs, .struct fs => FitsFields abi vs fs
    | _, _ => True
  def FitsArr (abi : Abi) : List SVal → CTy → Prop
    | [], _ => True
    | v :: vs, el => Fits abi v el ∧ FitsArr abi vs el
  def FitsFields (abi : Abi) : List SVal → List CTy → Prop
    | v :: vs, f :: fs => Fits abi v f ∧ FitsFields abi vs fs
    | _, _ => True
end

/-! ## Leaf offsets of the image (depth-first, declaration order) -/

mutual
  /-- offsets of the scalar leaves of a value of type `t` placed at offset 0 -/
  def leafRel (abi : Abi) : CTy → List Nat
    | .arr n el =>
        let rel := leafRel abi el
        let sz := el.size abi
        (List.range n).flatMap fun i => rel.map (· + i * sz)
    | .struct fs => fieldsRel abi fs 0
    | _ => [0]
  def fieldsRel (abi : Abi) : List CTy → Nat → List Nat
    | [], _ => []
    | f :: fs, off =>
        let o := roundUp off (f.align abi)
        (leafRel abi f).map (· + o) ++ fieldsRel abi fs (o + f.size abi)
end

mutual
  /-- the scalar leaves of a value, depth-first -/
  def SVal.leaves : SVal → List SVal
    | .arr vs => leavesList vs
    | .struct vs => leavesList vs
    | v => [v]
  def leavesList : List SVal → List SVal
    | [] => []
    | v :: vs => v.leaves ++ leavesList vs
end

end Rlbox

namespace Rlbox

/-! ## The image at byte level: a whole-struct store is one write per scalar leaf -/

mutual
  /-- sizes (bytes, guest ABI) of the scalar leaves, in the order of `leafRel` -/
  def leafSizes (abi : Abi) : CTy → List Nat
    | .arr n el =>
        let one := leafSizes abi el
        (List.range n).flatMap fun _ => one
    | .struct fs => fieldsSizes abi fs
    | t => [t.size abi]
  def fieldsSizes (abi : Abi) : List CTy → List Nat
    | [] => []
    | f :: fs => leafSizes abi f ++ fieldsSizes abi fs
end

/-- the bytes a guest leaf value occupies (integers: two's complement; pointers and function
designators: the representation), little endian, exactly `size` bytes -/
def leafBytes (size : Nat) : SVal → List Nat
  | .int v => encodeLE size ((v % ((256 ^ size : Nat) : Int)).toNat)
  | .ptr r => encodeLE size r
  | .fn i => encodeLE size i
  | _ => encodeLE size 0

/-- the writes of `*p = s` for a struct image `g` at address `base`: (address, bytes) per leaf -/
def imageWrites (abi : Abi) (t : CTy) (g : SVal) (base : Nat) : List (Nat × List Nat) :=
  ((leafRel abi t).zip ((leafSizes abi t).zip g.leaves)).map fun (off, sz, v) => (base + off, leafBytes sz v)

def writeMany (m : Mem) : List (Nat × List Nat) → Mem
  | [] => m
  | (a, bs) :: rest => writeMany (m.write a bs) rest

end Rlbox
