import RlboxModel.Ptr
/-!
# Threads: what is shared between sandbox instances, and schedules (C18)

The only state shared between instances of one backend type is the process-wide live-sandbox list
(`sandbox_list`, accessed under `sandbox_list_lock`); the backend's "current sandbox" record is per
thread (`thread_local thread_data`); everything else belongs to one instance.  An API operation is a
short sequence of *atomic steps*: a lock-protected section on the list, a step on instance-private
state, or a step on the calling thread's own record.  A schedule is any interleaving of the threads'
steps.  Core Lean only.
-/
namespace Rlbox.Thr
open Rlbox

abbrev Tid := Nat
abbrev Iid := Nat

/-- `σ`: everything private to one instance (status, allocator, memory, callback table, caches ...) -/
structure World (σ : Type) where
  reg : List Iid              -- sandbox_list
  inst : Iid → σ
  cur : Tid → Option Iid      -- thread_data.sandbox of each thread

inductive Step (σ : Type) where
  | regAdd (i : Iid)                    -- create_sandbox: push_back inside the UNIQUE guard
  | regDel (i : Iid)                    -- destroy_sandbox: find + erase inside the UNIQUE guard
  | find (i : Iid) (off : Nat)          -- find_sandbox_from_example(base_i + off) inside the SHARED guard
  | localOp (i : Iid) (f : σ → σ × Nat) -- ANY operation on instance-private state, with its result
  | setCur (v : Option Iid)             -- invoke: thread_data.sandbox := this / restored on exit
  | callback                            -- a callback asks which sandbox is executing

def upd {α : Type} (f : Nat → α) (k : Nat) (v : α) : Nat → α := fun x => if x = k then v else f x

/-- one atomic step of thread `t`; the observation is what the thread gets back -/
def step {σ : Type} (region : Iid → Region) (w : World σ) (t : Tid) : Step σ → World σ × Option Nat
  | .regAdd i => ({ w with reg := if i ∈ w.reg then w.reg else w.reg ++ [i] }, none)
  | .regDel i => ({ w with reg := w.reg.erase i }, none)
  | .find i off =>
      (w, some (match w.reg.find? (fun j => decide ((region j).contains ((region i).base + off))) with
                | some j => j + 1
                | none => 0))
  | .localOp i f => ({ w with inst := upd w.inst i (f (w.inst i)).1 }, some (f (w.inst i)).2)
  | .setCur v => ({ w with cur := upd w.cur t v }, none)
  | .callback => (w, some (match w.cur t with | some i => i + 1 | none => 0))

/-- run a schedule; the log records who observed what -/
def runSched {σ : Type} (region : Iid → Region) : World σ → List (Tid × Step σ) → World σ × List (Tid × Option Nat)
  | w, [] => (w, [])
  | w, (t, st) :: rest =>
      let (w', o) := step region w t st
      let (w'', log) := runSched region w' rest
      (w'', (t, o) :: log)

def obsOf (t : Tid) (log : List (Tid × Option Nat)) : List (Option Nat) := (log.filter (·.1 == t)).map (·.2)

/-- the instances a step refers to -/
def Step.ids {σ : Type} : Step σ → List Iid
  | .regAdd i => [i]
  | .regDel i => [i]
  | .find i _ => [i]
  | .localOp i _ => [i]
  | .setCur (some i) => [i]
  | .setCur none => []
  | .callback => []

/-- every thread only touches its own instances, and looks up addresses inside its own regions -/
def Owned {σ : Type} (owner : Iid → Tid) (region : Iid → Region) (sched : List (Tid × Step σ)) : Prop :=
  ∀ p ∈ sched, (∀ i ∈ p.2.ids, owner i = p.1) ∧ (∀ i off, p.2 = .find i off → off < 2 ^ (region i).k)

def Disjoint (region : Iid → Region) : Prop :=
  ∀ i j, i ≠ j → (region i).base + 2 ^ (region i).k ≤ (region j).base ∨ (region j).base + 2 ^ (region j).k ≤ (region i).base

end Rlbox.Thr
