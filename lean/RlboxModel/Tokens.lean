/-!
# App-pointer token table (rlbox_app_pointer.hpp) and its owner objects (rlbox_policy_types.hpp)

`TokMap` mirrors `app_pointer_map`: `used` is `pointer_map` (token ↦ pointer, token 0 permanently
reserved), `counter` the allocation cursor. `scan`/`getUnused` are the two loops of
`get_unused_index`, by structural recursion on the span. Core Lean only.
-/
namespace Rlbox

structure TokMap where
  used    : Nat → Option Nat
  counter : Nat

def TokMap.init : TokMap := { used := fun t => if t = 0 then some 0 else none, counter := 1 }

def updateFn (f : Nat → Option Nat) (k : Nat) (v : Option Nat) : Nat → Option Nat :=
  fun t => if t = k then v else f t

/-- first free token in `[i, i + fuel)` -/
def scan (used : Nat → Option Nat) (i : Nat) : Nat → Option Nat
  | 0 => none
  | f + 1 => if used i = none then some i else scan used (i + 1) f

/-- `get_unused_index(max)`: `counter .. max`, then `1 .. counter-1`, else abort (`none`) -/
def getUnused (m : TokMap) (max : Nat) : Option Nat :=
  match scan m.used m.counter (max + 1 - m.counter) with
  | some i => some i
  | none => scan m.used 1 (m.counter - 1)

/-- `get_app_pointer_idx(ptr, max)` -/
def TokMap.register (m : TokMap) (max p : Nat) : Option (Nat × TokMap) :=
  match getUnused m max with
  | none => none
  | some i => some (i, { used := updateFn m.used i (some p), counter := i + 1 })

/-- `remove_app_ptr(idx)`: aborts when the token is not in the table -/
def TokMap.remove (m : TokMap) (t : Nat) : Option TokMap :=
  if m.used t = none then none else some { m with used := updateFn m.used t none }

/-- `lookup_index(idx)`: aborts when the token is not in the table -/
def TokMap.lookup (m : TokMap) (t : Nat) : Option Nat := m.used t

/-- operations on the bare table -/
inductive TokOp
  | reg (p : Nat)
  | rel (t : Nat)
deriving Repr

/-- one step; an aborting operation leaves the table unchanged (the process would be gone; with
exceptions enabled the table is untouched because the abort precedes every mutation) -/
def TokMap.step (m : TokMap) (max : Nat) : TokOp → TokMap
  | .reg p => match m.register max p with | some (_, m') => m' | none => m
  | .rel t => match m.remove t with | some m' => m' | none => m

/-! ## Owner objects (`app_pointer`) over one table -/

/-- state: the table plus the token held by each owner variable (0 = empty/unregistered) -/
structure OwnState where
  map    : TokMap
  owners : Nat → Nat      -- owner variable ↦ idx

inductive OwnOp
  | assignNew (dst : Nat) (p : Nat)   -- `dst = sandbox.get_app_pointer(p)` (move-assign of a fresh owner)
  | moveAssign (dst src : Nat)        -- `dst = std::move(src)`
  | unregister (o : Nat)              -- `o.unregister()` / destructor followed by re-initialisation
deriving Repr

def setOwner (f : Nat → Nat) (k v : Nat) : Nat → Nat := fun o => if o = k then v else f o

/-- `app_pointer::unregister()`: release the token if one is held -/
def OwnState.release (s : OwnState) (o : Nat) : Option OwnState :=
  if s.owners o = 0 then some s
  else match s.map.remove (s.owners o) with
    | none => none
    | some m' => some { map := m', owners := setOwner s.owners o 0 }

/-- `operator=(app_pointer&&)`: releases what the destination held, then takes over the source and
leaves it inert (self-assignment is a no-op) -/
def OwnState.step (s : OwnState) (max : Nat) : OwnOp → Option OwnState
  | .unregister o => s.release o
  | .moveAssign dst src =>
      if dst = src then some s else
      match s.release dst with
      | none => none
      | some s1 => some { s1 with owners := setOwner (setOwner s1.owners dst (s1.owners src)) src 0 }
  | .assignNew dst p =>
      -- the temporary is registered first, then move-assigned onto dst, then destroyed (inert)
      match s.map.register max p with
      | none => none
      | some (t, m') =>
        let s0 : OwnState := { map := m', owners := s.owners }
        match s0.release dst with
        | none => none
        | some s1 => some { s1 with owners := setOwner s1.owners dst t }

end Rlbox
