import RlboxModel.IntConv
import RlboxModel.Ptr
import RlboxModel.Layout
/-!
# Sandbox memory, little-endian encoding, pointer translation of the mask-based backends

* `Mem`: bytes of one region indexed by offset.
* `encodeLE`/`decodeLE`: the object representation of integers of the sandbox ABI.
* `tvStore`/`tvLoad`: `tainted_volatile<T>::operator=` / `get_raw_value` for integer `T`:
  convert with `convertFund` (C06), then write/read exactly `guest.bytes` bytes.
* `toGuest`/`toApp`: `impl_get_sandboxed_pointer` / `impl_get_unsandboxed_pointer` of the
  mask-based backends together with the core's null short-circuit
  (`rlbox_sandbox::get_[un]sandboxed_pointer[_no_ctx]`).
Core Lean only.
-/
namespace Rlbox

abbrev Mem := Nat → Nat   -- offset ↦ byte value (0..255)

/-- little-endian bytes of `v mod 256^n` -/
def encodeLE : Nat → Nat → List Nat
  | 0, _ => []
  | n + 1, v => (v % 256) :: encodeLE n (v / 256)

def decodeLE : List Nat → Nat
  | [] => 0
  | b :: bs => b + 256 * decodeLE bs

def Mem.write (m : Mem) (a : Nat) (bs : List Nat) : Mem :=
  fun x => if a ≤ x ∧ x < a + bs.length then bs.getD (x - a) 0 else m x

def Mem.read (m : Mem) (a n : Nat) : List Nat := (List.range n).map fun i => m (a + i)

/-- two's-complement image of a value of type `t` -/
def IntTy.toBits (t : IntTy) (v : Int) : Nat := (v % (2 ^ t.bits : Int)).toNat
/-- value denoted by the stored bits -/
def IntTy.ofBits (t : IntTy) (b : Nat) : Int :=
  if t.signed ∧ b ≥ 2 ^ (t.bits - 1) then (b : Int) - 2 ^ t.bits else b

/-- `*p = v` for an integer `T`: ABI conversion (abort if unrepresentable), then exactly
`guest.bytes` bytes at `a`. -/
def tvStore (abi : Abi) (t : BaseTy) (a : Nat) (v : Int) (m : Mem) : Option Mem :=
  match toSandbox abi t v with
  | none => none
  | some g => some (m.write a (encodeLE (t.guest abi).bytes ((t.guest abi).toBits g)))

/-- `tainted<T> x = *p`: read exactly `guest.bytes` bytes, decode per the guest type, convert to the
application type (abort if unrepresentable) -/
def tvLoad (abi : Abi) (t : BaseTy) (a : Nat) (m : Mem) : Option Int :=
  toApplication abi t ((t.guest abi).ofBits (decodeLE (m.read a (t.guest abi).bytes)))

/-- `*pd = *ps` for sandbox references to integers `U` (source) and `T` (destination): the source is
read with ITS guest width and decoded per ITS guest type, converted to the guest type of `T`
(abort if unrepresentable: `convert_type_non_class<NO_CHANGE>`), and exactly `guest T` bytes are
written at the destination -/
def tvCopy (abi : Abi) (t u : BaseTy) (dst src : Nat) (m : Mem) : Option Mem :=
  match convertFund (t.guest abi) (u.guest abi) ((u.guest abi).ofBits (decodeLE (m.read src (u.guest abi).bytes))) with
  | none => none
  | some r => some (m.write dst (encodeLE (t.guest abi).bytes ((t.guest abi).toBits r)))

/-- the guest value a cell of type `T` holds -/
def guestValueAt (abi : Abi) (t : BaseTy) (a : Nat) (m : Mem) : Int :=
  (t.guest abi).ofBits (decodeLE (m.read a (t.guest abi).bytes))

/-! ## Pointer translation -/

/-- a live sandbox of a mask-based backend: region + guest pointer width (bytes) -/
structure Sbx where
  region : Region
  ptrBytes : Nat
deriving DecidableEq, Repr, Inhabited

/-- `get_unsandboxed_pointer(rep)`: 0 ↦ null, otherwise base + (rep mod 2^k) -/
def toApp (s : Sbx) (rep : Nat) : Nat :=
  if rep = 0 then 0 else s.region.base + rep % 2 ^ s.region.k

/-- `get_sandboxed_pointer(addr)`: null ↦ 0, otherwise (addr - base) truncated to the guest pointer -/
def toGuest (s : Sbx) (a : Nat) : Nat :=
  if a = 0 then 0 else ((a + W64 - s.region.base) % W64) % 2 ^ (8 * s.ptrBytes)

/-- the two checked entry points for raw application pointers (`assign_raw_pointer`,
`UNSAFE_accept_pointer`): `dynamic_check(is_pointer_in_sandbox_memory(p))`, then the address is
stored as given (a `tainted`) or as its sandbox representation (a `tainted_volatile`). -/
def acceptPointer (s : Sbx) (a : Nat) : Option Nat :=
  if s.region.contains a then some a else none

def acceptPointerVol (s : Sbx) (a : Nat) : Option Nat :=
  if s.region.contains a then some (toGuest s a) else none

/-- base recovered from an example address by the context-free entry points -/
def baseOfExample (k ex : Nat) : Nat := ex / 2 ^ k * 2 ^ k

def toAppNoCtx (k : Nat) (ex rep : Nat) : Nat :=
  if rep = 0 then 0 else baseOfExample k ex + rep % 2 ^ k

def toGuestNoCtx (k ptrBytes : Nat) (ex a : Nat) : Nat :=
  if a = 0 then 0 else ((a + W64 - baseOfExample k ex) % W64) % 2 ^ (8 * ptrBytes)

/-- the live-sandbox registry: `find_sandbox_from_example` returns the first live sandbox whose
region contains the example -/
def findSandbox (reg : List Sbx) (ex : Nat) : Option Sbx := reg.find? fun s => decide (s.region.contains ex)

/-- store of a pointer into a cell at address `cell` (example = the cell's own address) -/
def ptrStore (k ptrBytes : Nat) (cell a : Nat) : Nat := toGuestNoCtx k ptrBytes cell a
/-- load of a pointer from a cell at address `cell` holding representation `rep` -/
def ptrLoad (k : Nat) (cell rep : Nat) : Nat := toAppNoCtx k cell rep

/-- a pointer store into the cell at offset `off` of sandbox `s`'s memory image: exactly `ptrBytes`
bytes, holding the representation relative to THIS sandbox (example = the cell's own address) -/
def ptrStoreMem (s : Sbx) (off a : Nat) (m : Mem) : Mem :=
  m.write off (encodeLE s.ptrBytes (ptrStore s.region.k s.ptrBytes (s.region.base + off) a))

/-! ## Function pointers: table-based representation -/

/-- what an application-side function-pointer value designates -/
inductive FnRef | null | lib (i : Nat) | cb (k : Nat) | other
deriving DecidableEq, Repr

/-- the backend's table lookup for a representation (`impl_get_unsandboxed_pointer<Fn>`): library
functions occupy 1..nlib, callback entry points cbBase..cbBase+ncb-1; anything else is a non-null,
non-callable marker -/
def backendFn (nlib cbBase ncb rep : Nat) : FnRef :=
  if cbBase ≤ rep ∧ rep < cbBase + ncb then .cb (rep - cbBase)
  else if 1 ≤ rep ∧ rep ≤ nlib then .lib (rep - 1) else .other

/-- `get_unsandboxed_pointer<Fn>(rep)` -- with the sandbox context (call results, callback
arguments) and without it (memory cells, after the owning instance has been found): the
representation 0 becomes null BEFORE the backend is consulted -/
def fnToApp (nlib cbBase ncb rep : Nat) : FnRef :=
  if rep = 0 then .null else backendFn nlib cbBase ncb rep

/-- `get_sandboxed_pointer<Fn>(p)`: null becomes 0 before the backend is consulted -/
def fnToGuest (cbBase : Nat) : FnRef → Option Nat
  | .null => some 0
  | .lib i => some (i + 1)
  | .cb k => some (cbBase + k)
  | .other => none

end Rlbox
