import RlboxModel.IntConv
/-!
# Sizes, alignments and struct layout under an ABI

`CTy` is the universe of C types the model talks about; `size`/`align` follow the natural-alignment
rule of the Itanium/System V ABIs applied to the *guest* primitive widths (this is what the compiler
does for the struct `sandbox_equivalent_specialization` generates from guest-typed fields) or to the
application's widths.  Core Lean only.
-/
namespace Rlbox

inductive CTy
  | base (b : BaseTy)
  | float
  | double
  | enum            -- an unscoped enum with `int`-sized underlying type (kept as is by the ABI map)
  | ptr             -- object or function pointer
  | arr (n : Nat) (el : CTy)
  | struct (fields : List CTy)
deriving Repr, Inhabited

/-- application ABI (x86-64 System V) expressed as an `Abi` record -/
def abiHost : Abi := ⟨2, 4, 8, 8, 8⟩

def roundUp (x a : Nat) : Nat := if a = 0 then x else ((x + a - 1) / a) * a

mutual
  /-- (size, alignment) of a type when `short/int/long/long long/pointer` have the widths in `abi` -/
  def CTy.sizeAlign (abi : Abi) : CTy → Nat × Nat
    | .base b => let w := (b.guest abi).bytes; (w, w)
    | .float => (4, 4)
    | .double => (8, 8)
    | .enum => (4, 4)
    | .ptr => (abi.ptr, abi.ptr)
    | .arr n el => let (s, a) := el.sizeAlign abi; (n * s, a)
    | .struct fs =>
        let (endOff, al) := CTy.layoutGo abi fs 0 1
        (roundUp endOff al, al)
  /-- running (end offset, max alignment) over a field list -/
  def CTy.layoutGo (abi : Abi) : List CTy → Nat → Nat → Nat × Nat
    | [], off, al => (off, al)
    | f :: fs, off, al =>
        let (s, a) := f.sizeAlign abi
        CTy.layoutGo abi fs (roundUp off a + s) (Nat.max al a)
end

def CTy.size (abi : Abi) (t : CTy) : Nat := (t.sizeAlign abi).1
def CTy.align (abi : Abi) (t : CTy) : Nat := (t.sizeAlign abi).2

/-- offsets of the fields of a struct -/
def fieldOffsets (abi : Abi) : List CTy → Nat → List Nat
  | [], _ => []
  | f :: fs, off =>
      let o := roundUp off (f.align abi)
      o :: fieldOffsets abi fs (o + f.size abi)

end Rlbox
