import RlboxModel.Mem
import RlboxModel.Lifecycle
/-!
# `invoke_sandbox_function`: argument and result marshalling (rlbox_sandbox.hpp)

Every argument (plain primitive, `nullptr`, tainted, tainted_opaque, tainted_volatile lvalue,
tainted pointer, callback) is converted to the sandbox representation first -- integers through
`convertFund` (C06), data pointers through the pointer translation (C04), callbacks are their entry
point -- and only when all conversions succeed is the guest function run, exactly once; its result
is converted back and tainted.  Core Lean only.
-/
namespace Rlbox

/-- an application-side argument value (the wrapper form does not matter: plain, tainted, opaque
and tainted_volatile arguments of the same value take the same conversion) -/
inductive AVal
  | int (b : BaseTy) (v : Int)
  | flt (v : Int)            -- float/double: passed through unchanged
  | ptr (addr : Nat)         -- tainted data pointer (application address, 0 = null)
  | null                     -- `nullptr` literal
  | fn (entry : Nat)         -- a registered callback: its entry point
deriving Repr

def argToGuest (abi : Abi) (s : Sbx) : AVal → Option Int
  | .int b v => toSandbox abi b v
  | .flt v => some v
  | .ptr a => some (toGuest s a)
  | .null => some 0
  | .fn e => some e

inductive RetTy | void | int (b : BaseTy) | flt | ptr
deriving Repr

inductive InvRes
  | abortBefore                       -- an argument was not representable: the guest function did not run
  | abortAfter (guestArgs : List Int) -- the guest function ran once, its result was not representable
  | ok (guestArgs : List Int) (ret : Option Int)
deriving Repr, DecidableEq

/-- result conversion TO_APPLICATION -/
def retToApp (abi : Abi) (s : Sbx) : RetTy → Int → Option (Option Int)
  | .void, _ => some none
  | .int b, g => (toApplication abi b g).map some
  | .flt, g => some (some g)
  | .ptr, g => some (some (toApp s g.toNat))

/-- `INTERNAL_invoke_with_func_ptr`: `guestRet` is what the guest function returns (guest value) -/
def invoke (abi : Abi) (s : Sbx) (args : List AVal) (rt : RetTy) (guestRet : Int) : InvRes :=
  match args.mapM (argToGuest abi s) with
  | none => .abortBefore
  | some gs =>
    match retToApp abi s rt guestRet with
    | none => .abortAfter gs
    | some r => .ok gs r

/-- how many times the guest function ran -/
def InvRes.calls : InvRes → Nat
  | .abortBefore => 0
  | _ => 1

end Rlbox
