import RlboxModel.IntConv
/-!
# Call trees: invocations, callbacks, transition notifications (rlbox_sandbox.hpp)

A *call tree* is what happens during one `invoke_sandbox_function`: the guest function runs and may
call callback entry points; each callback body may invoke sandbox functions again (on any live
sandbox), and so on.  A fault (an abort surfaced as an exception) may strike at the argument
conversion of an invocation, inside a callback body, or at the conversion of a callback's result.
`trace` lists the observable events in order, exactly where the code places its transition
notifications (`RLBOX_TRANSITION_ACTION_IN/OUT` and the two scope-exit guards) around
`impl_invoke_with_func_ptr` and the callback interceptor.  Core Lean only.
-/
namespace Rlbox

inductive Fault | none | argConv | body | resultConv
deriving DecidableEq, Repr

mutual
  /-- an invocation of a guest function on sandbox `sb` with argument `arg` -/
  inductive Inv
    | mk (sb : Nat) (arg : Int) (fault : Fault) (cbs : List Cb)
  /-- a call by guest code of callback entry point `slot` with argument `arg`; `ret` is what the
  callback body returns (application value) -/
  inductive Cb
    | mk (slot : Nat) (arg : Int) (ret : Int) (fault : Fault) (invs : List Inv)
end

inductive Ev
  | inI (sb : Nat)            -- ACTION_IN, kind INVOKE
  | outI (sb : Nat)           -- ACTION_OUT, kind INVOKE (scope exit)
  | outC (sb : Nat) (key : Nat) -- ACTION_OUT, kind CALLBACK
  | inC (sb : Nat) (key : Nat)  -- ACTION_IN, kind CALLBACK (scope exit)
  | guest (sb : Nat) (arg : Int)   -- the guest function observed (executing sandbox, argument)
  | cbRun (fn : Nat) (sb : Nat) (arg : Int)  -- the application function that ran, the sandbox reference it got, its argument
  | guestGot (v : Int)        -- value the callback returned to guest code
  | appGot (v : Int)          -- value the invocation returned to the application
deriving DecidableEq, Repr

/-- result of running a piece of the tree: the events, and whether an exception is propagating -/
structure Run where
  evs : List Ev
  exc : Bool
deriving Repr

/-- which application function is registered for entry point `slot` of sandbox `sb` -/
abbrev SlotMap := Nat → Nat → Option Nat

mutual
  /-- `INTERNAL_invoke_with_func_ptr`: ACTION_IN, (scope-exit ACTION_OUT), argument conversion,
  the guest function with its callbacks, result conversion. -/
  def runInv (slots : SlotMap) : Inv → Run
    | .mk sb arg fault cbs =>
      if fault = .argConv then
        -- the conversion of an argument aborts: IN was announced, the guard announces OUT
        ⟨[.inI sb, .outI sb], true⟩
      else
        let body := runCbs slots sb cbs
        let pre := [Ev.inI sb, Ev.guest sb arg] ++ body.evs
        if body.exc then ⟨pre ++ [.outI sb], true⟩
        else ⟨pre ++ [.outI sb, .appGot (arg + 1)], false⟩
  /-- guest code calls its callbacks one after the other; an exception ends the guest function -/
  def runCbs (slots : SlotMap) (sb : Nat) : List Cb → Run
    | [] => ⟨[], false⟩
    | c :: cs =>
      let r := runCb slots sb c
      if r.exc then r
      else let rest := runCbs slots sb cs; ⟨r.evs ++ rest.evs, rest.exc⟩
  /-- the callback interceptor: ACTION_OUT, (scope-exit ACTION_IN), parameter conversion, the
  registered function with the executing sandbox, result conversion -/
  def runCb (slots : SlotMap) (sb : Nat) : Cb → Run
    | .mk slot arg ret fault invs =>
      match slots sb slot with
      | none => ⟨[], true⟩      -- not a registered entry point: a null call in the backend (fault)
      | some fn =>
        let body := runInvs slots invs
        let pre := [Ev.outC sb fn, Ev.cbRun fn sb arg] ++ body.evs
        if body.exc ∨ fault = .body ∨ fault = .resultConv then ⟨pre ++ [.inC sb fn], true⟩
        else ⟨pre ++ [.inC sb fn, .guestGot ret], false⟩
  def runInvs (slots : SlotMap) : List Inv → Run
    | [] => ⟨[], false⟩
    | i :: is =>
      let r := runInv slots i
      if r.exc then r
      else let rest := runInvs slots is; ⟨r.evs ++ rest.evs, rest.exc⟩
end

/-- only the transition notifications -/
def isTransition : Ev → Bool
  | .inI _ | .outI _ | .outC _ _ | .inC _ _ => true
  | _ => false

/-- bracket discipline: a stack automaton.  `inI` pushes an invocation frame, `outI` pops it;
`outC` is only legal inside an invocation frame and pushes a callback frame, `inC` pops it;
a new invocation is legal at top level or inside a callback frame; `guest`/`cbRun` events must agree
with the innermost frame. -/
inductive Frame | inv (sb : Nat) | cb (sb : Nat) (key : Nat)
deriving DecidableEq, Repr

def nestStep (st : Option (List Frame)) (e : Ev) : Option (List Frame) :=
  match st with
  | none => none
  | some stack =>
    match e, stack with
    | .inI sb, [] => some [.inv sb]
    | .inI sb, .cb s k :: rest => some (.inv sb :: .cb s k :: rest)
    | .inI _, .inv _ :: _ => none
    | .outI sb, .inv s :: rest => if s = sb then some rest else none
    | .outI _, _ => none
    | .outC sb k, .inv s :: rest => if s = sb then some (.cb sb k :: .inv s :: rest) else none
    | .outC _ _, _ => none
    | .inC sb k, .cb s k' :: rest => if s = sb ∧ k = k' then some rest else none
    | .inC _ _, _ => none
    -- the guest function observes the sandbox of the innermost invocation as the executing one
    | .guest sb _, .inv s :: rest => if s = sb then some (.inv s :: rest) else none
    | .guest _ _, _ => none
    -- the application function that runs is the one announced for this entry point, and it receives
    -- a reference to the sandbox that is executing
    | .cbRun f sb _, .cb s k :: rest => if s = sb ∧ k = f then some (.cb s k :: rest) else none
    | .cbRun _ _ _, _ => none
    | .guestGot _, .inv s :: rest => some (.inv s :: rest)
    | .guestGot _, _ => none
    | .appGot _, st => some st

/-- the transition events of a trace are well nested and balanced from `stack` back to `stack` -/
def nests (stack : List Frame) (evs : List Ev) : Prop := evs.foldl nestStep (some stack) = some stack

/-- what a client sees that defines only some of the two hooks `RLBOX_TRANSITION_ACTION_IN` / `..._OUT`: the notifications
of a hook that is not defined are absent, everything else is unchanged -/
def hookView (inOn outOn : Bool) (evs : List Ev) : List Ev :=
  evs.filter fun e => match e with
    | .inI _ | .inC _ _ => inOn
    | .outI _ | .outC _ _ => outOn
    | _ => true

/-- number of boundary crossings = number of timing records (one per invocation, one per callback) -/
def crossings (evs : List Ev) : Nat := (evs.filter fun e => match e with | .inI _ => true | .outC _ _ => true | _ => false).length
def records (evs : List Ev) : Nat := (evs.filter fun e => match e with | .outI _ => true | .inC _ _ => true | _ => false).length

end Rlbox
