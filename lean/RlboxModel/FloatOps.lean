import RlboxModel.Casts
/-!
# Operators on tainted floating-point values (rlbox.hpp operator macros, floating-point instantiations)

The operator macros are type-generic: `tainted<float> + tainted<double>`, `x++` on a `tainted<double>` ... are the
plain C++ expressions on the underlying values, wrapped.  Values are exact dyadic rationals (`Dy`, `Casts.lean`);
an operation computes the exact result and rounds it ONCE to the precision of the result type (IEEE-754
round-to-nearest-even; exponent range is not modelled).  `+`, `-`, `*`, unary `-`, `++`, `--`; division is
outside this model (its exact result is not dyadic).  Core Lean only.
-/
namespace Rlbox

def Dy.add (a b : Dy) : Dy := ⟨a.num * 2 ^ b.k + b.num * 2 ^ a.k, a.k + b.k⟩
def Dy.neg (a : Dy) : Dy := ⟨-a.num, a.k⟩
def Dy.sub (a b : Dy) : Dy := a.add b.neg
def Dy.mul (a b : Dy) : Dy := ⟨a.num * b.num, a.k + b.k⟩
def Dy.one : Dy := ⟨1, 0⟩

/-- same rational value -/
def Dy.same (a b : Dy) : Prop := a.num * 2 ^ b.k = b.num * 2 ^ a.k
instance (a b : Dy) : Decidable (a.same b) := by unfold Dy.same; exact inferInstance

/-- one rounding to the precision of `f` -/
def Dy.round (f : FloatTy) (x : Dy) : Dy := ⟨intToFloat f x.num, x.k⟩

/-- an operand type of a floating-point expression -/
inductive NumTy
  | flt (f : FloatTy)
  | int            -- any integer type (its value is an integer)
deriving DecidableEq, Repr

/-- result type of `L op R` when at least one side is floating point (usual arithmetic conversions) -/
def fResTy : NumTy → NumTy → Option FloatTy
  | .flt a, .flt b => some (if a.prec ≥ b.prec then a else b)
  | .flt a, .int => some a
  | .int, .flt b => some b
  | .int, .int => none

inductive FOp | add | sub | mul
deriving DecidableEq, Repr

def FOp.exact : FOp → Dy → Dy → Dy
  | .add => Dy.add | .sub => Dy.sub | .mul => Dy.mul

/-- `a op b` in result type `f`: both operands converted to `f` (an integer operand is rounded by that
conversion, a narrower floating-point operand is unchanged), exact result, one rounding -/
def fbin (f : FloatTy) (op : FOp) (a b : Dy) : Dy := (op.exact (a.round f) (b.round f)).round f

/-- `++x` / `--x` / `x++` / `x--` on a value of type `f`: (value of the expression, new value of the object) -/
def fIncDec (f : FloatTy) (post dec : Bool) (x : Dy) : Dy × Dy :=
  let nw := fbin f (if dec then .sub else .add) x Dy.one
  (if post then x else nw, nw)

/-! ## Special values: signed zeros, infinities, NaN (comparisons and unary minus) -/

/-- a floating-point value including the special ones (`fin d` has `d.num ≠ 0`) -/
inductive FV
  | nan
  | inf (neg : Bool)
  | zero (neg : Bool)
  | fin (d : Dy)
deriving Repr

def FV.isNan : FV → Bool | .nan => true | _ => false

/-- unary minus flips the sign -- of a zero too (`-(+0.0)` is `-0.0`, which `0 - x` is not) -/
def FV.neg : FV → FV
  | .nan => .nan
  | .inf n => .inf (!n)
  | .zero n => .zero (!n)
  | .fin d => .fin d.neg

/-- `a < b` for non-NaN values (the two zeros are equal) -/
def FV.ltB : FV → FV → Bool
  | .nan, _ | _, .nan => false
  | .inf true, .inf true => false
  | .inf true, _ => true
  | _, .inf true => false
  | .inf false, _ => false
  | _, .inf false => true
  | .zero _, .zero _ => false
  | .zero _, .fin d => decide (0 < d.num)
  | .fin d, .zero _ => decide (d.num < 0)
  | .fin a, .fin b => decide (a.num * 2 ^ b.k < b.num * 2 ^ a.k)

inductive FCmp | eq | ne | lt | le | gt | ge
deriving DecidableEq, Repr

/-- the six comparison operators (IEEE-754): every comparison with a NaN is false, except `!=` which is true -/
def fcmp (op : FCmp) (a b : FV) : Bool :=
  if a.isNan || b.isNan then (op == .ne) else
  match op with
  | .lt => a.ltB b
  | .gt => b.ltB a
  | .le => !(b.ltB a)
  | .ge => !(a.ltB b)
  | .eq => !(a.ltB b) && !(b.ltB a)
  | .ne => a.ltB b || b.ltB a

end Rlbox
