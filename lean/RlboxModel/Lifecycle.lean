import RlboxModel.Generated
/-!
# Sandbox lifecycle, live-sandbox registry, callback registrations and their owners

Concrete model of the per-object state of `rlbox_sandbox` (status word, `callback_keys`,
`func_ptr_map`), of the backend slot table (`callback_unique_keys`, `MAX` entries), of the
process-wide `sandbox_list`, and of `sandbox_callback` owner objects.  Finite maps are total
functions (`callback_keys` is only ever searched, appended to and erased from, so membership is all
that is observable).  Every operation returns `none` when a `dynamic_check` fails (abort).
Core Lean only.
-/
namespace Rlbox

inductive Status | notCreated | initializing | created | cleaningUp
deriving DecidableEq, Repr, Inhabited

/-- the enumerators of `Sandbox_Status` in declaration order (checked against the source) -/
def Status.names : List String := ["NOT_CREATED", "INITIALIZING", "CREATED", "CLEANING_UP"]

structure SbxObj where
  status : Status := .notCreated
  keys   : Nat → Bool := fun _ => false          -- callback_keys membership (function ids)
  slots  : Nat → Option Nat := fun _ => none     -- backend callback_unique_keys[k], k < max
  cache  : String → Option Nat := fun _ => none  -- func_ptr_map: name ↦ library it was resolved in
  lib    : Nat := 0                              -- library bound at creation
  inc    : Nat := 0                              -- sandbox_incarnation: number of destroy_sandbox calls so far
  rgn    : Nat := 0                              -- the memory region (address slot) the backend mapped at the last creation
deriving Inhabited

structure World where
  max    : Nat                          -- MAX_CALLBACKS of the backend
  sbx    : Nat → SbxObj
  reg    : List Nat                     -- sandbox_list: live sandbox objects, in insertion order
  owners : Nat → Option (Nat × Nat × Nat)   -- sandbox_callback owner ↦ (sandbox, function, incarnation at registration)
  mapped : List Nat := []               -- regions currently mapped by the backend (created sandboxes and late-failed creations)
deriving Inhabited

def World.init (maxSlots : Nat) : World :=
  { max := maxSlots, sbx := fun _ => {}, reg := [], owners := fun _ => none }

def World.setS (w : World) (i : Nat) (s : SbxObj) : World := { w with sbx := fun j => if j = i then s else w.sbx j }
def World.setO (w : World) (o : Nat) (v : Option (Nat × Nat × Nat)) : World :=
  { w with owners := fun p => if p = o then v else w.owners p }

/-- first index `k` in `[i, i+fuel)` with `p k` -/
def scanIdx (p : Nat → Bool) (i : Nat) : Nat → Option Nat
  | 0 => none
  | f + 1 => if p i then some i else scanIdx p (i + 1) f

/-- `create_sandbox`: compare-exchange NOT_CREATED -> INITIALIZING (abort otherwise), backend
create in region `r` (a backend cannot map a region that is in use), on success store CREATED and
append to the list; on failure the object stays INITIALIZING (its memory stays mapped: the backend
failed late).  By default object `i` uses region `i`; distinct sandbox objects may use the same
region one after the other. -/
def World.create (w : World) (i : Nat) (ok : Bool) (lib : Nat) (r : Nat := i) : Option (World × Bool) :=
  let s := w.sbx i
  if s.status ≠ .notCreated then none else
  if r ∈ w.mapped then none else
  if ok then some ({ w.setS i { s with status := .created, lib := lib, rgn := r } with reg := w.reg ++ [i], mapped := r :: w.mapped }, true)
  else some ({ w.setS i { s with status := .initializing, rgn := r } with mapped := r :: w.mapped }, false)

/-- the sandbox object after `destroy_sandbox`: nothing of this incarnation is left -/
def destroyedObj (s : SbxObj) : SbxObj :=
  { status := .notCreated, keys := fun _ => false, slots := fun _ => none, cache := fun _ => none,
    lib := s.lib, inc := s.inc + 1, rgn := s.rgn }

/-- `destroy_sandbox`: compare-exchange CREATED -> CLEANING_UP (abort otherwise), erase from the
list (abort if absent), clear the symbol cache, clear `callback_keys` and advance the incarnation
counter, store NOT_CREATED, backend destroy (which clears its entry-point table). -/
def World.destroy (w : World) (i : Nat) : Option World :=
  let s := w.sbx i
  if s.status ≠ .created then none else
  if i ∉ w.reg then none else
  some { w.setS i (destroyedObj s) with reg := w.reg.erase i, mapped := w.mapped.erase s.rgn }

def firstFree (w : World) (s : SbxObj) : Option Nat := scanIdx (fun k => (s.slots k).isNone) 0 w.max
def slotOf (w : World) (s : SbxObj) (f : Nat) : Option Nat := scanIdx (fun k => s.slots k == some f) 0 w.max

/-- the sandbox object after an effective unregistration of `f`: key erased, its slot cleared -/
def releasedObj (w : World) (i f : Nat) : SbxObj :=
  { w.sbx i with
    keys := fun g => if g = f then false else (w.sbx i).keys g,
    slots := match slotOf w (w.sbx i) f with
      | some k => fun j => if j = k then none else (w.sbx i).slots j
      | none => (w.sbx i).slots }

/-- the sandbox object after recording key `f` in slot `k` -/
def registeredObj (w : World) (i f k : Nat) : SbxObj :=
  { w.sbx i with
    keys := fun g => if g = f then true else (w.sbx i).keys g,
    slots := fun j => if j = k then some f else (w.sbx i).slots j }

/-- `sandbox_callback::unregister()` / destructor: if the owner holds a registration, call
`unregister_callback(key, incarnation)` on its sandbox (silently ignored unless CREATED and still in
the incarnation the registration was made in; aborts when the key is not in `callback_keys`), then
become empty. -/
def World.release (w : World) (o : Nat) : Option World :=
  match w.owners o with
  | none => some w
  | some (i, f, n) =>
    let s := w.sbx i
    let w1 := w.setO o none
    if s.status ≠ .created ∨ s.inc ≠ n then some w1 else
    if s.keys f = false then none else
    some (w1.setS i (releasedObj w i f))

/-- `dst = std::move(src)`: `dst` first releases what it held, then takes over `src`, which becomes inert -/
def World.moveOwner (w : World) (dst src : Nat) : Option World :=
  if dst = src then some w else
  match w.release dst with
  | none => none
  | some w1 => some ((w1.setO dst (w1.owners src)).setO src none)

/-- `sandbox.register_callback(f)` into the (empty) temporary owner `t`: created-state check,
duplicate-key check, key recorded, backend slot allocation (refused when the table is full).
Returns the slot (entry point). -/
def World.registerNew (w : World) (i t f : Nat) : Option (World × Nat) :=
  let s := w.sbx i
  if s.status ≠ .created then none else
  if s.keys f then none else
  match firstFree w s with
  | none => none
  | some k => some ((w.setS i (registeredObj w i f k)).setO t (some (i, f, s.inc)), k)

/-- the owner index used for the temporary returned by `register_callback` -/
def tmpOwner : Nat := 1000000

/-- `o = sandbox.register_callback(f)`: the temporary is created, then move-assigned onto `o` -/
def World.register (w : World) (i o f : Nat) : Option (World × Nat) :=
  match w.registerNew i tmpOwner f with
  | none => none
  | some (w1, k) => (w1.moveOwner o tmpOwner).map fun w2 => (w2, k)

/-- `find_sandbox_from_example(address inside region r)`: the first live list entry whose region
contains the address -/
def World.find (w : World) (r : Nat) : Option Nat := w.reg.find? (fun j => (w.sbx j).rgn == r)

/-- inside the created window? (`malloc_in_sandbox` returns null outside it, `free_in_sandbox` and
`unregister_callback` are ignored, `register_callback` aborts) -/
def World.isCreated (w : World) (i : Nat) : Bool := (w.sbx i).status == .created

/-- `lookup_symbol(name)`: per-instance cache, filled from the library bound at creation -/
def World.lookup (w : World) (i : Nat) (name : String) : World × Nat :=
  let s := w.sbx i
  match s.cache name with
  | some l => (w, l)
  | none => (w.setS i { s with cache := fun n => if n = name then some s.lib else s.cache n }, s.lib)

/-- by-name resolution against export tables (`exports lib name`): a cached name is served from the cache; otherwise ONLY
the library this instance is bound to is asked (`dlsym(handle, name)`): a name it does not export is "Symbol not found"
(`none` = abort) -- whatever other libraries, other instances or the process-global scope define under that name. -/
def World.resolve (exports : Nat → String → Bool) (w : World) (i : Nat) (name : String) : Option (World × Nat) :=
  match (w.sbx i).cache name with
  | some l => some (w, l)
  | none => if exports (w.sbx i).lib name then some (w.lookup i name) else none

/-- the operations of a history -/
inductive LOp
  | create (i : Nat) (ok : Bool) (lib : Nat) (r : Nat)
  | destroy (i : Nat)
  | register (i o f : Nat)
  | release (o : Nat)
  | move (dst src : Nat)
  | lookup (i : Nat) (name : String)
deriving Repr

/-- one step of a history; an aborting operation ends the process, modelled as "state unchanged" -/
def World.step (w : World) : LOp → World
  | .create i ok lib r => match w.create i ok lib r with | some (w', _) => w' | none => w
  | .destroy i => (w.destroy i).getD w
  | .register i o f => match w.register i o f with | some (w', _) => w' | none => w
  | .release o => (w.release o).getD w
  | .move d s => (w.moveOwner d s).getD w
  | .lookup i n => (w.lookup i n).1

end Rlbox
