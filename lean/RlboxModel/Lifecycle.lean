import RlboxModel.Generated
/-!
# Sandbox lifecycle, live-sandbox registry, callback registrations and their owners

Concrete model of the per-object state of `rlbox_sandbox` (status word, `callback_keys`,
`func_ptr_map`), of the backend slot table (`callback_unique_keys`, `MAX` entries), of the
process-wide `sandbox_list`, and of `sandbox_callback` owner objects.  Finite maps are total
functions (`callback_keys` is only ever searched, appended to and erased from, so membership is all
that is observable).  Every operation returns `none` when a `dynamic_check` fails (abort).
Core Lean only.
-/
namespace Rlbox

inductive Status | notCreated | initializing | created | cleaningUp
deriving DecidableEq, Repr, Inhabited

/-- the enumerators of `Sandbox_Status` in declaration order (checked against the source) -/
def Status.names : List String := ["NOT_CREATED", "INITIALIZING", "CREATED", "CLEANING_UP"]

structure SbxObj where
  status : Status := .notCreated
  keys   : Nat → Bool := fun _ => false          -- callback_keys membership (function ids)
  slots  : Nat → Option Nat := fun _ => none     -- backend callback_unique_keys[k], k < max
  cache  : String → Option Nat := fun _ => none  -- func_ptr_map: name ↦ library it was resolved in
  lib    : Nat := 0                              -- library bound at creation
deriving Inhabited

structure World where
  max    : Nat                          -- MAX_CALLBACKS of the backend
  sbx    : Nat → SbxObj
  reg    : List Nat                     -- sandbox_list: live sandbox objects, in insertion order
  owners : Nat → Option (Nat × Nat)     -- sandbox_callback owner ↦ (sandbox, function) it holds
deriving Inhabited

def World.init (maxSlots : Nat) : World :=
  { max := maxSlots, sbx := fun _ => {}, reg := [], owners := fun _ => none }

def World.setS (w : World) (i : Nat) (s : SbxObj) : World := { w with sbx := fun j => if j = i then s else w.sbx j }
def World.setO (w : World) (o : Nat) (v : Option (Nat × Nat)) : World :=
  { w with owners := fun p => if p = o then v else w.owners p }

/-- first index `k` in `[i, i+fuel)` with `p k` -/
def scanIdx (p : Nat → Bool) (i : Nat) : Nat → Option Nat
  | 0 => none
  | f + 1 => if p i then some i else scanIdx p (i + 1) f

/-- `create_sandbox`: compare-exchange NOT_CREATED -> INITIALIZING (abort otherwise), backend
create, on success store CREATED and append to the list; on failure the object stays INITIALIZING. -/
def World.create (w : World) (i : Nat) (ok : Bool) (lib : Nat) : Option (World × Bool) :=
  let s := w.sbx i
  if s.status ≠ .notCreated then none else
  if ok then some ({ w.setS i { s with status := .created, lib := lib } with reg := w.reg ++ [i] }, true)
  else some (w.setS i { s with status := .initializing }, false)

/-- `destroy_sandbox`: compare-exchange CREATED -> CLEANING_UP (abort otherwise), erase from the
list (abort if absent), store NOT_CREATED, clear the symbol cache, backend destroy.
`callback_keys` and the backend slot table are left as they are. -/
def World.destroy (w : World) (i : Nat) : Option World :=
  let s := w.sbx i
  if s.status ≠ .created then none else
  if i ∉ w.reg then none else
  some { w.setS i { s with status := .notCreated, cache := fun _ => none } with reg := w.reg.erase i }

def firstFree (w : World) (s : SbxObj) : Option Nat := scanIdx (fun k => (s.slots k).isNone) 0 w.max
def slotOf (w : World) (s : SbxObj) (f : Nat) : Option Nat := scanIdx (fun k => s.slots k == some f) 0 w.max

/-- the sandbox object after an effective unregistration of `f`: key erased, its slot cleared -/
def releasedObj (w : World) (i f : Nat) : SbxObj :=
  { w.sbx i with
    keys := fun g => if g = f then false else (w.sbx i).keys g,
    slots := match slotOf w (w.sbx i) f with
      | some k => fun j => if j = k then none else (w.sbx i).slots j
      | none => (w.sbx i).slots }

/-- the sandbox object after recording key `f` in slot `k` -/
def registeredObj (w : World) (i f k : Nat) : SbxObj :=
  { w.sbx i with
    keys := fun g => if g = f then true else (w.sbx i).keys g,
    slots := fun j => if j = k then some f else (w.sbx i).slots j }

/-- `sandbox_callback::unregister()` / destructor: if the owner holds a registration, call
`unregister_callback(key)` on its sandbox (silently ignored unless CREATED; aborts when the key is
not in `callback_keys`), then become empty. -/
def World.release (w : World) (o : Nat) : Option World :=
  match w.owners o with
  | none => some w
  | some (i, f) =>
    let s := w.sbx i
    let w1 := w.setO o none
    if s.status ≠ .created then some w1 else
    if s.keys f = false then none else
    some (w1.setS i (releasedObj w i f))

/-- `dst = std::move(src)`: `dst` first releases what it held, then takes over `src`, which becomes inert -/
def World.moveOwner (w : World) (dst src : Nat) : Option World :=
  if dst = src then some w else
  match w.release dst with
  | none => none
  | some w1 => some ((w1.setO dst (w1.owners src)).setO src none)

/-- `sandbox.register_callback(f)` into the (empty) temporary owner `t`: created-state check,
duplicate-key check, key recorded, backend slot allocation (refused when the table is full).
Returns the slot (entry point). -/
def World.registerNew (w : World) (i t f : Nat) : Option (World × Nat) :=
  let s := w.sbx i
  if s.status ≠ .created then none else
  if s.keys f then none else
  match firstFree w s with
  | none => none
  | some k => some ((w.setS i (registeredObj w i f k)).setO t (some (i, f)), k)

/-- the owner index used for the temporary returned by `register_callback` -/
def tmpOwner : Nat := 1000000

/-- `o = sandbox.register_callback(f)`: the temporary is created, then move-assigned onto `o` -/
def World.register (w : World) (i o f : Nat) : Option (World × Nat) :=
  match w.registerNew i tmpOwner f with
  | none => none
  | some (w1, k) => (w1.moveOwner o tmpOwner).map fun w2 => (w2, k)

/-- `find_sandbox_from_example(address inside the region of sandbox object i)`: the first live list
entry whose region contains the address; regions of distinct live objects are disjoint, so this is
`i` iff `i` is in the list -/
def World.find (w : World) (i : Nat) : Option Nat := w.reg.find? (· == i)

/-- inside the created window? (`malloc_in_sandbox` returns null outside it, `free_in_sandbox` and
`unregister_callback` are ignored, `register_callback` aborts) -/
def World.isCreated (w : World) (i : Nat) : Bool := (w.sbx i).status == .created

/-- `lookup_symbol(name)`: per-instance cache, filled from the library bound at creation -/
def World.lookup (w : World) (i : Nat) (name : String) : World × Nat :=
  let s := w.sbx i
  match s.cache name with
  | some l => (w, l)
  | none => (w.setS i { s with cache := fun n => if n = name then some s.lib else s.cache n }, s.lib)

/-- the operations of a history -/
inductive LOp
  | create (i : Nat) (ok : Bool) (lib : Nat)
  | destroy (i : Nat)
  | register (i o f : Nat)
  | release (o : Nat)
  | move (dst src : Nat)
  | lookup (i : Nat) (name : String)
deriving Repr

/-- one step of a history; an aborting operation ends the process, modelled as "state unchanged" -/
def World.step (w : World) : LOp → World
  | .create i ok lib => match w.create i ok lib with | some (w', _) => w' | none => w
  | .destroy i => (w.destroy i).getD w
  | .register i o f => match w.register i o f with | some (w', _) => w' | none => w
  | .release o => (w.release o).getD w
  | .move d s => (w.moveOwner d s).getD w
  | .lookup i n => (w.lookup i n).1

end Rlbox
