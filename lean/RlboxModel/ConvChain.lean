import RlboxModel.IntConv
/-!
# The integer branch of `convert_type_fundamental` as data

`gen/extract_facts.py` TRANSLATES the `if constexpr` chain of rlbox_conversion.hpp into a term of
type `Chain` (Generated.convChain) on every run; `evalChain` gives it its meaning.  `Props/C06.lean`
proves that the hand-written `convertFund` (about which the C06 theorems are stated) IS the
meaning of the translated chain, so the C06 theorems are re-checked against what the source says
now.  Core Lean only.
-/
namespace Rlbox.ConvChain
open Rlbox

/-- the compile-time conditions that occur in the chain -/
inductive Atom
  | signEq      -- is_signed_v<T_To> == is_signed_v<T_From>
  | toGeFrom    -- sizeof(T_To) >= sizeof(T_From)
  | toLeFrom    -- sizeof(T_To) <= sizeof(T_From)
  | toLtFrom    -- sizeof(T_To) <  sizeof(T_From)
  | toGtFrom    -- sizeof(T_To) >  sizeof(T_From)
  | toEqFrom    -- sizeof(T_To) == sizeof(T_From)
  | toUns | frUns | toSig | frSig
  | not (a : Atom)   -- !(...)
deriving DecidableEq, Repr

/-- the dynamic checks -/
inductive Chk
  | leToMax         -- from <= numeric_limits<T_To>::max()
  | geToMin         -- from >= numeric_limits<T_To>::min()
  | geZero          -- from >= 0
  | leToMaxAsFrom   -- from <= static_cast<T_From>(numeric_limits<T_To>::max())
deriving DecidableEq, Repr

/-- what a branch body consists of: dynamic checks and (one level of) nested chains whose bodies are
plain checks; an empty condition list is a final `else`, an `if` without `else` is a one-branch chain -/
inductive Item
  | chk (c : Chk)
  | ifs (bs : List (List Atom × List Chk))
deriving DecidableEq, Repr

abbrev Body := List Item
abbrev Chain := List (List Atom × Body)

def Atom.holds (to fr : IntTy) : Atom → Bool
  | .signEq => to.signed == fr.signed
  | .toGeFrom => decide (to.bytes ≥ fr.bytes)
  | .toLeFrom => decide (to.bytes ≤ fr.bytes)
  | .toLtFrom => decide (to.bytes < fr.bytes)
  | .toGtFrom => decide (to.bytes > fr.bytes)
  | .toEqFrom => decide (to.bytes = fr.bytes)
  | .toUns => !to.signed | .frUns => !fr.signed | .toSig => to.signed | .frSig => fr.signed
  | .not a => !(a.holds to fr)

def Chk.holds (to fr : IntTy) (v : Int) : Chk → Bool
  | .leToMax => decide (v ≤ to.max)
  | .geToMin => decide (v ≥ to.min)
  | .geZero => decide (v ≥ 0)
  | .leToMaxAsFrom => decide (v ≤ fr.cast to.max)

def checksPass (to fr : IntTy) (v : Int) (cs : List Chk) : Bool := cs.all (Chk.holds to fr v)

/-- the checks of the first sub-branch whose conditions hold (none: no check) -/
def subChecks (to fr : IntTy) : List (List Atom × List Chk) → List Chk
  | [] => []
  | (as, cs) :: rest => if as.all (Atom.holds to fr) then cs else subChecks to fr rest

/-- the checks a body performs for this pair of types, in order -/
def bodyChecks (to fr : IntTy) : Body → List Chk
  | [] => []
  | .chk c :: rest => c :: bodyChecks to fr rest
  | .ifs bs :: rest => subChecks to fr bs ++ bodyChecks to fr rest

/-- the checks that guard the final `to = static_cast<T_To>(from)` for this pair of types -/
def chainChecks (to fr : IntTy) : Chain → List Chk
  | [] => []
  | (as, body) :: rest =>
      if as.all (Atom.holds to fr) then bodyChecks to fr body else chainChecks to fr rest

/-- meaning of the chain: every selected check passes, then the cast; otherwise abort -/
def evalChain (c : Chain) (to fr : IntTy) (v : Int) : Option Int :=
  if checksPass to fr v (chainChecks to fr c) then some (to.cast v) else none

end Rlbox.ConvChain
