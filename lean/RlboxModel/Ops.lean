import RlboxModel.IntConv
import RlboxModel.Generated
/-!
# Operators on tainted numbers (rlbox.hpp operator macros)

`PlainSem` is an explicit parameter describing what the *plain* C++ operators do (result type and
value, `none` where the plain expression is undefined).  The rlbox wiring on top of it -- unwrap the
operands, apply the primitive operator the macro names, wrap the result, write back for compound
assignment / increment / decrement -- is `binOp`, `compareOp`, `unaryOp`, `compound`, `incDec`.
`cppSem` is an executable rendering of the C++ rules (integer promotion, usual arithmetic
conversions, modular unsigned arithmetic) used by the correspondence check; the theorems do not
depend on it.  Core Lean only.
-/
namespace Rlbox

inductive BinSym | add | sub | mul | div | mod | xor | band | bor | shl | shr
deriving DecidableEq, Repr
inductive CmpSym | eq | ne | lt | le | gt | ge
deriving DecidableEq, Repr
inductive UnSym | neg | bnot
deriving DecidableEq, Repr
inductive LogSym | land | lor
deriving DecidableEq, Repr

def BinSym.sym : BinSym → String
  | .add => "+" | .sub => "-" | .mul => "*" | .div => "/" | .mod => "%" | .xor => "^" | .band => "&" | .bor => "|"
  | .shl => "<<" | .shr => ">>"
def CmpSym.sym : CmpSym → String
  | .eq => "==" | .ne => "!=" | .lt => "<" | .le => "<=" | .gt => ">" | .ge => ">="

/-- a typed plain value -/
structure TV where
  ty : IntTy
  val : Int
deriving DecidableEq, Repr

/-- semantics of the plain operators -/
structure PlainSem where
  bin : BinSym → TV → TV → Option TV
  cmp : CmpSym → TV → TV → Option Bool
  un  : UnSym → TV → Option TV

/-- how an operand is wrapped -/
inductive Wrap | plain | tainted | tvol
deriving DecidableEq, Repr

/-- an operand: application type, current value, wrapper, and (for tainted_volatile) the guest type
its storage has -/
structure Operand where
  wrap : Wrap
  tv : TV
  guest : IntTy      -- only meaningful for `tvol`
deriving Repr

/-- `detail::unwrap_value`: plain and tainted operands are the value itself; a tainted_volatile
operand is loaded from its guest storage and converted to the application type (abort if that
conversion fails) -/
def unwrap (x : Operand) : Option TV :=
  match x.wrap with
  | .plain | .tainted => some x.tv
  | .tvol => (convertFund x.tv.ty x.guest x.tv.val).map fun v => ⟨x.tv.ty, v⟩

/-- result of an operation on wrappers: aborted, plain expression undefined, or a value -/
inductive Res (α : Type) | abort | undef | ok (v : α)
deriving Repr

/-- `BinaryOpValAndPtr` (numeric branch), `BinaryOp`, `BinaryOpWrappedRhs`: unwrap both, apply the
primitive with the same symbol, wrap as `tainted<decltype(...)>` -/
def binOp (sem : PlainSem) (op : BinSym) (a b : Operand) : Res TV :=
  match unwrap a, unwrap b with
  | some x, some y => match sem.bin op x y with | some r => .ok r | none => .undef
  | _, _ => .abort

inductive CmpWrap | plainBool | taintedBool | hint
deriving DecidableEq, Repr

/-- `CompareOp`: value of the primitive comparison; wrapper: a hint as soon as a tainted_volatile is
involved, otherwise `tainted<bool>` -/
def compareOp (sem : PlainSem) (op : CmpSym) (a b : Operand) : Res (Bool × CmpWrap) :=
  match unwrap a, unwrap b with
  | some x, some y =>
      match sem.cmp op x y with
      | some r => .ok (r, if a.wrap = .tvol ∨ b.wrap = .tvol then .hint else .taintedBool)
      | none => .undef
  | _, _ => .abort

/-- `BooleanBinaryOp` / `BooleanBinaryOpWrappedRhs` (`&&`, `||`): unwrap both operands (both are
evaluated: overloading loses the short circuit), apply the primitive with the same symbol; the result is
`tainted<bool>` whatever the wrappers -/
def logicalOp (log : LogSym → TV → TV → Bool) (op : LogSym) (a b : Operand) : Res Bool :=
  match unwrap a, unwrap b with
  | some x, some y => .ok (log op x y)
  | _, _ => .abort

def unaryOp (sem : PlainSem) (op : UnSym) (a : Operand) : Res TV :=
  match unwrap a with
  | some x => match sem.un op x with | some r => .ok r | none => .undef
  | none => .abort

/-- write-back of `this_ref = <tainted result>`: a `tainted<T>` takes the value as is (the program
only compiles when the result type is `T`); a `tainted_volatile<T>` converts to its guest type and
aborts when the result does not fit -/
def writeBack (a : Operand) (r : TV) : Res TV :=
  match a.wrap with
  | .tvol => match convertFund a.guest r.ty r.val with
      | some g => .ok ⟨a.tv.ty, g⟩     -- stored guest value, read back as application value
      | none => .abort
  | _ => .ok r

/-- `CompoundAssignmentOp(op)`: `this_ref = this_ref op rhs; return this_ref`.
Result: (value of the expression, new value of the left operand). -/
def compound (sem : PlainSem) (op : BinSym) (a b : Operand) : Res (TV × TV) :=
  match binOp sem op a b with
  | .ok r => match writeBack a r with | .ok n => .ok (n, n) | .abort => .abort | .undef => .undef
  | .abort => .abort
  | .undef => .undef

def one (t : IntTy) : Operand := ⟨.plain, ⟨⟨true, 4, false⟩, 1⟩, t⟩

/-- `PreIncDecOps` / `PostIncDecOps`: through `+ 1` / `- 1` and the write-back; the post forms return
the old value. Result: (value of the expression, new value of the operand). -/
def incDec (sem : PlainSem) (dec post : Bool) (a : Operand) : Res (TV × TV) :=
  match unwrap a with
  | none => .abort
  | some old =>
    match compound sem (if dec then .sub else .add) a (one a.guest) with
    | .ok (_, n) => .ok (if post then old else n, n)
    | .abort => .abort
    | .undef => .undef

/-! ## An executable rendering of the C++ integer rules (LP64) -/

def tInt : IntTy := ⟨true, 4, false⟩
def promote (t : IntTy) : IntTy := if t.bytes < 4 then tInt else { t with isBool := false }

/-- usual arithmetic conversions on promoted types -/
def uac (a b : IntTy) : IntTy :=
  let a := promote a; let b := promote b
  if a.signed = b.signed then (if a.bytes ≥ b.bytes then a else b)
  else
    let u := if a.signed then b else a
    let s := if a.signed then a else b
    if u.bytes ≥ s.bytes then u else s

def fits (t : IntTy) (v : Int) : Bool := decide (t.inRange v)

def cppBin (op : BinSym) (x y : TV) : Option TV :=
  match op with
  | .shl | .shr =>
      let r := promote x.ty
      let a := r.cast x.val
      let n := y.val
      if n < 0 ∨ n ≥ r.bits then none else
      if op = .shl then
        if r.signed then (if a < 0 ∨ ¬ fits r (a * 2 ^ n.toNat) then none else some ⟨r, a * 2 ^ n.toNat⟩)
        else some ⟨r, r.cast (a * 2 ^ n.toNat)⟩
      else some ⟨r, a / 2 ^ n.toNat⟩       -- arithmetic shift (floor), as gcc/clang implement it
  | _ =>
      let r := uac x.ty y.ty
      let a := r.cast x.val
      let b := r.cast y.val
      let wrap (v : Int) : Option TV := if r.signed then (if fits r v then some ⟨r, v⟩ else none) else some ⟨r, r.cast v⟩
      match op with
      | .add => wrap (a + b)
      | .sub => wrap (a - b)
      | .mul => wrap (a * b)
      | .div => if b = 0 then none else wrap (Int.tdiv a b)
      | .mod => if b = 0 then none else (if r.signed ∧ ¬ fits r (Int.tdiv a b) then none else some ⟨r, Int.tmod a b⟩)
      | .xor => some ⟨r, r.cast (((r.toUnsigned.cast a).toNat ^^^ (r.toUnsigned.cast b).toNat : Nat) : Int)⟩
      | .band => some ⟨r, r.cast (((r.toUnsigned.cast a).toNat &&& (r.toUnsigned.cast b).toNat : Nat) : Int)⟩
      | .bor => some ⟨r, r.cast (((r.toUnsigned.cast a).toNat ||| (r.toUnsigned.cast b).toNat : Nat) : Int)⟩
      | _ => none

def cppCmp (op : CmpSym) (x y : TV) : Option Bool :=
  let r := uac x.ty y.ty
  let a := r.cast x.val
  let b := r.cast y.val
  some (match op with
    | .eq => a == b | .ne => a != b | .lt => decide (a < b) | .le => decide (a ≤ b) | .gt => decide (a > b) | .ge => decide (a ≥ b))

/-- the plain `&&` and `||` on integers: each operand is contextually converted to `bool` (non-zero) first -/
def cppLog (op : LogSym) (x y : TV) : Bool :=
  match op with
  | .land => (x.val != 0) && (y.val != 0)
  | .lor => (x.val != 0) || (y.val != 0)

def cppUn (op : UnSym) (x : TV) : Option TV :=
  let r := promote x.ty
  let a := r.cast x.val
  match op with
  | .neg => if r.signed then (if fits r (-a) then some ⟨r, -a⟩ else none) else some ⟨r, r.cast (-a)⟩
  | .bnot => some ⟨r, r.cast (-a - 1)⟩

def cppSem : PlainSem := ⟨cppBin, cppCmp, cppUn⟩

end Rlbox
