import RlboxModel.Ptr
/-!
# Bulk memory operations (rlbox_stdlib.hpp, rlbox.hpp range helpers)

Each operation is a function from its operands to `none` (abort) or the list of byte ranges
`(start, length)` it is allowed to touch, exactly in the order the code performs its checks.
`k` is the region exponent of the mask-based backend, `total = get_total_memory()`.
-/
namespace Rlbox

/-- `memset(sandbox, ptr, value, num)`: `num <= total`, then the destination range. -/
def memsetOp (k total dst n : Nat) : Option (List (Nat × Nat)) :=
  if n ≤ total ∧ checkRange k dst n then some [(dst, n)] else none

/-- `memcpy(sandbox, dest, src, num)` / `memcmp`: `num <= total`, destination range, source range. -/
def memcpyOp (k total dst src n : Nat) : Option (List (Nat × Nat)) :=
  if n ≤ total ∧ checkRange k dst n ∧ checkRange k src n then some [(dst, n), (src, n)] else none

/-- `verify_range_helper(count)` on a pointer to elements of `elSize` bytes:
`count != 0`, null passes through, `count * sizeof(El)` must fit in `size_t`, then the range check.
Result: the start (0 for null) -/
def verifyRangeHelper (k p count elSize : Nat) : Option Nat :=
  if count = 0 then none
  else if p = 0 then some 0
  else if count > (W64 - 1) / elSize then none
  else if checkRange k p (count * elSize) then some p else none

/-- `unverified_safe_pointer_because(count, reason)`: null passes through, otherwise `count`
elements of the pointee (`elSize` = its size in the application's layout: the raw pointer handed
back is indexed by the application) must fit in `size_t` and must not cross. -/
def safePointerBecause (k p count elSize : Nat) : Option Nat :=
  if p = 0 then some 0
  else if count > (W64 - 1) / elSize then none
  else if checkRange k p (elSize * count) then some p else none

/-- `copy_memory_or_deny_access` without `can_grant_deny_access`: `malloc(num*sizeof(T))`, then
`copy_and_verify_buffer_address(num)` on the source (a null source yields "nothing copied"), then
`memcpy(copy, src, num*sizeof(T))`. Result: the sandbox range read (`none` = abort,
`some none` = null result). -/
def denyAccessCopy (k p num elSize : Nat) : Option (Option (Nat × Nat)) :=
  match verifyRangeHelper k p num elSize with
  | none => none
  | some 0 => some none
  | some q => some (some (q, num * elSize))

/-- The copy path at the memory level, with `free_source_on_copy`: `memcpy(copy, src, n)` and only THEN
`sandbox.free_in_sandbox(src)`.  `free` is whatever the sandbox's own allocator does to its memory when it
gets the block back (guest code: arbitrary).  Result: the application's copy and the sandbox memory afterwards. -/
def denyCopyMem (mem : Nat → Nat) (free : (Nat → Nat) → (Nat → Nat)) (q n : Nat) (freeSrc : Bool) :
    List Nat × (Nat → Nat) :=
  let copy := (List.range n).map fun i => mem (q + i)
  (copy, if freeSrc then free mem else mem)

end Rlbox
