/-!
# Integer conversion across the ABI boundary (model of `rlbox_conversion.hpp`)

`convertFund` is a literal transcription of the integral part of
`rlbox::detail::convert_type_fundamental` (same branch order, same comparisons, the final
`static_cast`).  An abort (`dynamic_check` failure) is `none`.
Core Lean only.
-/
namespace Rlbox

/-- A C++ integer type as rlbox's traits see it (`std::is_signed_v`, `sizeof`).
`bool` is unsigned, one byte, and its `static_cast` is `≠ 0`. -/
structure IntTy where
  signed : Bool
  bytes  : Nat
  isBool : Bool := false
deriving DecidableEq, Repr, Inhabited

namespace IntTy

def bits (t : IntTy) : Nat := 8 * t.bytes

/-- `std::numeric_limits<T>::min()` -/
def min (t : IntTy) : Int := if t.signed then -(2 ^ (t.bits - 1) : Int) else 0
/-- `std::numeric_limits<T>::max()` -/
def max (t : IntTy) : Int :=
  if t.isBool then 1 else if t.signed then 2 ^ (t.bits - 1) - 1 else 2 ^ t.bits - 1

/-- the set of mathematical values representable in `t` -/
def inRange (t : IntTy) (v : Int) : Prop := t.min ≤ v ∧ v ≤ t.max
instance (t : IntTy) (v : Int) : Decidable (t.inRange v) := by
  unfold inRange; exact inferInstance

/-- `static_cast<T>(v)`: modular wrap for integers, `v ≠ 0` for `bool`. -/
def cast (t : IntTy) (v : Int) : Int :=
  if t.isBool then (if v = 0 then 0 else 1)
  else
    let m : Int := 2 ^ t.bits
    let r := v % m
    if t.signed ∧ r ≥ m / 2 then r - m else r

/-- the widths C++ integer types have on the platforms rlbox supports; `bool` is 1 byte unsigned -/
def wf (t : IntTy) : Prop :=
  (t.bytes = 1 ∨ t.bytes = 2 ∨ t.bytes = 4 ∨ t.bytes = 8) ∧
  (t.isBool = true → t.bytes = 1 ∧ t.signed = false)
instance (t : IntTy) : Decidable t.wf := by unfold wf; exact inferInstance

def toUnsigned (t : IntTy) : IntTy := { t with signed := false }

end IntTy

/-- literal transcription of the `if constexpr` chain in `convert_type_fundamental`
(rlbox_conversion.hpp, the `is_integral` branch). -/
def convertFund (to fr : IntTy) (v : Int) : Option Int :=
  if to.signed = fr.signed ∧ to.bytes ≥ fr.bytes then
    -- Eg: int64_t from int32_t, uint64_t from uint32_t : no check
    some (to.cast v)
  else if ¬ to.signed ∧ ¬ fr.signed then
    -- Eg: uint32_t from uint64_t
    if v ≤ to.max then some (to.cast v) else none
  else if to.signed ∧ fr.signed then
    -- Eg: int32_t from int64_t
    if v ≥ to.min ∧ v ≤ to.max then some (to.cast v) else none
  else if ¬ to.signed ∧ fr.signed then
    if to.bytes < fr.bytes then
      -- Eg: uint32_t from int64_t
      if v ≥ 0 ∧ v ≤ fr.cast to.max then some (to.cast v) else none
    else
      -- Eg: uint32_t from int32_t, uint64_t from int32_t
      if v ≥ 0 then some (to.cast v) else none
  else
    -- to signed, from unsigned
    if to.bytes ≤ fr.bytes then
      -- Eg: int32_t from uint32_t, int32_t from uint64_t
      if v ≤ fr.cast to.max then some (to.cast v) else none
    else
      -- Eg: int64_t from uint32_t
      some (to.cast v)

/-- `convert_type_fundamental_or_array` on a (flattened) array: the `memcpy` branch is taken iff
element size and signedness agree, otherwise element-wise conversion; any failing element aborts
the whole conversion. `memcpy` between equal-width equal-signedness integer arrays is the identity
on the stored values (for a `bool` destination fed from `unsigned char` this stores non-canonical
`bool` bytes; that pair is outside C06, see Props/C06.lean). -/
def convertArr (to fr : IntTy) (vs : List Int) : Option (List Int) :=
  if to.bytes = fr.bytes ∧ to.signed = fr.signed then
    some vs   -- memcpy: the bytes are copied unchanged (same width, same signedness)
  else
    vs.mapM (convertFund to fr)

/-! ## The C++ integer types of the platform (index = wire code of the line protocol) -/

def intTys : List (String × IntTy) :=
  [ ("bool",   ⟨false, 1, true⟩),
    ("char",   ⟨true, 1, false⟩),
    ("schar",  ⟨true, 1, false⟩),
    ("uchar",  ⟨false, 1, false⟩),
    ("short",  ⟨true, 2, false⟩),
    ("ushort", ⟨false, 2, false⟩),
    ("int",    ⟨true, 4, false⟩),
    ("uint",   ⟨false, 4, false⟩),
    ("long",   ⟨true, 8, false⟩),
    ("ulong",  ⟨false, 8, false⟩),
    ("llong",  ⟨true, 8, false⟩),
    ("ullong", ⟨false, 8, false⟩),
    ("char16", ⟨false, 2, false⟩),
    ("char32", ⟨false, 4, false⟩),
    ("wchar",  ⟨true, 4, false⟩) ]

def intTyOfName (n : String) : Option IntTy := (intTys.find? (·.1 == n)).map (·.2)

/-! ## ABI mapping (`convert_base_types_t`) -/

/-- widths (in bytes) the backend gives to `short`, `int`, `long`, `long long` and pointers -/
structure Abi where
  short : Nat
  int   : Nat
  long  : Nat
  llong : Nat
  ptr   : Nat
deriving DecidableEq, Repr, Inhabited

/-- application-side C++ base types that `convert_base_types_t` knows -/
inductive BaseTy
  | bool | char | schar | uchar | short | ushort | int | uint | long | ulong | llong | ullong
  | char16 | char32
deriving DecidableEq, Repr, Inhabited

/-- application-side (x86-64 Linux) description of each base type -/
def BaseTy.app : BaseTy → IntTy
  | .bool => ⟨false, 1, true⟩ | .char => ⟨true, 1, false⟩ | .schar => ⟨true, 1, false⟩
  | .uchar => ⟨false, 1, false⟩ | .short => ⟨true, 2, false⟩ | .ushort => ⟨false, 2, false⟩
  | .int => ⟨true, 4, false⟩ | .uint => ⟨false, 4, false⟩ | .long => ⟨true, 8, false⟩
  | .ulong => ⟨false, 8, false⟩ | .llong => ⟨true, 8, false⟩ | .ullong => ⟨false, 8, false⟩
  | .char16 => ⟨false, 2, false⟩ | .char32 => ⟨false, 4, false⟩

/-- `convert_base_types_t<T, …>`: `short/int/long/long long` map to the backend's types,
unsigned types to `make_unsigned<convert<make_signed<T>>>`, `bool/char/signed char` to themselves
(`unsigned char` → via `signed char` → itself; `char16_t` → via `short`; `char32_t` → via `int`). -/
def BaseTy.guest (abi : Abi) : BaseTy → IntTy
  | .bool => ⟨false, 1, true⟩ | .char => ⟨true, 1, false⟩ | .schar => ⟨true, 1, false⟩
  | .uchar => ⟨false, 1, false⟩
  | .short => ⟨true, abi.short, false⟩ | .ushort => ⟨false, abi.short, false⟩
  | .int => ⟨true, abi.int, false⟩ | .uint => ⟨false, abi.int, false⟩
  | .long => ⟨true, abi.long, false⟩ | .ulong => ⟨false, abi.long, false⟩
  | .llong => ⟨true, abi.llong, false⟩ | .ullong => ⟨false, abi.llong, false⟩
  | .char16 => ⟨false, abi.short, false⟩ | .char32 => ⟨false, abi.int, false⟩

def Abi.wf (a : Abi) : Prop :=
  (a.short = 1 ∨ a.short = 2 ∨ a.short = 4 ∨ a.short = 8) ∧
  (a.int = 1 ∨ a.int = 2 ∨ a.int = 4 ∨ a.int = 8) ∧
  (a.long = 1 ∨ a.long = 2 ∨ a.long = 4 ∨ a.long = 8) ∧
  (a.llong = 1 ∨ a.llong = 2 ∨ a.llong = 4 ∨ a.llong = 8)

/-- the three ABIs of the verification backend (DESIGN §2.2): A wasm32-like, B LP64-like with
integer pointers, C widening -/
def abiA : Abi := ⟨2, 4, 4, 8, 4⟩
def abiB : Abi := ⟨2, 4, 8, 8, 8⟩
def abiC : Abi := ⟨4, 8, 8, 8, 4⟩

/-- store into sandbox memory / argument to the sandbox / result of a callback -/
def toSandbox (abi : Abi) (t : BaseTy) (v : Int) : Option Int := convertFund (t.guest abi) t.app v
/-- load from sandbox memory / result of a sandbox call / argument of a callback -/
def toApplication (abi : Abi) (t : BaseTy) (v : Int) : Option Int := convertFund t.app (t.guest abi) v

end Rlbox
