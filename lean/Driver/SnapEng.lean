import RlboxModel.Snapshot
import Driver.Util
/-! Engine `snap` (C09): the set of outcomes of a `copy_and_verify` variant over ALL single-point
byte-level schedules of an adversary action, in the harness's canonical outcome format
(`harness/h_snap.cpp`).   snapset <variant> <src> <action>  -> outcome | outcome | ... -/
namespace Driver.SnapEng
open Rlbox Rlbox.Snap Driver

def STR : Nat := 0x100
def ALT : Nat := 0x200
def ARR : Nat := 0x300
def ALTARR : Nat := 0x340
def CELL : Nat := 0x400
def STRUCT : Nat := 0x500
def ALTSTRUCT : Nat := 0x540
def IDX : Nat := 0x600

def le32 (v : Nat) : List Nat := encodeLE 4 v
def chars (s : String) : List Nat := s.toList.map Char.toNat

def initMem : Mem :=
  let m : Mem := fun _ => 0
  let m := m.write STR (chars "hello" ++ [0] ++ List.replicate 10 70 ++ [0])
  let m := m.write ALT (chars "WORLD!!" ++ [0])
  let m := m.write ARR (le32 11 ++ le32 22 ++ le32 33 ++ le32 44)
  let m := m.write ALTARR (le32 91 ++ le32 92 ++ le32 93 ++ le32 94)
  let m := m.write STRUCT ([99, 0, 0, 0] ++ le32 1234 ++ le32 ARR)
  let m := m.write ALTSTRUCT ([100, 0, 0, 0] ++ le32 4321 ++ le32 STR)
  m

def peek32 (m : Mem) (a : Nat) : Nat := decodeLE (m.read a 4)

def action (name : String) (m : Mem) : Option Mem :=
  match name with
  | "none" => some m
  | "flip" =>
      let m1 := m.write STR ((m.read STR 5).map (· ^^^ 0x20))
      let m2 := m1.write ARR (((List.range 4).map fun i => le32 ((peek32 m1 (ARR + 4 * i) + 100) % 4294967296)).flatten)
      some ((m2.write STRUCT [81]).write (STRUCT + 4) (le32 777 ++ le32 ALT))
  | "lengthen" => some (m.write (STR + 5) [88, 89, 90, 87, 0])
  | "shorten" => some (m.write (STR + 2) [0])
  | "unterminate" => some (m.write (STR + 5) (List.replicate 200 85 ++ [0]))
  | "idxbig" => some (m.write IDX (le32 6))
  | "idxsmall" => some (m.write IDX (le32 1))
  | "idxneg" => some (m.write IDX (le32 4294967295))
  | "nullcell" => some (m.write CELL (le32 0))
  | "retarget" =>
      let cur := peek32 m CELL
      some (m.write CELL (le32 (if cur = STR then ALT else if cur = ARR then ALTARR else if cur = STRUCT then ALTSTRUCT else cur)))
  | _ => none

def hex2 (b : Nat) : String :=
  let d := "0123456789abcdef".toList
  String.ofList [d.getD (b / 16) '0', d.getD (b % 16) '0']
def hexs (bs : List Nat) : String := String.join (bs.map hex2)

def s32 (bs : List Nat) : Int := let v := decodeLE bs; if v ≥ 2147483648 then (v : Int) - 4294967296 else v
def s8 (b : Nat) : Int := if b ≥ 128 then (b : Int) - 256 else b
def showPtr (rep : Nat) : String := if rep = 0 then "null" else s!"in:{rep % 65536}"
def ints (bs : List Nat) : String :=
  ",".intercalate ((List.range (bs.length / 4)).map fun i => toString (s32 ((bs.drop (4 * i)).take 4)))

def showOut (variant : String) (o : Out) : String :=
  match o with
  | .null => if variant == "strs" then "s= size=0" else "null"
  | .abort => "abort"
  | .fault => "segv"
  | .addr a => if variant == "idx" then s!"off={a}" else s!"addr={showPtr a}"
  | .val bs =>
    match variant with
    | "int" | "ptr" => s!"v={s32 bs}"
    | "struct" | "structval" | "structauto" => s!"c={s8 (bs.getD 0 0)},l={s32 ((bs.drop 4).take 4)},p={showPtr (decodeLE ((bs.drop 8).take 4))}"
    | "arr" | "arrref" => s!"a={ints bs}"
    | "range" => s!"a={ints bs} size={bs.length}"
    | "stru" =>
        let nul : Int := match bs.idxOf? 0 with | some i => i | none => -1
        s!"s={hexs bs} size={bs.length} nul={nul}"
    | "strs" => s!"s={hexs bs} size={bs.length}"
    | "copymem" => s!"s={hexs bs} copied=1"
    | _ => "?"

def progOf (variant : String) (src : PSrc) : Option (Prog Out) :=
  match variant with
  | "int" => some (cavScalar ARR 4)
  | "ptr" => some (cavPtr src 4)
  | "struct" => some (cavStruct src 12)
  | "structval" | "structauto" => some (cavScalar STRUCT 12)
  | "arr" | "arrref" => some (cavScalar ARR 16)
  | "range" => some (cavRange src 4 4)
  | "stru" => some (cavStrU src)
  | "strs" => some (cavStrS src)
  | "addr" => some (cavAddr src)
  | "buf" => some (cavBuf src 16)
  | "copymem" => some (copyMem STR 6)
  | "idx" => some (idxVol IDX 4 4)
  | _ => none

def targetOf (variant : String) : Nat :=
  match variant with
  | "struct" => STRUCT
  | "stru" | "strs" => STR
  | _ => ARR

def step (t : List String) : Option String :=
  match t with
  | ["snapset", variant, src, act] =>
      let tgt := targetOf variant
      let psrc := if src == "cell" then PSrc.cell CELL else PSrc.app tgt
      match progOf variant psrc, action act initMem with
      | some prog, some _ =>
          let m0 := if src == "cell" then initMem.write CELL (le32 tgt) else initMem
          let m0 := if variant == "idx" then m0.write IDX (le32 (if src == "in" then 1 else 6)) else m0
          let advAt (k : Nat) : Adv := fun n m => if n = k then (action act m).getD m else m
          let never : Adv := fun _ m => m
          let base := run never prog ⟨m0, 0⟩
          let early := run (advAt 0) prog ⟨m0, 0⟩
          let kmax := Nat.max base.2.clock early.2.clock + 2
          let outs := (List.range (kmax + 1)).map fun k => showOut variant (run (advAt k) prog ⟨m0, 0⟩).1
          let outs := (showOut variant base.1 :: outs).eraseDups
          some (" | ".intercalate outs)
      | _, _ => some "badop"
  | ["snapset2", variant, src, act1, act2] =>
      let tgt := targetOf variant
      let psrc := if src == "cell" then PSrc.cell CELL else PSrc.app tgt
      match progOf variant psrc, action act1 initMem, action act2 initMem with
      | some prog, some _, some _ =>
          let m0 := if src == "cell" then initMem.write CELL (le32 tgt) else initMem
          -- at equal points the first action is applied first
          let advAt (k1 k2 : Nat) : Adv := fun n m =>
            let m1 := if n = k1 then (action act1 m).getD m else m
            if n = k2 then (action act2 m1).getD m1 else m1
          let never : Adv := fun _ m => m
          let base := run never prog ⟨m0, 0⟩
          let kmax := Nat.min 80 (base.2.clock + 12)
          let ks := List.range (kmax + 1)
          let outs := ks.flatMap fun k1 => (ks.filter (· ≥ k1)).map fun k2 => showOut variant (run (advAt k1 k2) prog ⟨m0, 0⟩).1
          some (" | ".intercalate (showOut variant base.1 :: outs).eraseDups)
      | _, _, _ => some "badop"
  | _ => none

end Driver.SnapEng
