import RlboxModel.Lifecycle
import Driver.Util
/-! Engine `hist` (C13, C14): stateful; mirrors `harness/h_hist.cpp`. -/
namespace Driver.HistEng
open Rlbox Driver

structure St where
  w      : World := World.init 2
  vsbx   : Bool := true
  dead   : Bool := false
  brk    : List Nat := [16, 16, 16]

def libName (l : Nat) : String := if l = 0 then "libA" else "libB"
def fnValue (l : Nat) (name : String) : Nat :=
  if name == "whoami" then (if l = 0 then 1 else 2) else (if l = 0 then 11 else 12)

def slotStr (w : World) (s : SbxObj) : String :=
  (List.range w.max).foldl (fun acc k => acc ++ (match s.slots k with | some f => (if f < 10 then toString f else String.singleton (Char.ofNat ('a'.toNat + f - 10))) | none => "-")) ""

def statStr (st : St) : String :=
  let o := (List.range 3).foldl (fun acc p => acc ++ (if (st.w.owners p).isSome then "0" else "1")) "o="
  if st.vsbx then
    (List.range 3).foldl (fun acc i => acc ++ s!" s{i}={slotStr st.w (st.w.sbx i)}") o
  else o

/-- an abort raised by a guard precedes every mutation: the state is unchanged and (with aborts
surfaced as exceptions) the history continues -/
def abortSt (st : St) : St × String := (st, "abort")
/-- a refusal by a full backend table comes after the key was recorded: not comparable afterwards -/
def deadSt (st : St) : St × String := ({ st with dead := true }, "abort")

def tableFull (st : St) (i f : Nat) : Bool :=
  let s := st.w.sbx i
  s.status == .created && s.keys f == false && (firstFree st.w s).isNone

def step (st : St) (t : List String) : Option (St × String) :=
  match t with
  | "hnew" :: be :: _ =>
      let (n, v) := if be == "vsbx2" then (2, true) else if be == "vsbx8" ∨ be == "vsbx8n" then (8, true) else (64, false)
      some ({ w := World.init n, vsbx := v, dead := false, brk := [16, 16, 16] }, "ok")
  | ["hend"] => some (st, "ok")     -- end of a history: every created sandbox can be destroyed
  | _ =>
  if st.dead then
    match t with
    | [] => none
    | c :: _ => if c ∈ ["create", "createat", "destroy", "malloc", "free", "reg", "regfill", "cbunreg", "cbdestroy", "cbmove", "stat", "invoke", "fnaddr", "find", "appptr", "hprobe"]
                then some (st, "dead") else none
  else
  match t with
  | "create" :: i :: ok :: rest => do
      let i ← i.toNat?
      let lib := (rest.head?.bind String.toNat?).getD 0
      let okb := if st.vsbx then ok == "ok" else true
      match st.w.create i okb (if st.vsbx then lib else 0) with
      | none => pure (abortSt st)
      | some (w', r) => pure ({ st with w := w', brk := st.brk.set i 16 }, s!"ok {r}")
  | "createat" :: i :: r :: ok :: rest => do
      -- sandbox object i created in region (address slot) r: distinct objects may use one region one after the other
      let i ← i.toNat?; let r ← r.toNat?
      let lib := (rest.head?.bind String.toNat?).getD 0
      match st.w.create i (ok == "ok") lib r with
      | none => pure (abortSt st)
      | some (w', b) => pure ({ st with w := w', brk := st.brk.set i 16 }, s!"ok {b}")
  | ["destroy", i] => do
      let i ← i.toNat?
      match st.w.destroy i with
      | none => pure (abortSt st)
      | some w' => pure ({ st with w := w' }, "ok")
  | ["malloc", i] => do
      let i ← i.toNat?
      if ¬ st.w.isCreated i then pure (st, "ok null") else
      if st.vsbx then
        let b := st.brk.getD i 16
        pure ({ st with brk := st.brk.set i (b + 8) }, s!"ok in{i}:{b}")
      else pure (st, "ok nonnull")
  | ["free", i] => do
      let i ← i.toNat?
      if st.vsbx then pure (st, if st.w.isCreated i then "ok freed" else "ok ignored") else pure (st, "ok")
  | ["reg", i, o, f] => do
      let i ← i.toNat?; let o ← o.toNat?; let f ← f.toNat?
      match st.w.register i o f with
      | none => pure (if tableFull st i f then deadSt st else abortSt st)
      | some (w', k) => pure ({ st with w := w' }, if st.vsbx then s!"ok slot={k} u0" else "ok slot=nn u0")
  | ["regfill", i, n] => do
      let i ← i.toNat?; let n ← n.toNat?
      let r := (List.range n).foldl (fun (acc : Option World) f => acc.bind fun w => (w.register i (100 + f) f).map (·.1)) (some st.w)
      match r with
      | none => pure (deadSt st)
      | some w' => pure ({ st with w := w' }, "ok filled nullentry=0")
  | ["cbunreg", o] | ["cbdestroy", o] => do
      let o ← o.toNat?
      match st.w.release o with
      | none => pure (abortSt st)
      | some w' => pure ({ st with w := w' }, "ok")
  | ["cbmove", d, s] => do
      let d ← d.toNat?; let s ← s.toNat?
      match st.w.moveOwner d s with
      | none => pure (abortSt st)
      | some w' => pure ({ st with w := w' }, "ok")
  | ["stat"] => pure (st, statStr st)
  | ["invoke", i, name] => do
      let i ← i.toNat?
      if ¬ st.w.isCreated i then pure (st, "notlive") else
      if ¬ st.vsbx then pure (st, "na") else
      let (w', l) := st.w.lookup i name
      pure ({ st with w := w' }, s!"ok {fnValue l name}")
  | ["fnaddr", i, name] => do
      let i ← i.toNat?
      if ¬ st.w.isCreated i then pure (st, "notlive") else
      if ¬ st.vsbx then pure (st, "na") else
      pure (st, s!"ok {libName (st.w.sbx i).lib}.{name}")
  | ["find", i] => do
      let i ← i.toNat?
      if ¬ st.vsbx then pure (st, "na") else
      match st.w.find i with
      | some j => pure (st, s!"ok found {libName (st.w.sbx j).lib}")
      | none => pure (st, "ok notfound")
  | ["appptr", i] => do
      let i ← i.toNat?
      -- backend artefact, not part of C14: the verification backend has no memory before its first (even failed) creation
      -- and after a destroy; a token cannot be turned into an address then
      if st.vsbx ∧ (st.w.sbx i).status == .notCreated then pure (abortSt st) else pure (st, "ok")
  | ["hprobe", i] => do
      let i ← i.toNat?
      let s := st.w.sbx i
      let r := (List.range 5).foldl (fun acc f =>
        acc ++ (if s.status == .created ∧ s.keys f = false ∧ (firstFree st.w s).isSome then "y" else "n")) "canreg="
      pure (st, r)
  | _ => none

end Driver.HistEng
