import RlboxModel.Struct
import Driver.Util
import Driver.Conv
import Driver.PtrEng
/-! Engine `struct` (C08): mirrors `harness/structs_common.hpp`.
   <op> <struct-name> <abi> <type descriptor> | <leaf values>
   descriptor: bool|char|...|ullong | float | double | enum | ptr | fn | arr <n> <T> | struct <k> <T>*k -/
namespace Driver.StructEng
open Rlbox Driver Driver.PtrEng

/-- parse a descriptor: the type plus, per scalar leaf (depth first), whether it is a function pointer -/
partial def parseTy (t : List String) : Option (CTy × List String) :=
  match t with
  | "float" :: r => some (.float, r)
  | "double" :: r => some (.double, r)
  | "enum" :: r => some (.enum, r)
  | "ptr" :: r => some (.ptr, r)
  | "fn" :: r => some (.ptr, r)
  | "arr" :: n :: r => do
      let n ← n.toNat?
      let (el, r') ← parseTy r
      pure (.arr n el, r')
  | "struct" :: k :: r => do
      let k ← k.toNat?
      let rec go (i : Nat) (r : List String) (acc : List CTy) : Option (List CTy × List String) :=
        if i = 0 then some (acc.reverse, r) else
        match parseTy r with
        | none => none
        | some (f, r') => go (i - 1) r' (f :: acc)
      let (fs, r') ← go k r []
      pure (.struct fs, r')
  | b :: r => (Conv.baseTyOfName b).map fun b => (.base b, r)
  | [] => none

/-- leaf tags of a descriptor, depth first: true = function pointer (computed structurally, so that arrays of arrays
and arrays inside structs are handled) -/
partial def tagsOf (t : List String) : Option (List Bool × List String) :=
  match t with
  | "fn" :: r => some ([true], r)
  | "arr" :: n :: r => do
      let n ← n.toNat?
      let (el, r') ← tagsOf r
      pure ((List.replicate n el).flatten, r')
  | "struct" :: k :: r => do
      let k ← k.toNat?
      let rec go (i : Nat) (r : List String) (acc : List Bool) : Option (List Bool × List String) :=
        if i = 0 then some (acc, r) else
        match tagsOf r with
        | none => none
        | some (ts, r') => go (i - 1) r' (acc ++ ts)
      go k r []
  | _ :: r => some ([false], r)
  | [] => none

def leafTags (t : List String) : List Bool := ((tagsOf t).map (·.1)).getD []

/-- build a value of type `t` from leaf tokens; `guest` selects how pointer tokens are read -/
partial def build (guest : Bool) (base : Nat) : CTy → List (String × Bool) → Option (SVal × List (String × Bool))
  | .ptr, (tok, isFn) :: r =>
      if isFn then tok.toNat?.map fun i => (.fn i, r)
      else if tok == "null" then some (.ptr 0, r)
      else tok.toNat?.map fun o => (.ptr (if guest then o else base + o), r)
  | .arr n el, r =>
      let rec go (i : Nat) (r : List (String × Bool)) (acc : List SVal) : Option (List SVal × List (String × Bool)) :=
        if i = 0 then some (acc.reverse, r) else
        match build guest base el r with
        | none => none
        | some (v, r') => go (i - 1) r' (v :: acc)
      (go n r []).map fun (vs, r') => (.arr vs, r')
  | .struct fs, r =>
      let rec goF (fs : List CTy) (r : List (String × Bool)) (acc : List SVal) : Option (List SVal × List (String × Bool)) :=
        match fs with
        | [] => some (acc.reverse, r)
        | f :: fs' =>
          match build guest base f r with
          | none => none
          | some (v, r') => goF fs' r' (v :: acc)
      (goF fs r []).map fun (vs, r') => (.struct vs, r')
  | _, (tok, _) :: r => (parseInt? tok).map fun v => (.int v, r)
  | _, [] => none

def showGuestLeaf : SVal → String
  | .int v => s!"{v}"
  | .ptr r => s!"{r}"
  | .fn i => s!"f{i}"
  | _ => "?"

def showAppLeaf (s : Sbx) : SVal → String
  | .int v => s!"{v}"
  | .ptr a => if a = 0 then "null" else if s.region.contains a then s!"in:{a - s.region.base}" else s!"out:0x{hexStr a}"
  | .fn i => s!"f{i}"
  | _ => "?"

def join (l : List String) : String := ",".intercalate l

def sbxFor (abi : Abi) : Sbx := ⟨regionOf 0, abi.ptr⟩

def step (t : List String) : Option String :=
  match t with
  | op :: _name :: abiName :: rest =>
    if op != "slay" ∧ op != "srt" ∧ op != "sarg" ∧ op != "sret" ∧ op != "srd" then none else
    match Conv.abiOfName abiName with
    | none => some "badop"
    | some abi =>
      let descToks := rest.takeWhile (· != "|")
      let valToks := (rest.dropWhile (· != "|")).drop 1
      match parseTy descToks with
      | some (ty, []) =>
        let s := sbxFor abi
        if op == "slay" then
          some s!"ok size={ty.size abi} align={ty.align abi} offs={join ((leafRel abi ty).map toString)} indep=same"
        else
          let tagged := valToks.zip (leafTags descToks)
          if tagged.length != valToks.length then some "badinput" else
          let guestSide := op == "sret" || op == "srd"
          match build guestSide s.region.base ty tagged with
          | some (v, []) =>
            if op == "srt" then
              match toGuestV abi s v ty with
              | none => some "abort"
              | some g =>
                match toAppV abi s g ty with
                | none => some "abort"
                | some b =>
                  -- frame (C08_store_frame): count the bytes outside the leaves' footprints that the image writes change
                  let base := 0x1000
                  let m0 : Mem := fun _ => 0xEE
                  let m1 := writeMany m0 (imageWrites abi ty g base)
                  let foot := (leafRel abi ty).zip (leafSizes abi ty)
                  let inLeaf (x : Nat) : Bool := foot.any fun (o, sz) => decide (base + o ≤ x ∧ x < base + o + sz)
                  let sz := ty.size abi
                  let pad := ((List.range sz).filter fun k => !inLeaf (base + k) && m1 (base + k) != 0xEE).length
                  let tail := ((List.range 32).filter fun k => m1 (base + sz + k) != 0xEE).length
                  some s!"ok img={join (g.leaves.map showGuestLeaf)} pad={pad} tail={tail} back={join (b.leaves.map (showAppLeaf s))}"
            else if op == "sarg" then
              match toGuestV abi s v ty with
              | none => some "abort"
              | some g => some s!"ok guest={join (g.leaves.map showGuestLeaf)}"
            else
              match toAppV abi s v ty with
              | none => some "abort"
              | some b =>
                let a := join (b.leaves.map (showAppLeaf s))
                if op == "sret" then some s!"ok app={a}" else some s!"ok app={a} const={a} raw={a}"
          | _ => some "badinput"
      | _ => some "badinput"
  | _ => none

end Driver.StructEng
