import RlboxModel.Ptr
import RlboxModel.Layout
import Driver.Util
import Driver.PtrEng
/-! Engine `index` (C17): the model's answers to the lines of `harness/h_index.cpp`. -/
namespace Driver.IndexEng
open Rlbox Driver

def elTy : String → Option CTy
  | "char" => some (.base .char) | "long" => some (.base .long) | "ptr" => some .ptr
  | "short" => some (.base .short) | "int" => some (.base .int) | "uint" => some (.base .uint) | _ => none

def strideOf (kind : String) (t : CTy) : Nat := if kind == "sbx" then t.size abiA else t.size abiHost

def shapeOf (s : String) : Option (List Nat) :=
  let parts := (s.splitOn "x").map String.toNat?
  if parts.all Option.isSome then some (parts.filterMap id) else none

/- `indexMulti` (any rank) is the model's definition (RlboxModel/Ptr.lean), the subject of C17_multi_n. -/

def step (t : List String) : Option String :=
  match t with
  | ["index", kind, el, len, wrap, nty, v] => do
      let ty ← elTy el
      let len ← len.toNat?
      let ity ← intTyOfName nty
      let v ← parseInt? v
      if ity.isBool then pure "badop" else
      if ¬ ity.inRange v then pure "badinput" else
      match ← PtrEng.operand wrap nty v with
      | none => pure "abort"
      | some nv =>
        match indexArr ity nv len (strideOf kind ty) 0 with
        | none => pure "abort"
        | some a => pure s!"ok {a}"
  | "index2" :: kind :: el :: shape :: nty :: idxs => do
      let ty ← elTy el
      let dims ← shapeOf shape
      let ity ← intTyOfName nty
      let vs ← idxs.mapM parseInt?
      if vs.length ≠ dims.length then none else
      if ¬ vs.all (fun v => decide (ity.inRange v)) then pure "badinput" else
      match indexMulti ity vs dims (strideOf kind ty) 0 with
      | none => pure "abort"
      | some a => pure s!"ok {a}"
  | _ => none

end Driver.IndexEng
