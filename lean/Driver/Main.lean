import Driver.Conv
import Driver.PtrEng
import Driver.RangeEng
import Driver.IndexEng
import Driver.TokEng
import Driver.MemEng
import Driver.HistEng
import Driver.OpsEng
import Driver.CallsEng
import Driver.InvokeEng
import Driver.CastsEng
import Driver.FOpsEng
import Driver.TypingEng
import Driver.StructEng
import Driver.SnapEng
import Driver.ThrEng
/-! `rlbox_model_driver`: one operation per line on stdin, one result per line on stdout. -/
open Driver

structure St where
  tok : TokEng.St := {}
  hist : HistEng.St := {}

def firstSome (fs : List (List String → Option String)) (t : List String) : Option String :=
  fs.foldl (fun acc f => match acc with | some r => some r | none => f t) none

def stepLine (s : St) (line : String) : St × String :=
  let t := toks line
  match firstSome [Conv.step, PtrEng.step, RangeEng.step, IndexEng.step, MemEng.step, OpsEng.step, CallsEng.step, InvokeEng.step, CastsEng.step, FOpsEng.step, TypingEng.step, StructEng.step, SnapEng.step, ThrEng.step'] t with
  | some r => (s, r)
  | none =>
  match TokEng.step s.tok t with
  | some (tk, r) => ({ s with tok := tk }, r)
  | none =>
  match HistEng.step s.hist t with
  | some (h, r) => ({ s with hist := h }, r)
  | none => (s, "badop")

partial def loop (h : IO.FS.Stream) (out : IO.FS.Stream) (s : St) : IO Unit := do
  let line ← h.getLine
  if line.isEmpty then return ()
  let t := line.trimAscii.toString
  if t.isEmpty || t.startsWith "#" then loop h out s else
  let (s', r) := stepLine s line
  out.putStrLn r
  loop h out s'

def main : IO Unit := do
  let out ← IO.getStdout
  loop (← IO.getStdin) out {}
  out.flush
