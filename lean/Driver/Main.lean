import Driver.Conv
import Driver.PtrEng
import Driver.RangeEng
import Driver.IndexEng
/-! `rlbox_model_driver`: one operation per line on stdin, one result per line on stdout. -/
open Driver

def stepLine (line : String) : String :=
  let t := toks line
  match Conv.step t with
  | some r => r
  | none =>
  match PtrEng.step t with
  | some r => r
  | none =>
  match RangeEng.step t with
  | some r => r
  | none =>
  match IndexEng.step t with
  | some r => r
  | none => "badop"

partial def loop (h : IO.FS.Stream) (out : IO.FS.Stream) : IO Unit := do
  let line ← h.getLine
  if line.isEmpty then return ()
  let t := line.trimAscii.toString
  if t.isEmpty || t.startsWith "#" then loop h out else
  out.putStrLn (stepLine line)
  loop h out

def main : IO Unit := do
  let out ← IO.getStdout
  loop (← IO.getStdin) out
  out.flush
