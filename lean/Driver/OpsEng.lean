import RlboxModel.Ops
import Driver.Util
import Driver.Conv
/-! Engine `ops` (C16): mirrors `harness/h_ops.cpp` with the executable C++ rendering `cppSem`. -/
namespace Driver.OpsEng
open Rlbox Driver

def tyName (t : IntTy) : String := (if t.isBool then "b" else if t.signed then "s" else "u") ++ toString t.bytes
def showTV (v : TV) : String := s!"{tyName v.ty} {v.val}"

def binOfSym : String → Option BinSym
  | "+" => some .add | "-" => some .sub | "*" => some .mul | "/" => some .div | "%" => some .mod | "^" => some .xor
  | "&" => some .band | "|" => some .bor | "<<" => some .shl | ">>" => some .shr | _ => none
def cmpOfSym : String → Option CmpSym
  | "==" => some .eq | "!=" => some .ne | "<" => some .lt | "<=" => some .le | ">" => some .gt | ">=" => some .ge | _ => none

def logOfSym : String → Option LogSym
  | "&&" => some .land | "||" => some .lor | _ => none

def wrapOf : String → Option Wrap
  | "plain" => some .plain | "tainted" => some .tainted | "tvol" => some .tvol | _ => none

/-- parse `<wrap>:<type>` -/
def parseOperand (s : String) : Option (Wrap × BaseTy) :=
  match s.splitOn ":" with
  | [w, t] => do let w ← wrapOf w; let b ← Conv.baseTyOfName t; pure (w, b)
  | _ => none

/-- construct the operand as the harness does; `none` = the store into sandbox memory aborted -/
def mkOperand (w : Wrap) (b : BaseTy) (v : Int) : Option Operand :=
  let app := b.app
  match w with
  | .tvol => match toSandbox abiA b v with
      | some g => some ⟨.tvol, ⟨app, g⟩, b.guest abiA⟩
      | none => none
  | _ => some ⟨w, ⟨app, v⟩, b.guest abiA⟩

/-- C++ type identity matters for "does `tainted<T> op= rhs` compile" (the result must be exactly `T`):
conversion rank of the named types (long and long long have the same representation but differ) -/
def rankOf : BaseTy → Nat
  | .bool => 0 | .char | .schar | .uchar => 1 | .short | .ushort | .char16 => 2 | .int | .uint | .char32 => 3
  | .long | .ulong => 4 | .llong | .ullong => 5

def promoteB (b : BaseTy) : BaseTy :=
  if rankOf b < 3 then .int else match b with | .char32 => .uint | x => x

def unsignedOf : BaseTy → BaseTy
  | .int => .uint | .long => .ulong | .llong => .ullong | x => x

def uacB (a b : BaseTy) : BaseTy :=
  let a := promoteB a; let b := promoteB b
  if a.app.signed == b.app.signed then (if rankOf a ≥ rankOf b then a else b)
  else
    let u := if a.app.signed then b else a
    let s := if a.app.signed then a else b
    if rankOf u ≥ rankOf s then u
    else if s.app.bytes > u.app.bytes then s
    else unsignedOf s

def cmpdCompiles (lw : Wrap) (l r : BaseTy) (shift : Bool) : Bool :=
  if lw == .plain || l == .bool then false
  else if lw == .tvol then true
  else (if shift then promoteB l else uacB l r) == l

def binLine (opS : String) (lw : Wrap) (lb : BaseTy) (rw : Wrap) (rb : BaseTy) (a b : Int) : Option String :=
  let l := lb.app; let r := rb.app
  if ¬ (l.inRange a ∧ r.inRange b) then some "badinput" else
  match binOfSym opS, cmpOfSym opS with
  | some op, _ =>
      if (cppBin op ⟨l, a⟩ ⟨r, b⟩).isNone then some "undef" else
      match mkOperand lw lb a, mkOperand rw rb b with
      | some x, some y =>
          if op == .band ∧ lw == .tvol ∧ rw == .tvol then some "nc" else
          (match binOp cppSem op x y with
            | .ok v => some s!"ok {showTV v}"
            | .undef => some "undef"
            | .abort => some "abort")
      | _, _ => some "abort"
  | none, some op =>
      match mkOperand lw lb a, mkOperand rw rb b with
      | some x, some y =>
          (match compareOp cppSem op x y with
            | .ok (v, w) => some (if w == .hint then s!"ok hint {if v then 1 else 0}" else s!"ok b1 {if v then 1 else 0}")
            | .undef => some "undef"
            | .abort => some "abort")
      | _, _ => some "abort"
  | none, none =>
      match logOfSym opS with
      | none => none
      | some op =>
        match mkOperand lw lb a, mkOperand rw rb b with
        | some x, some y =>
            (match logicalOp cppLog op x y with
              | .ok v => some s!"ok b1 {if v then 1 else 0}"
              | .undef => some "undef"
              | .abort => some "abort")
        | _, _ => some "abort"

def rangeOf (t : IntTy) : Int × Int := (t.min, t.max)

def step (t : List String) : Option String :=
  match t with
  | ["bin", op, lo, ro, a, b] => do
      let (lw, lb) ← parseOperand lo; let (rw, rb) ← parseOperand ro
      let a ← parseInt? a; let b ← parseInt? b
      binLine op lw lb rw rb a b
  | ["binblk", op, lo, ro] => do
      let (lw, lb) ← parseOperand lo; let (rw, rb) ← parseOperand ro
      let (alo, ahi) := rangeOf lb.app; let (blo, bhi) := rangeOf rb.app
      let mut h := fnvInit
      let mut n := 0
      for i in [0:(ahi - alo + 1).toNat] do
        for j in [0:(bhi - blo + 1).toNat] do
          let r ← binLine op lw lb rw rb (alo + i) (blo + j)
          h := fnvAdd (fnvAdd h r) "\n"
          n := n + 1
      pure s!"hash {h.toNat} n={n} mismatch=0"
  | ["cmpd", opS, lo, ro, a, b] => do
      let (lw, lb) ← parseOperand lo; let (rw, rb) ← parseOperand ro
      let a ← parseInt? a; let b ← parseInt? b
      let op ← binOfSym opS
      let l := lb.app; let r := rb.app
      if ¬ (l.inRange a ∧ r.inRange b) then pure "badinput" else
      if (cppBin op ⟨l, a⟩ ⟨r, b⟩).isNone then pure "undef" else
      if lw == .plain || lb == .bool then pure "nc" else
      match mkOperand lw lb a, mkOperand rw rb b with
      | some x, some y =>
          -- (the harness builds both operands before it reaches the combination that does not compile)
          if ¬ cmpdCompiles lw lb rb (op == .shl || op == .shr) then pure "nc" else
          if op == .band ∧ lw == .tvol ∧ rw == .tvol then pure "nc" else
          (match compound cppSem op x y with
            | .ok (e, nv) => pure s!"ok {showTV e} {showTV nv}"
            | .undef => pure "undef"
            | .abort => pure "abort")
      | _, _ => pure "abort"
  | ["incdec", form, lo, a] => do
      let (lw, lb) ← parseOperand lo
      let a ← parseInt? a
      let l := lb.app
      if ¬ l.inRange a then pure "badinput" else
      let dec := form == "predec" || form == "postdec"
      let post := form == "postinc" || form == "postdec"
      if (cppBin (if dec then .sub else .add) ⟨l, a⟩ ⟨tInt, 1⟩).isNone then pure "undef" else
      if lw == .plain || l.isBool then pure "nc" else
      if lw == .tainted ∧ ¬ cmpdCompiles .tainted lb .int false then pure "nc" else
      match mkOperand lw lb a with
      | none => pure "abort"
      | some x =>
        if lw == .tvol ∧ post then pure "nc" else   -- (operand built first, as in the harness)
        (match incDec cppSem dec post x with
          | .ok (e, nv) => pure s!"ok {showTV e} {showTV nv}"
          | .undef => pure "undef"
          | .abort => pure "abort")
  | ["unary", form, lo, a] => do
      let (lw, lb) ← parseOperand lo
      let a ← parseInt? a
      let l := lb.app
      if ¬ l.inRange a then pure "badinput" else
      let op := if form == "neg" then UnSym.neg else UnSym.bnot
      if form == "neg" ∧ (cppUn .neg ⟨l, a⟩).isNone then pure "undef" else
      if lw == .plain then pure "nc" else
      match mkOperand lw lb a with
      | none => pure "abort"
      | some x =>
        (match unaryOp cppSem op x with
          | .ok v => pure s!"ok {showTV v}"
          | .undef => pure "undef"
          | .abort => pure "abort")
  | _ => none

end Driver.OpsEng
