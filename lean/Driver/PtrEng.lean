import RlboxModel.Ptr
import RlboxModel.Layout
import Driver.Util
import Driver.Conv
/-! Engine `ptr` (C05/C03): the model's answers to the lines of `harness/h_ptr.cpp`. -/
namespace Driver.PtrEng
open Rlbox Driver

def base0 : Nat := 0x6a0000000000
def stride : Nat := 0x400030000
def K : Nat := 16
def regionOf (i : Nat) : Region := ⟨K, base0 + i * stride⟩

def hexStr (n : Nat) : String := String.ofList (Nat.toDigits 16 n)

/-- canonical address printing, same as `vh::show_addr` with `nsb` live sandboxes -/
def showAddr (nsb : Nat) (a : Nat) : String :=
  if a = 0 then "null" else
  match (List.range nsb).find? (fun i => decide ((regionOf i).contains a)) with
  | some i => s!"in{i}:{a - (regionOf i).base}"
  | none => s!"out:0x{hexStr a}"

def pointeeOfName : String → Option CTy
  | "char" => some (.base .char) | "short" => some (.base .short) | "int" => some (.base .int)
  | "long" => some (.base .long) | "llong" => some (.base .llong) | "float" => some .float
  | "double" => some .double | "ptr" => some .ptr | "arr3" => some (.arr 3 (.base .int))
  | "st12" => some (.struct [.base .char, .base .long, .ptr])
  | "arr2x3" => some (.arr 2 (.arr 3 (.base .long))) | _ => none

def formOfName : String → Option PtrForm
  | "add" => some .add | "sub" => some .sub | "addeq" => some .addEq | "subeq" => some .subEq
  | "preinc" => some .preInc | "postinc" => some .postInc | "predec" => some .preDec
  | "postdec" => some .postDec | "idx" => some .idx | "addridx" => some .addrIdx | _ => none

def sizesLine : String :=
  ["char", "short", "int", "long", "llong", "float", "double", "ptr", "arr3", "st12", "arr2x3"].foldl
    (fun acc n => match pointeeOfName n with
      | some t => acc ++ s!"{n}={t.size abiA}/{t.size abiHost};"
      | none => acc) ""

/-- the operand as rlbox sees it after `unwrap_value`: plain and tainted operands are the value
itself; a tainted_volatile operand was stored into a guest cell first (abort if the guest type
cannot hold it) and is loaded back -/
def operand (wrap : String) (nty : String) (n : Int) : Option (Option Int) :=
  match intTyOfName nty with
  | none => none
  | some ty =>
    if ¬ ty.inRange n then some none else
    match wrap with
    | "plain" | "tainted" => some (some n)
    | "tvol" =>
        match Conv.baseTyOfName nty with
        | none => none
        | some b =>
          match toSandbox abiA b n with
          | none => some none
          | some g => some (toApplication abiA b g)
    | _ => none

def step (t : List String) : Option String :=
  match t with
  | ["sizes"] => some sizesLine
  | ["arith", form, pty, off, wrap, nty, n] => do
      let form ← formOfName form
      let ty ← pointeeOfName pty
      let n ← parseInt? n
      let p ← if off == "null" then some 0 else (parseInt? off).map fun o => base0 + o.toNat
      let ity ← intTyOfName nty
      if ¬ ity.inRange n then pure "badinput" else
      if wrap != "plain" ∧ nty == "wchar" then pure "badop" else
      match ← operand wrap nty n with
      | none => pure "abort"
      | some nv =>
        match ptrForm K form p nv (ty.size abiA) with
        | none => pure "abort"
        | some (res, newp) => pure s!"ok {showAddr 2 res} {showAddr 2 newp}"
  | _ => none

end Driver.PtrEng
