import RlboxModel.Tokens
import Driver.Util
/-! Engine `tokens` (C15): stateful; mirrors `harness/h_tokens.cpp`. -/
namespace Driver.TokEng
open Rlbox Driver

structure St where
  map  : TokMap := TokMap.init
  max  : Nat := 0
  live : List Nat := []          -- tokens handed out and not yet released (for printing only)
  own  : OwnState := { map := TokMap.init, owners := fun _ => 0 }
  omax : Nat := 0

def showTok (r : Option Nat) : String :=
  match r with | some 0 => "ok null" | some v => (if v = 2 ^ 64 then "ok null" else s!"ok {v}") | none => "abort"

def insertSorted (x : Nat) : List Nat → List Nat
  | [] => [x]
  | y :: ys => if x ≤ y then x :: y :: ys else y :: insertSorted x ys

def step (s : St) (t : List String) : Option (St × String) :=
  match t with
  | ["tnew", _bits, mx] => do
      let mx ← mx.toNat?
      pure ({ s with map := TokMap.init, max := mx, live := [] }, "ok")
  | ["treg", p] => do
      let p ← p.toNat?
      match s.map.register s.max p with
      | none => pure (s, "abort")
      | some (tk, m') => pure ({ s with map := m', live := insertSorted tk s.live }, s!"ok {tk}")
  | ["tregn"] =>
      -- a null application pointer is registered like any other value (sentinel 2^64 in the model; printed as `null`)
      match s.map.register s.max (2 ^ 64) with
      | none => pure (s, "abort")
      | some (tk, m') => pure ({ s with map := m', live := insertSorted tk s.live }, s!"ok {tk}")
  | ["trel", tk] => do
      let tk ← tk.toNat?
      match s.map.remove tk with
      | none => pure (s, "abort")
      | some m' => pure ({ s with map := m', live := s.live.filter (· ≠ tk) }, "ok")
  | ["tlook", tk] => do
      let tk ← tk.toNat?
      pure (s, showTok (s.map.lookup tk))
  | ["tstate"] => pure (s, s!"live={s.live} counter={s.map.counter}")
  | ["onew", be] =>
      let mx := if be == "vsbx" then 65535 else 2 ^ 64 - 2
      pure ({ s with own := { map := TokMap.init, owners := fun _ => 0 }, omax := mx }, "ok")
  | ["oreg", o, p] => do
      let o ← o.toNat?; let p ← p.toNat?
      match s.own.step s.omax (.assignNew o p) with
      | none => pure (s, "abort")
      | some s' => pure ({ s with own := s' }, s!"ok {s'.owners o}")
  | ["omove", d, r] => do
      let d ← d.toNat?; let r ← r.toNat?
      match s.own.step s.omax (.moveAssign d r) with
      | none => pure (s, "abort")
      | some s' => pure ({ s with own := s' }, "ok")
  | ["omovec", d, r] => do
      -- move construction of a new object in place of `d`: the old `d` is destroyed first (releases), then takes over `r`
      let d ← d.toNat?; let r ← r.toNat?
      match s.own.step s.omax (.moveAssign d r) with
      | none => pure (s, "abort")
      | some s' => pure ({ s with own := s' }, "ok")
  | ["ofill"] =>
      -- every token 1..limit that is not live can still be issued, none beyond the limit, never 0
      let liveCount := ((List.range 3).filter fun o => s.own.owners o ≠ 0).length
      pure (s, s!"ok n={s.omax - liveCount} max={s.omax} zero=0")
  | ["ounreg", o] | ["odestroy", o] => do
      let o ← o.toNat?
      match s.own.step s.omax (.unregister o) with
      | none => pure (s, "abort")
      | some s' => pure ({ s with own := s' }, "ok")
  | ["ostat", o] => do
      let o ← o.toNat?
      let tk := s.own.owners o
      pure (s, s!"tok={tk} unreg={if tk = 0 then 1 else 0}")
  | ["ott", o] => do
      let o ← o.toNat?
      let tk := s.own.owners o
      if tk = 0 then pure (s, "ok tt=null") else
      match s.own.map.lookup tk with
      | some v => pure (s, s!"ok tt=in same=1 rt={if v = 0 ∨ v = 2 ^ 64 then "null" else toString v}")
      | none => pure (s, "abort")
  | ["olook", tk] => do
      let tk ← tk.toNat?
      pure (s, showTok (s.own.map.lookup tk))
  | _ => none

end Driver.TokEng
