import RlboxModel.Lifecycle
import RlboxModel.Invoke
import Driver.Util
import Driver.PtrEng
/-! Engine `invoke` (C11): mirrors `harness/h_invoke.cpp`. -/
namespace Driver.InvokeEng
open Rlbox Driver Driver.PtrEng

inductive PTy | int (b : BaseTy) | flt | ptr | fn | strct
inductive RTy | void | int (b : BaseTy) | flt | ptr | strct

def sigOf : String → Option (List PTy × RTy)
  | "S0" => some ([], .void)
  | "S1" => some ([.int .int], .int .int)
  | "S2" => some ([.int .long, .int .ulong], .int .long)
  | "S3" => some ([.int .short, .int .char, .int .bool, .int .uchar, .int .llong], .int .ulong)
  | "S4" => some ([.flt, .flt, .int .int], .flt)
  | "S5" => some ([.ptr, .ptr, .ptr], .ptr)
  | "S6" => some ([.fn, .int .int], .int .long)
  | "S7" => some ([.strct, .int .long], .int .long)
  | "S8" => some ([.int .long, .int .int, .int .short, .int .char, .int .ulong, .int .uint, .int .ushort, .int .uchar,
                   .int .llong, .int .ullong, .int .bool, .int .long], .int .long)
  | "S9" => some ([.int .ushort, .int .short], .int .ushort)
  | "S10" => some ([.int .int], .strct)
  | _ => none

/-- application-side value of one argument as the harness builds it (`none` = the harness casts
the integer to the parameter type first: C++ `static_cast`) and its guest rendering -/
def argGuest (sb : Nat) (form : String) (p : PTy) (v : Int) : Option String :=
  let s : Sbx := ⟨regionOf sb, 4⟩
  match p with
  | .int b =>
      let av := b.app.cast v          -- `(A)v` in the harness
      (argToGuest abiA s (.int b av)).map toString
  | .flt => some (toString v)
  | .ptr => if form == "plain" ∨ v = 0 then some "0" else (argToGuest abiA s (.ptr (s.region.base + v.toNat))).map toString
  | .fn => some "16384"
  | .strct =>
      let c := v % 128
      let l := v / 128 / 2    -- v >> 8
      match toSandbox abiA .char c, toSandbox abiA .long l with
      | some gc, some gl => some s!"\{{gc},{gl},0}"
      | _, _ => none

def retApp (r : RTy) (ret : Int) : Option String :=
  match r with
  | .void => some "void"
  | .int b => (toApplication abiA b ((b.guest abiA).cast ret)).map toString
  | .flt => some (toString ret)
  | .ptr => let rep := (ret % 2 ^ 32).toNat; some (if rep = 0 then "null" else s!"in:{rep % 65536}")
  | .strct =>
      let c := ret % 128
      let l := (⟨true, 4, false⟩ : IntTy).cast (ret / 256)
      some s!"\{{c},{l}}"

def libOfSb (sb : Nat) : Nat := if sb = 1 then 1 else 0

def step (t : List String) : Option String :=
  match t with
  | "inv" :: sb :: sg :: form :: ret :: vals => do
      let sb ← sb.toNat?
      let (ps, rt) ← sigOf sg
      let ret ← parseInt? ret
      let vs ← vals.mapM parseInt?
      if vs.length ≠ ps.length then pure "badop" else
      match (ps.zip vs).mapM (fun (p, v) => argGuest sb form p v) with
      | none => pure "abort calls=0"
      | some gs =>
        match retApp rt ret with
        | none => pure "abort calls=1"
        | some r => pure s!"ok calls=1 guest=[{String.intercalate "," gs}] ret={r}"
  | ["invr", abi, ty, v] => do
      -- result of an invocation on a given ABI: the guest's value converted to the application's type, or abort
      let abi ← Conv.abiOfName abi; let b ← Conv.baseTyOfName ty; let v ← parseInt? v
      if ¬ (b.guest abi).inRange v then pure "badinput" else
      pure (showOpt (toApplication abi b v))
  | ["inamed", sb, name, v] => do
      let sb ← sb.toNat?; let v ← parseInt? v
      let l := libOfSb sb
      let r := if name == "scale" then (if l = 0 then 2 * v else 3 * v) else (if l = 0 then v + 1000 else v + 2000)
      pure s!"ok {r}"
  | ["irecr", l1, l2, name, v] => do
      -- one sandbox object, two incarnations (Lifecycle.World): create lib l1, look the symbol up, destroy, create lib l2, look it up
      let l1 ← l1.toNat?; let l2 ← l2.toNat?; let v ← parseInt? v
      let val (l : Nat) : Int := if name == "scale" then (if l = 0 then 2 * v else 3 * v) else (if l = 0 then v + 1000 else v + 2000)
      let show1 (l : Nat) := s!"{val l} {if l = 0 then "libA" else "libB"}.{name} {val l}"
      let w0 := World.init 8
      let (w1, _) ← w0.create 0 true l1
      let (w1', la) := w1.lookup 0 name
      let w2 ← w1'.destroy 0
      let (w3, _) ← w2.create 0 true l2
      let (_, lb) := w3.lookup 0 name
      pure s!"ok {show1 la} | {show1 lb}"
  | ["ifnaddr", sb, name] => do
      let sb ← sb.toNat?
      let l := libOfSb sb
      let idx := if l = 0 then (if name == "scale" then 1 else 2) else (if name == "ident" then 1 else 2)
      pure s!"ok {if l = 0 then "libA" else "libB"}.{name} rep={idx}"
  | _ => none

end Driver.InvokeEng
