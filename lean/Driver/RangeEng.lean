import RlboxModel.Range
import RlboxModel.PtrOps
import Driver.Util
import Driver.PtrEng
/-! Engine `range` (C10): the model's answers to the lines of `harness/h_range.cpp`. -/
namespace Driver.RangeEng
open Rlbox Driver Driver.PtrEng

def arena : Nat := 0x5a0000000000
def blk : Nat := 65536
def total : Nat := 65536

/-- address spec -> (absolute address, kind) -/
def addrOf (s : String) : Option (Nat × String) :=
  if s == "null" then some (0, "null") else
  let kind := (s.take 3).toString
  match ((s.drop 4).toString).toNat? with
  | none => none
  | some off =>
    match kind with
    | "in0" => some (base0 + off, "in0")
    | "in1" => some (base0 + stride + off, "in1")
    | "app" => some (arena + off, "app")
    | _ => none

def showA (a : Nat) : String :=
  if arena ≤ a ∧ a < arena + 3 * blk then s!"app:{a - arena}" else showAddr 2 a

/-- application-side element size (`sizeof(T)` of the raw pointer handed back / of T_CopyAndVerifyRangeEl) -/
def appSize : String → Option Nat
  | "char" => some 1 | "short" => some 2 | "int" => some 4 | "long" => some 8 | "llong" => some 8
  | "double" => some 8 | "st12" => some 24 | _ => none

def run1 (dst : Nat) (n : Nat) (visible : Bool) : String :=
  if n = 0 ∨ ¬ visible then "-" else s!"{showA dst}+{n}"

def step (t : List String) : Option String :=
  match t with
  | ["memset", dst, nty, _wrap, n] => do
      let (d, _) ← addrOf dst
      let ty ← intTyOfName nty
      let n ← parseInt? n
      if ¬ ty.inRange n then pure "badinput" else
      let nU := (n % (W64 : Int)).toNat
      match memsetOp K total d nU with
      | none => pure "abort"
      | some _ => pure s!"ok {run1 d nU true}"
  | ["memcpy", dst, src, n] => do
      let (d, _) ← addrOf dst
      let (s, sk) ← addrOf src
      let n ← (parseInt? n).map Int.toNat
      match memcpyOp K total d s n with
      | none => pure "abort"
      | some _ => pure s!"ok {run1 d n (sk == "app")}"
  | ["memcmp", dst, src, n] => do
      let (d, _) ← addrOf dst
      let (s, sk) ← addrOf src
      let n ← (parseInt? n).map Int.toNat
      match memcpyOp K total d s n with
      | none => pure "abort"
      | some _ => pure (if sk == "app" ∧ n ≠ 0 then "ok lt" else "ok eq")
  | ["cvrange", el, off, cnt] => do
      let (p, _) ← addrOf off
      let sz ← appSize el
      let c ← (parseInt? cnt).map Int.toNat
      match verifyRangeHelper K p c sz with
      | none => pure "abort"
      | some 0 => pure "ok null"
      | some _ => pure (if c * sz ≥ 2 ^ 40 then "badalloc" else "ok copied app=1")
  | ["bufaddr", el, off, cnt] => do
      let (p, _) ← addrOf off
      let sz ← appSize el
      let c ← (parseInt? cnt).map Int.toNat
      match verifyRangeHelper K p c sz with
      | none => pure "abort"
      | some q => pure s!"ok {showA q}"
  | ["safeptr", el, off, cnt] => do
      let (p, _) ← addrOf off
      let sz ← appSize el
      let c ← (parseInt? cnt).map Int.toNat
      match safePointerBecause K p c sz with
      | none => pure "abort"
      | some q => pure s!"ok {showA q}"
  | ["deny", el, off, num] => do
      let (p, _) ← addrOf off
      let sz ← appSize el
      let c ← (parseInt? num).map Int.toNat
      -- malloc(num*sizeof(T)) first: an impossible size fails before any check
      if (c * sz) % W64 ≥ 2 ^ 48 then pure "ok nullret" else
      match denyAccessCopy K p c sz with
      | none => pure "abort"
      | some none => pure "ok nullret"
      | some (some _) => pure "ok copied=1 app=1"
  | ["denyfs", el, off, num] => do
      let (p, _) ← addrOf off
      let sz ← appSize el
      let c ← (parseInt? num).map Int.toNat
      if (c * sz) % W64 ≥ 2 ^ 48 then pure "ok nullret" else
      match denyAccessCopy K p c sz with
      | none => pure "abort"
      | some none => pure "ok nullret"
      | some (some (q, n)) =>
          -- the source holds the pattern; the sandbox's `free` overwrites the whole block
          let mem : Nat → Nat := fun a => if q ≤ a ∧ a < q + n then ((a - q) * 7 + 3) % 251 else 0x11
          let poison : (Nat → Nat) → (Nat → Nat) := fun m a => if q ≤ a ∧ a < q + n then 0xDD else m a
          let (copy, _) := denyCopyMem mem poison q n true
          let same := copy == (List.range n).map fun i => (i * 7 + 3) % 251
          pure s!"ok copied=1 app=1 bytes={if same then "same" else "diff"} freed=1"
  | ["grant", el, src, num] => do
      let (s, sk) ← addrOf src
      let sz ← appSize el
      let c ← (parseInt? num).map Int.toNat
      let srcSize := (c * sz) % W64
      if c > 4294967295 then pure "abort" else
      if c = 0 then pure "abort" else         -- malloc_in_sandbox: count != 0
      let tot := sz * c
      let r := (tot + 7) / 8 * 8
      if 0x8000 + r > 65536 then pure "ok null copied=0 -" else
      let d := base0 + 0x8000
      match memcpyOp K total d s srcSize with
      | none => pure "abort"
      | some _ => pure s!"ok {showA d} copied=1 {run1 d srcSize (sk == "app")}"
  | ["grantg", mode, el, src, num] => do
      -- a backend with can_grant_deny_access: when it grants (mode 1) its in-region pointer is handed on, when it refuses
      -- (with the caller's pointer, mode 0, or with null, mode 2) rlbox falls back to allocate-and-copy: the result is
      -- inside the sandbox in every case and holds the source bytes
      let mode ← mode.toNat?
      let (s, sk) ← addrOf src
      let sz ← appSize el
      let c ← (parseInt? num).map Int.toNat
      if c = 0 ∨ c * sz > 0x4000 then none else
      -- the source range is checked first, whatever the backend would answer: null or boundary-crossing sources never proceed
      if ¬ checkRange K s (c * sz) then pure "abort" else
      if sk != "app" then none else
      pure s!"ok inside copied={if mode = 1 then 0 else 1} bytes=same"
  | ["denygo", mode, el, off, num] => do
      let mode ← mode.toNat?
      let sz ← appSize el
      let off ← off.toNat?
      let c ← (parseInt? num).map Int.toNat
      if c = 0 ∨ c * sz > 0x4000 then none else
      let p := base0 + 2 * Driver.PtrEng.stride + off          -- the third sandbox of the harness (address slot 2)
      if ¬ checkRange K p (c * sz) then pure "abort" else
      pure s!"ok app copied={if mode = 1 then 0 else 1} bytes=same"
  | ["denyg", mode, el, num] => do
      let mode ← mode.toNat?
      let sz ← appSize el
      let c ← (parseInt? num).map Int.toNat
      if c = 0 ∨ c * sz > 0x4000 then none else
      pure s!"ok app copied={if mode = 1 then 0 else 1} bytes=same"
  | ["grantf", el, src, num, forced] => do
      let (s, sk) ← addrOf src
      let sz ← appSize el
      let c ← (parseInt? num).map Int.toNat
      let v ← forced.toNat?
      let srcSize := (c * sz) % W64
      if c > 4294967295 then pure "abort" else
      match mallocIn ⟨⟨K, base0⟩, 4⟩ (v % 2 ^ 32) c sz with
      | none => pure "abort"
      | some 0 => pure "ok null copied=0 -"
      | some d =>
        match memcpyOp K total d s srcSize with
        | none => pure "abort"
        | some _ => pure s!"ok {showA d} copied=1 {run1 d srcSize (sk == "app")}"
  | _ => none

end Driver.RangeEng
