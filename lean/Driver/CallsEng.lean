import RlboxModel.Calls
import RlboxModel.Tls
import RlboxModel.Lifecycle
import Driver.Util
/-! Engine `calls` (C12, C19): mirrors `harness/h_calls.cpp`. -/
namespace Driver.CallsEng
open Rlbox Driver

def faultOf : String → Fault
  | "a" | "av" => .argConv | "b" => .body | "r" => .resultConv | _ => .none   -- "nv"/"av": the void flavour, same crossings

mutual
  /-- parse `{I sb arg f {C ...}* E}*` ; returns the invocations and the remaining tokens -/
  partial def parseInvs (t : List String) : List Rlbox.Inv × List String :=
    match t with
    | "I" :: sb :: arg :: f :: rest =>
        let (cbs, rest1) := parseCbs rest
        let rest2 := match rest1 with | "E" :: r => r | r => r
        let (more, rest3) := parseInvs rest2
        (Rlbox.Inv.mk sb.toNat! (arg.toInt?.getD 0) (faultOf f) cbs :: more, rest3)
    | _ => ([], t)
  partial def parseCbs (t : List String) : List Cb × List String :=
    match t with
    | "C" :: slot :: arg :: ret :: f :: rest =>
        let (invs, rest1) := parseInvs rest
        let rest2 := match rest1 with | "E" :: r => r | r => r
        let (more, rest3) := parseCbs rest2
        (Cb.mk slot.toNat! (arg.toInt?.getD 0) (ret.toInt?.getD 0) (faultOf f) invs :: more, rest3)
    | _ => ([], t)
end

mutual
  partial def mapInvs (eps : List Nat) : List Rlbox.Inv → List Rlbox.Inv
    | [] => []
    | .mk sb a f cbs :: r => .mk sb a f (mapCbs eps cbs) :: mapInvs eps r
  partial def mapCbs (eps : List Nat) : List Cb → List Cb
    | [] => []
    | .mk ep a ret f invs :: r => .mk (eps.getD ep 999) a ret f (mapInvs eps invs) :: mapCbs eps r
end

def showEv : Ev → String
  | .inI sb => s!"iI{sb}:gl_node" | .outI sb => s!"oI{sb}:gl_node"
  | .outC sb k => s!"oC{sb}:{k}" | .inC sb k => s!"iC{sb}:{k}"
  | .guest sb a => s!"g{sb}:{a}" | .cbRun f sb a => s!"c{f}:{sb}:{a}"
  | .guestGot v => s!"gr{v}" | .appGot v => s!"r{v}"

/-- registration prefix on a world with two created sandboxes -/
partial def runRegs (w : World) (t : List String) (log : List String) : Option (World × List String × List String) :=
  match t with
  | "R" :: sb :: o :: f :: rest =>
      match w.register sb.toNat! o.toNat! f.toNat! with
      | some (w', k) => runRegs w' rest (log ++ [s!"s{k}"])
      | none => none
  | "U" :: o :: rest =>
      match w.release o.toNat! with
      | some w' => runRegs w' rest log
      | none => none
  | "T" :: rest => some (w, rest, log)
  | _ => some (w, t, log)

def timings (evs : List Ev) (sb : Nat) : String :=
  evs.foldl (fun acc e => match e with
    | .outI s => if s = sb then acc ++ "I" else acc
    | .inC s _ => if s = sb then acc ++ "C" else acc
    | _ => acc) ""

/-- `cbmany`: n registrations (owner i holds function i), one release, two more registrations; then the function behind
every live owner's entry point (the slot it was given), computed on `Lifecycle.World` -/
def cbMany (sb n unreg : Nat) : Option String := do
  let w0 := World.init 64
  let (w1, _) ← w0.create 0 true 0
  let (w2, _) ← w1.create 1 true 0
  let regs (w : World) (is : List Nat) : Option (World × List (Nat × Nat)) :=
    is.foldlM (fun (acc : World × List (Nat × Nat)) i => do
      let (w', k) ← acc.1.register sb i i
      pure (w', acc.2 ++ [(i, k)])) (w, [])
  let (w3, s1) ← regs w2 (List.range n)
  let w4 ← if unreg < n then w3.release unreg else some w3
  let (w5, s2) ← regs w4 [n, n + 1]
  let outs := (s1 ++ s2).map fun (i, k) =>
    if i = unreg then "-" else match (w5.sbx sb).slots k with | some f => toString f | none => "null"
  pure ("ok " ++ String.intercalate " " outs)

def step (t : List String) : Option String :=
  match t with
  | ["dymiss"] =>
      -- `World.resolve` with export tables: library 1 exports the name, library 2 does not, "library" 0 is the process itself
      let exports : Nat → String → Bool := fun lib n => n == "vh_only_in_1" ∧ (lib == 1 ∨ lib == 0)
      let w0 := World.init 64
      let w1 := ((w0.create 0 true 1).map (·.1)).getD w0
      let w2 := ((w1.create 1 true 2).map (·.1)).getD w1
      let ans (i : Nat) : String := match w2.resolve exports i "vh_only_in_1" with | some (_, l) => toString (l * 111) | none => "abort"
      pure s!"ok {ans 0} {ans 1}"
  | ["dywho"] => pure "ok 101 202"      -- library i answers (helper id)*100 + (own id), both from library i
  | ["cbptr", _sb, v] => do
      -- the callback's pointer result designates the cell it allocated; the guest reads the value stored there
      let v ← parseInt? v
      if v < -(2 ^ 31) ∨ v ≥ 2 ^ 31 then none else pure s!"ok {v}"
  | ["cbmany", sb, n, unreg] => do
      let sb ← sb.toNat?; let n ← n.toNat?; let u ← parseInt? unreg
      match cbMany sb n (if u < 0 then n + 100 else u.toNat) with
      | some r => pure r
      | none => pure "abort"
  | cmd :: rest =>
      if cmd != "tree" ∧ cmd != "treen" ∧ cmd != "treenh" ∧ cmd != "treeni" ∧ cmd != "treeno" then none else
      let noop := cmd != "tree"
      let hooksOnly := cmd == "treenh" ∨ cmd == "treeni" ∨ cmd == "treeno"
      -- a client that defines only one of the two hooks sees exactly the notifications of that hook
      let inOn := cmd != "treeno"; let outOn := cmd != "treeni"     -- built without RLBOX_MEASURE_TRANSITION_TIMES: same notifications, no timing records
      let w0 := World.init (if noop then 64 else 8)
      let w1 := ((w0.create 0 true 0).map (·.1)).getD w0
      let w2 := ((w1.create 1 true 0).map (·.1)).getD w1
      match runRegs w2 rest [] with
      | none => some (if hooksOnly then "x T0=none T1=none" else "x T0= T1=")
      | some (w, toks, log) =>
        let (invs0, _) := parseInvs toks
        -- C nodes name the j-th registration of the line; its entry point is the slot it was given
        let eps : List Nat := log.filterMap fun l => (l.drop 1).toString.toNat?
        let invs := mapInvs eps invs0
        let slots : SlotMap := fun sb k => (w.sbx sb).slots k
        -- the per-thread-record machine of the bundled backends (`Tls.lean`); `C12_tls_refines` proves it equal to `runInvs`
        let r := (lrunInvs slots Tls.init invs).1
        let evs := log ++ (hookView inOn outOn r.evs).map showEv ++ (if r.exc then ["x"] else [])
        some (String.intercalate ";" evs ++ (if hooksOnly then " T0=none T1=none" else s!" T0={timings r.evs 0} T1={timings r.evs 1}"))
  | [] => none

end Driver.CallsEng
