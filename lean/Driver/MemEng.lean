import RlboxModel.Mem
import RlboxModel.PtrOps
import Driver.Util
import Driver.PtrEng
import Driver.Conv
/-! Engine `mem` (C03, C04, C07, C02 run-time): mirrors `harness/h_mem.cpp`. -/
namespace Driver.MemEng
open Rlbox Driver Driver.PtrEng

def blk : Nat := 65536
def cellOff : Nat := 0x100
def sbxOf (i : Nat) : Sbx := ⟨regionOf i, 4⟩
def pattern (i : Nat) : Nat := ((i * 131) ^^^ (i >>> 8) ^^^ 0x5A) % 256
def patMem : Mem := pattern

def hex2 (b : Nat) : String :=
  let d := "0123456789abcdef".toList
  String.ofList [d.getD (b / 16) '0', d.getD (b % 16) '0']

def window (m : Mem) (off : Nat) : String :=
  let lo := if off ≥ 8 then off - 8 else 0
  let hi := Nat.min blk (off + 16)
  (List.range (hi - lo)).foldl (fun acc i => acc ++ hex2 (m (lo + i))) ""

def regionHash (m : Mem) : UInt64 := Id.run do
  let mut h := fnvInit
  for i in [0:blk] do
    h := (h ^^^ (m i).toUInt64) * 0x100000001b3
  return h

def patHash : UInt64 := regionHash patMem

/-- address spec relative to sandbox `sb` -/
def target (sb : Nat) (s : String) : Option Nat :=
  if s == "null" then some 0
  else if s.startsWith "in0:" then ((s.drop 4).toString.toNat?).map fun o => (regionOf 0).base + o
  else if s.startsWith "in1:" then ((s.drop 4).toString.toNat?).map fun o => (regionOf 1).base + o
  else if s.startsWith "abs:" then (s.drop 4).toString.toNat?
  else s.toNat?.map fun o => (regionOf sb).base + o

def mem32 (off : Nat) : Nat := decodeLE (patMem.read off 4)

def repOne (pos : String) (sb rep : Nat) : Option String :=
  let s := sbxOf sb
  let one := showAddr 2 (toApp s rep)
  let viaCell (c : Nat) := showAddr 2 (ptrLoad 16 (s.region.base + c) rep)
  match pos with
  | "result" | "cbarg" => some one
  | "cell" => some (viaCell cellOff)
  | "arrel" | "field" => some (viaCell (cellOff + 8) ++ "," ++ viaCell (cellOff + 8))
  | _ => none

def strideOfTag : String → Nat
  | "i" => 4 | "c" => 1 | "pp" => 4 | "st" => 12 | _ => 1

/-- one chain step on (address, type tag); `none` = unknown step; `some (Except.error msg)` = abort/segv -/
def chainStep (sb : Nat) (nmal : Nat) (p : Nat) (tag : String) (s : String) : Option (Except String (Nat × String)) :=
  let r := regionOf sb
  let arith (f : ArithForm) (n : Int) : Except String (Nat × String) :=
    match ptrArith 16 f p n (strideOfTag tag) with
    | some q => .ok (q, tag)
    | none => .error "abort"
  let loadAt (cell : Nat) : Except String (Nat × String) :=
    if p = 0 then .error "segv"
    else if ¬ (r.contains cell ∧ cell + 4 ≤ r.base + blk) then .error "segv"
    else .ok (ptrLoad 16 cell (mem32 (cell - r.base)), "i")
  if s.startsWith "+" then (parseInt? (s.drop 1).toString).map fun n => arith .add n
  else if s.startsWith "-" then (parseInt? (s.drop 1).toString).map fun n => arith .sub n
  else if s.startsWith "[" then (parseInt? (s.drop 1).toString).map fun n => arith .index n
  else if s.startsWith "ae" then (parseInt? (s.drop 2).toString).map fun k =>
    match stepPtr 16 p (.elem k 4 4) with
    | some q => .ok (q, "i")
    | none => .error "abort"
  else match s with
  | "pi" | "ip" => some (arith .add 1) | "pd" | "dp" => some (arith .sub 1)   -- ++p, p++, --p, p-- (the variable afterwards)
  | "ci" => some (.ok (p, "i")) | "cc" => some (.ok (p, "c")) | "cpp" => some (.ok (p, "pp"))
  | "cst" => some (.ok (p, "st")) | "opq" => some (.ok (p, tag)) | "ad" => some (.ok (p, tag))
  | "ld" => if tag == "pp" then some (loadAt p) else none
  | "fp" => if tag == "st" then some (loadAt ((p + 8) % W64)) else none
  | "afl" => if tag == "st" then some (.ok ((p + 4) % W64, "c")) else none
  | "afp" => if tag == "st" then some (.ok ((p + 8) % W64, "pp")) else none
  | "mal" => some (.ok (r.base + 0x8000 + 16 * nmal, "i"))   -- bump allocator: 4 ints = 16 bytes per call
  | _ => none

def runChain (sb : Nat) : Nat → Nat → String → List String → Option String
  | _, p, _, [] => some s!"ok {showAddr 2 p}"
  | nmal, p, tag, s :: rest =>
    match chainStep sb nmal p tag s with
    | none => none
    | some (.error e) => some e
    | some (.ok (q, tag')) => runChain sb (if s == "mal" then nmal + 1 else nmal) q tag' rest

/-- the two guest libraries of the harness (function name lists; table index = position + 1) -/
def libOf (i : Nat) : String × List String :=
  if i = 0 then ("libA", ["f0", "f1", "f2"]) else ("libB", ["f2", "f0"])

/-- which live sandbox owns an address: the registry lookup the context-free function-pointer
translation performs -/
def ownerOf (a : Nat) : Option Nat :=
  (findSandbox [sbxOf 0, sbxOf 1] a).bind fun s => if s == sbxOf 0 then some 0 else some 1

def fnameOf (owner rep : Nat) : String :=
  let (ln, fns) := libOf owner
  match fnToApp fns.length 0x4000 8 rep with
  | .null => "null"
  | .cb k => s!"cb{owner}:{k}"
  | .lib i => s!"{ln}.{fns.getD i "?"}"
  | .other => s!"cb{owner}:0"

/-- whole-array store: element by element in row-major order at the guest stride; any
unrepresentable element aborts the store (the elements before it have been written) -/
def storeArr (b : BaseTy) (off : Nat) (vs : List Int) (m : Mem) : Option Mem :=
  let g := (b.guest abiA).bytes
  (vs.zipIdx).foldl (fun acc (v, i) => acc.bind fun mm => tvStore abiA b (off + i * g) v mm) (some m)

def shapeInfo : String → Option (BaseTy × Nat)
  | "int2x3" => some (.int, 6) | "long2x3" => some (.long, 6) | "char3x5" => some (.char, 15)
  | "long3" => some (.long, 3) | "ushort4" => some (.ushort, 4) | _ => none

def regionOfB : Region := ⟨16, base0 + 2 * stride⟩
def sbxB : Sbx := ⟨regionOfB, 8⟩
def showB (a : Nat) : String :=
  if a = 0 then "null" else if regionOfB.contains a then s!"inB:{a - regionOfB.base}" else s!"out:0x{hexStr a}"

def step (t : List String) : Option String :=
  match t with
  | "starr" :: sb :: shape :: off :: vals => do
      let _ ← sb.toNat?
      let (b, n) ← shapeInfo shape
      let off ← off.toNat?
      let vs ← vals.mapM parseInt?
      if vs.length ≠ n then none else
      if ¬ vs.all (fun v => decide (b.app.inRange v)) then pure "badinput" else
      match storeArr b off vs patMem with
      | none => pure "abort"
      | some m =>
        let wins := if n == 3 ∨ n == 4 then window m off ++ window m (off + 24)
                    else window m off ++ window m (off + 24) ++ window m (off + 48)
        let back := vs.foldl (fun acc v => acc ++ s!" {v}") ""
        pure s!"ok win={wins} h={(regionHash m).toNat} back={back}"
  | ["pstoreb", pos, tgt] => do
      let a ← if tgt == "null" then some 0 else tgt.toNat?.map fun o => regionOfB.base + o
      let cell := regionOfB.base + cellOff
      let rep := ptrStore 16 8 cell a
      let back := showB (ptrLoad 16 cell rep)
      match pos with
      | "cell" => pure s!"ok rep={rep} back={back}"
      | "arrwhole" => pure s!"ok rep={rep},0 back={back},null"
      | _ => none
  | ["prt", pos, sb, tgt] => do
      let sb ← sb.toNat?
      let a ← target sb tgt
      let s := sbxOf sb
      let cell := s.region.base + cellOff
      match pos with
      | "cell" | "arrel" | "field" | "structwhole" =>
          pure s!"ok {showAddr 2 (ptrLoad 16 cell (ptrStore 16 4 cell a))}"
      | "call" => pure s!"ok {showAddr 2 (toApp s (toGuest s a))}"
      | _ => none
  | ["fstore", sb, name] => do
      let sb ← sb.toNat?
      let owner ← ownerOf ((sbxOf sb).region.base + cellOff)
      let (_, fns) := libOf sb
      let idx := match fns.findIdx? (· == name) with | some i => i + 1 | none => 0
      pure s!"ok rep={idx} back={fnameOf owner idx}"
  | ["fload", sb, rep] => do
      let sb ← sb.toNat?; let rep ← rep.toNat?
      let owner ← ownerOf ((sbxOf sb).region.base + cellOff)
      pure s!"ok {fnameOf owner rep}"
  | ["nrep", pos, rep] => do
      -- a backend whose representation type is itself a pointer (8 bytes): 0 is null, anything else is clamped into the region
      let rep ← rep.toNat?
      let rN : Region := ⟨16, 0x6a0000000000 + 3 * Driver.PtrEng.stride⟩   -- the fourth sandbox of the harness
      let a := toApp ⟨rN, 8⟩ (rep % 2 ^ 64)
      let one := if a = 0 then "null" else s!"inN:{a - rN.base}"
      match pos with
      | "result" | "cbarg" | "cell" => pure s!"ok {one}"
      | "arrel" => pure s!"ok {one},{one}"
      | _ => none
  | ["fctx", pos, sb, rep] => do
      -- a function-pointer representation arriving with the sandbox context (call result, callback argument)
      let sb ← sb.toNat?; let rep ← rep.toNat?
      if pos == "result" ∨ pos == "cbarg" then pure s!"ok {fnameOf sb rep}" else none
  | ["rep", pos, sb, rep] => do
      let sb ← sb.toNat?; let rep ← rep.toNat?
      let r ← repOne pos sb (rep % 2 ^ 32)
      pure s!"ok {r}"
  | ["repblk", pos, sb, lo, hi] => do
      let sb ← sb.toNat?; let lo ← lo.toNat?; let hi ← hi.toNat?
      let mut h := fnvInit
      let mut n := 0
      let mut bad := 0
      for i in [0:hi + 1 - lo] do
        let r := lo + i
        let a ← repOne pos sb r
        h := fnvAdd (fnvAdd h a) "\n"
        n := n + 1
        let w := if r = 0 then "null" else s!"in{sb}:{r % 65536}"
        let want := if pos == "arrel" ∨ pos == "field" then w ++ "," ++ w else w
        if a ≠ want then bad := bad + 1
      pure s!"hash {h.toNat} n={n} oracle_bad={bad}"
  | ["pstore", pos, sb, tgt] => do
      let sb ← sb.toNat?
      let a ← target sb tgt
      let s := sbxOf sb
      let cell := s.region.base + cellOff
      let viaCell := ptrStore 16 4 cell a
      match pos with
      | "cell" | "arrel" | "field" => pure s!"ok rep={viaCell}"
      | "cellnull" => pure "ok rep=0"
      | "arrwhole" => pure s!"ok rep={viaCell},rep=0,rep=0"
      | "structwhole" => pure s!"ok rep={viaCell} l=7"
      | "arg" => pure s!"ok rep={toGuest s a}"
      | "argnull" => pure "ok rep=0"
      | _ => none
  | ["malf", sb, ty, v, count] => do
      let sb ← sb.toNat?; let v ← v.toNat?; let count ← count.toNat?
      -- sizeof(T) of the application type (the extent check of malloc_in_sandbox is done in host elements)
      let size ← match ty with | "char" => some 1 | "int" => some 4 | "llong" => some 8 | "st" => some 24 | _ => none
      match mallocIn (sbxOf sb) (v % 2 ^ 32) (count % 2 ^ 32) size with
      | none => pure "abort"
      | some p => pure s!"ok {showAddr 2 p}"
  | ["pfoot", pos, sb, tgt] => do
      let sb ← sb.toNat?
      let a ← target sb tgt
      let s := sbxOf sb
      let cell := s.region.base + cellOff
      let rep := ptrStore 16 4 cell a
      let w4 (m : Mem) (off v : Nat) : Mem := m.write off (encodeLE 4 v)
      let m ← match pos with
        | "cell" => some (ptrStoreMem s cellOff a patMem)
        | "cellnull" => some (w4 patMem cellOff 0)
        | "arrel" | "field" => some (ptrStoreMem s (cellOff + 8) a patMem)
        | "arrelnull" | "fieldnull" => some (w4 patMem (cellOff + 8) 0)
        | "arrwhole" => some (w4 (w4 (w4 (w4 patMem cellOff 0) (cellOff + 4) rep) (cellOff + 8) rep) (cellOff + 12) 0)
        | "structwhole" => some (w4 (w4 (patMem.write cellOff [120]) (cellOff + 4) 7) (cellOff + 8) rep)
        | _ => none
      pure s!"ok win={(List.range 32).foldl (fun acc i => acc ++ hex2 (m (cellOff - 8 + i))) ""}"
  | ["accept", how, sb, tgt] => do
      let sb ← sb.toNat?
      let s := sbxOf sb
      let a ← if tgt == "heap" ∨ tgt == "stack" then some 1 else target sb tgt
      match how with
      | "accept" | "assign" | "assignfn" =>
          (match acceptPointer s a with | none => pure "abort" | some v => pure s!"ok {showAddr 2 v}")
      | "assignvol" =>
          (match acceptPointerVol s a with | none => pure "abort" | some v => pure s!"ok rep={v}")
      | _ => none
  | "chain" :: sb :: start :: tag :: steps => do
      let sb ← sb.toNat?
      let p ← target sb start
      runChain sb 0 p tag steps
  | ["store", sb, ty, off, v] => do
      let _ ← sb.toNat?
      let b ← Conv.baseTyOfName ty; let off ← off.toNat?; let v ← parseInt? v
      if ¬ b.app.inRange v then pure "badinput" else
      match tvStore abiA b off v patMem with
      | none => pure "abort"
      | some m => pure s!"ok win={window m off} h={(regionHash m).toNat} h_other={patHash.toNat}"
  | ["load", how, sb, ty, off] => do
      let _ ← sb.toNat?
      let b ← Conv.baseTyOfName ty; let off ← off.toNat?
      let g := (b.guest abiA).bytes
      let ld (o : Nat) : Except String Int :=
        if o + g > blk then .error "segv" else
        match tvLoad abiA b o patMem with
        | some v => .ok v
        | none => .error "abort"
      match how with
      | "deref" | "unverified" | "cav" =>
          pure (match ld off with | .ok v => s!"ok {v}" | .error e => e)
      | "idx1" =>
          -- `p[1]` goes through the pointer index arithmetic: a target outside the region aborts
          if off + g ≥ blk then pure "abort" else
          pure (match ld (off + g) with | .ok v => s!"ok {v}" | .error e => e)
      | "cavrange" =>
          if ty == "bool" then pure "badop" else
          -- the range check covers 2 application-sized elements
          if off + 2 * b.app.bytes > blk then pure "abort" else
          pure (match ld off, ld (off + g) with
            | .ok v0, .ok v1 => s!"ok {v0} {v1}"
            | .error e, _ => e
            | _, .error e => e)
      | _ => none
  | _ => none

end Driver.MemEng
