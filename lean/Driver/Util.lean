/-! Line-protocol helpers for the model driver (core Lean only). -/
namespace Driver

def fnvInit : UInt64 := 0xcbf29ce484222325
def fnvAdd (h : UInt64) (s : String) : UInt64 :=
  s.toUTF8.foldl (fun h b => (h ^^^ b.toUInt64) * 0x100000001b3) h

def toks (line : String) : List String :=
  (line.trimAscii.toString.splitOn " ").filter (· ≠ "")

def parseInt? (s : String) : Option Int :=
  if s.startsWith "0x" then
    (s.drop 2).toString.foldl (fun acc c =>
      acc.bind fun a =>
        if c.isDigit then some (a * 16 + (c.toNat - '0'.toNat))
        else if 'a' ≤ c ∧ c ≤ 'f' then some (a * 16 + (c.toNat - 'a'.toNat + 10))
        else if 'A' ≤ c ∧ c ≤ 'F' then some (a * 16 + (c.toNat - 'A'.toNat + 10))
        else none) (some (0 : Int))
  else s.toInt?

def showOpt (r : Option Int) : String :=
  match r with
  | some v => s!"ok {v}"
  | none => "abort"

end Driver
