import RlboxModel.Threads
import Driver.Util
/-! Engine `thr` (C18): the log a thread's operation sequence produces when it runs ALONE, computed
with the atomic-step semantics of `Threads.lean` (mirrors `harness/h_thr.cpp`).
   thrseq <backend> <tid> <op>*   -> <log> -/
namespace Driver.ThrEng
open Rlbox Rlbox.Thr Driver

structure Inst where
  created : Bool := false
  registered : Bool := false
  hasPtr : Bool := false
  hasCell : Bool := false
  counter : Nat := 0
  brk : Nat := 16
  stored : Nat := 0
  tok : Nat := 1          -- app_pointer_map::counter of this sandbox object (survives destroy/create)
deriving Inhabited

def region (i : Nat) : Region := ⟨16, 0x6a0000000000 + i * 0x400030000⟩

abbrev W := World Inst

def doLocal (w : W) (t i : Nat) (f : Inst → Inst × Nat) : W × Nat :=
  let (w', o) := step region w t (.localOp i f)
  (w', o.getD 0)

/-- one harness op of thread `t` on its local instance `li`; returns the new world and the log entry -/
def doOp (vsbx : Bool) (w : W) (t : Nat) (op : Char) (li : Nat) : W × String :=
  let i := t * 2 + li
  let s := w.inst i
  match op with
  | 'c' =>
      if s.created then (w, "-") else
      let (w1, _) := doLocal w t i fun s => ({ s with created := true, registered := false, hasPtr := false, hasCell := false, brk := 16 }, 0)
      ((step region w1 t (.regAdd i)).1, "c")
  | 'd' =>
      if !s.created then (w, "-") else
      let (w1, _) := doLocal w t i fun s => ({ s with created := false, registered := false, hasPtr := false, hasCell := false }, 0)
      ((step region w1 t (.regDel i)).1, "d")
  | 'm' =>
      if !s.created then (w, "-") else
      let (w1, off) := doLocal w t i fun s => ({ s with brk := s.brk + 8, counter := s.counter + 1, stored := (li + 1) * 1000 + s.counter + 1, hasPtr := true }, s.brk)
      (w1, if vsbx then s!"m{off}" else "m")
  | 'r' =>
      if !s.created || !s.hasPtr then (w, "-") else
      let (w1, v) := doLocal w t i fun s => (s, s.stored)
      (w1, s!"r{v}")
  | 'p' =>
      if !s.created || !s.hasPtr then (w, "-") else
      let (w1, _) := doLocal w t i fun s => (if s.hasCell then s else { s with hasCell := true, brk := s.brk + 8 }, 0)
      (w1, "p1")
  | 'g' =>
      if !s.created || s.registered then (w, "-") else
      ((doLocal w t i fun s => ({ s with registered := true }, 0)).1, "g")
  | 'u' =>
      if !s.registered then (w, "-") else
      ((doLocal w t i fun s => ({ s with registered := false }, 0)).1, "u")
  | 'f' =>
      if !s.created || !s.registered then (w, "-") else
      let (w1, off) := doLocal w t i fun s => ({ s with brk := s.brk + 8 }, s.brk)
      -- the function-pointer load finds the owning sandbox from the cell's own address
      let (w2, o) := step region w1 t (.find i off)
      (w2, if o == some (i + 1) then "f1" else "f0")
  | 'l' =>
      -- by-name symbol lookups touch only this instance's cache (C11_cache_isolated): the answer is this library's function
      if !s.created then (w, "-") else (w, "l1")
  | 'a' =>
      if !s.created then (w, "-") else
      -- register, look up, release: the table is empty again, the per-object counter has advanced
      let (w1, k) := doLocal w t i fun s => ({ s with tok := s.tok + 1 }, s.tok)
      (w1, s!"a{k}")
  | 'i' =>
      if !s.created then (w, "-") else
      let (w1, c) := doLocal w t i fun s => ({ s with counter := s.counter + 1 }, s.counter + 1)
      if s.registered then
        let (w2, _) := step region w1 t (.setCur (some i))
        let (w3, o) := step region w2 t .callback
        let (w4, _) := step region w3 t (.setCur none)
        let saw := match o with
          | some k => if k = i + 1 then toString li else if k ≥ 1 ∧ (k - 1) / 2 = t then toString ((k - 1) % 2) else "X"
          | none => "X"
        (w4, s!"i{(c + 1) * 2}:{saw}")
      else (w1, s!"i{c + 1}")
  | _ => (w, "?")

def runProg (vsbx : Bool) (t : Nat) (ops : List String) : String :=
  let w0 : W := ⟨[], fun _ => {}, fun _ => none⟩
  let (_, logs) := ops.foldl (fun (acc : W × List String) op =>
    match op.toList with
    | [c, d] =>
        let li := d.toNat - '0'.toNat
        if li > 1 then (acc.1, acc.2 ++ ["?"]) else
        let (w', l) := doOp vsbx acc.1 t c li
        (w', acc.2 ++ [l])
    | _ => (acc.1, acc.2 ++ ["?"])) (w0, [])
  ",".intercalate logs

def step' (t : List String) : Option String :=
  match t with
  | "thrseq" :: backend :: tid :: ops => do
      let tid ← tid.toNat?
      pure (runProg (backend == "vsbx") tid ops)
  | _ => none

end Driver.ThrEng
