import RlboxModel.Casts
import Driver.Util
import Driver.Conv
import Driver.PtrEng
/-! Engine `casts` (C20): mirrors `harness/h_casts.cpp`. -/
namespace Driver.CastsEng
open Rlbox Driver Driver.PtrEng

def addrOf (s : String) : Option Nat := if s == "null" then some 0 else s.toNat?.map fun o => (regionOf 0).base + o

/-- odd part and number of factors 2 -/
def stripTwos : Nat → Nat → Nat × Nat
  | n, 0 => (n, 0)
  | n, fuel + 1 => if n ≠ 0 ∧ n % 2 = 0 then let r := stripTwos (n / 2) fuel; (r.1, r.2 + 1) else (n, 0)

/-- `num / 2^k` printed as `m e` with `m` odd (value `m * 2^e`), `0 0` for zero -/
def showDy (num : Int) (k : Nat) : String :=
  if num = 0 then "0 0" else
  let r := stripTwos num.natAbs (bitLen num.natAbs)
  s!"{if num < 0 then "-" else ""}{r.1} {(r.2 : Int) - (k : Int)}"

def floatTyOfName : String → Option FloatTy
  | "float" => some .float | "double" => some .double | "ldouble" => some .ldouble | _ => none

def step (t : List String) : Option String :=
  match t with
  | ["opq", ty, v] =>
      if ty == "ptr" then (addrOf v).map fun a => s!"ok same=1 val={showAddr 2 a}"
      else if ty == "arr" then (parseInt? v).map fun x => s!"ok same=1 val={x + 3}"
      else if ty == "st" then (parseInt? v).map fun x => s!"ok same=1 val={x / 256}"
      else do
        let b ← Conv.baseTyOfName ty; let x ← parseInt? v
        if ¬ b.app.inRange x then pure "badinput" else pure s!"ok same=1 val={x}"
  | ["scast", to, src, v] => do
      let to ← Conv.baseTyOfName to
      match src.splitOn ":" with
      | [w, fr] =>
          let fr ← Conv.baseTyOfName fr; let x ← parseInt? v
          if ¬ fr.app.inRange x then pure "badinput" else
          if w == "tvol" then
            match toSandbox abiA fr x with
            | none => pure "abort"
            | some g => pure (showOpt (sandboxStaticCast abiA to fr (.tvol g)))
          else pure (showOpt (sandboxStaticCast abiA to fr (.tainted x)))
      | _ => none
  | ["scaste", to, src, v] => do
      -- an enum source converts as its underlying type (C20: the plain static_cast on the underlying value)
      let to ← Conv.baseTyOfName to
      match src.splitOn ":" with
      | [w, en] =>
          let un ← (if en == "e64" then some "ullong" else if en == "eu32" then some "uint" else if en == "es8" then some "schar" else none)
          let fr ← Conv.baseTyOfName un; let x ← parseInt? v
          if ¬ fr.app.inRange x then pure "badinput" else
          if w == "tvol" then
            match toSandbox abiA fr x with
            | none => pure "abort"
            | some g => pure (showOpt (sandboxStaticCast abiA to fr (.tvol g)))
          else pure (showOpt (sandboxStaticCast abiA to fr (.tainted x)))
      | _ => none
  | ["scastf", to, src, v] => do
      let to ← floatTyOfName to
      match src.splitOn ":" with
      | [w, fr] =>
          let fr ← Conv.baseTyOfName fr; let x ← parseInt? v
          if ¬ fr.app.inRange x then pure "badinput" else
          let src : Option CastSrc := if w == "tvol" then (toSandbox abiA fr x).map .tvol else some (.tainted x)
          match src with
          | none => pure "abort"
          | some s => match sandboxStaticCastIF abiA to fr s with
            | some r => pure s!"ok {showDy r 0}"
            | none => pure "abort"
      | _ => none
  | ["scastfi", to, _src, num, k] => do
      let to ← Conv.baseTyOfName to; let num ← parseInt? num; let k ← k.toNat?
      match floatToInt to ⟨num, k⟩ with
      | some r => pure s!"ok {r}"
      | none => pure "ub"
  | ["scastff", to, _src, num, k] => do
      let to ← floatTyOfName to; let num ← parseInt? num; let k ← k.toNat?
      let r := floatToFloat to ⟨num, k⟩
      pure s!"ok {showDy r.num r.k}"
  | ["rcast", w, _src, _dst, off] | ["ccast", w, off] => do
      let a ← addrOf off
      if w == "tvol" then
        -- the pointer is first stored into a freshly allocated cell of sandbox 0, then cast from there
        let cell := (regionOf 0).base + 16
        pure s!"ok {showAddr 2 (sandboxPtrCast 16 (.tvol cell (ptrStore 16 4 cell a)))}"
      else pure s!"ok {showAddr 2 (sandboxPtrCast 16 (.tainted a))}"
  | ["ccastn", off] | ["rcastn", off] => do
      -- pointer representation as wide as a host pointer (ABI N), still an offset: the stored bits are translated relative to the cell
      let a ← addrOf off
      let cell := (regionOf 0).base + 16
      let r := sandboxPtrCast 16 (.tvol cell (if a = 0 then 0 else a - (regionOf 0).base))
      pure (if r = 0 then "ok null" else s!"ok in0:{r - (regionOf 0).base}")
  | ["scastp", _w, dir, off] => do
      -- CDerived : CBaseA, CBaseB with one `long` each: the CBaseB subobject sits 8 bytes into a CDerived (application layout)
      let a ← addrOf off
      let delta : Int := if dir == "derived>baseb" then 8 else if dir == "baseb>derived" then -8 else 0
      pure s!"ok {showAddr 2 (staticCastClassPtr delta a)}"
  | ["opqalias", v1, v2] => do
      let v1 ← parseInt? v1; let v2 ← parseInt? v2
      if ¬ (BaseTy.long.app).inRange v1 ∨ ¬ (BaseTy.long.app).inRange v2 then pure "badinput" else
      -- the opaque value is a copy taken at the call: later writes to the tainted variable do not show through it
      pure s!"ok {v1} {Int.tmod v1 1000 + 2}"
  | ["opqarg", v] => do
      let x ← parseInt? v
      if ¬ (BaseTy.long.app).inRange x then pure "badinput" else
      let r := match toSandbox abiA .long x with | some g => toString g | none => "abort"
      pure s!"ok tainted={r} opaque={r}"
  | ["cbopqd", a, r] => do
      -- opaque floating-point values through a callback are the same values (no conversion, no register mix-up)
      let a ← parseInt? a; let r ← parseInt? r
      pure s!"ok seen={a} ret={r} seenf={a} retf={r}"
  | ["rcastfn", _w, _name] => pure "ok same=1"      -- a reinterpret cast never changes the designated address
  | ["cbopq", v] => do
      let x ← parseInt? v
      if ¬ (BaseTy.long.app).inRange x then pure "badinput" else
      match toSandbox abiA .long x with
      | none => pure "abort"
      | some g => pure s!"ok guest={g} ret={g}"
  | _ => none

end Driver.CastsEng
