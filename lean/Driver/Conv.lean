import RlboxModel.Mem
import RlboxModel.IntConv
import Driver.Util
/-! Engine `conv` (C06): the model's answers to the lines of `harness/h_conv.cpp`. -/
namespace Driver.Conv
open Rlbox Driver

def convOne (to fr : IntTy) (v : Int) : String :=
  if ¬ fr.inRange v then "badinput" else showOpt (convertFund to fr v)

/-- enumerate `[lo, hi] ∩ range(fr)` and hash the per-item result lines exactly as the harness does -/
def convBlk (to fr : IntTy) (lo hi : Int) : String := Id.run do
  let lo := if lo < fr.min then fr.min else lo
  let hi := if hi > fr.max then fr.max else hi
  let mut h := fnvInit
  let mut n : Nat := 0
  let mut aborts : Nat := 0
  let mut bad : Nat := 0
  let mut first : String := "-"
  let cnt := (hi - lo + 1).toNat
  for i in [0:cnt] do
    let v := lo + i
    let r := convertFund to fr v
    let s := showOpt r
    h := fnvAdd (fnvAdd h s) "\n"
    n := n + 1
    if r.isNone then aborts := aborts + 1
    let good := if to.inRange v then r == some v else r.isNone
    if ¬ good then
      if bad == 0 then first := toString v
      bad := bad + 1
  return s!"hash {h.toNat} n={n} aborts={aborts} oracle_bad={bad} first_bad={first}"

def baseTyOfName : String → Option BaseTy
  | "bool" => some .bool | "char" => some .char | "schar" => some .schar | "uchar" => some .uchar
  | "short" => some .short | "ushort" => some .ushort | "int" => some .int | "uint" => some .uint
  | "long" => some .long | "ulong" => some .ulong | "llong" => some .llong | "ullong" => some .ullong
  | "char16" => some .char16 | "char32" => some .char32 | _ => none

def abiOfName : String → Option Abi
  | "A" => some abiA | "B" => some abiB | "C" => some abiC | _ => none

def typesLine : String :=
  intTys.foldl (fun acc (n, t) =>
    acc ++ s!"type {n} {if t.signed then 1 else 0} {t.bytes} {if t.isBool then 1 else 0};") ""

def step (t : List String) : Option String :=
  match t with
  | ["types"] => some typesLine
  | ["conv", to, fr, v] => do
      let to ← intTyOfName to; let fr ← intTyOfName fr; let v ← parseInt? v
      pure (convOne to fr v)
  | ["convblk", to, fr, lo, hi] => do
      let to ← intTyOfName to; let fr ← intTyOfName fr; let lo ← parseInt? lo; let hi ← parseInt? hi
      pure (convBlk to fr lo hi)
  | ["arr", to, fr, a, b, c] => do
      let to ← intTyOfName to; let fr ← intTyOfName fr
      let a ← parseInt? a; let b ← parseInt? b; let c ← parseInt? c
      if ¬ (fr.inRange a ∧ fr.inRange b ∧ fr.inRange c) then pure "badinput" else
      match convertArr to fr [a, b, c] with
      | some [x, y, z] => pure s!"ok {x} {y} {z}"
      | _ => pure "abort"
  | ["tvstore_x", abi, ty, uty, v] => do
      -- `tainted_volatile<T> = (U)v`: converted straight from the value's type U to the guest type of T
      let abi ← abiOfName abi; let ty ← baseTyOfName ty; let u ← baseTyOfName uty; let v ← parseInt? v
      if ¬ u.app.inRange v then pure "badinput" else
      pure (match convertFund (ty.guest abi) u.app v with | some r => s!"ok guest={r}" | none => "abort")
  | ["tvtv", abi, ty, uty, v] => do
      -- `*p_T = *p_U`: both sides are sandbox references (model: `tvCopy` on a 64-byte image filled with 0xAB,
      -- source cell at +8, destination cell at +32, as in the harness)
      let abi ← abiOfName abi; let ty ← baseTyOfName ty; let u ← baseTyOfName uty; let v ← parseInt? v
      let gu := u.guest abi; let gt := ty.guest abi
      if ¬ gu.inRange v then pure "badinput" else
      let m0 : Mem := fun _ => 0xAB
      let m1 := m0.write 8 (encodeLE gu.bytes (gu.toBits v))
      match tvCopy abi ty u 32 8 m1 with
      | none => pure "abort"
      | some m2 =>
        let frame := (List.range 64).all fun i => (32 ≤ i ∧ i < 32 + gt.bytes) || m2 i == m1 i
        pure (s!"ok guest={guestValueAt abi ty 32 m2}" ++ (if frame then "" else " FRAME-BROKEN"))
  | [op, abi, ty, v] => do
      let abi ← abiOfName abi; let ty ← baseTyOfName ty; let v ← parseInt? v
      let app := ty.app; let g := ty.guest abi
      match op with
      | "tvstore" | "tvstore_t" =>
          if ¬ app.inRange v then pure "badinput" else
          pure (match toSandbox abi ty v with | some r => s!"ok guest={r}" | none => "abort")
      | "tvload" | "tvload_u" | "invret" | "cbarg" =>
          if ¬ g.inRange v then pure "badinput" else pure (showOpt (toApplication abi ty v))
      | "invarg" | "invarg_t" =>
          if ¬ app.inRange v then pure "badinput" else
          pure (match toSandbox abi ty v with
            | none => "abort"
            | some gv => match toApplication abi ty gv with
              | none => "abort"
              | some r => s!"ok guest={gv} ret={r}")
      | "cbret" =>
          if ¬ app.inRange v then pure "badinput" else
          pure (match toSandbox abi ty v with | some r => s!"ok guest={r}" | none => "abort")
      | _ => none
  | _ => none

end Driver.Conv
