import RlboxModel.FloatOps
import Driver.Util
import Driver.CastsEng
/-! Engine `fops` (C16, floating-point operands): mirrors `harness/h_fops.cpp`.
    Values travel as exact dyadic rationals `num k` (= num / 2^k); results are printed `f4|f8 m e` (= m * 2^e, m odd). -/
namespace Driver.FOpsEng
open Rlbox Driver Driver.CastsEng

def numTy : String → Option NumTy
  | "float" => some (.flt .float) | "double" => some (.flt .double) | "int" => some .int | "llong" => some .int | _ => none

def tyTag : FloatTy → String | .float => "f4" | .double => "f8" | .ldouble => "f10"

def opOf : String → Option FOp | "+" => some .add | "-" => some .sub | "*" => some .mul | _ => none

def tyOfSpec (s : String) : Option NumTy := match s.splitOn ":" with | [_, t] => numTy t | _ => none
def wrapOfSpec (s : String) : String := match s.splitOn ":" with | [w, _] => w | _ => ""

def showF (f : FloatTy) (x : Dy) : String := s!"{tyTag f} {showDy x.num x.k}"

/-- special-value tokens: nan inf -inf 0 -0, or an integer literal -/
def fvOf (s : String) : Option FV :=
  match s with
  | "nan" => some .nan | "inf" => some (.inf false) | "-inf" => some (.inf true) | "0" => some (.zero false) | "-0" => some (.zero true)
  | _ => (parseInt? s).map fun v => if v = 0 then .zero false else .fin ⟨v, 0⟩

def showFV (f : FloatTy) : FV → String
  | .nan => s!"{tyTag f} nan" | .inf n => s!"{tyTag f} {if n then "-inf" else "inf"}" | .zero n => s!"{tyTag f} {if n then "-0" else "0"}"
  | .fin d => showF f d

def cmpOf : String → Option FCmp
  | "==" => some .eq | "!=" => some .ne | "<" => some .lt | "<=" => some .le | ">" => some .gt | ">=" => some .ge | _ => none

def step (t : List String) : Option String :=
  match t with
  | ["fbin", op, l, r, an, ak, bn, bk] => do
      let op ← opOf op; let lt ← tyOfSpec l; let rt ← tyOfSpec r
      let an ← parseInt? an; let ak ← ak.toNat?; let bn ← parseInt? bn; let bk ← bk.toNat?
      match fResTy lt rt with
      | none => pure "badop"
      | some f => pure s!"ok {showF f (fbin f op ⟨an, ak⟩ ⟨bn, bk⟩)}"
  | ["fincdec", form, l, an, ak] => do
      let lt ← tyOfSpec l; let an ← parseInt? an; let ak ← ak.toNat?
      match lt with
      | .int => pure "badop"
      | .flt f =>
        let post := form == "postinc" ∨ form == "postdec"
        let dec := form == "predec" ∨ form == "postdec"
        if post ∧ wrapOfSpec l == "tvol" then pure "nc" else      -- post forms on tainted_volatile do not compile
        let r := fIncDec f post dec ⟨an, ak⟩
        pure s!"ok {showF f r.1} {showF f r.2}"
  | ["fneg", l, an, ak] => do
      let lt ← tyOfSpec l; let an ← parseInt? an; let ak ← ak.toNat?
      match lt with
      | .int => pure "badop"
      | .flt f => pure s!"ok {showF f (Dy.neg ⟨an, ak⟩)}"
  | ["fcmp", op, _l, _r, a, b] => do
      let op ← cmpOf op; let a ← fvOf a; let b ← fvOf b
      pure s!"ok {if fcmp op a b then 1 else 0}"
  | ["fnegs", l, a] => do
      let lt ← tyOfSpec l; let a ← fvOf a
      match lt with
      | .int => pure "badop"
      | .flt f => pure s!"ok {showFV f a.neg}"
  | _ => none

end Driver.FOpsEng
