import RlboxModel.TypingSpec
import Driver.Util
/-! Engine `typing` (C01): the model's verdict on an expression tree over the regenerated table.
   ty {L <w> <k> | A <rule-name> <n> <subtree>*n}   -> some <w> <k> taint=<0|1> | none -/
namespace Driver.TypingEng
open Rlbox Rlbox.Typing Driver

partial def parse (t : List String) : Option (Expr × List String) :=
  match t with
  | "L" :: w :: k :: rest => do
      let w ← w.toNat?; let k ← k.toNat?
      pure (.leaf (w, k), rest)
  | "A" :: rule :: n :: rest => do
      let n ← n.toNat?
      let idx := GeneratedTyping.ruleNames.idxOf rule
      if idx ≥ GeneratedTyping.ruleNames.length then none else
      let rec go (i : Nat) (rest : List String) (acc : List Expr) : Option (List Expr × List String) :=
        if i = 0 then some (acc.reverse, rest) else
        match parse rest with
        | none => none
        | some (e, rest') => go (i - 1) rest' (e :: acc)
      let (args, rest') ← go n rest []
      pure (.app idx args, rest')
  | _ => none

def step (t : List String) : Option String :=
  match t with
  | "ty" :: rest =>
      match parse rest with
      | some (e, []) =>
          match typeOf C01.tab e with
          | none => some "none"
          | some (w, k) => some s!"some {w} {k} taint={if semTaint C01.declass C01.tab e then 1 else 0}"
      | _ => some "badinput"
  | _ => none

end Driver.TypingEng
