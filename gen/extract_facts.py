"""Facts extractor (DESIGN.md §3.2): reads /repo/code/include/*.hpp and regenerates
lean/RlboxModel/Generated.lean.  A pattern that cannot be found yields a sentinel value, which makes
the consistency theorems in the Props files fail (a failed obligation, handled like any other)."""
import os, re


def _read(repo, name):
    with open(os.path.join(repo, "code", "include", name)) as f:
        return f.read()


def _strip_comments(s):
    s = re.sub(r"/\*.*?\*/", " ", s, flags=re.S)
    s = re.sub(r"//[^\n]*", " ", s)
    return s


def _lean_str_list(xs):
    return "[" + ", ".join('"%s"' % x for x in xs) + "]"


def _list_macros(src):
    """'X-macro' lists: `#define Name(X) X(a); X(b); Other(X)` -- macros whose body only applies their parameter (directly or
    through another list macro).  Returns {name: [argument lists]} with nested lists expanded."""
    defs = {}
    for m in re.finditer(r"^[ \t]*#[ \t]*define[ \t]+(\w+)\((\w+)\)((?:.*\\\n)*.*)$", src, flags=re.M):
        name, param, body = m.group(1), m.group(2), m.group(3).replace("\\\n", " ")
        items = [x.strip() for x in body.split(";") if x.strip()]
        parsed = []
        ok = bool(items)
        for it in items:
            mm = re.fullmatch(r"(\w+)\s*\((.*)\)", it, flags=re.S)
            if not mm:
                ok = False; break
            if mm.group(1) == param:
                parsed.append(("arg", [a.strip() for a in mm.group(2).split(",")]))
            elif mm.group(2).strip() == param:
                parsed.append(("list", mm.group(1)))
            else:
                ok = False; break
        if ok:
            defs[name] = parsed
    out = {}

    def expand(name, seen=()):
        if name in seen or name not in defs:
            return None
        res = []
        for kind, v in defs[name]:
            if kind == "arg":
                res.append(v)
            else:
                sub = expand(v, seen + (name,))
                if sub is None:
                    return None
                res += sub
        return res
    for n in defs:
        e = expand(n)
        if e is not None:
            out[n] = e
    return out


def macro_instances(src, macro):
    """Instantiation list `Macro(sym)` / `Macro(sym, flag)` outside the #define itself, in source order; an instantiation
    through an X-macro list (`ForEachOp(Macro);`) counts as the instantiations the list expands to."""
    lists = _list_macros(src)
    found = []
    for m in re.finditer(r"^\s*" + re.escape(macro) + r"\(([^)]*)\);", src, flags=re.M):
        found.append((m.start(), [[a.strip() for a in m.group(1).split(",")]]))
    for ln, args in lists.items():
        for m in re.finditer(r"^\s*" + re.escape(ln) + r"\(\s*" + re.escape(macro) + r"\s*\);", src, flags=re.M):
            found.append((m.start(), args))
    out = []
    for _, a in sorted(found, key=lambda x: x[0]):
        out += a
    return out


# ---- translator for the integer branch of convert_type_fundamental (C06) -------------------------------
S_ = r"(?:std::)?"
ATOMS = [(S_ + r"is_signed_v<T_To>\s*==\s*" + S_ + r"is_signed_v<T_From>", "signEq"), (S_ + r"is_signed_v<T_From>\s*==\s*" + S_ + r"is_signed_v<T_To>", "signEq"),
         (S_ + r"is_signed_v<T_To>\s*!=\s*" + S_ + r"is_signed_v<T_From>", "not signEq"), (S_ + r"is_signed_v<T_From>\s*!=\s*" + S_ + r"is_signed_v<T_To>", "not signEq"),
         (S_ + r"is_unsigned_v<T_To>\s*==\s*" + S_ + r"is_unsigned_v<T_From>", "signEq"),
         (r"sizeof\(T_To\)\s*>=\s*sizeof\(T_From\)", "toGeFrom"), (r"sizeof\(T_From\)\s*<=\s*sizeof\(T_To\)", "toGeFrom"),
         (r"sizeof\(T_To\)\s*<=\s*sizeof\(T_From\)", "toLeFrom"), (r"sizeof\(T_From\)\s*>=\s*sizeof\(T_To\)", "toLeFrom"),
         (r"sizeof\(T_To\)\s*<\s*sizeof\(T_From\)", "toLtFrom"), (r"sizeof\(T_From\)\s*>\s*sizeof\(T_To\)", "toLtFrom"),
         (r"sizeof\(T_To\)\s*>\s*sizeof\(T_From\)", "toGtFrom"), (r"sizeof\(T_From\)\s*<\s*sizeof\(T_To\)", "toGtFrom"),
         (r"sizeof\(T_To\)\s*==\s*sizeof\(T_From\)", "toEqFrom"), (r"sizeof\(T_From\)\s*==\s*sizeof\(T_To\)", "toEqFrom"),
         (S_ + r"is_unsigned_v<T_To>", "toUns"), (S_ + r"is_unsigned_v<T_From>", "frUns"), (S_ + r"is_signed_v<T_To>", "toSig"), (S_ + r"is_signed_v<T_From>", "frSig")]
NL_ = r"(?:std::)?numeric_limits<T_To>::"
CHECKS = [(r"from\s*<=\s*" + NL_ + r"max\(\)", "leToMax"), (NL_ + r"max\(\)\s*>=\s*from", "leToMax"), (r"!\(\s*from\s*>\s*" + NL_ + r"max\(\)\s*\)", "leToMax"),
          (r"from\s*>=\s*" + NL_ + r"min\(\)", "geToMin"), (NL_ + r"min\(\)\s*<=\s*from", "geToMin"), (r"!\(\s*from\s*<\s*" + NL_ + r"min\(\)\s*\)", "geToMin"),
          (r"from\s*>=\s*0", "geZero"), (r"0\s*<=\s*from", "geZero"), (r"!\(\s*from\s*<\s*0\s*\)", "geZero"),
          (r"from\s*<=\s*static_cast<T_From>\(to_max\)", "leToMaxAsFrom"), (r"static_cast<T_From>\(to_max\)\s*>=\s*from", "leToMaxAsFrom"),
          (r"!\(\s*from\s*>\s*static_cast<T_From>\(to_max\)\s*\)", "leToMaxAsFrom")]


def _strip_line_comments(t):
    return re.sub(r"//[^\n]*", "", t)


def _match_brace(t, i):
    depth = 0
    for j in range(i, len(t)):
        if t[j] == "{":
            depth += 1
        elif t[j] == "}":
            depth -= 1
            if depth == 0:
                return j
    raise ValueError("unbalanced")


def _parse_atom(part):
    part = part.strip()
    # a named compile-time boolean substituted into a comparison arrives in parentheses: (is_signed_v<T_To>) == (is_signed_v<T_From>)
    part = re.sub(r"\(\s*(" + S_ + r"is_(?:un)?signed_v<T_(?:To|From)>)\s*\)", r"\1", part)
    m = re.fullmatch(r"!\s*\((.*)\)", part, flags=re.S)
    if m and "&&" not in m.group(1) and "||" not in m.group(1):
        return "(.not " + _paren(_parse_atom(m.group(1))) + ")"
    m = re.fullmatch(r"!\s*(" + S_ + r"is_(?:un)?signed_v<T_(?:To|From)>)", part)
    if m:
        return "(.not " + _paren(_parse_atom(m.group(1))) + ")"
    m = re.fullmatch(r"\((.*)\)", part, flags=re.S)
    if m and m.group(1).count("(") == m.group(1).count(")") and "&&" not in m.group(1):
        try:
            return _parse_atom(m.group(1))
        except ValueError:
            pass
    for pat, name in ATOMS:
        if re.fullmatch(pat, part):
            return "(.not .signEq)" if name == "not signEq" else "." + name
    raise ValueError("unknown condition: " + part)


def _paren(a):
    return a


def _parse_cond(c):
    if "||" in c:
        raise ValueError("disjunction in a condition: " + c)
    return [_parse_atom(x) for x in c.split("&&")]


def _parse_check_stmt(st):
    """one statement of a body: None for the `to_max` declaration, the check name for a dynamic_check"""
    st = st.strip()
    if re.fullmatch(r"(?:(?:constexpr|const|static)\s+)*(?:auto|T_To)(?:\s+const)?\s+to_max\s*=\s*" + NL_ + r"max\(\)", st):
        return None
    m = re.fullmatch(r"(?:detail::)?dynamic_check\((.*),\s*err_msg\)", st, flags=re.S)
    if not m:
        raise ValueError("unknown statement: " + st)
    for pat, name in CHECKS:
        if re.fullmatch(pat, " ".join(m.group(1).split())):
            return name
    raise ValueError("unknown check: " + m.group(1))


def _split_body(t):
    """statements and nested if-constexpr chains of a body, in order: [('stmt', text) | ('chain', text)]"""
    out, t = [], t.strip()
    while t:
        if re.match(r"if\s+constexpr\s*\(", t):
            # consume the whole chain: if (...) {...} [else if (...) {...}]* [else {...}]
            k = 0
            while True:
                m = re.match(r"(?:else\s+)?if\s+constexpr\s*\(", t[k:]) or re.match(r"else\s*\{", t[k:])
                if not m:
                    break
                b0 = t.index("{", k + (m.end() - 1 if t[k + m.end() - 1] == "{" else 0)) if m.group(0).rstrip().endswith("{") else None
                if b0 is None:
                    depth, q = 1, k + m.end()
                    while depth:
                        depth += {"(": 1, ")": -1}.get(t[q], 0)
                        q += 1
                    b0 = t.index("{", q)
                b1 = _match_brace(t, b0)
                k = b1 + 1
                while k < len(t) and t[k].isspace():
                    k += 1
                if not t[k:].startswith("else"):
                    break
            out.append(("chain", t[:k]))
            t = t[k:].strip()
        else:
            q = t.index(";")
            out.append(("stmt", t[:q]))
            t = t[q + 1:].strip()
    return out


def _parse_chain(t, names):
    """`if constexpr (C) {B} else if constexpr (C) {B} ... [else {B}]` -> [(atoms, body_text)]; else has atoms []"""
    t = t.strip()
    out = []
    while t:
        m = re.match(r"(?:else\s+)?if\s+constexpr\s*\(", t)
        if m:
            depth, j = 1, m.end()
            while depth:
                depth += {"(": 1, ")": -1}.get(t[j], 0)
                j += 1
            cond = " ".join(t[m.end():j - 1].split())
            for nm, ex in names.items():
                cond = re.sub(r"\b" + nm + r"\b", "(" + ex + ")", cond)
            b0 = t.index("{", j)
            b1 = _match_brace(t, b0)
            out.append((_parse_cond(cond), t[b0 + 1:b1]))
            t = t[b1 + 1:].strip()
            continue
        m = re.match(r"else\s*\{", t)
        if m:
            b0 = t.index("{")
            b1 = _match_brace(t, b0)
            out.append(([], t[b0 + 1:b1]))
            t = t[b1 + 1:].strip()
            continue
        raise ValueError("unexpected text in chain: " + t[:60])
    return out


def _body_items(body, names, depth):
    items = []
    for kind, text in _split_body(body):
        if kind == "stmt":
            c = _parse_check_stmt(text)
            if c is not None:
                items.append(".chk ." + c if depth == 0 else "." + c)
        else:
            if depth > 0:
                raise ValueError("more than two nesting levels")
            sub = _parse_chain(text, names)
            subs = ", ".join("([" + ", ".join(sa) + "], [" + ", ".join(_body_items(sb, names, 1)) + "])" for sa, sb in sub)
            items.append(".ifs [" + subs + "]")
    return items


def _inline_range_helper(blk, sources):
    """the integer block may delegate its checks to a helper called with `from` (e.g. detail::check_xyz<T_To>(from);):
    return the helper's body with its parameter renamed to `from`, or None"""
    for m in re.finditer(r"\b((?:\w+::)*)(\w+)\s*(?:<[^;(){}]*>)?\s*\(\s*from\s*\)\s*;", blk):
        name = m.group(2)
        if name in ("static_cast", "RLBOX_UNUSED", "sizeof"):
            continue
        for src in sources:
            src = _strip_line_comments(re.sub(r"/\*.*?\*/", "", src, flags=re.S))
            for d in re.finditer(r"\b" + re.escape(name) + r"\s*\(([^()]*)\)\s*(?:noexcept\s*)?\{", src):
                params = d.group(1)
                pm = re.search(r"(\w+)\s*$", params.strip())
                if not pm or "," in params:
                    continue
                b0 = d.end() - 1
                b1 = _match_brace(src, b0)
                body = src[b0 + 1:b1]
                if "if constexpr" not in body and "if_constexpr_named" not in body:
                    continue
                if pm.group(1) != "from":
                    body = re.sub(r"\b" + re.escape(pm.group(1)) + r"\b", "from", body)
                return body
    return None


def conv_chain_lean(conv_src, other_sources=()):
    """Lean term of type `Rlbox.ConvChain.Chain` for the integer branch, or an error marker"""
    try:
        i = conv_src.index("else if_constexpr_named(cond5")
        j = conv_src.index("to = static_cast<T_To>(from);", i)
        blk = _strip_line_comments(conv_src[i:j])
        if not re.search(r"\bif\s+constexpr\s*\(", blk):
            # the chain was moved into a helper: translate the helper's body instead
            body = _inline_range_helper(blk, [conv_src] + list(other_sources))
            if body is None:
                raise ValueError("no if-constexpr chain in the integer branch and no helper called with `from` that contains one")
            blk = body
        k = re.search(r"\bif\s+constexpr\s*\(", blk).start()
        # named compile-time conditions declared before the chain
        names = {}
        for m in re.finditer(r"constexpr\s+(?:const\s+)?(?:bool|auto)\s+(\w+)\s*=\s*([^;]+);", blk[:k]):
            names[m.group(1)] = " ".join(m.group(2).split())
        top = _parse_chain(blk[k:], names)
        items = ["([" + ", ".join(atoms) + "], [" + ", ".join(_body_items(body, names, 0)) + "])" for atoms, body in top]
        return "[" + ",\n   ".join(items) + "]", None
    except (ValueError, IndexError, AttributeError) as e:
        return "[]", str(e)


def generate(repo):
    rl = _strip_comments(_read(repo, "rlbox.hpp"))
    sb = _strip_comments(_read(repo, "rlbox_sandbox.hpp"))
    noop = _strip_comments(_read(repo, "rlbox_noop_sandbox.hpp"))
    dyl = _strip_comments(_read(repo, "rlbox_dylib_sandbox.hpp"))
    L = []
    L.append("import RlboxModel.ConvChain")
    L.append("/-! GENERATED by gen/extract_facts.py from /repo/code/include on every run. Do not edit. -/")
    L.append("namespace Rlbox.Generated")
    L.append("open Rlbox.ConvChain")
    chain, err = conv_chain_lean(_read(repo, "rlbox_conversion.hpp"), [_read(repo, "rlbox_helpers.hpp"), _read(repo, "rlbox_type_traits.hpp")])
    L.append("/-- the integer branch of `convert_type_fundamental`, TRANSLATED from rlbox_conversion.hpp: the `if constexpr` chain with")
    L.append("its conditions and the dynamic checks of every branch" + (" (TRANSLATION FAILED: " + err.replace('"', "'")[:120] + ")" if err else "") + " -/")
    L.append("def convChain : Chain :=\n  " + chain)

    def maxcb(src):
        m = re.search(r"MAX_CALLBACKS\s*=\s*(\d+)", src)
        return int(m.group(1)) if m else 0
    L.append(f"def noopMaxCallbacks : Nat := {maxcb(noop)}")
    L.append(f"def dylibMaxCallbacks : Nat := {maxcb(dyl)}")

    m = re.search(r"enum\s+class\s+Sandbox_Status\s*\{([^}]*)\}", sb)
    enum = [e.strip() for e in m.group(1).split(",") if e.strip()] if m else []
    L.append(f"def statusEnum : List String := {_lean_str_list(enum)}")

    for macro, name in [("BinaryOpValAndPtr", "binaryOpValAndPtr"), ("BinaryOp", "binaryOp"),
                        ("CompoundAssignmentOp", "compoundAssignmentOp"), ("PreIncDecOps", "preIncDecOps"),
                        ("PostIncDecOps", "postIncDecOps"), ("BooleanBinaryOp", "booleanBinaryOp"),
                        ("UnaryOp", "unaryOp"), ("BinaryOpWrappedRhs", "binaryOpWrappedRhs"),
                        ("BooleanBinaryOpWrappedRhs", "booleanBinaryOpWrappedRhs")]:
        inst = [a[0] for a in macro_instances(rl, macro)]
        L.append(f"def {name} : List String := {_lean_str_list(inst)}")
    cmp_ = macro_instances(rl, "CompareOp")
    L.append("def compareOp : List (String × Bool) := [" + ", ".join(
        '("%s", %s)' % (a[0], "true" if len(a) > 1 and a[1].startswith("true") else "false") for a in cmp_) + "]")

    # which primitive operator each macro body applies, and what the post-inc/dec body calls
    def body_of(macro):
        m = re.search(r"#define\s+" + macro + r"\(([^)]*)\)(.*?)RLBOX_REQUIRE_SEMI_COLON", rl, flags=re.S)
        return m.group(2) if m else ""
    post = body_of("PostIncDecOps")
    m = re.search(r"operator\s*(\S+?)\s*\(\s*\)\s*;", post)
    called = m.group(1).replace("\\", "").strip() if m else "?"
    # the post form steps through ITS OWN symbol: either it calls the pre form `operator opSymbol##opSymbol()` (token paste of
    # its own symbol) or it inlines `this_ref = this_ref opSymbol 1`
    m2 = re.search(r"=\s*\(?\s*[\w().*]+\s*(\S+)\s*1\s*\)?\s*;", post.replace("\\", " "))
    own = called == "opSymbol##opSymbol" or (m is None and m2 is not None and m2.group(1) == "opSymbol")
    L.append(f'def postIncDecCalls : String := "{called}"')
    L.append("def postIncDecUsesOwnSymbol : Bool := " + ("true" if own else "false"))
    pre = body_of("PreIncDecOps")
    m = re.search(r"this_ref\s*=\s*this_ref\s*(\S+)\s*(\d+)\s*;", pre)
    L.append(f'def preIncDecStep : String × Nat := ("{m.group(1) if m else "?"}", {m.group(2) if m else 0})')
    comp = body_of("CompoundAssignmentOp")
    m = re.search(r"this_ref\s*=\s*this_ref\s*(\S+)\s*rhs\s*;", comp)
    L.append(f'def compoundBody : String := "{m.group(1) if m else "?"}"')

    # lock discipline of the process-wide registry (C18)
    acc = []
    lines = sb.split("\n")
    guard_stack = []  # (depth, kind)
    depth = 0
    for ln, line in enumerate(lines, 1):
        for ch_i, ch in enumerate(line):
            pass
        g = re.search(r"RLBOX_ACQUIRE_(SHARED|UNIQUE)_GUARD\(\s*\w+\s*,\s*sandbox_list_lock\s*\)", line)
        if g:
            guard_stack.append((depth, g.group(1)))
        if re.search(r"\bsandbox_list\b", line) and not re.search(r"static\s+inline", line):
            kind = guard_stack[-1][1] if guard_stack else "NONE"
            write = bool(re.search(r"sandbox_list\.(push_back|erase|clear|insert|pop_back|emplace_back)", line))
            acc.append((ln, "write" if write else "read", kind))
        depth += line.count("{") - line.count("}")
        while guard_stack and depth < guard_stack[-1][0]:
            guard_stack.pop()
    L.append("def registryAccesses : List (String × String) := [" + ", ".join('("%s", "%s")' % (a[1], a[2]) for a in acc) + "]")
    # structure of create_sandbox / destroy_sandbox (C18: what is one atomic step, and in which order)
    def body_of_fn(src, header_re):
        m = re.search(header_re, src)
        if not m:
            return ""
        i = src.index("{", m.end())
        depth, j = 0, i
        while j < len(src):
            if src[j] == "{":
                depth += 1
            elif src[j] == "}":
                depth -= 1
                if depth == 0:
                    return src[i:j + 1]
            j += 1
        return ""
    def inline_helpers(body, rounds=3):
        """the steps of create/destroy/find may live in private helper functions without parameters: replace a statement
        `name();` / `this->name();` by the helper's body in braces (so that a guard taken inside keeps its own scope)"""
        for _ in range(rounds):
            changed = False
            for m in list(re.finditer(r"(?<![\w.>:])(?:this->)?(\w+)\(\s*\)\s*;", body)):
                name = m.group(1)
                if name in ("destroy_sandbox", "create_sandbox", "find_sandbox_from_example", "impl_destroy_sandbox", "impl_create_sandbox"):
                    continue
                hb = body_of_fn(sb, r"(?:inline\s+)?(?:static\s+)?(?:void|auto|bool)\s+" + re.escape(name) + r"\s*\(\s*\)\s*(?:const\s*)?(?:noexcept\s*)?(?=\{)")
                if hb:
                    body = body[:m.start()] + hb + body[m.end():]
                    changed = True
                    break
            if not changed:
                break
        return body
    dbody = inline_helpers(body_of_fn(sb, r"inline\s+auto\s+destroy_sandbox\s*\(\s*\)"))
    cbody = inline_helpers(body_of_fn(sb, r"inline\s+bool\s+create_sandbox\s*\("))
    def pos(body, pat):
        m = re.search(pat, body)
        return m.start() if m else -1
    p_find, p_erase, p_impl = pos(dbody, r"std::(?:find|find_if|find_if_not)\s*\(\s*sandbox_list"), pos(dbody, r"sandbox_list\.erase"), pos(dbody, r"impl_destroy_sandbox\s*\(")
    # the UNIQUE guard that is in force at the lookup must still be in force at the erase: no scope of the guard's block
    # is closed, and no other guard is taken, between the acquisition and the erase
    guards = [m.start() for m in re.finditer(r"RLBOX_ACQUIRE_UNIQUE_GUARD\(\s*\w+\s*,\s*sandbox_list_lock\s*\)", dbody)]
    p_guard = max([g for g in guards if g < p_find], default=-1) if p_find >= 0 else -1
    one_guard = False
    if 0 <= p_guard < p_find < p_erase:
        seg = dbody[p_guard:p_erase]
        depth, ok = 0, seg.count("RLBOX_ACQUIRE") == 1
        for ch in seg:
            depth += {"{": 1, "}": -1}.get(ch, 0)
            if depth < 0:
                ok = False
        one_guard = ok
    unlink_first = 0 <= p_erase < p_impl and "make_scope_exit" not in dbody[:p_erase]
    p_push, p_cimpl = pos(cbody, r"sandbox_list\.push_back"), pos(cbody, r"impl_create_sandbox\s*\(")
    # find_sandbox_from_example: the membership query of every list entry happens while the guard on the list is held
    fbody = inline_helpers(body_of_fn(sb, r"static\s+T_Sbx\*\s+find_sandbox_from_example\s*\("))
    fg = re.search(r"RLBOX_ACQUIRE_(?:SHARED|UNIQUE)_GUARD\(\s*\w+\s*,\s*sandbox_list_lock\s*\)", fbody)
    fq = re.search(r"is_pointer_in_sandbox_memory", fbody)
    find_in_guard = False
    if fg and fq and fg.start() < fq.start():
        depth, okk = 0, True
        for ch in fbody[fg.start():fq.start()]:
            depth += {"{": 1, "}": -1}.get(ch, 0)
            if depth < 0:
                okk = False
        find_in_guard = okk
    L.append("def findQueriesInsideGuard : Bool := " + ("true" if find_in_guard else "false"))
    L.append("def destroyFindAndEraseInOneGuard : Bool := " + ("true" if one_guard else "false"))
    L.append("def destroyUnlinksBeforeBackendTeardown : Bool := " + ("true" if unlink_first else "false"))
    L.append("def createLinksAfterBackendCreate : Bool := " + ("true" if 0 <= p_cimpl < p_push else "false"))
    L.append("def threadDataThreadLocal : Bool := " + ("true" if re.search(r"thread_local\s+static\s+inline\s+rlbox_noop_sandbox_thread_data\s+thread_data", noop) and re.search(r"thread_local\s+static\s+inline\s+rlbox_dylib_sandbox_thread_data\s+thread_data", dyl) else "false"))
    L.append("def statusAtomic : Bool := " + ("true" if re.search(r"std::atomic<\s*Sandbox_Status\s*>\s+sandbox_created", sb) else "false"))
    L.append("def sandboxListStatic : Bool := " + ("true" if re.search(r"static\s+inline\s+std::vector<void\*>\s+sandbox_list", sb) else "false"))
    # the dylib backend's callback machinery is the same text as the noop backend's (C12: the dylib backend is not executed)
    def cb_code(src, cls):
        out = []
        for pat in (r"template<uint32_t N, typename T_Ret, typename\.\.\. T_Args>\s*static T_Ret callback_trampoline.*?\n  \}",
                    r"auto impl_invoke_with_func_ptr.*?\n  \}", r"inline T_PointerType impl_register_callback.*?\n  \}",
                    r"impl_get_executed_callback_sandbox_and_key\(\).*?\n  \}", r"inline void impl_unregister_callback.*?\n  \}"):
            m = re.search(pat, src, flags=re.S)
            out.append(re.sub(r"\s+", " ", m.group(0)).replace(cls, "X") if m else "<missing>")
        return out
    same = cb_code(noop, "noop") == cb_code(dyl, "dylib") and "<missing>" not in cb_code(noop, "noop")
    L.append("def dylibCallbackCodeSameAsNoop : Bool := " + ("true" if same else "false"))
    L.append("end Rlbox.Generated")
    return "\n".join(L) + "\n"


if __name__ == "__main__":
    import sys
    print(generate(sys.argv[1] if len(sys.argv) > 1 else "/repo"))
